import BfeVerif.Common.Proto
import BfeVerif.C41.Model
import BfeVerif.C41.Select
import BfeVerif.C41.Serve
import BfeVerif.C41.Reload
/-!
  C41 driver.  One op = one (Config, Rule, ClientHello, session lookups) case, 23 space separated fields:

  `rch <min> <max> <cs> <pri> <cfgflags> <np> <clientAuth> <curvePrefs> <cert> <ruleOn> <grade> <ruleflags> <ruleNp>
       <vers> <suites> <compression> <curves> <points> <alpn> <helloflags> <ticket> <sid>`

  hex4 for versions / suite ids, decimal for the rest; lists comma separated, `-` = empty, cs `n` = nil slice;
  cfgflags = preferServer,poodleProofed,ticketsDisabled,cacheDisabled,hasCache; ruleflags = clientAuth,chacha20;
  helloflags = nextProtoNeg,ticketSupported; ticket = `-` | `bad` | `vers:suite:ncerts`;
  sid = `-` | `miss` | `badcache` | `vers:suite:ncerts`.

  result: `alert=<n>` or `ok r= v= s= al= cp= npn= ca= ex= sv=`.
-/
namespace BfeVerif.C41
open BfeVerif.Proto BfeVerif.Generated.C41

def hex4 (n : Nat) : String :=
  String.ofList [hexDigit (n / 4096 % 16), hexDigit (n / 256 % 16), hexDigit (n / 16 % 16), hexDigit (n % 16)]

def parseHex (s : String) : Option Nat :=
  if s.isEmpty then none
  else s.toList.foldl (fun acc c => match acc, hexVal c with
    | some a, some d => some (a * 16 + d)
    | _, _ => none) (some 0)

def parseList (f : String → Option α) (s : String) : Option (List α) :=
  if s == "-" then some [] else (s.splitOn ",").mapM f

def parseFlags (s : String) (n : Nat) : Option (List Bool) :=
  let cs := s.toList
  if cs.length != n then none
  else cs.mapM fun c => if c == '1' then some true else if c == '0' then some false else none

def parseSession (s : String) : Option Session :=
  match s.splitOn ":" with
  | [v, su, n] => do
    let v ← parseHex v
    let su ← parseHex su
    let n ← n.toNat?
    pure { vers := v, suite := su, hasCerts := n != 0 }
  | _ => none

structure Case where
  cfg : Config
  rule : Option Rule
  hello : Hello
  lk : Lookups

def strList (s : String) : Option (List String) := parseList (fun x => some x) s

def parseCase (op : String) : Option Case :=
  match op.splitOn " " with
  | ["rch", mn, mx, cs, pri, cf, np, ca, cv, cert, ruleOn, grade, rf, rnp, hv, hs, hc, hcu, hp, al, hf, tk, sid] => do
    let mn ← parseHex mn
    let mx ← parseHex mx
    let cs ← if cs == "n" then some none else (parseList parseHex cs).map some
    let pri ← parseList String.toNat? pri
    let cf ← parseFlags cf 5
    let np ← strList np
    let ca ← ca.toNat?
    let cv ← parseList String.toNat? cv
    let rf ← parseFlags rf 2
    let rnp ← strList rnp
    let hv ← parseHex hv
    let hs ← parseList parseHex hs
    let hc ← parseList String.toNat? hc
    let hcu ← parseList String.toNat? hcu
    let hp ← parseList String.toNat? hp
    let al ← strList al
    let hf ← parseFlags hf 2
    let ticket ← if tk == "-" || tk == "bad" then some none else (parseSession tk).map some
    let cache ← if sid == "-" || sid == "miss" || sid == "badcache" then some none else (parseSession sid).map some
    let cfg : Config := {
      minVersionRaw := mn, maxVersionRaw := mx, cipherSuitesRaw := cs, priority := pri,
      preferServer := cf.getD 0 false, ssl3PoodleProofed := cf.getD 1 false, ticketsDisabled := cf.getD 2 false,
      cacheEnabled := !cf.getD 3 false && cf.getD 4 false, nextProtos := np, clientAuth := ca,
      curvePrefsRaw := cv, hasCert := cert != "n", certEcdsa := cert == "e" }
    let rule : Option Rule :=
      if ruleOn == "1" then
        some { grade := if grade == "-" then "" else grade, clientAuth := rf.getD 0 false,
               chacha20 := rf.getD 1 false, nextProtos := rnp }
      else none
    let hello : Hello := {
      vers := hv, suites := hs, compression := hc, curves := hcu, points := hp, alpn := al,
      npn := hf.getD 0 false, ticketSupported := hf.getD 1 false,
      -- an empty-bodied ticket extension is sent when ticketSupported is set; otherwise no ticket reaches the server
      ticketPresent := hf.getD 1 false && tk != "-", sessionIdPresent := sid != "-" }
    pure { cfg, rule, hello, lk := { ticket, cache } }
  | _ => none

def alertCode : Alert → Nat
  | .protocolVersion => 70
  | .handshakeFailure => 40
  | .internalError => 80
  | .inappropriateFallback => 86

def dash (s : String) : String := if s.isEmpty then "-" else s

def render : Except Alert Params → String
  | .error a => "alert=" ++ toString (alertCode a)
  | .ok p =>
    "ok r=" ++ (if p.resume then "1" else "0") ++ " v=" ++ hex4 p.vers ++ " s=" ++ hex4 p.suite.id ++
    " al=" ++ dash p.alpn ++ " cp=" ++ dash p.clientProto ++
    " npn=" ++ (match p.npn with | none => "off" | some l => dash (",".intercalate l)) ++
    " ca=" ++ toString p.clientAuth ++ " ex=" ++ (if p.ecdheNoExt then "1" else "0") ++
    " sv=" ++ (match p.sess with | none => "-" | some s => hex4 s.vers)

/-- value of `key=` in a space separated result line -/
def field (line key : String) : Option String :=
  (line.splitOn " ").findSome? fun kv =>
    if kv.startsWith (key ++ "=") then some ((kv.drop (key.length + 1)).toString) else none

/-! ### the specification oracle (what C41 demands of an accepted hello), applied to the implementation's answer -/

def grade (c : Case) : String := gradeOf c.rule
def caseProtos (c : Case) : List String := nextProtosOf c.cfg c.rule

/-- the client's ECC extensions, where present, are compatible with the server's curves / point format -/
def eccCompat (c : Case) (v : Nat) : Bool :=
  let sc := c.hello.curves.any fun x => c.cfg.curvePreferences.contains x
  let sp := c.hello.points.contains pointFormatUncompressed
  (sc || c.hello.curves.isEmpty) && (sp || c.hello.points.isEmpty) &&
  (!(c.hello.curves.isEmpty || c.hello.points.isEmpty) || decide (v > versionSSL30))

def scsvDemandsRefusal (c : Case) : Bool :=
  c.hello.suites.contains fallbackSCSV && decide (c.hello.vers < c.cfg.maxVersion)

/-- classes of violations, unexpected ones first -/
def oracleOk (c : Case) (v s : Nat) (al : String) (resumed : Bool) : Option String :=
  let g := grade c
  let np := caseProtos c
  let rc4 := checkCipherGrade c.cfg g v
  if v > c.cfg.maxVersion then some "version-above-max"
  else if v > c.hello.vers then some "version-above-client"
  else if v < c.cfg.minVersion && c.cfg.minVersion ≤ c.cfg.maxVersion then some "version-below-min"
  else if (g == gradeA && v < versionTLS10) || (g == gradeAPlus && v < versionTLS12) then some "version-grade"
  else if !c.hello.suites.contains s then some "suite-not-offered"
  else if !c.cfg.cipherSuites.contains s then some "suite-not-enabled"
  else match lookupSuite s with
  | none => some "suite-unknown"
  | some su =>
  if su.has suiteECDHE && !eccCompat c v then some "suite-ecdhe-no-curve"
  else if su.has suiteECDSA != c.cfg.certEcdsa then some "suite-cert-type"
  else if su.has suiteTLS12 && v < versionTLS12 then some "suite-tls12-only"
  else if su.has suiteChacha20 && !chachaOf c.rule then some "suite-chacha-disabled"
  else if (su.has suiteRC4 && rc4 == .disable) || (!su.has suiteRC4 && rc4 == .only) then some "suite-rc4-policy"
  else if al != "-" && !(c.hello.alpn.contains al && np.contains al) &&
      !(al == "http/1.1" && c.hello.alpn.contains "h2" && np.contains "h2") then some "alpn-not-mutual"
  else if scsvDemandsRefusal c && !resumed && c.cfg.maxVersionRaw != 0 then some "scsv-ignored"
  else if scsvDemandsRefusal c && !resumed then some "scsv-default-max"
  else if scsvDemandsRefusal c then some "scsv-skipped-on-resumption"
  else if al != "-" && !(c.hello.alpn.contains al && np.contains al) then some "alpn-h2-downgrade-unoffered"
  else if v < c.cfg.minVersion then some "version-range-inverted"
  else none

def oracle (c : Case) (impl : String) : String :=
  if impl.startsWith "ok " then
    match (field impl "v").bind parseHex, (field impl "s").bind parseHex, field impl "al", field impl "r" with
    | some v, some s, some al, some r =>
      match oracleOk c v s al (r == "1") with
      | none => "ok"
      | some cls => "FAIL:" ++ cls
    | _, _, _, _ => "FAIL:unparsable-result"
  else if impl == "alert=86" then
    if scsvDemandsRefusal c then "ok" else "FAIL:scsv-spurious"
  else if impl == "alert=70" then
    -- protocol_version only when the version really is unacceptable: below the minimum, or refused by the grade
    let v := if c.hello.vers > c.cfg.maxVersion then c.cfg.maxVersion else c.hello.vers
    let g := grade c
    if c.hello.vers < c.cfg.minVersion || (g == gradeA && v < versionTLS10) || (g == gradeAPlus && v < versionTLS12) then "ok"
    else "FAIL:alert-protocol-version-spurious"
  else if impl == "alert=80" then
    if c.cfg.hasCert then "FAIL:alert-internal-error-spurious" else "ok"
  else if impl == "alert=40" then "ok"
  else if impl.startsWith "alert=" then "FAIL:alert-unexpected"
  else "FAIL:unexpected-result"

def tagsOf (c : Case) (m : Except Alert Params) : List String :=
  let kind := match m with
    | .error a => "alert" ++ toString (alertCode a)
    | .ok p => if p.resume then "resume" else "full"
  let sel :=
    if c.cfg.preferServer && c.cfg.priority.length == c.cfg.cipherSuites.length then "equiv"
    else if c.cfg.preferServer then "srvpref" else "clipref"
  let extra := match m with
    | .ok p =>
      (if p.ecdheNoExt then ["ecdhe-noext"] else []) ++ (if p.alpn != "" then ["alpn"] else []) ++
      (if p.npn.isSome then ["npn"] else []) ++
      (if p.alpn == "http/1.1" && (mutualProtocol c.hello.alpn (caseProtos c)) == some "h2" then ["h2down"] else []) ++
      (if p.suite.has suiteRC4 then ["rc4"] else []) ++ (if p.vers < c.hello.vers then ["vclamp"] else [])
    | .error _ => []
  let nt := match m with
    | .ok _ => true
    | .error .inappropriateFallback => true
    | .error .handshakeFailure => c.hello.compression.contains compressionNone
    | _ => false
  [kind, sel, "g" ++ grade c] ++ extra ++
  (if c.hello.suites.contains fallbackSCSV then ["scsv"] else []) ++
  (if c.rule.isSome then [] else ["norule"]) ++ (if nt then ["nt"] else [])

/-! ### stream `hs`: complete handshakes with Go's crypto/tls client

  op  = `hs <cfg:13> <cmin> <cmax> <csuites> <ccurves> <calpn> <resume> <datalen>`
  impl = `<hello as parsed by the server: 9 fields> | srv=… cli=… echo=…`
  The model is run on the configuration of the op and the hello reported by the implementation. -/

def sideStr (p : Params) (al : String) : String :=
  "ok v=" ++ hex4 p.vers ++ " s=" ++ hex4 p.suite.id ++ " al=" ++ dash al ++ " r=" ++ (if p.resume then "1" else "0")

def runHs (f : List String) (impl : String) : Ans :=
  if f.length != 20 then { model := "bad-op", verdict := "skip" } else
  match impl.splitOn " | " with
  | [helloStr, outcome] =>
    match parseCase (" ".intercalate (["rch"] ++ f.take 13 ++ [helloStr])), parseHex (f.getD 13 "") with
    | some c, some cmin =>
      let m := readClientHello c.cfg c.rule c.hello c.lk
      let expected :=
        match m with
        | .error _ => "srv=err cli=err echo=-"
        | .ok p =>
          -- what a standard client does with the ServerHello: it refuses a version below its minimum and an ALPN
          -- protocol it did not offer
          -- … and the ECDHE key exchange needs a curve the server implements (a raw Config.CurvePreferences may name
          -- one it does not: readClientHello accepts, generateServerKeyExchange fails closed)
          let kxCurves := if p.ecdheNoExt then c.hello.curves ++ [curveP256] else c.hello.curves
          let kxBad := !p.resume && p.suite.has suiteECDHE &&
            !implementedCurves.contains (keyExchangeCurve c.cfg.curvePreferences kxCurves)
          if kxBad then "srv=err cli=err echo=- kx=unimplemented-curve"
          else if p.vers < cmin || (p.alpn != "" && !c.hello.alpn.contains p.alpn) then "srv=err cli=err echo=-"
          else "srv=" ++ sideStr p p.clientProto ++ " cli=" ++ sideStr p p.alpn ++ " echo=ok"
      let srvOk := (outcome.splitOn " cli=").getD 0 ""
      let cliOk := (outcome.splitOn " cli=").getD 1 ""
      let verdict :=
        if srvOk.startsWith "srv=ok" && cliOk.startsWith "ok" then
          let sv := field srvOk "v"; let ss := field srvOk "s"; let sa := field srvOk "al"; let sr := field srvOk "r"
          if sv != field cliOk "v" || ss != field cliOk "s" || sa != field cliOk "al" || sr != field cliOk "r" then
            "FAIL:hs-ends-disagree"
          else if field cliOk "echo" != some "ok" then "FAIL:hs-echo"
          else match sv.bind parseHex, ss.bind parseHex, sa with
            | some v, some su, some al =>
              (match oracleOk c v su al (sr == some "1") with
               | none => "ok"
               | some cls => "FAIL:" ++ cls)
            | _, _, _ => "FAIL:unparsable-result"
        else "ok"
      let kind := match m with
        | .error _ => "hs-refused"
        | .ok p => if expected.startsWith "srv=err" then "hs-client-rejects" else if p.resume then "hs-resumed" else "hs-full"
      let kx := expected.endsWith "kx=unimplemented-curve"
      let expected := if kx then "srv=err cli=err echo=-" else expected
      let kind := if kx then "hs-curve-unimplemented" else kind
      { model := helloStr ++ " | " ++ expected, verdict := verdict,
        tags := ["hs", kind] ++ (if expected.startsWith "srv=ok" then ["nt"] else []) }
    | _, _ => { model := "bad-hello", verdict := "FAIL:hs-hello-not-captured" }
  | _ => { model := "bad-result", verdict := "FAIL:unparsable-result" }

/-! ### streams `rl`, `cl`, `cn`, `ca`: which rule / certificate / client-certificate policy governs a connection -/

def parseKV (s : String) : Option (List (String × String)) :=
  if s == "-" then some []
  else (s.splitOn ",").mapM fun e =>
    match e.splitOn "=" with
    | [k, v] => some (k, v)
    | _ => none

def undash (s : String) : String := if s == "-" then "" else s

structure Prod where
  name : String
  grade : String
  ca : Bool
  ch : Bool

def renderProd (p : Prod) : String :=
  p.name ++ " g=" ++ p.grade ++ " ca=" ++ (if p.ca then "1" else "0") ++ " ch=" ++ (if p.ch then "1" else "0")

def defaultProd : Prod := { name := "default", grade := gradeC, ca := false, ch := false }

def parseProds (s : String) : Option (List Prod) :=
  (s.splitOn ";").mapM fun e =>
    match e.splitOn ":" with
    | [n, g, a, c] => some { name := n, grade := g, ca := a == "1", ch := c == "1" }
    | _ => none

def runRl (f : List String) (impl : String) : Ans :=
  match f with
  | [prods, vm, sm, vip, sni] =>
    match parseProds prods, parseKV vm, parseKV sm with
    | some ps, some vm, some sm =>
      let find (n : String) : Prod := (ps.find? (·.name == n)).getD defaultProd
      let t : RuleTable Prod := { vip := vm.map fun p => (p.1, find p.2), sni := sm.map fun p => (p.1, find p.2), dflt := defaultProd }
      let vipO := if vip == "-" then none else some vip
      let m := getRule t vipO (undash sni)
      -- spec: VIP's rule; else the rule configured for that host name (host names compare case-insensitively, a
      -- trailing dot is not part of the name); else the default rule
      let want : Prod :=
        match vipO.bind (lookup t.vip) with
        | some r => r
        | none =>
          match t.sni.find? fun p => normName p.1 == normName (undash sni) with
          | some p => p.2
          | none => defaultProd
      let viaVip := (vipO.bind (lookup t.vip)).isSome
      let exact := (lookup t.sni (undash sni)).isSome
      let verdict :=
        if impl == renderProd want then "ok"
        else if impl == renderProd defaultProd then "FAIL:sni-rule-not-normalised"
        else "FAIL:wrong-rule"
      { model := renderProd m, verdict := verdict,
        tags := ["rl", if viaVip then "rl-vip" else if want.name == "default" then "rl-default" else if exact then "rl-sni-exact" else "rl-sni-normalised", "nt"] }
    | _, _, _ => { model := "bad-op", verdict := "skip" }
  | _ => { model := "bad-op", verdict := "skip" }

def runCl (f : List String) (impl : String) : Ans :=
  match f with
  | [certs, vm, vip, sni] =>
    match (certs.splitOn ";").mapM (fun e => match e.splitOn "=" with | [n, ns] => some (n, ns.splitOn "|") | _ => none), parseKV vm with
    | some cs, some vm =>
      let pairs : List (String × String) := cs.flatMap fun c => c.2.map fun n => (n, c.1)
      let normal := pairs.filter fun p => !p.1.contains '*'
      let wild := pairs.filter fun p => p.1.contains '*'
      let vipO := if vip == "-" then none else some vip
      let n := normName (undash sni)
      -- the wildcard map is iterated in Go-map order: every matching pattern is a possible answer
      let cands := ((wild.filter fun p => matchHostnames p.1 n).map (·.2)).eraseDups
      let order : List (String × String) :=
        match wild.find? fun p => matchHostnames p.1 n && p.2 == impl with
        | some hit => hit :: wild
        | none => wild
      let t : CertTable := { vip := vm, normal := normal, wildcard := order, dflt := "BFE_DEFAULT_CERT" }
      let m := certGet t vipO (undash sni)
      -- spec: the VIP's certificate; else a certificate carrying the name exactly; else one with a matching wildcard
      -- pattern; else the default
      let want : List String :=
        match vipO.bind (lookup vm) with
        | some c => [c]
        | none =>
          if (undash sni).isEmpty then ["BFE_DEFAULT_CERT"]
          else match lookup normal n with
            | some c => [c]
            | none => if cands.isEmpty then ["BFE_DEFAULT_CERT"] else cands
      { model := m, verdict := if want.contains impl then "ok" else "FAIL:wrong-certificate",
        tags := ["cl", if (vipO.bind (lookup vm)).isSome then "cl-vip" else if (lookup normal n).isSome && !(undash sni).isEmpty then "cl-exact"
                 else if !cands.isEmpty && !(undash sni).isEmpty then (if cands.length > 1 then "cl-wildcard-ambiguous" else "cl-wildcard") else "cl-default", "nt"] }
    | _, _ => { model := "bad-op", verdict := "skip" }
  | _ => { model := "bad-op", verdict := "skip" }

def runCn (f : List String) (impl : String) : Ans :=
  match f with
  | [n, m, name] =>
    match n.toNat?, (if m == "nil" then some none else (parseKV m).map some) with
    | some n, some mo =>
      let mo' : Option (List (String × Nat)) := mo.map fun l => l.filterMap fun p => p.2.toNat?.map fun i => (p.1, i)
      let r := certForName n mo' (undash name)
      { model := toString r, verdict := if impl == toString r then "ok" else "FAIL:cert-for-name", tags := ["cn", "nt"] }
    | _, _ => { model := "bad-op", verdict := "skip" }
  | _ => { model := "bad-op", verdict := "skip" }

/-- the harness's client certificates: (issuer CA, EKU admits client auth for x509.Verify, EKU lists ClientAuth) -/
def clientKind (k : String) : Option (String × Bool × Bool) :=
  if k == "A" then some ("A", true, true)
  else if k == "B" then some ("B", true, true)
  else if k == "noeku" then some ("A", true, false)
  else if k == "srvonly" then some ("A", false, false)
  else if k == "self" then some ("self", true, true)
  else none

def runCa (f : List String) (impl : String) : Ans :=
  match f with
  | [pol, ruleCA, cfgPool, rulePool, client, _vers] =>
    match pol.toNat? with
    | some cfgPol =>
      let rca := ruleCA == "1"
      let policy := if rca then requireAndVerifyClientCert else cfgPol
      let po (s : String) : Option String := if s == "-" then none else some s
      let pool := clientCAPool (po cfgPool) (if rca then po rulePool else none) rca
      let cc : Option ClientCert :=
        if client == "none" then none
        else match clientKind client with
          | some (issuer, ekuOk, ekuListed) =>
            some { parses := true, revoked := false, chainOk := pool == some issuer && ekuOk, ekuListed := ekuListed,
                   keyOk := true, sigOk := true }
          | none => none
      let m := match clientAuthStep policy cc with
        | .ok r => "srv=ok certs=" ++ (if r.isSome then "1" else "0") ++ " cli=ok"
        | .error a => "srv=err cli=err alert=" ++ toString a
      -- spec on the implementation's answer: a completed handshake met the policy in force for the connection
      let verdict :=
        if impl.startsWith "srv=ok" then
          let n := (field impl "certs").bind String.toNat? |>.getD 0
          if (policy == requireAnyClientCert || policy == requireAndVerifyClientCert) && n == 0 then "FAIL:client-cert-not-demanded"
          else if n != 0 && policy ≥ verifyClientCertIfGiven &&
              !(match clientKind client with | some (issuer, _, listed) => pool == some issuer && listed | none => false) then
            "FAIL:client-cert-unverified-accepted"
          else if n != 0 && client == "none" then "FAIL:client-cert-phantom"
          else "ok"
        else "ok"
      { model := m, verdict := verdict,
        tags := ["ca", "ca-pol" ++ toString policy, if m.startsWith "srv=ok" then "ca-ok" else "ca-refused", "nt"] }
    | none => { model := "bad-op", verdict := "skip" }
  | _ => { model := "bad-op", verdict := "skip" }

/-! ### end-to-end streams `ee` / `eh`: Config.ServerRule is the production TLSServerRuleMap; readClientHello finds the
    rule itself.  The model is `serve` (rule lookup with the name the Conn holds at that moment, then readClientHello);
    the oracle computes the governing product from (VIP, SNI) by the specification and demands that what was
    negotiated is what THAT product's rule allows. -/

structure ProdRule where
  name : String
  rule : Rule

def defaultProdRule : ProdRule :=
  { name := "default", rule := { grade := gradeC, clientAuth := false, chacha20 := false, nextProtos := ["http/1.1"] } }

def parseProdRules (s : String) : Option (List ProdRule) :=
  (s.splitOn ";").mapM fun e =>
    match e.splitOn ":" with
    | [n, g, a, c, ps] => some { name := n, rule := { grade := g, clientAuth := a == "1", chacha20 := c == "1", nextProtos := ps.splitOn "+" } }
    | _ => none

structure E2E where
  table : RuleTable Rule
  want : ProdRule                -- the product the specification makes govern (VIP, SNI)
  vip : Option String
  sni : String

def parseE2E (prods vm sm vip sni : String) : Option E2E :=
  match parseProdRules prods, parseKV vm, parseKV sm with
  | some ps, some vm, some sm =>
    let find (n : String) : ProdRule := (ps.find? (·.name == n)).getD defaultProdRule
    let vipO := if vip == "-" then none else some vip
    let vt := vm.map fun p => (p.1, find p.2)
    let st := sm.map fun p => (p.1, find p.2)
    let want : ProdRule :=
      match vipO.bind (lookup vt) with
      | some r => r
      | none =>
        match st.find? fun p => normName p.1 == normName (undash sni) with
        | some p => p.2
        | none => defaultProdRule
    some { table := { vip := vt.map fun p => (p.1, p.2.rule), sni := st.map fun p => (p.1, p.2.rule), dflt := defaultProdRule.rule },
           want := want, vip := vipO, sni := undash sni }
  | _, _, _ => none

def e2eCfg (cert : String) : Config :=
  { minVersionRaw := 0, maxVersionRaw := 0, cipherSuitesRaw := none, priority := [], preferServer := false,
    ssl3PoodleProofed := false, ticketsDisabled := false, cacheEnabled := false, nextProtos := [], clientAuth := 0,
    curvePrefsRaw := [], hasCert := true, certEcdsa := cert == "e" }

/-- does an accepted (version, suite, ALPN, client-auth policy) respect the rule `r`?  (`ca = none`: not observed) -/
def ruleRespected (cfg : Config) (r : Rule) (v s : Nat) (al : String) (ca : Option Nat) : Bool :=
  let rc4 := checkCipherGrade cfg r.grade v
  !((r.grade == gradeA && v < versionTLS10) || (r.grade == gradeAPlus && v < versionTLS12)) &&
  (match lookupSuite s with
   | some su => !(su.has suiteChacha20 && !r.chacha20) && !(su.has suiteRC4 && rc4 == .disable) && !(!su.has suiteRC4 && rc4 == .only)
   | none => false) &&
  (al == "-" || r.nextProtos.contains al || (al == "http/1.1" && r.nextProtos.contains "h2")) &&
  (match ca with
   | some n => n == (if r.clientAuth then requireAndVerifyClientCert else cfg.clientAuth)
   | none => true)

def runEe (f : List String) (impl : String) : Ans :=
  if f.length != 13 then { model := "bad-op", verdict := "skip" } else
  match parseE2E (f.getD 0 "") (f.getD 1 "") (f.getD 2 "") (f.getD 3 "") (f.getD 4 ""),
        parseCase (" ".intercalate (["rch", "0000", "0000", "n", "-", "00000", "-", "0", "-", f.getD 5 "r", "0", "C", "00", "-"] ++ f.drop 6 ++ ["-", "-"])) with
  | some e, some c =>
    let cfg := e2eCfg (f.getD 5 "r")
    let m := serve e.table cfg e.vip e.sni c.hello c.lk
    let verdict :=
      if impl.startsWith "ok " then
        match (field impl "v").bind parseHex, (field impl "s").bind parseHex, field impl "al", (field impl "ca").bind String.toNat? with
        | some v, some s, some al, some ca =>
          if ruleRespected cfg e.want.rule v s al (some ca) then "ok" else "FAIL:rule-not-applied"
        | _, _, _, _ => "FAIL:unparsable-result"
      else "ok"
    { model := render m, verdict := verdict,
      tags := ["ee", "ee-" ++ (if e.want.name == "default" then "default" else if (e.vip.bind (lookup e.table.vip)).isSome then "vip" else "sni")] ++
              (match m with | .ok _ => ["nt"] | .error _ => []) }
  | _, _ => { model := "bad-op", verdict := "skip" }

def runEh (f : List String) (impl : String) : Ans :=
  if f.length != 11 then { model := "bad-op", verdict := "skip" } else
  match impl.splitOn " | " with
  | [helloStr, outcome] =>
    match parseE2E (f.getD 0 "") (f.getD 1 "") (f.getD 2 "") (f.getD 3 "") (f.getD 4 ""),
          parseCase (" ".intercalate (["rch", "0000", "0000", "n", "-", "00000", "-", "0", "-", f.getD 5 "r", "0", "C", "00", "-", helloStr])),
          parseHex (f.getD 6 "") with
    | some e, some c, some cmin =>
      let cfg := e2eCfg (f.getD 5 "r")
      let m := serve e.table cfg e.vip e.sni c.hello c.lk
      let client := f.getD 10 "none"
      let expected :=
        match m with
        | .error _ => "srv=err cli=err echo=-"
        | .ok p =>
          let kxCurves := if p.ecdheNoExt then c.hello.curves ++ [curveP256] else c.hello.curves
          let kxBad := p.suite.has suiteECDHE && !implementedCurves.contains (keyExchangeCurve cfg.curvePreferences kxCurves)
          -- the client-certificate step under the policy readClientHello installed (products with clientAuth trust CA A)
          let cc : Option ClientCert :=
            if client == "none" then none
            else some { parses := true, revoked := false, chainOk := client == "A", ekuListed := true, keyOk := true, sigOk := true }
          let caBad := match clientAuthStep p.clientAuth cc with | .ok _ => false | .error _ => true
          if kxBad || caBad || p.vers < cmin || (p.alpn != "" && !c.hello.alpn.contains p.alpn) then "srv=err cli=err echo=-"
          else "srv=" ++ sideStr p p.clientProto ++ " cli=" ++ sideStr p p.alpn ++ " echo=ok"
      let srvOk := (outcome.splitOn " cli=").getD 0 ""
      let verdict :=
        if srvOk.startsWith "srv=ok" then
          match (field srvOk "v").bind parseHex, (field srvOk "s").bind parseHex, field srvOk "al" with
          | some v, some s, some al =>
            if !ruleRespected cfg e.want.rule v s al none then "FAIL:rule-not-applied"
            else if e.want.rule.clientAuth && client != "A" then "FAIL:rule-not-applied"   -- completed without the product's client certificate
            else "ok"
          | _, _, _ => "FAIL:unparsable-result"
        else "ok"
      { model := helloStr ++ " | " ++ expected, verdict := verdict,
        tags := ["eh", "eh-" ++ (if e.want.name == "default" then "default" else if (e.vip.bind (lookup e.table.vip)).isSome then "vip" else "sni")] ++
                (if e.want.rule.clientAuth then ["eh-clientauth"] else []) ++ (if expected.startsWith "srv=ok" then ["nt"] else []) }
    | _, _, _ => { model := "bad-hello", verdict := "FAIL:hs-hello-not-captured" }
  | _ => { model := "bad-result", verdict := "FAIL:unparsable-result" }

/-! ### stream `lh`: reload histories through the real loader -/

def plusList (s : String) : List String := if s == "-" then [] else s.splitOn "+"

def parseProdConf (s : String) : Option ProdConf :=
  let q := s.splitOn ":"
  if q.length < 8 then none
  else
    -- IPv6 vips contain colons: the vips field is everything between field 6 and the last field
    let vips := ":".intercalate ((q.drop 6).dropLast)
    some { name := q.getD 0 "", grade := q.getD 1 "", ca := q.getD 2 "0", chacha := q.getD 3 "0" == "1", protos := plusList (q.getD 4 "-"),
           cert := q.getD 5 "", vips := plusList vips, snis := plusList (q.getLast?.getD "-") }

def parseConfFile (s : String) : Option ConfFile :=
  if s == "!json" then some .garbage
  else if s == "!nover" then some .noVersion
  else ((s.splitOn ";").mapM parseProdConf).map .products

def lhCfg : Config := e2eCfg "e"

def lhHello (vers : Nat) : Hello :=
  { vers := vers, suites := [0xcca9, 0xc02b, 0xc009], compression := [0], curves := [23], points := [0],
    alpn := ["h2", "spdy/3.1", "http/1.1"], npn := false, ticketSupported := false, ticketPresent := false, sessionIdPresent := false }

def semi (s : String) : String := s.replace " " ";"

/-- answer of a G / N item if `st` were the server's state -/
def lhItem (certs : List (String × List String)) (st : TlsState) (kind : String) (vip sni : String) (vers : Nat) : String :=
  let vipO := if vip == "-" then none else some vip
  let name := undash sni
  if kind == "G" then
    let r := getRule (ruleTableOf st) vipO name
    "g=" ++ r.1.grade ++ " ca=" ++ (if r.1.clientAuth then "1" else "0") ++ " cn=" ++ dash r.2 ++ " ch=" ++ (if r.1.chacha20 then "1" else "0") ++
    " cert=" ++ certGet (certTableOf certs st) vipO name
  else
    match st with
    | none => "noconf"
    | some _ =>
      let t := ruleTableOf st
      let t' : RuleTable Rule := { vip := t.vip.map fun p => (p.1, p.2.1), sni := t.sni.map fun p => (p.1, p.2.1), dflt := t.dflt.1 }
      semi (render (serve t' lhCfg vipO name (lhHello vers) { ticket := none, cache := none }))

structure LhState where
  st : TlsState := none
  seen : List TlsState := []        -- states that were in force earlier, and configurations that were refused
  out : List String := []
  bad : Option String := none

def runLh (f : List String) (impl : String) : Ans :=
  match f with
  | [certsS, confsS, script] =>
    match (certsS.splitOn ";").mapM (fun e => match e.splitOn "=" with | [n, ns] => some (n, ns.splitOn "+") | _ => none),
          (confsS.splitOn "|").mapM parseConfFile with
    | some certs, some confs =>
      let caFiles := ["A", "B"]
      let items := script.splitOn ","
      let implItems := impl.splitOn ","
      let step (s : LhState) (p : String × String) : LhState :=
        let it := p.1
        let im := p.2
        let flag (b : Option String) := if s.bad.isSome then s.bad else b
        if it.startsWith "L" then
          match (it.drop 1).toString.toNat? with
          | some i =>
            let c := confs.getD (i - 1) .garbage
            let ok := i ≥ 1 && i ≤ confs.length && validConf certs caFiles c
            let st' := if i ≥ 1 && i ≤ confs.length then loadStep certs caFiles s.st c else s.st
            let refused : List TlsState := match c with | .products ps => if ok then [] else [some ps] | _ => []
            -- host names are case-insensitive: two products claiming the same name in different spellings must be refused
            -- (checkSniConf compares the spellings byte for byte; TLSServerRuleMap.Update then lower-cases both keys and the
            -- Go map iteration order decides which product wins)
            let caseDup := match c with
              | .products ps => let l := ps.flatMap fun p => p.snis
                                nodupB l && !nodupB (l.map lowerAscii)
              | _ => false
            { s with st := st', seen := s.seen ++ [s.st] ++ refused, out := s.out ++ [if ok then "ok" else "rej"],
                     bad := flag (if im == "ok" && caseDup then some "sni-conf-case-duplicate-accepted"
                                  else if im == "ok" && !ok then some "invalid-conf-accepted" else if im == "rej" && ok then some "valid-conf-refused" else none) }
          | none => { s with out := s.out ++ ["bad-item"] }
        else
          let isN := it.startsWith "N"
          let body := if it.startsWith "N!" then ((it.drop 2).toString.splitOn ":").drop 1 |> ":".intercalate
                      else (it.drop 2).toString
          let reloadTo : Option Nat := if it.startsWith "N!" then ((it.drop 2).toString.splitOn ":").head?.bind String.toNat? else none
          let q := body.splitOn "/"
          let vip := q.getD 0 "-"
          let sni := q.getD 1 "-"
          let vers := (parseHex (q.getD 2 "0303")).getD 0x0303
          let kind := if isN then "N" else "G"
          let expect := lhItem certs s.st kind vip sni vers
          -- the specification: the answer is the one of the LAST ACCEPTED configuration; an answer that instead matches an
          -- earlier state or a refused configuration is named as such
          let stale := s.seen.any fun old => lhItem certs old kind vip sni vers == im
          let bad := if im == expect then none
                     else if stale then some "reload-stale-or-refused-conf-in-force" else some "reload-wrong-answer"
          let st' := match reloadTo with
            | some i => if s.st.isSome && i ≥ 1 && i ≤ confs.length then loadStep certs caFiles s.st (confs.getD (i - 1) .garbage) else s.st
            | none => s.st
          let seen' := if reloadTo.isSome then s.seen ++ [s.st] else s.seen
          { s with st := st', seen := seen', out := s.out ++ [expect], bad := flag bad }
      let fin := (items.zip (implItems ++ List.replicate items.length "")).foldl step {}
      let anyCaseDup := confs.any fun c => match c with
        | .products ps => let l := ps.flatMap fun p => p.snis
                          nodupB l && !nodupB (l.map lowerAscii)
        | _ => false
      let onlyLoads := items.all fun it => it.startsWith "L"
      { model := ",".intercalate fin.out,
        verdict := if anyCaseDup && !onlyLoads && !sniConfDuplicateCheckFoldsCase then "skip"   -- (unrepaired loader: Go's map iteration order decides which product wins)
                   else match fin.bad with | some b => "FAIL:" ++ b | none => "ok",
        tags := ["lh"] ++ (if fin.out.contains "rej" then ["lh-rejected-reload"] else []) ++
                (if (fin.out.filter (· == "ok")).length ≥ 2 then ["lh-two-accepted"] else []) ++
                (if script.contains "N!" then ["lh-reload-in-flight"] else []) ++ (if fin.st.isSome then ["nt"] else []) }
    | _, _ => { model := "bad-op", verdict := "skip" }
  | _ => { model := "bad-op", verdict := "skip" }

def run (op impl : String) : Ans :=
  match op.splitOn " " with
  | "hs" :: f => runHs f impl
  | "lh" :: f => runLh f impl
  | "rw" :: seg :: decor :: f =>
    (match parseCase (" ".intercalate ("rch" :: f)) with
     | none => { model := "bad-op", verdict := "skip" }
     | some c =>
       let m := readClientHello c.cfg c.rule c.hello c.lk
       { model := render m, verdict := oracle c impl,
         tags := ["rw", "seg-" ++ seg] ++ ((decor.splitOn "+").filter (· != "-")).map ("decor-" ++ ·) ++
                 (match m with | .ok _ => ["nt"] | .error _ => []) })
  | "ee" :: f => runEe f impl
  | "eh" :: f => runEh f impl
  | "rl" :: f => runRl f impl
  | "cl" :: f => runCl f impl
  | "cn" :: f => runCn f impl
  | "ca" :: f => runCa f impl
  | _ =>
  match parseCase op with
  | none => { model := "bad-op", verdict := "skip" }
  | some c =>
    let m := readClientHello c.cfg c.rule c.hello c.lk
    { model := render m, verdict := oracle c impl, tags := tagsOf c m }

end BfeVerif.C41
