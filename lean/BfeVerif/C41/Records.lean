/-!
  C41 — how the ClientHello reaches `readClientHello`: `(*Conn).readHandshake` (bfe_tls/conn.go) appends the payloads of
  successive handshake records to the buffer `hand` until the 4-byte header and the declared body are there, and hands
  out exactly those bytes.  Core-only.
-/
namespace BfeVerif.C41

/-- the 24-bit length in bytes 1..3 of a handshake header -/
def declLen (b : List UInt8) : Nat :=
  match b.take 4 with
  | [_, x, y, z] => x.toNat * 65536 + y.toNat * 256 + z.toNat
  | _ => 0

/-- `hand` holds a complete message: return it and what stays buffered -/
def complete (hand : List UInt8) : Option (List UInt8 × List UInt8) :=
  if 4 ≤ hand.length ∧ 4 + declLen hand ≤ hand.length then
    some (hand.take (4 + declLen hand), hand.drop (4 + declLen hand))
  else none

/-- `readHandshake` over the payloads of the handshake records still to come -/
def readHandshake : List (List UInt8) → List UInt8 → Option (List UInt8 × List UInt8)
  | [], hand => complete hand
  | r :: rs, hand =>
    match complete hand with
    | some x => some x
    | none => readHandshake rs (hand ++ r)

/-! ### lemmas (used by Props.lean) -/

theorem declLen_prefix (hand x : List UInt8) (h : 4 ≤ hand.length) : declLen (hand ++ x) = declLen hand := by
  unfold declLen
  rw [List.take_append_of_le_length h]

theorem complete_of_prefix {hand x msg tail : List UInt8} (hm : 4 ≤ msg.length) (hw : msg.length = 4 + declLen msg)
    (he : hand ++ x = msg ++ tail) {m r : List UInt8} (hc : complete hand = some (m, r)) : m = msg := by
  unfold complete at hc
  split at hc
  · rename_i hcond
    have hd : declLen hand = declLen msg := by
      rw [← declLen_prefix hand x hcond.1, he, declLen_prefix msg tail hm]
    have hm' : m = hand.take (4 + declLen hand) := by
      have := Option.some.inj hc; exact (congrArg (·.1) this).symm
    rw [hm', hd, ← hw]
    have hle : msg.length ≤ hand.length := by rw [hw, ← hd]; exact hcond.2
    have h1 : (hand ++ x).take msg.length = msg := by rw [he]; simp
    rw [List.take_append_of_le_length hle] at h1
    exact h1
  · cases hc

end BfeVerif.C41
