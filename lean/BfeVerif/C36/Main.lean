import BfeVerif.C36.Driver
def main : IO Unit := BfeVerif.Proto.driverMain BfeVerif.C36.run
