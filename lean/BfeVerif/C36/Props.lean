import BfeVerif.C36.Proofs
/-!
  C36 — the HTTP/2 priority tree stays acyclic and priority processing terminates.
  Property theorems only (helper lemmas are in `Proofs.lean`).

  `parOf h` is the parent-pointer function of ALL stream objects (open and closed), `Anc` its
  transitive closure, `NoCycle P := ∀ a, ¬ Anc P a a` ("no stream is its own ancestor").
-/
namespace BfeVerif.C36

/-- **C36 core**: one `adjustStreamPriority` call (any stream, any dependency incl. itself, a
    descendant, a closed or idle stream, 0; exclusive or not) keeps the pointer graph acyclic. -/
theorem C36_adjust_acyclic {h h' : Heap} {sid dep : Nat} {excl : Bool} {w : Nat}
    (hN : NoCycle (parOf h)) (ha : adjust h sid dep excl w = some h') : NoCycle (parOf h') := by
  unfold adjust at ha
  cases hst : openNode h sid with
  | none => rw [hst] at ha; simp only at ha; cases ha; exact hN
  | some st =>
    rw [hst] at ha
    simp only at ha
    have hfs := openNode_find hst
    have hsid : hasId h sid = true := by rw [hasId_iff, hfs]; rfl
    have hstp : parOf h sid = st.parent := by simp [parOf, hfs]
    have hP1 : parOf (setWeight h sid w) = parOf h := parOf_setWeight h sid w
    have hsid1 : hasId (setWeight h sid w) sid = true := by rw [hasId_setWeight]; exact hsid
    cases hp : openNode h dep with
    | none =>
      rw [hp] at ha; simp only at ha
      have h3N : NoCycle (parOf (setParent (setWeight h sid w) sid none)) := by
        rw [parOf_setParent _ _ _ hsid1, hP1]
        exact noCycle_upd hN (by intro q' hq; cases hq)
      injection ha with ha; subst ha
      split
      · rw [parOf_adopt]
        apply noCycle_updS h3N (adoptSet_self _ _ _)
        intro o ho
        rw [adoptSet_par ho, parOf_setParent _ _ _ hsid1]; simp [upd]
      · exact h3N
    | some p =>
      rw [hp] at ha; simp only at ha
      have hfp := openNode_find hp
      have hpid := findNode_id hfp
      split at ha
      · injection ha with ha; subst ha; rw [hP1]; exact hN
      · rename_i hne
        have hne' : p.id ≠ sid := by simpa using hne
        cases hr : reaches (setWeight h sid w) sid (setWeight h sid w).length (some p.id) with
        | none => rw [hr] at ha; simp at ha
        | some r =>
          rw [hr] at ha; simp only at ha
          have hspec := reaches_spec _ _ _ _ _ hr
          rw [hP1] at hspec
          have hpin : hasId (setWeight h sid w) p.id = true := by
            rw [hasId_setWeight, hasId_iff, hpid, hfp]; rfl
          generalize hh2 : (if r = true then setParent (setWeight h sid w) p.id st.parent
            else setWeight h sid w) = h2 at ha
          have h2facts : NoCycle (parOf h2) ∧ ¬ Anc (parOf h2) p.id sid ∧ hasId h2 sid = true := by
            cases r with
            | false =>
              simp only [Bool.false_eq_true, if_false] at hh2
              subst hh2
              rw [hP1]
              refine ⟨hN, ?_, hsid1⟩
              intro hc
              have := hspec.mpr (Or.inr hc)
              exact absurd this (by decide)
            | true =>
              simp only [if_true] at hh2
              subst hh2
              have hanc : Anc (parOf h) p.id sid := by
                rcases hspec.mp rfl with h | h
                · exact absurd h hne'
                · exact h
              rw [parOf_setParent _ _ _ hpin, hP1, hasId_setParent, ← hstp]
              have hq : ∀ g, parOf h sid = some g → g ≠ p.id ∧ ¬ Anc (parOf h) g p.id := by
                intro g hg
                constructor
                · intro hgp; subst hgp; exact hN sid (Anc.step hg hanc)
                · intro hgp; exact hN sid (Anc.step hg (hgp.trans hanc))
              refine ⟨noCycle_upd hN hq, ?_, hsid1⟩
              intro hc
              rcases anc_inv hc with hc | ⟨g, hg, hc⟩
              · have hg : parOf h sid = some sid := by simpa [upd] using hc
                exact hN sid (Anc.base hg)
              · have hg : parOf h sid = some g := by simpa [upd] using hg
                rcases anc_upd hc with hc | ⟨hc, _⟩
                · exact hN sid (Anc.step hg hc)
                · rcases hc with hc | hc
                  · exact (hq g hg).1 hc
                  · exact (hq g hg).2 hc
          obtain ⟨h2N, h2na, h2sid⟩ := h2facts
          have h3N : NoCycle (parOf (setParent h2 sid (some p.id))) := by
            rw [parOf_setParent _ _ _ h2sid]
            apply noCycle_upd h2N
            intro q' hq'
            have := Option.some.inj hq'; subst this
            exact ⟨hne', h2na⟩
          injection ha with ha; subst ha
          split
          · rw [parOf_adopt]
            apply noCycle_updS h3N (adoptSet_self _ _ _)
            intro o ho
            rw [adoptSet_par ho, parOf_setParent _ _ _ h2sid]; simp [upd]
          · exact h3N

/-- the walk of `adjustStreamPriority` always ends: on an acyclic heap whose pointers stay inside
    the heap the call returns (the fuel `length` is never exhausted). -/
theorem C36_adjust_terminates {h : Heap} (sid dep : Nat) (excl : Bool) (w : Nat)
    (hN : NoCycle (parOf h)) (hC : Closed h) : (adjust h sid dep excl w).isSome = true := by
  unfold adjust
  cases hst : openNode h sid with
  | none => rfl
  | some st =>
    simp only
    cases hp : openNode h dep with
    | none => rfl
    | some p =>
      simp only
      split
      · rfl
      · have hfp := openNode_find hp
        have hpid := findNode_id hfp
        have hpin : hasId (setWeight h sid w) p.id = true := by
          rw [hasId_setWeight, hasId_iff, hpid, hfp]; rfl
        have hN1 : NoCycle (parOf (setWeight h sid w)) := by rw [parOf_setWeight]; exact hN
        have := reaches_fuel (setWeight h sid w) sid hN1 (closed_setWeight hC sid w)
          (setWeight h sid w).length [] p.id (by simp) (by simp) (by simp)
          ((hasId_mem _ _).mp hpin) (by simp)
        cases hr : reaches (setWeight h sid w) sid (setWeight h sid w).length (some p.id) with
        | none => exact absurd hr this
        | some r => rfl

/-- `adjustStreamPriority` never creates a pointer to something that is not a stream object. -/
theorem C36_adjust_closed {h h' : Heap} {sid dep : Nat} {excl : Bool} {w : Nat}
    (hC : Closed h) (ha : adjust h sid dep excl w = some h') : Closed h' := by
  unfold adjust at ha
  cases hst : openNode h sid with
  | none => rw [hst] at ha; simp only at ha; cases ha; exact hC
  | some st =>
    rw [hst] at ha
    simp only at ha
    have hfs := openNode_find hst
    have hsid : hasId h sid = true := by rw [hasId_iff, hfs]; rfl
    have hstp : parOf h sid = st.parent := by simp [parOf, hfs]
    have hsid1 : hasId (setWeight h sid w) sid = true := by rw [hasId_setWeight]; exact hsid
    have hC1 := closed_setWeight hC sid w
    cases hp : openNode h dep with
    | none =>
      rw [hp] at ha; simp only at ha
      have hC3 : Closed (setParent (setWeight h sid w) sid none) :=
        closed_setParent hC1 hsid1 (by intro b hb; cases hb)
      injection ha with ha; subst ha
      split
      · exact closed_adopt hC3 none (by rw [hasId_setParent]; exact hsid1)
      · exact hC3
    | some p =>
      rw [hp] at ha; simp only at ha
      have hfp := openNode_find hp
      have hpid := findNode_id hfp
      have hpin : hasId (setWeight h sid w) p.id = true := by
        rw [hasId_setWeight, hasId_iff, hpid, hfp]; rfl
      split at ha
      · injection ha with ha; subst ha; exact hC1
      · cases hr : reaches (setWeight h sid w) sid (setWeight h sid w).length (some p.id) with
        | none => rw [hr] at ha; simp at ha
        | some r =>
          rw [hr] at ha; simp only at ha
          generalize hh2 : (if r = true then setParent (setWeight h sid w) p.id st.parent
            else setWeight h sid w) = h2 at ha
          have h2facts : Closed h2 ∧ hasId h2 sid = true ∧ hasId h2 p.id = true := by
            cases r with
            | false =>
              simp only [Bool.false_eq_true, if_false] at hh2
              subst hh2; exact ⟨hC1, hsid1, hpin⟩
            | true =>
              simp only [if_true] at hh2
              subst hh2
              refine ⟨closed_setParent hC1 hpin ?_, by rw [hasId_setParent]; exact hsid1,
                by rw [hasId_setParent]; exact hpin⟩
              intro b hb
              rw [hasId_setWeight]
              exact hC sid b (by rw [hstp]; exact hb)
          obtain ⟨hC2, h2sid, h2p⟩ := h2facts
          have hC3 : Closed (setParent h2 sid (some p.id)) :=
            closed_setParent hC2 h2sid (by intro b hb; have := Option.some.inj hb; subst this; exact h2p)
          injection ha with ha; subst ha
          split
          · exact closed_adopt hC3 _ (by rw [hasId_setParent]; exact h2sid)
          · exact hC3

/-- the invariant is inductive for every operation (HEADERS with/without priority, PRIORITY, close) -/
theorem C36_step_invariant {h h' : Heap} (o : Op) (hN : NoCycle (parOf h)) (hC : Closed h)
    (hs : step h o = some h') : NoCycle (parOf h') ∧ Closed h' := by
  cases o with
  | close id =>
    simp only [step] at hs; cases hs
    exact ⟨by rw [parOf_closeNode]; exact hN, closed_closeNode hC id⟩
  | prio id dep excl w =>
    simp only [step] at hs
    exact ⟨C36_adjust_acyclic hN hs, C36_adjust_closed hC hs⟩
  | new id pr =>
    simp only [step] at hs
    split at hs
    · cases hs; exact ⟨hN, hC⟩
    · have hN' : NoCycle (parOf (h ++ [{ id := id, parent := none, weight := 0, isOpen := true }])) := by
        rw [parOf_append_new]; exact hN
      have hC' : Closed (h ++ [{ id := id, parent := none, weight := 0, isOpen := true }]) := by
        intro x b hx
        rw [parOf_append_new] at hx
        rw [hasId_append, hC x b hx]; rfl
      cases pr with
      | none => simp only at hs; cases hs; exact ⟨hN', hC'⟩
      | some pr =>
        obtain ⟨dep, excl, w⟩ := pr
        simp only at hs
        exact ⟨C36_adjust_acyclic hN' hs, C36_adjust_closed hC' hs⟩

/-- **C36**: in every state reachable from a fresh connection by any sequence of prioritised or
    plain HEADERS, PRIORITY frames and stream closes, no stream is its own ancestor (closed streams
    that linger as parents included), and no pointer leaves the set of stream objects. -/
theorem C36_reachable_acyclic {h : Heap} (hr : Reach h) : NoCycle (parOf h) ∧ Closed h := by
  induction hr with
  | init =>
    refine ⟨?_, ?_⟩
    · intro a ha
      rcases anc_inv ha with ha | ⟨b, hb, _⟩
      · simp [parOf, findNode] at ha
      · simp [parOf, findNode] at hb
    · intro a b hab; simp [parOf, findNode] at hab
  | next o _ hs ih => exact C36_step_invariant o ih.1 ih.2 hs

/-- **C36 (termination)**: in every reachable state every operation returns: the ancestor loop of
    `adjustStreamPriority` never runs forever. -/
theorem C36_terminates {h : Heap} (hr : Reach h) (o : Op) : (step h o).isSome = true := by
  obtain ⟨hN, hC⟩ := C36_reachable_acyclic hr
  cases o with
  | close id => rfl
  | prio id dep excl w => exact C36_adjust_terminates id dep excl w hN hC
  | new id pr =>
    simp only [step]
    split
    · rfl
    · cases pr with
      | none => rfl
      | some pr =>
        obtain ⟨dep, excl, w⟩ := pr
        simp only
        apply C36_adjust_terminates
        · rw [parOf_append_new]; exact hN
        · intro x b hx
          rw [parOf_append_new] at hx
          rw [hasId_append, hC x b hx]; rfl

/-- bound of the walk itself: from any stream object of a reachable heap, the parent chain is left
    after at most `length` (number of stream objects) steps, whatever is searched for. -/
theorem C36_walk_bounded {h : Heap} (hr : Reach h) (t c : Nat) (hc : hasId h c = true) :
    reaches h t h.length (some c) ≠ none := by
  obtain ⟨hN, hC⟩ := C36_reachable_acyclic hr
  exact reaches_fuel h t hN hC h.length [] c (by simp) (by simp) (by simp) ((hasId_mem _ _).mp hc) (by simp)

/-- soundness of the executable check the oracle runs on the implementation's pointer dumps -/
theorem C36_oracle_sound (h : Heap) (hb : acyclicB h = true) : NoCycle (parOf h) := by
  have key : ∀ (f : Nat) (c : Nat), Anc (parOf h) c c → chainEnds h f (some c) = false := by
    intro f
    induction f with
    | zero => intro c _; rfl
    | succ f ih =>
      intro c hc
      simp only [chainEnds]
      rcases anc_inv hc with hc' | ⟨b, hb', hc'⟩
      · rw [hc']; exact ih c hc
      · rw [hb']; exact ih b (hc'.snoc hb')
  intro a ha
  have hpa : ∃ b, parOf h a = some b := by
    rcases anc_inv ha with h1 | ⟨b, h1, _⟩
    · exact ⟨_, h1⟩
    · exact ⟨_, h1⟩
  obtain ⟨b, hpb⟩ := hpa
  unfold parOf at hpb
  cases hf : findNode h a with
  | none => rw [hf] at hpb; simp at hpb
  | some n =>
    have hmem : n ∈ h := List.mem_of_find?_eq_some hf
    have hid := findNode_id hf
    unfold acyclicB at hb
    rw [List.all_eq_true] at hb
    have := hb n hmem
    rw [hid, key h.length a ha] at this
    exact absurd this (by decide)

/-- **weights**: a priority update stores the frame's weight byte (zero-indexed, as on the wire) on the
    re-prioritised OPEN stream and changes no other stream's weight — not that of a moved dependency
    (RFC 7540 5.3.3 "retains its weight"), not those of adopted siblings; an update for a stream that is
    not open changes nothing at all. -/
theorem C36_weights {h h' : Heap} {sid dep : Nat} {excl : Bool} {w : Nat}
    (ha : adjust h sid dep excl w = some h') :
    (openNode h sid = none → h' = h) ∧
    (∀ st, openNode h sid = some st →
      weightOf h' sid = some w ∧ ∀ x, x ≠ sid → weightOf h' x = weightOf h x) := by
  unfold adjust at ha
  cases hst : openNode h sid with
  | none => rw [hst] at ha; simp only at ha; cases ha; exact ⟨fun _ => rfl, fun st h => (by cases h)⟩
  | some st =>
    refine ⟨fun h => (by cases h), fun st' _ => ?_⟩
    rw [hst] at ha
    simp only at ha
    have hfs := openNode_find hst
    have hsw : weightOf (setWeight h sid w) sid = some w := by
      rw [weightOf_setWeight]; simp [weightOf, hfs]
    have hso : ∀ x, x ≠ sid → weightOf (setWeight h sid w) x = weightOf h x := by
      intro x hx; rw [weightOf_setWeight]; simp [hx]
    cases hp : openNode h dep with
    | none =>
      rw [hp] at ha; simp only at ha
      injection ha with ha; subst ha
      split
      · exact ⟨(by rw [weightOf_adopt, weightOf_setParent]; exact hsw),
          fun x hx => (by rw [weightOf_adopt, weightOf_setParent]; exact hso x hx)⟩
      · exact ⟨(by rw [weightOf_setParent]; exact hsw), fun x hx => (by rw [weightOf_setParent]; exact hso x hx)⟩
    | some p =>
      rw [hp] at ha; simp only at ha
      split at ha
      · injection ha with ha; subst ha; exact ⟨hsw, hso⟩
      · cases hr : reaches (setWeight h sid w) sid (setWeight h sid w).length (some p.id) with
        | none => rw [hr] at ha; simp at ha
        | some r =>
          rw [hr] at ha; simp only at ha
          injection ha with ha; subst ha
          have h2 : ∀ x, weightOf (if r = true then setParent (setWeight h sid w) p.id st.parent
              else setWeight h sid w) x = weightOf (setWeight h sid w) x := by
            intro x; split
            · rw [weightOf_setParent]
            · rfl
          split
          · exact ⟨(by rw [weightOf_adopt, weightOf_setParent, h2]; exact hsw),
              fun x hx => (by rw [weightOf_adopt, weightOf_setParent, h2]; exact hso x hx)⟩
          · exact ⟨(by rw [weightOf_setParent, h2]; exact hsw),
              fun x hx => (by rw [weightOf_setParent, h2]; exact hso x hx)⟩

/-- closing a stream (also an interior node of the tree) changes no parent pointer and no weight:
    its children keep pointing at the closed object, which stays in the ancestor walk. -/
theorem C36_close_keeps_tree (h : Heap) (a : Nat) :
    parOf (closeNode h a) = parOf h ∧ ∀ x, weightOf (closeNode h a) x = weightOf h x :=
  ⟨parOf_closeNode h a, weightOf_closeNode h a⟩

/-- **wire level**: whatever frames arrive (HEADERS on any id incl. 0 / even / old / open streams,
    PRIORITY, RST_STREAM incl. idle streams, before or after GOAWAY), the connection's tree moves only
    along `step`: every state is reachable in the sense of `Reach`, hence acyclic, and the frame is
    processed in finite time. -/
theorem C36_wire_reachable {c : Conn} (o : Op) (hr : Reach c.heap) :
    ∃ c', wireStep c o = some c' ∧ Reach c'.heap := by
  have key : ∀ o', ∃ h', step c.heap o' = some h' ∧ Reach h' := by
    intro o'
    have ht := C36_terminates hr o'
    cases hs : step c.heap o' with
    | none => rw [hs] at ht; cases ht
    | some h' => exact ⟨h', rfl, Reach.next o' hr hs⟩
  unfold wireStep
  split
  · exact ⟨c, rfl, hr⟩
  · cases o with
    | new id pr =>
      simp only
      split
      · exact ⟨_, rfl, hr⟩
      · split
        · exact ⟨_, rfl, hr⟩
        · split
          · exact ⟨_, rfl, hr⟩
          · split
            · obtain ⟨h', hs, hr'⟩ := key (.close id)
              exact ⟨{ c with heap := h' }, by rw [hs]; rfl, hr'⟩
            · split
              · exact ⟨_, rfl, hr⟩
              · obtain ⟨h', hs, hr'⟩ := key (.new id pr)
                exact ⟨{ c with heap := h' }, by rw [hs]; rfl, hr'⟩
    | prio id dep excl w =>
      simp only
      split
      · exact ⟨_, rfl, hr⟩
      · obtain ⟨h', hs, hr'⟩ := key (.prio id dep excl w)
        exact ⟨{ c with heap := h' }, by rw [hs]; rfl, hr'⟩
    | close id =>
      simp only
      split
      · exact ⟨_, rfl, hr⟩
      · split
        · exact ⟨_, rfl, hr⟩
        · obtain ⟨h', hs, hr'⟩ := key (.close id)
          exact ⟨{ c with heap := h' }, by rw [hs]; rfl, hr'⟩

/-! Non-vacuity: concrete reachable heaps hitting the three interesting cases. -/
-- dependency on own descendant: 1 ← 3 ← 5, then PRIORITY 1 depends on 5
example : (step [⟨1, none, 0, true⟩, ⟨3, some 1, 0, true⟩, ⟨5, some 3, 0, true⟩] (.prio 1 5 false 7)) =
    some [⟨1, some 5, 7, true⟩, ⟨3, some 1, 0, true⟩, ⟨5, none, 0, true⟩] := by decide
-- exclusive adoption below stream 0 (nil parent)
example : (step [⟨1, none, 0, true⟩, ⟨3, none, 0, true⟩, ⟨5, some 3, 0, false⟩] (.prio 3 0 true 7)) =
    some [⟨1, some 3, 0, true⟩, ⟨3, none, 7, true⟩, ⟨5, some 3, 0, false⟩] := by decide
-- self dependency only changes the weight
example : (step [⟨1, none, 0, true⟩] (.prio 1 1 true 9)) = some [⟨1, none, 9, true⟩] := by decide
example : Reach [⟨1, none, 0, true⟩, ⟨3, some 1, 5, true⟩] :=
  Reach.next (h := [⟨1, none, 0, true⟩]) (.new 3 (some (1, false, 5)))
    (Reach.next (h := []) (.new 1 none) Reach.init (by decide)) (by decide)

end BfeVerif.C36
