/-
  C36 — model of the HTTP/2 priority tree of bfe_http2 (server.go).  Core-only.

  Go state: `sc.streams map[uint32]*stream` (the OPEN streams) and, per stream object,
  `parent *stream` / `weight uint8`.  `closeStream` only does `delete(sc.streams, id)`: the object
  stays alive as long as some other stream's `parent` points to it, keeps its own `parent` field,
  and is still walked by the ancestor loop.  So the model keeps EVERY stream object ever created
  (`Heap`, a list of nodes) with an `isOpen` flag = membership in `sc.streams`.  Pointers are ids
  (stream ids are never reused on a connection: `id <= sc.maxStreamID` is a connection error).

    func adjustStreamPriority(streams, streamID, priority) {
        st, ok := streams[streamID];  if !ok { return }
        st.weight = priority.Weight
        parent := streams[priority.StreamDep]          // nil if not OPEN (closed, idle, 0)
        if parent == st { return }
        for piter := parent; piter != nil; piter = piter.parent {
            if piter == st { parent.parent = st.parent; break } }
        st.parent = parent
        if priority.Exclusive && (st.parent != nil || priority.StreamDep == 0) {
            for _, openStream := range streams {
                if openStream != st && openStream.parent == st.parent { openStream.parent = st } } }
    }
  The last loop is order independent (each iteration reads only `openStream.parent` and the
  constant `st.parent`, and writes only `openStream.parent`), so the map order needs no parameter.
-/
namespace BfeVerif.C36

structure Node where
  id : Nat
  parent : Option Nat
  weight : Nat
  isOpen : Bool
deriving Repr, DecidableEq

abbrev Heap := List Node

def findNode (h : Heap) (a : Nat) : Option Node := h.find? (fun n => n.id == a)

/-- the `parent` pointer of object `a` (none = nil pointer, or no such object). -/
def parOf (h : Heap) (a : Nat) : Option Nat :=
  match findNode h a with
  | some n => n.parent
  | none => none

/-- `streams[a]` : the object only if it is in the map of open streams. -/
def openNode (h : Heap) (a : Nat) : Option Node :=
  match findNode h a with
  | some n => if n.isOpen then some n else none
  | none => none

def setParent (h : Heap) (a : Nat) (p : Option Nat) : Heap :=
  h.map fun n => if n.id == a then { n with parent := p } else n

def setWeight (h : Heap) (a : Nat) (w : Nat) : Heap :=
  h.map fun n => if n.id == a then { n with weight := w } else n

/-- `for piter := cur; piter != nil; piter = piter.parent { if piter == target {…found…} }`
    with fuel.  `none` = fuel exhausted (the Go loop would still be running). -/
def reaches (h : Heap) (target : Nat) : Nat → Option Nat → Option Bool
  | _, none => some false
  | 0, some _ => none
  | fuel + 1, some c => if c == target then some true else reaches h target fuel (parOf h c)

/-- exclusive adoption: every OPEN stream other than `sid` whose parent pointer equals `par`. -/
def adopt (h : Heap) (sid : Nat) (par : Option Nat) : Heap :=
  h.map fun n => if n.isOpen && n.id != sid && n.parent == par then { n with parent := some sid } else n

/-- result of one `adjustStreamPriority` call; `none` = the ancestor walk ran out of fuel
    (never happens on an acyclic heap: `C36_terminates`). -/
def adjust (h : Heap) (sid dep : Nat) (excl : Bool) (w : Nat) : Option Heap :=
  match openNode h sid with
  | none => some h
  | some st =>
    let h1 := setWeight h sid w
    match openNode h dep with
    | none =>
      -- parent == nil : loop body never runs
      let h3 := setParent h1 sid none
      some (if excl && dep == 0 then adopt h3 sid none else h3)
    | some p =>
      if p.id == sid then some h1
      else
        match reaches h1 sid h1.length (some p.id) with
        | none => none
        | some r =>
          let h2 := if r then setParent h1 p.id st.parent else h1
          let h3 := setParent h2 sid (some p.id)
          some (if excl then adopt h3 sid (some p.id) else h3)

/-- operations of a connection that touch the tree. -/
inductive Op where
  | new (id : Nat) (prio : Option (Nat × Bool × Nat))   -- HEADERS opening a stream (processHeaders)
  | prio (id dep : Nat) (excl : Bool) (w : Nat)         -- PRIORITY frame (processPriority)
  | close (id : Nat)                                    -- closeStream: delete(sc.streams, id)
deriving Repr

def hasId (h : Heap) (a : Nat) : Bool := h.any fun n => n.id == a

def closeNode (h : Heap) (a : Nat) : Heap :=
  h.map fun n => if n.id == a then { n with isOpen := false } else n

/-- `processHeaders` creates a stream only for an odd id above `sc.maxStreamID` (= the largest id ever
    created, and every created stream stays in the heap); HEADERS on an open stream are trailers, any
    other id is a connection error: in all those cases the tree is not touched. -/
def canOpen (h : Heap) (id : Nat) : Bool := id % 2 == 1 && h.all (fun n => n.id < id)

/-- one step; `none` only if the walk diverges.  `new` mirrors processHeaders:
    `sc.streams[id] = st; if f.HasPriority() { adjustStreamPriority(sc.streams, st.id, f.Priority) }`. -/
def step (h : Heap) : Op → Option Heap
  | .new id pr =>
    if !canOpen h id then some h
    else
      let h' := h ++ [{ id := id, parent := none, weight := 0, isOpen := true }]
      match pr with
      | none => some h'
      | some (dep, excl, w) => adjust h' id dep excl w
  | .prio id dep excl w => adjust h id dep excl w
  | .close id => some (closeNode h id)

/-! ### the same operations arriving as FRAMES on the wire (Framer -> processFrameFromReader) -/

/-- connection-level state next to the tree: GOAWAY sent (`sc.inGoAway`), frame reader gone -/
structure Conn where
  heap : Heap
  goAway : Bool
  gone : Bool

def maxId (h : Heap) : Nat := h.foldl (fun m n => if n.id > m then n.id else m) 0

/-- one client frame: HEADERS (END_STREAM, complete request header block), PRIORITY, RST_STREAM.
    * stream id 0 is rejected by the Framer itself: terminal read error, nothing is read any more;
    * HEADERS: ignored after GOAWAY; even id or id <= maxStreamID of a non-open stream: connection
      error (GOAWAY, tree untouched); on an OPEN stream they are trailers with pseudo headers: stream
      error, `resetStream` closes the stream; else `processHeaders` creates the stream;
    * PRIORITY: `processPriority` always (also after GOAWAY);
    * RST_STREAM: idle stream (id > maxStreamID): connection error; open: `closeStream`; else nothing. -/
def wireStep (c : Conn) (o : Op) : Option Conn :=
  if c.gone then some c
  else
    match o with
    | .new id pr =>
      if id == 0 then some { c with gone := true, goAway := true }
      else if c.goAway then some c
      else if id % 2 == 0 then some { c with goAway := true }
      else if (openNode c.heap id).isSome then (step c.heap (.close id)).map fun h => { c with heap := h }
      else if id ≤ maxId c.heap then some { c with goAway := true }
      else (step c.heap (.new id pr)).map fun h => { c with heap := h }
    | .prio id dep excl w =>
      if id == 0 then some { c with gone := true, goAway := true }
      else (step c.heap (.prio id dep excl w)).map fun h => { c with heap := h }
    | .close id =>
      if id == 0 then some { c with gone := true, goAway := true }
      else if id > maxId c.heap then some { c with goAway := true }
      else (step c.heap (.close id)).map fun h => { c with heap := h }

def weightOf (h : Heap) (a : Nat) : Option Nat := (findNode h a).map (·.weight)

/-- executable acyclicity check used by the ORACLE on the implementation's dump: from every node the
    parent chain ends within `length` steps. -/
def chainEnds (h : Heap) : Nat → Option Nat → Bool
  | _, none => true
  | 0, some _ => false
  | f + 1, some c => chainEnds h f (parOf h c)

def acyclicB (h : Heap) : Bool := h.all fun n => chainEnds h h.length (some n.id)

/-- every parent pointer points to an object of the heap -/
def closedB (h : Heap) : Bool := h.all fun n => match n.parent with | none => true | some p => hasId h p

/-! ### Specification vocabulary (used by the theorems) -/

/-- `Anc P a b` : `b` is a proper ancestor of `a` when following parent pointers `P`. -/
inductive Anc (P : Nat → Option Nat) : Nat → Nat → Prop
  | base {a b : Nat} : P a = some b → Anc P a b
  | step {a b c : Nat} : P a = some b → Anc P b c → Anc P a c

/-- no stream is its own ancestor -/
def NoCycle (P : Nat → Option Nat) : Prop := ∀ a, ¬ Anc P a a

/-- every non-nil parent pointer points to a stream object of the heap -/
def Closed (h : Heap) : Prop := ∀ a b, parOf h a = some b → hasId h b = true

/-- heaps reachable from a fresh connection by any sequence of operations -/
inductive Reach : Heap → Prop
  | init : Reach []
  | next {h h' : Heap} (o : Op) : Reach h → step h o = some h' → Reach h'

end BfeVerif.C36
