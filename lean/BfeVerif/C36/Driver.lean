import BfeVerif.Common.Proto
import BfeVerif.C36.Model
/-!
  C36 driver.  op = steps joined by `;` :
     `n<id>`              HEADERS opening stream id without priority
     `n<id>:<dep>e<w>`    HEADERS with priority, exclusive     (`s` instead of `e` = not exclusive)
     `p<id>:<dep>e<w>`    PRIORITY frame
     `c<id>`              closeStream
  result = after every step the dump of all stream objects in creation order
     `id:parent|-:weight:o|c` joined by `,` ; steps joined by `;` ; empty heap = `-`.
-/
namespace BfeVerif.C36
open BfeVerif.Proto

def parsePrio (s : String) : Option (Nat × Bool × Nat) :=
  match s.splitOn "e" with
  | [a, b] => do let d ← a.toNat?; let w ← b.toNat?; pure (d, true, w)
  | _ =>
    match s.splitOn "s" with
    | [a, b] => do let d ← a.toNat?; let w ← b.toNat?; pure (d, false, w)
    | _ => none

def parseOp (s : String) : Option Op :=
  match s.toList with
  | 'c' :: r => (String.ofList r).toNat?.map Op.close
  | 'n' :: r =>
    match (String.ofList r).splitOn ":" with
    | [a] => a.toNat?.map fun i => Op.new i none
    | [a, b] => do let i ← a.toNat?; let p ← parsePrio b; pure (Op.new i (some p))
    | _ => none
  | 'p' :: r =>
    match (String.ofList r).splitOn ":" with
    | [a, b] => do let i ← a.toNat?; let (d, e, w) ← parsePrio b; pure (Op.prio i d e w)
    | _ => none
  | _ => none

def parseOps (s : String) : Option (List Op) := (s.splitOn ";").mapM parseOp

def dumpNode (n : Node) : String :=
  toString n.id ++ ":" ++ (match n.parent with | none => "-" | some p => toString p) ++ ":" ++
    toString n.weight ++ ":" ++ (if n.isOpen then "o" else "c")

def dump (h : Heap) : String := if h.isEmpty then "-" else ",".intercalate (h.map dumpNode)

def parseNode (s : String) : Option Node :=
  match s.splitOn ":" with
  | [a, b, c, d] => do
    let i ← a.toNat?
    let p ← if b == "-" then some none else b.toNat?.map some
    let w ← c.toNat?
    pure { id := i, parent := p, weight := w, isOpen := d == "o" }
  | _ => none

def parseHeap (s : String) : Option Heap := if s == "-" then some [] else (s.splitOn ",").mapM parseNode

/-- tags of one adjust call on heap `h` (after the new node, if any, was added) -/
def tagsOf (h : Heap) (sid dep : Nat) (excl : Bool) : List String :=
  match openNode h sid with
  | none => ["target-not-open"]
  | some _ =>
    match openNode h dep with
    | none =>
      (if dep != 0 && hasId h dep then ["dep-closed"] else if dep != 0 then ["dep-idle"] else ["dep0"]) ++
      (if excl && dep == 0 && (adopt (setParent h sid none) sid none) != (setParent h sid none) then ["adopt-root", "nt"] else [])
    | some p =>
      if p.id == sid then ["self"]
      else
        (match reaches h sid h.length (some p.id) with
          | some true => ["desc", "nt"]
          | _ => ["plain"]) ++
        (if excl && h.any (fun n => n.isOpen && n.id != sid && n.parent == some p.id) then ["adopt", "nt"] else [])

def runModel : Heap → List Op → List String → List String → (List String × List String)
  | _, [], acc, tg => (acc.reverse, tg)
  | h, o :: rest, acc, tg =>
    let tg' := match o with
      | .new id (some (d, e, _)) =>
        if !canOpen h id then tg ++ ["open-rejected"] else tg ++ (if d == id then ["hdr-self"] else []) ++ tagsOf (h ++ [{ id := id, parent := none, weight := 0, isOpen := true }]) id d e
      | .prio id d e _ => tg ++ tagsOf h id d e
      | .close id => if (parOf h id).isSome || h.any (fun n => n.parent == some id) then tg ++ ["close-linked"] else tg
      | _ => tg
    match step h o with
    | none => ((("HANG") :: acc).reverse, tg')
    | some h' => runModel h' rest (dump h' :: acc) tg'

/-- wire mode: dumps after every frame until the frame reader is gone -/
def runWire : Conn → List Op → List String → List String → (List String × List String)
  | _, [], acc, tg => (acc.reverse, tg)
  | c, o :: rest, acc, tg =>
    if c.gone then (acc.reverse, tg)
    else
      let tg' := match o with
        | .new id (some (d, e, _)) =>
          if id != 0 && !c.goAway && id % 2 == 1 && (openNode c.heap id).isNone && id > maxId c.heap then
            tg ++ (if d == id then ["hdr-self"] else []) ++ tagsOf (c.heap ++ [{ id := id, parent := none, weight := 0, isOpen := true }]) id d e
          else tg ++ (if (openNode c.heap id).isSome && !c.goAway then ["trailers-reset"] else ["open-rejected"])
        | .prio id d e _ => if id != 0 then tg ++ tagsOf c.heap id d e else tg
        | .close id => if (parOf c.heap id).isSome || c.heap.any (fun n => n.parent == some id) then tg ++ ["close-linked"] else tg
        | _ => tg
      match wireStep c o with
      | none => ((("HANG") :: acc).reverse, tg')
      | some c' =>
        let tg'' := tg' ++ (if c'.gone && !c.gone then ["reader-gone"] else []) ++ (if c'.goAway && !c.goAway then ["goaway"] else [])
        runWire c' rest (dump c'.heap :: acc) tg''

/-- the oracle: every dumped heap of the implementation is acyclic and closed. -/
def oracle (impl : String) : String :=
  if impl == "HANG" then "FAIL:cycle-hang"
  else if impl.startsWith "PANIC" then "FAIL:panic"
  else
    let parts := impl.splitOn ";"
    match parts.mapM parseHeap with
    | none => "FAIL:unparsable"
    | some hs =>
      if hs.any (fun h => !acyclicB h) then "FAIL:cycle"
      else if hs.any (fun h => !closedB h) then "FAIL:dangling-pointer"
      else "ok"

def run (op impl : String) : Ans :=
  if op.startsWith "W;" then
    match parseOps (op.drop 2).toString with
    | none => { model := "bad-op", verdict := "skip" }
    | some ops =>
      let (outs, tg) := runWire ⟨[], false, false⟩ ops [] []
      { model := ";".intercalate outs, verdict := oracle impl, tags := (["wire"] ++ tg).eraseDups }
  else
  match parseOps op with
  | none => { model := "bad-op", verdict := "skip" }
  | some ops =>
    let (outs, tg) := runModel [] ops [] []
    { model := ";".intercalate outs
      verdict := oracle impl
      tags := tg.eraseDups }

end BfeVerif.C36
