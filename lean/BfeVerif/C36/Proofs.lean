import BfeVerif.C36.Model
/-! C36 helper lemmas: ancestor relation under pointer updates, heap bookkeeping, fuel sufficiency. -/
namespace BfeVerif.C36

theorem Anc.trans {P : Nat → Option Nat} {a b c : Nat} (h1 : Anc P a b) (h2 : Anc P b c) : Anc P a c := by
  induction h1 with
  | base h => exact Anc.step h h2
  | step h _ ih => exact Anc.step h (ih h2)

theorem Anc.snoc {P : Nat → Option Nat} {a b c : Nat} (h1 : Anc P a b) (h2 : P b = some c) : Anc P a c :=
  h1.trans (Anc.base h2)

theorem anc_inv {P : Nat → Option Nat} {a c : Nat} (h : Anc P a c) :
    P a = some c ∨ ∃ b, P a = some b ∧ Anc P b c := by
  cases h with
  | base h => exact Or.inl h
  | step h h2 => exact Or.inr ⟨_, h, h2⟩

/-- single pointer update `a.parent = q` -/
def upd (P : Nat → Option Nat) (a : Nat) (q : Option Nat) : Nat → Option Nat :=
  fun x => if x = a then q else P x

theorem anc_upd {P : Nat → Option Nat} {a : Nat} {q : Option Nat} {u v : Nat} (h : Anc (upd P a q) u v) :
    Anc P u v ∨ ((u = a ∨ Anc P u a) ∧ Anc (upd P a q) a v) := by
  induction h with
  | @base x y hxy =>
    by_cases hx : x = a
    · subst hx; exact Or.inr ⟨Or.inl rfl, Anc.base hxy⟩
    · left; apply Anc.base; simpa [upd, hx] using hxy
  | @step x y z hxy hyz ih =>
    by_cases hx : x = a
    · subst hx; exact Or.inr ⟨Or.inl rfl, Anc.step hxy hyz⟩
    · have hP : P x = some y := by simpa [upd, hx] using hxy
      rcases ih with ih | ⟨hya, haz⟩
      · exact Or.inl (Anc.step hP ih)
      · right; refine ⟨Or.inr ?_, haz⟩
        rcases hya with rfl | hya
        · exact Anc.base hP
        · exact Anc.step hP hya

theorem noCycle_upd {P : Nat → Option Nat} {a : Nat} {q : Option Nat} (hP : NoCycle P)
    (hq : ∀ q', q = some q' → q' ≠ a ∧ ¬ Anc P q' a) : NoCycle (upd P a q) := by
  -- a path from q' to a in the updated map gives one in the old map
  have key : ∀ w, q = some w → ¬ Anc (upd P a q) w a := by
    intro w hw h
    rcases anc_upd h with h | ⟨h, _⟩
    · exact (hq w hw).2 h
    · rcases h with h | h
      · exact (hq w hw).1 h
      · exact (hq w hw).2 h
  have haa : ¬ Anc (upd P a q) a a := by
    intro h
    rcases anc_inv h with h | ⟨w, hw, h⟩
    · have : q = some a := by simpa [upd] using h
      exact (hq a this).1 rfl
    · have : q = some w := by simpa [upd] using hw
      exact key w this h
  intro x hx
  rcases anc_upd hx with h | ⟨h1, h2⟩
  · exact hP x h
  · rcases h1 with h1 | h1
    · subst h1; exact haa h2
    · -- x →+ a in P and a →+ x in P' : then a → w with w = x or w →+ x →+ a … use key on first step
      rcases anc_inv h2 with h2 | ⟨w, hw, h2⟩
      · have hqx : q = some x := by simpa [upd] using h2
        exact (hq x hqx).2 h1
      · have hqw : q = some w := by simpa [upd] using hw
        -- w →+ x (P') ; decompose
        rcases anc_upd h2 with h3 | ⟨h3, h4⟩
        · exact (hq w hqw).2 (h3.trans h1)
        · rcases h3 with h3 | h3
          · exact (hq w hqw).1 h3
          · exact (hq w hqw).2 h3

/-- simultaneous update: every `o` with `S o` gets parent `t` -/
def updS (P : Nat → Option Nat) (S : Nat → Bool) (t : Nat) : Nat → Option Nat :=
  fun x => if S x = true then some t else P x

theorem anc_updS {P : Nat → Option Nat} {S : Nat → Bool} {t u v : Nat} (h : Anc (updS P S t) u v) :
    Anc P u v ∨ ((S u = true ∨ ∃ s, S s = true ∧ Anc P u s) ∧ (t = v ∨ Anc (updS P S t) t v)) := by
  induction h with
  | @base x y hxy =>
    by_cases hx : S x = true
    · right; refine ⟨Or.inl hx, Or.inl ?_⟩
      simpa [updS, hx] using hxy
    · left; apply Anc.base; simpa [updS, hx] using hxy
  | @step x y z hxy hyz ih =>
    by_cases hx : S x = true
    · right; refine ⟨Or.inl hx, Or.inr ?_⟩
      have : t = y := by simpa [updS, hx] using hxy
      subst this; exact hyz
    · have hP : P x = some y := by simpa [updS, hx] using hxy
      rcases ih with ih | ⟨hy, hz⟩
      · exact Or.inl (Anc.step hP ih)
      · right; refine ⟨Or.inr ?_, hz⟩
        rcases hy with hy | ⟨s, hs, hys⟩
        · exact ⟨y, hy, Anc.base hP⟩
        · exact ⟨s, hs, Anc.step hP hys⟩

theorem noCycle_updS {P : Nat → Option Nat} {S : Nat → Bool} {t : Nat} (hP : NoCycle P)
    (ht : S t = false) (hS : ∀ o, S o = true → P o = P t) : NoCycle (updS P S t) := by
  have claimC : ∀ s, S s = true → ¬ Anc P t s := by
    intro s hs h
    rcases anc_inv h with h | ⟨w, hw, h⟩
    · have : P s = some s := by rw [hS s hs]; exact h
      exact hP s (Anc.base this)
    · have : P s = some w := by rw [hS s hs]; exact hw
      exact hP w (h.snoc this)
  have claimD : ∀ v, Anc (updS P S t) t v → Anc P t v := by
    intro v h
    rcases anc_updS h with h | ⟨h, _⟩
    · exact h
    · rcases h with h | ⟨s, hs, h⟩
      · rw [ht] at h; exact absurd h (by decide)
      · exact absurd h (claimC s hs)
  intro x hx
  rcases anc_updS hx with h | ⟨h1, h2⟩
  · exact hP x h
  · rcases h2 with h2 | h2
    · subst h2
      rcases h1 with h1 | ⟨s, hs, h1⟩
      · rw [ht] at h1; exact absurd h1 (by decide)
      · exact claimC s hs h1
    · have h2' := claimD x h2
      rcases h1 with h1 | ⟨s, hs, h1⟩
      · exact claimC x h1 h2'
      · exact claimC s hs (h2'.trans h1)

/-! ### heap bookkeeping -/

theorem findNode_id {h : Heap} {a : Nat} {n : Node} (hn : findNode h a = some n) : n.id = a := by
  have := List.find?_some hn
  simpa using this

theorem findNode_map (h : Heap) (f : Node → Node) (hf : ∀ n, (f n).id = n.id) (a : Nat) :
    findNode (h.map f) a = (findNode h a).map f := by
  induction h with
  | nil => rfl
  | cons n t ih =>
    simp only [findNode, List.map_cons, List.find?_cons, hf] at ih ⊢
    split
    · simp
    · exact ih

theorem hasId_iff (h : Heap) (a : Nat) : hasId h a = (findNode h a).isSome := by
  induction h with
  | nil => rfl
  | cons n t ih =>
    simp only [hasId, findNode, List.any_cons, List.find?_cons] at ih ⊢
    by_cases hn : (n.id == a) = true
    · simp [hn]
    · simp only [hn, Bool.false_or]
      exact ih

theorem hasId_map (h : Heap) (f : Node → Node) (hf : ∀ n, (f n).id = n.id) (a : Nat) :
    hasId (h.map f) a = hasId h a := by
  rw [hasId_iff, hasId_iff, findNode_map h f hf]; simp

theorem length_setWeight (h : Heap) (a w : Nat) : (setWeight h a w).length = h.length := by
  simp [setWeight]

theorem setWeight_id (a w : Nat) (n : Node) :
    (if (n.id == a) = true then { n with weight := w } else n).id = n.id := by split <;> rfl
theorem setParent_id (a : Nat) (q : Option Nat) (n : Node) :
    (if (n.id == a) = true then { n with parent := q } else n).id = n.id := by split <;> rfl
theorem adopt_id (sid : Nat) (par : Option Nat) (n : Node) :
    (if (n.isOpen && n.id != sid && n.parent == par) = true then { n with parent := some sid } else n).id = n.id := by
  split <;> rfl
theorem close_id (a : Nat) (n : Node) :
    (if (n.id == a) = true then { n with isOpen := false } else n).id = n.id := by split <;> rfl

theorem parOf_setWeight (h : Heap) (a w : Nat) : parOf (setWeight h a w) = parOf h := by
  funext x
  simp only [parOf, setWeight, findNode_map h _ (setWeight_id a w)]
  cases findNode h x with
  | none => rfl
  | some n => simp only [Option.map_some]; split <;> rfl

theorem parOf_closeNode (h : Heap) (a : Nat) : parOf (closeNode h a) = parOf h := by
  funext x
  simp only [parOf, closeNode, findNode_map h _ (close_id a)]
  cases findNode h x with
  | none => rfl
  | some n => simp only [Option.map_some]; split <;> rfl

theorem hasId_setWeight (h : Heap) (a w b : Nat) : hasId (setWeight h a w) b = hasId h b :=
  hasId_map h _ (setWeight_id a w) b
theorem hasId_setParent (h : Heap) (a : Nat) (q : Option Nat) (b : Nat) : hasId (setParent h a q) b = hasId h b :=
  hasId_map h _ (setParent_id a q) b
theorem hasId_adopt (h : Heap) (sid : Nat) (par : Option Nat) (b : Nat) : hasId (adopt h sid par) b = hasId h b :=
  hasId_map h _ (adopt_id sid par) b
theorem hasId_closeNode (h : Heap) (a b : Nat) : hasId (closeNode h a) b = hasId h b :=
  hasId_map h _ (close_id a) b

theorem parOf_setParent (h : Heap) (a : Nat) (q : Option Nat) (ha : hasId h a = true) :
    parOf (setParent h a q) = upd (parOf h) a q := by
  funext x
  simp only [parOf, setParent, findNode_map h _ (setParent_id a q), upd]
  cases hx : findNode h x with
  | none =>
    simp only [Option.map_none]
    split
    · rename_i hxa; subst hxa; rw [hasId_iff, hx] at ha; exact absurd ha (by decide)
    · rfl
  | some n =>
    have hid := findNode_id hx
    simp only [Option.map_some, hid]
    by_cases hxa : x = a
    · simp [hxa]
    · simp [hxa]

/-- the set of streams adopted by an exclusive dependency -/
def adoptSet (h : Heap) (sid : Nat) (par : Option Nat) (x : Nat) : Bool :=
  match findNode h x with
  | some n => n.isOpen && n.id != sid && n.parent == par
  | none => false

theorem parOf_adopt_aux (sid : Nat) (par : Option Nat) (o : Option Node) :
    (match Option.map (fun n : Node => if (n.isOpen && n.id != sid && n.parent == par) = true then
          { n with parent := some sid } else n) o with
      | some n => n.parent
      | none => none) =
    if (match o with
        | some n => n.isOpen && n.id != sid && n.parent == par
        | none => false) = true then some sid
    else match o with
      | some n => n.parent
      | none => none := by
  cases o with
  | none => simp
  | some n =>
    simp only [Option.map_some]
    split <;> rfl

theorem parOf_adopt (h : Heap) (sid : Nat) (par : Option Nat) :
    parOf (adopt h sid par) = updS (parOf h) (adoptSet h sid par) sid := by
  funext x
  simp only [parOf, adopt, findNode_map h _ (adopt_id sid par), updS, adoptSet]
  exact parOf_adopt_aux sid par (findNode h x)

theorem adoptSet_self (h : Heap) (sid : Nat) (par : Option Nat) : adoptSet h sid par sid = false := by
  unfold adoptSet
  cases hx : findNode h sid with
  | none => rfl
  | some n => simp [findNode_id hx]

theorem adoptSet_par {h : Heap} {sid : Nat} {par : Option Nat} {o : Nat}
    (ho : adoptSet h sid par o = true) : parOf h o = par := by
  unfold adoptSet at ho
  unfold parOf
  cases hx : findNode h o with
  | none => rw [hx] at ho; simp at ho
  | some n =>
    rw [hx] at ho
    simp only [Bool.and_eq_true, beq_iff_eq] at ho
    exact ho.2

theorem openNode_find {h : Heap} {a : Nat} {n : Node} (hn : openNode h a = some n) : findNode h a = some n := by
  unfold openNode at hn
  cases hx : findNode h a with
  | none => rw [hx] at hn; exact absurd hn (by simp)
  | some m =>
    rw [hx] at hn
    simp only at hn
    split at hn
    · exact hn
    · exact absurd hn (by simp)

/-! ### the ancestor walk -/

theorem reaches_spec (h : Heap) (t : Nat) : ∀ (fuel : Nat) (c : Nat) (r : Bool),
    reaches h t fuel (some c) = some r → (r = true ↔ (c = t ∨ Anc (parOf h) c t)) := by
  intro fuel
  induction fuel with
  | zero => intro c r hr; simp [reaches] at hr
  | succ f ih =>
    intro c r hr
    simp only [reaches] at hr
    by_cases hct : c = t
    · simp [hct] at hr; simp [hct, hr.symm]
    · simp only [beq_iff_eq, hct, if_false] at hr
      cases hp : parOf h c with
      | none =>
        rw [hp] at hr; simp only [reaches] at hr
        have : r = false := by simpa using hr.symm
        subst this
        constructor
        · intro h; exact absurd h (by decide)
        · rintro (h | h)
          · exact absurd h hct
          · rcases anc_inv h with h | ⟨b, hb, _⟩
            · rw [hp] at h; exact absurd h (by simp)
            · rw [hp] at hb; exact absurd hb (by simp)
      | some d =>
        rw [hp] at hr
        have := ih d r hr
        rw [this]
        constructor
        · rintro (h | h)
          · subst h; exact Or.inr (Anc.base hp)
          · exact Or.inr (Anc.step hp h)
        · rintro (h | h)
          · exact absurd h hct
          · rcases anc_inv h with h | ⟨b, hb, h⟩
            · rw [hp] at h; left; exact (Option.some.inj h)
            · rw [hp] at hb; have := Option.some.inj hb; subst this; exact Or.inr h

/-- fuel sufficiency (pigeonhole): on an acyclic closed heap the walk ends within `length` steps -/
theorem reaches_fuel (h : Heap) (t : Nat) (hN : NoCycle (parOf h)) (hC : Closed h) :
    ∀ (fuel : Nat) (vis : List Nat) (c : Nat),
      (∀ x ∈ vis, Anc (parOf h) x c) → vis.Nodup → (∀ x ∈ vis, x ∈ h.map (·.id)) → c ∈ h.map (·.id) →
      h.length ≤ vis.length + fuel → reaches h t fuel (some c) ≠ none := by
  intro fuel
  induction fuel with
  | zero =>
    intro vis c hanc hnd hsub hc hlen
    exfalso
    have hcv : c ∉ vis := fun hm => hN c (hanc c hm)
    have hnd' : (c :: vis).Nodup := List.nodup_cons.mpr ⟨hcv, hnd⟩
    have hsub' : (c :: vis) ⊆ h.map (·.id) := by
      intro x hx
      rcases List.mem_cons.mp hx with rfl | hx
      · exact hc
      · exact hsub x hx
    have := List.Nodup.length_le_of_subset hnd' hsub'
    simp at this hlen
    omega
  | succ f ih =>
    intro vis c hanc hnd hsub hc hlen
    simp only [reaches]
    split
    · simp
    · cases hp : parOf h c with
      | none => simp [reaches]
      | some d =>
        have hcv : c ∉ vis := fun hm => hN c (hanc c hm)
        apply ih (c :: vis) d
        · intro x hx
          rcases List.mem_cons.mp hx with rfl | hx
          · exact Anc.base hp
          · exact (hanc x hx).snoc hp
        · exact List.nodup_cons.mpr ⟨hcv, hnd⟩
        · intro x hx
          rcases List.mem_cons.mp hx with rfl | hx
          · exact hc
          · exact hsub x hx
        · have := hC c d hp
          simpa [hasId] using this
        · simp; omega

/-! ### `Closed` bookkeeping -/

theorem closed_setWeight {h : Heap} (hC : Closed h) (a w : Nat) : Closed (setWeight h a w) := by
  intro x b hx
  rw [parOf_setWeight] at hx
  rw [hasId_setWeight]; exact hC x b hx

theorem closed_closeNode {h : Heap} (hC : Closed h) (a : Nat) : Closed (closeNode h a) := by
  intro x b hx
  rw [parOf_closeNode] at hx
  rw [hasId_closeNode]; exact hC x b hx

theorem closed_setParent {h : Heap} (hC : Closed h) {a : Nat} {q : Option Nat} (ha : hasId h a = true)
    (hq : ∀ b, q = some b → hasId h b = true) : Closed (setParent h a q) := by
  intro x b hx
  rw [parOf_setParent _ _ _ ha] at hx
  rw [hasId_setParent]
  unfold upd at hx
  split at hx
  · exact hq b hx
  · exact hC x b hx

theorem closed_adopt {h : Heap} (hC : Closed h) {sid : Nat} (par : Option Nat) (ha : hasId h sid = true) :
    Closed (adopt h sid par) := by
  intro x b hx
  rw [parOf_adopt] at hx
  rw [hasId_adopt]
  unfold updS at hx
  split at hx
  · have := Option.some.inj hx; subst this; exact ha
  · exact hC x b hx

theorem parOf_append_new (h : Heap) (id : Nat) :
    parOf (h ++ [{ id := id, parent := none, weight := 0, isOpen := true }]) = parOf h := by
  funext x
  simp only [parOf, findNode, List.find?_append]
  cases hx : List.find? (fun n => n.id == x) h with
  | some n => simp
  | none =>
    simp only [Option.none_or, List.find?_cons, List.find?_nil]
    split <;> rename_i heq
    · split at heq
      · have := Option.some.inj heq; subst this; rfl
      · exact absurd heq (by simp)
    · rfl

theorem hasId_append (h : Heap) (n : Node) (b : Nat) : hasId (h ++ [n]) b = (hasId h b || n.id == b) := by
  simp [hasId]

/-! ### weights -/

theorem weightOf_map_keep (h : Heap) (f : Node → Node) (hid : ∀ n, (f n).id = n.id)
    (hw : ∀ n, (f n).weight = n.weight) (a : Nat) : weightOf (h.map f) a = weightOf h a := by
  unfold weightOf
  rw [findNode_map h f hid]
  cases findNode h a with
  | none => rfl
  | some n => simp [hw]

theorem weightOf_setParent (h : Heap) (a : Nat) (q : Option Nat) (x : Nat) :
    weightOf (setParent h a q) x = weightOf h x :=
  weightOf_map_keep h _ (setParent_id a q) (fun n => by split <;> rfl) x

theorem weightOf_adopt (h : Heap) (sid : Nat) (par : Option Nat) (x : Nat) :
    weightOf (adopt h sid par) x = weightOf h x :=
  weightOf_map_keep h _ (adopt_id sid par) (fun n => by split <;> rfl) x

theorem weightOf_closeNode (h : Heap) (a x : Nat) : weightOf (closeNode h a) x = weightOf h x :=
  weightOf_map_keep h _ (close_id a) (fun n => by split <;> rfl) x

theorem weightOf_setWeight (h : Heap) (a w x : Nat) :
    weightOf (setWeight h a w) x = if x = a then (weightOf h x).map (fun _ => w) else weightOf h x := by
  unfold weightOf setWeight
  rw [findNode_map h _ (setWeight_id a w)]
  cases hx : findNode h x with
  | none => simp
  | some n =>
    have hid := findNode_id hx
    by_cases hxa : x = a
    · simp [hid, hxa]
    · simp [hid, hxa]

theorem hasId_mem (h : Heap) (a : Nat) : hasId h a = true ↔ a ∈ h.map (·.id) := by
  simp [hasId]

end BfeVerif.C36
