import BfeVerif.C08.Driver
def main : IO Unit := BfeVerif.Proto.driverMain BfeVerif.C08.run
