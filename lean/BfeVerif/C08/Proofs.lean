import BfeVerif.C08.Model
/-! C08 — helper lemmas about `balance` / `crossPhase` / `loop`. -/
namespace BfeVerif.C08
open BfeVerif.C07

theorem crossCandsAux_spec (ss : List Sub) (i p q : Nat) (h : q ∈ crossCandsAux ss i p) :
    q ≠ p ∧ i ≤ q ∧ ∃ sc, ss[q - i]? = some sc ∧ crossOK sc = true := by
  induction ss generalizing i with
  | nil => simp [crossCandsAux] at h
  | cons s rest ih =>
    simp only [crossCandsAux] at h
    split at h
    · rename_i hc
      simp only [List.mem_cons] at h
      rcases h with h | h
      · subst h
        simp at hc
        exact ⟨hc.1, Nat.le_refl _, s, by simp, hc.2⟩
      · obtain ⟨h1, h2, sc, h3, h4⟩ := ih (i + 1) h
        refine ⟨h1, by omega, sc, ?_, h4⟩
        have : q - i = (q - (i + 1)) + 1 := by omega
        rw [this]; simpa using h3
    · obtain ⟨h1, h2, sc, h3, h4⟩ := ih (i + 1) h
      refine ⟨h1, by omega, sc, ?_, h4⟩
      have : q - i = (q - (i + 1)) + 1 := by omega
      rw [this]; simpa using h3

theorem crossPhase_spec (pol : Policy) (cfg : Cfg) (p : Nat) (s : LS) :
    (crossPhase pol cfg p s).2.retry = s.retry ∧
    ∀ b sub x, (crossPhase pol cfg p s).1 = .ok b sub x →
      x = true ∧ cfg.cr > 0 ∧ sub ∈ crossCands cfg p := by
  unfold crossPhase
  split
  · simp
  · rename_i hcr
    dsimp only
    split
    · simp
    · rename_i hlen
      split
      · refine ⟨rfl, ?_⟩
        intro b sub x h
        simp only [BalRes.ok.injEq] at h
        obtain ⟨_, h2, h3⟩ := h
        refine ⟨h3.symm, by omega, ?_⟩
        rw [← h2]
        have hl : (crossCands cfg p).length ≠ 0 := by simpa using hlen
        have hi : s.choices.headD 0 % (crossCands cfg p).length < (crossCands cfg p).length :=
          Nat.mod_lt _ (by omega)
        rw [List.getD_eq_getElem?_getD, List.getElem?_eq_getElem hi]
        exact List.getElem_mem hi
      · simp

theorem balance_spec (pol : Policy) (cfg : Cfg) (s : LS) :
    s.retry ≤ (balance pol cfg s).2.retry ∧
    ∀ b sub x, (balance pol cfg s).1 = .ok b sub x →
      ((balance pol cfg s).2.retry : Int) ≤ cfg.rm + cfg.cr ∧
      (cfg.subs.getD (primary cfg) default).black = false ∧
      (x = false → sub = primary cfg ∧ ((balance pol cfg s).2.retry : Int) ≤ cfg.rm) ∧
      (x = true → cfg.cr > 0 ∧ sub ∈ crossCands cfg (primary cfg)) := by
  unfold balance
  split
  · simp
  · rename_i h0
    dsimp only
    split
    · simp
    · rename_i hbl
      have hbl' : (cfg.subs.getD (primary cfg) default).black = false := by simpa using hbl
      split
      · rename_i hin
        split
        · refine ⟨Nat.le_refl _, ?_⟩
          intro b sub x h
          simp only [BalRes.ok.injEq] at h
          obtain ⟨_, h2, h3⟩ := h
          refine ⟨by dsimp only; omega, hbl', fun _ => ⟨h2.symm, by dsimp only; omega⟩, fun hx => ?_⟩
          rw [hx] at h3; cases h3
        · rename_i cur' _
          have hs := crossPhase_spec pol cfg (primary cfg) { s with bs := cur', retry := cfg.rm.toNat }
          refine ⟨by rw [hs.1]; dsimp only; omega, ?_⟩
          intro b sub x h
          obtain ⟨hx, hcr, hm⟩ := hs.2 b sub x h
          refine ⟨by rw [hs.1]; dsimp only; omega, hbl', fun hf => ?_, fun _ => ⟨hcr, hm⟩⟩
          rw [hx] at hf; cases hf
      · have hs := crossPhase_spec pol cfg (primary cfg) s
        refine ⟨by rw [hs.1]; exact Nat.le_refl _, ?_⟩
        intro b sub x h
        obtain ⟨hx, hcr, hm⟩ := hs.2 b sub x h
        refine ⟨by rw [hs.1]; omega, hbl', fun hf => ?_, fun _ => ⟨hcr, hm⟩⟩
        rw [hx] at hf; cases hf

theorem allowRetry_may (cfg : Cfg) (rq : ReqSpec) (o : Rt) (h : allowRetry cfg rq o = true) :
    MayResend cfg rq o := by
  cases o <;> simp_all [allowRetry, MayResend, Rt.failed]

theorem resendOK_cons (cfg : Cfg) (rq : ReqSpec) (b sub : Nat) (x : Bool) (snap : Nat → Int) (o : Rt)
    (l : List Ev) (h1 : MayResend cfg rq o) (h2 : ResendOK cfg rq l) :
    ResendOK cfg rq (.rt b sub x snap o :: l) := by
  cases l with
  | nil => trivial
  | cons e' rest => exact ⟨h1, h2⟩

theorem loop_resend (pol : Policy) (cfg : Cfg) (rq : ReqSpec) : ∀ (n : Nat) (s : LS) (last : Err),
    ResendOK cfg rq (loop pol cfg rq n s last).evs := by
  intro n
  induction n with
  | zero => intro s last; simp [loop, ResendOK]
  | succ n ih =>
    intro s last
    rw [loop]
    split
    · exact ih _ _
    · trivial
    · dsimp only
      split
      · trivial
      · split
        · trivial
        · split
          · rename_i hal
            dsimp only
            exact resendOK_cons cfg rq _ _ _ _ _ _ (allowRetry_may cfg rq _ hal) (ih _ _)
          · trivial

theorem loop_bound (pol : Policy) (cfg : Cfg) (rq : ReqSpec) : ∀ (n : Nat) (s : LS) (last : Err),
    (rtCount (loop pol cfg rq n s last).evs : Int) ≤ max 0 (cfg.rm + cfg.cr + 1 - s.retry) ∧
    rtCount (loop pol cfg rq n s last).evs ≤ n := by
  intro n
  induction n with
  | zero => intro s last; simp [loop, rtCount]; omega
  | succ n ih =>
    intro s last
    have hb := balance_spec pol cfg s
    rw [loop]
    split
    · rename_i s1 heq
      rw [heq] at hb
      dsimp only at hb
      have := ih { s1 with retry := s1.retry + 1 } .crossbal
      dsimp only at this
      omega
    · simp [rtCount]; omega
    · rename_i b0 sub x s1 heq
      rw [heq] at hb
      dsimp only at hb
      have hok := (hb.2 b0 sub x rfl).1
      dsimp only
      split
      · simp [rtCount]; omega
      · split
        · simp [rtCount]; omega
        · split
          · dsimp only
            simp only [rtCount]
            have := ih ⟨pol.note cfg s1.bs (target cfg (s1.script.headD Attempt.dflt).fwd b0)
                           (s1.script.headD Attempt.dflt).rt,
                         upd (decTb s1.conn s1.tb) (target cfg (s1.script.headD Attempt.dflt).fwd b0) 1,
                         some (target cfg (s1.script.headD Attempt.dflt).fwd b0), s1.retry + 1,
                         ecOf s1.ec (s1.script.headD Attempt.dflt).rt, s1.cross, s1.script.tail, s1.choices,
                         b0 :: s1.picks⟩
                       (errOf (s1.script.headD Attempt.dflt).rt)
            dsimp only at this
            omega
          · simp [rtCount]; omega

theorem loop_in_bound (pol : Policy) (cfg : Cfg) (rq : ReqSpec) : ∀ (n : Nat) (s : LS) (last : Err),
    (inCount (loop pol cfg rq n s last).evs : Int) ≤ max 0 (cfg.rm + 1 - s.retry) := by
  intro n
  induction n with
  | zero => intro s last; simp [loop, inCount]; omega
  | succ n ih =>
    intro s last
    have hb := balance_spec pol cfg s
    rw [loop]
    split
    · rename_i s1 heq
      rw [heq] at hb
      dsimp only at hb
      have := ih { s1 with retry := s1.retry + 1 } .crossbal
      dsimp only at this
      omega
    · simp [inCount]; omega
    · rename_i b0 sub x s1 heq
      rw [heq] at hb
      dsimp only at hb
      have hin : x = false → (s1.retry : Int) ≤ cfg.rm := fun hx => ((hb.2 b0 sub x rfl).2.2.1 hx).2
      dsimp only
      split
      · simp [inCount]; omega
      · split
        · cases x with
          | true => simp [inCount]; omega
          | false => have h' := hin rfl; simp [inCount]; omega
        · split
          · dsimp only
            have := ih ⟨pol.note cfg s1.bs (target cfg (s1.script.headD Attempt.dflt).fwd b0)
                           (s1.script.headD Attempt.dflt).rt,
                         upd (decTb s1.conn s1.tb) (target cfg (s1.script.headD Attempt.dflt).fwd b0) 1,
                         some (target cfg (s1.script.headD Attempt.dflt).fwd b0), s1.retry + 1,
                         ecOf s1.ec (s1.script.headD Attempt.dflt).rt, s1.cross, s1.script.tail, s1.choices,
                         b0 :: s1.picks⟩
                       (errOf (s1.script.headD Attempt.dflt).rt)
            dsimp only at this
            cases x with
            | true => simp only [inCount]; omega
            | false => have h' := hin rfl; simp only [inCount]; omega
          · cases x with
            | true => simp [inCount]; omega
            | false => have h' := hin rfl; simp [inCount]; omega

theorem subOK_of_balance (pol : Policy) (cfg : Cfg) (s : LS) (b b0 sub : Nat) (x : Bool) (s1 : LS)
    (heq : balance pol cfg s = (BalRes.ok b0 sub x, s1)) (snap : Nat → Int) (o : Rt) :
    SubOK cfg (.rt b sub x snap o) := by
  have hb := (balance_spec pol cfg s).2 b0 sub x (by rw [heq])
  obtain ⟨_, hbl, hf, ht⟩ := hb
  refine ⟨fun hx => ?_, fun hx => ?_⟩
  · have := (hf hx).1; subst this; exact ⟨rfl, hbl⟩
  · obtain ⟨hcr, hm⟩ := ht hx
    obtain ⟨h1, _, sc, h3, h4⟩ := crossCandsAux_spec cfg.subs 0 (primary cfg) sub hm
    refine ⟨hcr, h1, sc, by simpa using h3, ?_⟩
    simp [crossOK] at h4
    exact ⟨h4.2, h4.1⟩

theorem loop_sub (pol : Policy) (cfg : Cfg) (rq : ReqSpec) : ∀ (n : Nat) (s : LS) (last : Err),
    ∀ e ∈ (loop pol cfg rq n s last).evs, SubOK cfg e := by
  intro n
  induction n with
  | zero => intro s last; simp [loop]
  | succ n ih =>
    intro s last
    rw [loop]
    split
    · exact ih _ _
    · simp
    · rename_i b0 sub x s1 heq
      dsimp only
      split
      · intro e he; simp only [List.mem_singleton] at he; subst he; trivial
      · split
        · intro e he; simp only [List.mem_singleton] at he; subst he
          exact subOK_of_balance pol cfg s _ b0 sub x s1 heq _ _
        · split
          · intro e he
            dsimp only at he
            simp only [List.mem_cons] at he
            rcases he with he | he
            · subst he; exact subOK_of_balance pol cfg s _ b0 sub x s1 heq _ _
            · exact ih _ _ e he
          · intro e he; simp only [List.mem_singleton] at he; subst he
            exact subOK_of_balance pol cfg s _ b0 sub x s1 heq _ _

theorem resendOK_index (cfg : Cfg) (rq : ReqSpec) (l : List Ev) (h : ResendOK cfg rq l) :
    ∀ i, i + 1 < l.length → ∃ b sub x snap o, l[i]? = some (.rt b sub x snap o) ∧ MayResend cfg rq o := by
  induction l with
  | nil => intro i hi; simp at hi
  | cons e rest ih =>
    intro i hi
    cases rest with
    | nil => simp at hi
    | cons e' rest' =>
      obtain ⟨h1, h2⟩ := h
      cases i with
      | zero =>
        cases e with
        | rt b sub x snap o => exact ⟨b, sub, x, snap, o, by simp, h1⟩
        | fin _ _ => exact absurd h1 id
      | succ i =>
        have := ih h2 i (by simpa using hi)
        simpa using this

end BfeVerif.C08
