import BfeVerif.Common.Proto
import BfeVerif.C08.Model
import BfeVerif.C07.Render
import BfeVerif.C08.Transport
/-!
  C08 driver.  Same op / result line as C07 (harness/cmd/c07/sim).

  Spec oracle, judged on the IMPLEMENTATION's trace with the op's own script (independent of the model's
  loop): for every clusterInvoke
   * an event followed by another event must be a RoundTrip whose scripted outcome is a connect error, or
     any failure when RetryLevel = 1, method = "GET" and the body is nil / EofReader / finished SPDY body;
   * the number of RoundTrips is ≤ max 0 (1 + RetryMax + CrossRetry) and ≤ 20;
   * at most max 0 (1 + RetryMax) RoundTrips go to the hashed sub-cluster (further ones are cross retries and
     must go elsewhere);
   * no RoundTrip goes to the black hole; a RoundTrip outside the hashed sub-cluster needs CrossRetry > 0
     and a sub-cluster of weight ≥ 0.
-/
namespace BfeVerif.C08
open BfeVerif.Proto
open BfeVerif.C07

def subOfLabel (cfg : Cfg) (l : String) : Option (Nat × Sub) :=
  let nm := (l.dropEnd 1).toString
  (cfg.subs.zipIdx.find? fun p => p.1.name == nm).map fun p => (p.2, p.1)

def judgeResend (rl : Nat) (m bd : Char) (script : List Attempt) : List IEv → Nat → Option String
  | [], _ => none
  | [_], _ => none
  | e :: e' :: rest, j =>
    if e.fin then some "continue-after-finish"
    else
      let o := (script.getD j Attempt.dflt).rt
      let isGet := m == 'G'
      let noBody := bd == 'n' || bd == 'e' || bd == 's'
      if o == .connect then judgeResend rl m bd script (e' :: rest) (j + 1)
      else if !Rt.failed o then some "resend-after-response"
      else if rl != 1 then some "resend-level"
      else if !isGet then some "resend-non-get"
      else if !noBody then some "resend-body"
      else judgeResend rl m bd script (e' :: rest) (j + 1)

def judgeSubs (cfg : Cfg) (p : Nat) : List IEv → Option String
  | [] => none
  | e :: es =>
    if e.fin then judgeSubs cfg p es
    else
      match subOfLabel cfg e.pick with
      | none => some "unknown-backend"
      | some (i, sc) =>
        if sc.black then some "blackhole-attempt"
        else if i != p && cfg.cr ≤ 0 then some "cross-disabled"
        else if i != p && sc.weight < 0 then some "cross-negative-weight"
        else judgeSubs cfg p es

def judgeInv (sc : Scenario) (s : IStep) : Option String :=
  if s.panic then some "panic" else
  let rq := sc.reqs.getD s.k ⟨false, false, [], [], none⟩
  let m := sc.methods.getD s.k ' '
  let bd := sc.bodies.getD s.k ' '
  match judgeResend sc.cfg.rl m bd rq.script s.evs 0 with
  | some c => some c
  | none =>
    let nrt : Nat := (s.evs.filter fun e => !e.fin).length
    if (nrt : Int) > max 0 (1 + sc.cfg.rm + sc.cfg.cr) then some "too-many-attempts"
    else if nrt > 20 then some "over-20"
    else
      let p := primary sc.cfg
      let nprim : Nat := (s.evs.filter fun e => !e.fin && ((subOfLabel sc.cfg e.pick).map (·.1) == some p)).length
      if (nprim : Int) > max 0 (1 + sc.cfg.rm) then some "cross-stays-in-primary"
      else judgeSubs sc.cfg p s.evs

/-! failNum bookkeeping, recounted from the implementation's own trace and the op's script (independent of the model's
    loop): a RoundTrip that ends with a response resets the backend's failNum (OnSuccess) unless its status is an outlier
    status of the cluster (then it counts as a failure), one that ends with a
    connect / write (not caused by the client) / read-header / timeout error adds exactly one (OnFail), everything else
    leaves it; the health check's recovery (u step) resets it. -/

def bumpFail (m : List (String × Nat)) (l : String) (f : Nat → Nat) : List (String × Nat) :=
  if m.any (·.1 == l) then m.map fun p => if p.1 == l then (p.1, f p.2) else p else (l, f 0) :: m

def failsAfter (od : Nat) (script : List Attempt) : List IEv → Nat → List (String × Nat) → List (String × Nat)
  | [], _, m => m
  | e :: es, j, m =>
    if e.fin then failsAfter od script es (j + 1) m
    else
      let m' := match (script.getD j Attempt.dflt).rt with
        | .ok st => if outlier od st then bumpFail m e.label (· + 1) else bumpFail m e.label fun _ => 0
        | .connect | .write | .rhdr | .timeout => bumpFail m e.label (· + 1)
        | _ => m
      failsAfter od script es (j + 1) m'

def flEq (m : List (String × Nat)) (fl : String) : Bool :=
  match parseSnap fl with
  | none => false
  | some s =>
    (s.all fun p => ((m.find? fun q => q.1 == p.1).map (·.2)).getD 0 == p.2.toNat) &&
    (m.all fun q => q.2 == 0 || s.any fun p => p.1 == q.1 && p.2.toNat == q.2)

def judgeFails (sc : Scenario) : List IStep → List (String × Nat) → Option String
  | [], _ => none
  | s :: ss, m =>
    if s.isInv then
      if s.panic then none else
      let rq := sc.reqs.getD s.k ⟨false, false, [], [], none⟩
      let m' := failsAfter sc.cfg.od rq.script s.evs 0 m
      if s.fl != "" && !flEq m' s.fl then some "failnum-mismatch" else judgeFails sc ss m'
    else if s.flip then
      -- u<k>: recovery resets the failNum of backend #k ; d / x leave it
      judgeFails sc ss (match parseSnap s.fl with
        | some snap => m.map fun q => if snap.any (·.1 == q.1) then q else (q.1, 0)
        | none => m)
    else judgeFails sc ss m

def specVerdict (sc : Scenario) (impl : String) : String :=
  match parseImpl impl with
  | none => "FAIL:unparsable"
  | some steps =>
    match (steps.filter (·.isInv)).findSome? (judgeInv sc) with
    | some c => "FAIL:" ++ c
    | none =>
      match judgeFails sc steps [] with
      | some c => "FAIL:" ++ c
      | none => "ok"

def rtTag : Rt → String
  | .ok _ => "resp" | .connect => "connect" | .write => "write" | .writeT => "write" | .rhdr => "rhdr"
  | .timeout => "timeout" | .broken => "broken" | .other => "other" | .panic => "panic"

def tagsOf (sc : Scenario) (steps : List IStep) (nd : Bool) : List String :=
  let invs := steps.filter (·.isInv)
  let p := primary sc.cfg
  let per := invs.map fun s =>
    let rq := sc.reqs.getD s.k ⟨false, false, [], [], none⟩
    let nrt : Nat := (s.evs.filter fun e => !e.fin).length
    let retried := s.evs.length ≥ 2
    let first := rtTag (rq.script.getD 0 Attempt.dflt).rt
    let lastIdx := s.evs.length - 1
    let lastO := (rq.script.getD lastIdx Attempt.dflt).rt
    let crossed := s.evs.any fun e => !e.fin && ((subOfLabel sc.cfg e.pick).map (·.1) != some p)
    (if retried then ["nt", "retried"] else []) ++
    (if retried && rq.isGET && rq.noBody && sc.cfg.rl == 1 then ["get-rule"] else []) ++
    (if !retried && nrt == 1 && Rt.failed lastO && lastO != .connect then ["refused-" ++ rtTag lastO] else []) ++
    (if (nrt : Int) == 1 + sc.cfg.rm + sc.cfg.cr && nrt ≥ 2 then ["bound-hit"] else []) ++
    (if nrt == 20 then ["cap20"] else []) ++
    (if crossed then ["cross"] else []) ++
    (if s.evs.any (·.fin) then ["fwd-finish"] else []) ++
    (if nrt == 0 then ["no-attempt"] else ["first-" ++ first])
  (per.flatten.eraseDups) ++ (if nd then ["nd"] else []) ++
  (if sc.cfg.mode == 1 then ["wlc"] else if sc.cfg.mode == 2 then ["sticky"] else ["wrr"]) ++
  (if sc.cfg.failNum > 0 then ["health"] else [])

def run (op impl : String) : Ans :=
  if op.startsWith "tr/" then Tr.run op impl else
  match parseOp op with
  | none => { model := "bad-op", verdict := "skip" }
  | some sc =>
    if totalWeight sc.cfg.subs ≤ 0 then { model := "err:init", verdict := "skip", tags := ["init"] }
    else if impl.startsWith "bad-w" then { model := "bad-w", verdict := "skip" }
    else
      let (g, chs) := runResolved sc (impl.splitOn " | ")
      let nd := (choiceSpace sc.cfg).length > 1 && chs.any fun c => !c.isEmpty
      { model := renderG sc.cfg g
        verdict := specVerdict sc impl
        tags := tagsOf sc ((parseImpl impl).getD []) nd }

end BfeVerif.C08
