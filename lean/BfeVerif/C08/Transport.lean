import BfeVerif.Common.Proto
import BfeVerif.C08.Model
import BfeVerif.C07.Render
/-!
  C08, third op stream (`tr/...`): the real clusterInvoke on the real bfe_http.Transport with connections that break
  after k bytes.  The error TYPE that comes out of RoundTrip and the number of client-body bytes consumed per attempt
  are the implementation's; the driver feeds the observed outcome kinds to the model as its script (an oracle stream,
  like the random choices) and the model has to reproduce the whole retry structure: which backend each attempt
  goes to, whether another attempt follows, the final result and RetryTime.

  Spec oracle on the implementation's line (this is where the transport's classification is judged):
   * `resend-after-body-consumed`   an attempt other than the first starts with body bytes already consumed
   * `connect-error-after-body-bytes`  RoundTrip reported a ConnectError although body bytes were consumed during it
     (the hypothesis of theorem C08_no_consumed_body_resent)
  Core-only.
-/
namespace BfeVerif.C08.Tr
open BfeVerif.Proto
open BfeVerif.C07

structure TReq where
  isGET : Bool
  len : Nat

structure TOp where
  rm : Int
  rl : Nat
  nb : Nat
  reqs : List TReq

def parseTOp (op : String) : Option TOp :=
  match op.splitOn "/" with
  | ["tr", ps, rs] => do
    let kvs ← (ps.splitOn ",").mapM fun f =>
      match f.splitOn "=" with
      | [k, v] => v.toNat?.map fun n => (k, n)
      | _ => none
    let get (k : String) : Option Nat := (kvs.find? fun p => p.1 == k).map (·.2)
    let rm ← get "rm"
    let rl ← get "rl"
    let nb ← get "nb"
    let reqs ← (rs.splitOn ";").mapM fun r =>
      match r.splitOn ":" with
      | [ml, _] =>
        match ml.toList with
        | m :: ds => (String.ofList ds).toNat?.bind fun l =>
            if m == 'G' then some ⟨true, l⟩ else if m == 'P' then some ⟨false, l⟩ else none
        | [] => none
      | _ => none
    if kvs.length != 3 || nb < 1 || nb > 2 || reqs.length > 6 then none else
    some ⟨rm, rl, nb, reqs⟩
  | _ => none

/-- one observed attempt: backend label, consumed at start, consumed during, kind -/
structure TAtt where
  label : String
  start : Nat
  delta : Nat
  kind : String

def parseAtt (s : String) : Option TAtt :=
  match s.splitOn " " with
  | [l, c, k] =>
    match (c.drop 2).toString.splitOn "+" with
    | [a, b] => do
      let x ← a.toNat?
      let y ← b.toNat?
      some ⟨l, x, y, k⟩
    | _ => none
  | _ => none

/-- attempts of request i in the implementation's line -/
def implAtts (step : String) : Option (List TAtt) :=
  match step.splitOn ":" with
  | _ :: rest =>
    let body := ":".intercalate rest
    let evPart := (body.splitOn ">").headD ""
    if evPart.isEmpty then some [] else (evPart.splitOn ",").mapM parseAtt
  | [] => none

def kindRt (k : String) : Rt :=
  if k.startsWith "ok" then .ok ((k.drop 2).toString.toNat?.getD 200)
  else if k == "connect" then .connect else if k == "write" then .write else if k == "rhdr" then .rhdr
  else if k == "timeout" then .timeout else if k == "broken" then .broken else .other

def rtKind : Rt → String
  | .ok s => "ok" ++ toString s | .connect => "connect" | .write | .writeT => "write" | .rhdr => "rhdr"
  | .timeout => "timeout" | .broken => "broken" | .other => "other" | .panic => "panic"

def cfgOf (p : TOp) : Cfg :=
  ⟨p.rm, 0, p.rl, 0, 0, 0, [⟨"a", 1, false, (List.range p.nb).map fun _ => ⟨true, 1⟩⟩], 0⟩

/-- run request after request (clusterInvoke then FinishReq), scripts = the observed kinds -/
def runT (p : TOp) (impl : String) : String :=
  let cfg := cfgOf p
  let steps := impl.splitOn " | "
  let rec go (g : G) (i : Nat) (reqs : List TReq) (acc : List String) : List String :=
    match reqs with
    | [] => acc.reverse
    | r :: rest =>
      let atts := (implAtts (steps.getD i "")).getD []
      let rq : ReqSpec := ⟨r.isGET, r.len == 0, atts.map fun a => ⟨.goon, kindRt a.kind⟩, [], none⟩
      let lr := loop realPolicy cfg rq 20 (entryLS g rq []) .nil
      let evs := lr.evs.zipIdx.map fun (e, j) =>
        match e with
        | .rt b _ _ _ o =>
          let a := atts.getD j ⟨"?", 0, 0, "?"⟩
          label cfg b ++ " c=" ++ toString a.start ++ "+" ++ toString a.delta ++ " " ++ rtKind o
        | .fin b _ => label cfg b ++ "F"
      let connF := decTb lr.st.conn lr.st.tb
      let line := "r" ++ toString i ++ ":" ++ ",".intercalate evs ++
        ">res=" ++ (match lr.res with | some s => toString s | none => "nil") ++
        -- reading the response body failed afterwards (observed; nothing may be resent then)
        (if ((steps.getD i "").splitOn "~bodyerr").length > 1 then "~bodyerr" else "") ++
        ",err=" ++ lr.err.str ++ ",act=" ++ toString lr.act ++ ";rt=" ++ toString lr.st.retry ++
        ";cn=" ++ renderConn cfg connF
      go { g with bs := lr.st.bs, conn := connF } (i + 1) rest (line :: acc)
  " | ".intercalate (go (G.init cfg 0) 0 p.reqs [])

/-- `rl`, `isGET`, `len` of the request: an attempt followed by another one must have failed with a connect error,
    or with any error when RetryLevel = 1 and the request is a body-less GET; never after a response -/
def judgeAtts (rl : Nat) (isGET : Bool) (len : Nat) : List TAtt → Nat → Option String
  | [], _ => none
  | a :: rest, j =>
    if j > 0 && a.start > 0 then some "resend-after-body-consumed"
    else if a.kind == "connect" && a.delta > 0 then some "connect-error-after-body-bytes"
    else if !rest.isEmpty && a.kind.startsWith "ok" then some "resend-after-response"
    else if !rest.isEmpty && a.kind != "connect" && !(rl == 1 && isGET && len == 0) then some ("resend-after-" ++ a.kind)
    else judgeAtts rl isGET len rest (j + 1)

def verdictT (p : TOp) (impl : String) : String :=
  if impl == "HANG" then "FAIL:tr-hang" else
  match (impl.splitOn " | ").mapM implAtts with
  | none => "FAIL:unparsable"
  | some all =>
    match (all.zip p.reqs).findSome? fun (atts, r) => judgeAtts p.rl r.isGET r.len atts 0 with
    | some c => "FAIL:" ++ c
    | none => "ok"

def tagsT (p : TOp) (impl : String) : List String :=
  let all := ((impl.splitOn " | ").mapM implAtts).getD []
  let flat := all.flatten
  ["tr"] ++ (if all.any fun a => a.length ≥ 2 then ["nt", "tr-retried"] else []) ++
  (if flat.any fun a => a.kind == "write" && a.delta > 0 then ["tr-write-midbody"] else []) ++
  (if flat.any fun a => a.kind == "write" && a.delta == 0 then ["tr-write-nobody"] else []) ++
  (if flat.any fun a => a.kind == "connect" then ["tr-connect"] else []) ++
  (if p.reqs.any fun r => r.len > 65536 then ["tr-bigbody"] else []) ++
  (if flat.any fun a => a.kind == "rhdr" then ["tr-rhdr"] else []) ++
  (if flat.any fun a => a.kind == "timeout" then ["tr-timeout"] else []) ++
  (if (impl.splitOn "~bodyerr").length > 1 then ["tr-body-truncated"] else [])

def run (op impl : String) : Ans :=
  match parseTOp op with
  | none => { model := "bad-op", verdict := "skip" }
  | some p => { model := runT p impl, verdict := verdictT p impl, tags := tagsT p impl }

end BfeVerif.C08.Tr
