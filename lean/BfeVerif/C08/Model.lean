import BfeVerif.C07.Model
import BfeVerif.Generated.C08
/-!
  C08 — retries are safe and bounded.  The executable model is the one of C07 (`BfeVerif.C07.loop` =
  the retry loop of clusterInvoke, `BfeVerif.C07.balance` = BalanceGslb.Balance, after fix
  C08-fcgi-write-error both `WriteRequestError` types take the same arm).  This file only adds the
  vocabulary of the property.  Core-only.
-/
namespace BfeVerif.C08
open BfeVerif.C07

/-- the RoundTrip failed (anything but a response) -/
def Rt.failed : Rt → Bool
  | .ok _ => false
  | _ => true

/-- what the property accepts as a reason for sending the request again after outcome `o` -/
def MayResend (cfg : Cfg) (rq : ReqSpec) (o : Rt) : Prop :=
  o = .connect ∨ (Rt.failed o = true ∧ cfg.rl = 1 ∧ rq.isGET = true ∧ rq.noBody = true)

instance (cfg : Cfg) (rq : ReqSpec) (o : Rt) : Decidable (MayResend cfg rq o) := by
  unfold MayResend; exact inferInstance

/-- every event that is followed by another one is a RoundTrip whose failure may be retried -/
def ResendOK (cfg : Cfg) (rq : ReqSpec) : List Ev → Prop
  | [] => True
  | [_] => True
  | e :: e' :: rest =>
    (match e with
     | .rt _ _ _ _ o => MayResend cfg rq o
     | .fin _ _ => False) ∧ ResendOK cfg rq (e' :: rest)

/-- number of RoundTrip invocations -/
def rtCount : List Ev → Nat
  | [] => 0
  | .rt _ _ _ _ _ :: es => rtCount es + 1
  | .fin _ _ :: es => rtCount es

/-- number of RoundTrips selected by the in-cluster path (viaCross = false) -/
def inCount : List Ev → Nat
  | [] => 0
  | .rt _ _ false _ _ :: es => inCount es + 1
  | _ :: es => inCount es

/-- what the property demands of the sub-cluster of one RoundTrip -/
def SubOK (cfg : Cfg) : Ev → Prop
  | .rt _ sub x _ _ =>
    (x = false → sub = primary cfg ∧ (cfg.subs.getD sub default).black = false) ∧
    (x = true → cfg.cr > 0 ∧ sub ≠ primary cfg ∧
      ∃ sc, cfg.subs[sub]? = some sc ∧ sc.black = false ∧ sc.weight ≥ 0)
  | .fin _ _ => True

/-! ### the regenerated `switch err.(type)` table (BfeVerif.Generated.C08, rewritten from the source on every check) -/

/-- how the model (and the harness' fault-injecting transport) classifies the Go error types -/
def classify (t : String) : Option Rt :=
  if t == "bfe_http.ConnectError" || t == "bfe_fcgi.ConnectError" then some .connect
  else if t == "bfe_http.WriteRequestError" || t == "bfe_fcgi.WriteRequestError" then some .write
  else if t == "bfe_http.ReadRespHeaderError" || t == "bfe_fcgi.ReadRespHeaderError" then some .rhdr
  else if t == "bfe_http.RespHeaderTimeoutError" then some .timeout
  else if t == "bfe_http.TransportBrokenError" then some .broken
  else none

/-- what the model's `allowRetry` does for an outcome, in the vocabulary of the extracted table -/
def armMode : Rt → String
  | .connect => "true"
  | .write | .writeT | .rhdr | .timeout | .broken => "check"
  | _ => "none"

/-- every type named in an arm of the source's switch is classified by the model into a kind whose
    retry rule is the one the arm assigns; the switch has a default arm that leaves allowRetry false -/
def switchTableOK (tbl : List (List String × String)) : Bool :=
  (tbl.all fun arm => arm.1.all fun t => (classify t).map armMode == some arm.2) &&
  tbl.contains ([], "none")

/-! ### the h2c transport's own retry (golang.org/x/net/http2, version pinned in go.mod: `shouldRetryRequest`)

    func shouldRetryRequest(req, err, afterBodyWrite) (*http.Request, error) {
        if !canRetryError(err) { return nil, err }
        if req.Body == nil || req.Body == http.NoBody { return req, nil }
        if req.GetBody != nil { body := req.GetBody(); newReq := *req; newReq.Body = body; return &newReq, nil }
        if !afterBodyWrite { return req, nil }
        return nil, fmt.Errorf("... cannot retry err after Request.Body was written ...") }

    Third-party code: transcribed, not verified (trusted base).  bfe_http.Transport and bfe_fcgi.Transport
    have no retry of their own (regenerated facts). -/

inductive H2Retry where
  | no        -- the error is returned to clusterInvoke
  | same      -- the same request (same Body reader) is sent again on a new connection
  | fresh     -- a copy with a fresh body from GetBody is sent
  deriving DecidableEq

def h2ShouldRetry (canRetryErr bodyNil hasGetBody afterBodyWrite : Bool) : H2Retry :=
  if !canRetryErr then .no
  else if bodyNil then .same
  else if hasGetBody then .fresh
  else if !afterBodyWrite then .same
  else .no

end BfeVerif.C08
