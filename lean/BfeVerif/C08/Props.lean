import BfeVerif.C08.Proofs
/-!
  C08 — retries are safe and bounded.  Property theorems only (helper lemmas are in `Proofs.lean`).
  `loop pol cfg rq n s last` is the retry loop of clusterInvoke with `n` iterations left (20 at entry),
  `.evs` its chronological list of events: `.rt b sub viaCross snap out` = RoundTrip to backend `b` of
  sub-cluster `sub` with result `out`; `.fin` = HandleForward ended the request (no RoundTrip).
  All theorems hold for every entry state `s` (in particular `RetryTime = 0`), every script of attempt
  outcomes and every stream of random cross-sub-cluster choices.
-/
namespace BfeVerif.C08
open BfeVerif.C07

/-- **C08 (resend)**: whenever an attempt is followed by another selection of a backend, that attempt was
    a RoundTrip that failed while connecting, or the request is a body-less GET, the cluster's retry
    level is RetryGet and the RoundTrip failed. -/
theorem C08_resend_only_if (pol : Policy) (cfg : Cfg) (rq : ReqSpec) (n : Nat) (s : LS) (last : Err) (i : Nat)
    (hi : i + 1 < (loop pol cfg rq n s last).evs.length) :
    ∃ b sub x snap o, (loop pol cfg rq n s last).evs[i]? = some (.rt b sub x snap o) ∧
      (o = .connect ∨ (Rt.failed o = true ∧ cfg.rl = 1 ∧ rq.isGET = true ∧ rq.noBody = true)) :=
  resendOK_index cfg rq _ (loop_resend pol cfg rq n s last) i hi

/-- **C08 (no body replay)**: a request whose body may already have been consumed (not nil / EofReader /
    finished SPDY body), or that is not a GET, is sent again only after connect errors. -/
theorem C08_no_body_replay (pol : Policy) (cfg : Cfg) (rq : ReqSpec) (n : Nat) (s : LS) (last : Err) (i : Nat)
    (hb : rq.noBody = false ∨ rq.isGET = false ∨ cfg.rl ≠ 1)
    (hi : i + 1 < (loop pol cfg rq n s last).evs.length) :
    ∃ b sub x snap, (loop pol cfg rq n s last).evs[i]? = some (.rt b sub x snap .connect) := by
  obtain ⟨b, sub, x, snap, o, h1, h2⟩ := C08_resend_only_if pol cfg rq n s last i hi
  rcases h2 with h2 | ⟨_, h3, h4, h5⟩
  · subst h2; exact ⟨b, sub, x, snap, h1⟩
  · rcases hb with hb | hb | hb
    · rw [h5] at hb; cases hb
    · rw [h4] at hb; cases hb
    · exact absurd h3 hb

/-- **C08 (no consumed body is resent, given the transport's contract)**: let `cons i` be the number of client-body
    bytes the i-th attempt consumed.  If the RoundTripper reports a ConnectError only for attempts that consumed
    nothing (`hT`; judged on the real bfe_http.Transport by the `tr/` correspondence stream, oracle class
    `connect-error-after-body-bytes`) and a body-less request has nothing to consume (`hB`), then whenever an
    attempt is followed by another one, no attempt up to it has consumed a single body byte: the next attempt
    starts with the body untouched. -/
theorem C08_no_consumed_body_resent (pol : Policy) (cfg : Cfg) (rq : ReqSpec) (n : Nat) (s : LS) (last : Err)
    (cons : Nat → Nat)
    (hT : ∀ i b sub x snap, (loop pol cfg rq n s last).evs[i]? = some (.rt b sub x snap .connect) → cons i = 0)
    (hB : rq.noBody = true → ∀ i, cons i = 0)
    (i : Nat) (hi : i + 1 < (loop pol cfg rq n s last).evs.length) :
    ∀ j, j ≤ i → cons j = 0 := by
  intro j hj
  obtain ⟨b, sub, x, snap, o, h1, h2⟩ := C08_resend_only_if pol cfg rq n s last j (by omega)
  rcases h2 with h2 | ⟨_, _, _, h5⟩
  · subst h2; exact hT j b sub x snap h1
  · exact hB h5 j

/-- **C08 (bound)**: the number of RoundTrip invocations of one clusterInvoke never exceeds
    1 + RetryMax + CrossRetry (counted from the entry RetryTime; 0 attempts if that is negative) nor the
    number of loop iterations. -/
theorem C08_bound (pol : Policy) (cfg : Cfg) (rq : ReqSpec) (n : Nat) (s : LS) (last : Err) :
    (rtCount (loop pol cfg rq n s last).evs : Int) ≤ max 0 (1 + cfg.rm + cfg.cr - s.retry) ∧
    rtCount (loop pol cfg rq n s last).evs ≤ n := by
  have := loop_bound pol cfg rq n s last
  omega

/-- the bound at the entry of clusterInvoke (RetryTime = 0, 20 iterations) -/
theorem C08_bound_entry (pol : Policy) (cfg : Cfg) (rq : ReqSpec) (g : G) (ch : List Nat) :
    let r := loop pol cfg rq 20 (entryLS g rq ch) .nil
    (rtCount r.evs : Int) ≤ max 0 (1 + cfg.rm + cfg.cr) ∧ rtCount r.evs ≤ 20 := by
  have := C08_bound pol cfg rq 20 (entryLS g rq ch) .nil
  rw [show (entryLS g rq ch).retry = 0 from rfl] at this
  simpa using this

/-- **C08 (cross retry goes elsewhere)**: a RoundTrip selected by the in-cluster path goes to the
    sub-cluster the request hashes to, which is not the black hole; a RoundTrip selected by the
    cross-retry path (only if CrossRetry > 0) goes to a different sub-cluster that is not the black hole
    and has weight ≥ 0.  (Stable hash key: with an empty key the code re-draws the hash per Balance call.) -/
theorem C08_cross_differs (pol : Policy) (cfg : Cfg) (rq : ReqSpec) (n : Nat) (s : LS) (last : Err)
    (b sub : Nat) (x : Bool) (snap : Nat → Int) (o : Rt)
    (he : Ev.rt b sub x snap o ∈ (loop pol cfg rq n s last).evs) :
    (x = false → sub = primary cfg ∧ (cfg.subs.getD sub default).black = false) ∧
    (x = true → cfg.cr > 0 ∧ sub ≠ primary cfg ∧
      ∃ sc, cfg.subs[sub]? = some sc ∧ sc.black = false ∧ sc.weight ≥ 0) :=
  loop_sub pol cfg rq n s last _ he

/-- **C08 (in-cluster budget)**: at most 1 + RetryMax RoundTrips are selected by the in-cluster path; together
    with `C08_cross_differs` (cross attempts leave the hashed sub-cluster): the hashed sub-cluster receives
    at most 1 + RetryMax attempts, every further attempt goes elsewhere. -/
theorem C08_in_cluster_bound (pol : Policy) (cfg : Cfg) (rq : ReqSpec) (n : Nat) (s : LS) (last : Err) :
    (inCount (loop pol cfg rq n s last).evs : Int) ≤ max 0 (1 + cfg.rm - s.retry) := by
  have := loop_in_bound pol cfg rq n s last
  omega

/-- the model's retry rule in the vocabulary of the extracted table -/
theorem C08_allowRetry_armMode (cfg : Cfg) (rq : ReqSpec) (o : Rt) :
    allowRetry cfg rq o =
      (armMode o == "true" || (armMode o == "check" && (cfg.rl == 1 && rq.isGET && rq.noBody))) := by
  cases o <;> simp [allowRetry, armMode]

/-- **C08 (tie to the source's error switch, regenerated facts)**: the `switch err.(type)` of clusterInvoke as it
    is in the tree now assigns `allowRetry = true` exactly in arms whose types the model treats as connect
    errors, `checkAllowRetry(...)` in the arms of write / read-header / timeout / broken errors, nothing in the
    default arm; checkAllowRetry still has the modelled body; the loop runs at most 20 times and RetryGet = 1 (the constants the model uses).  An edited
    switch (a type moved to another arm, a new type, another right-hand side) re-opens this obligation. -/
theorem C08_switch_as_modelled :
    switchTableOK BfeVerif.Generated.C08.retrySwitch = true ∧
    BfeVerif.Generated.C08.checkAllowRetryAsModelled = true ∧
    BfeVerif.Generated.C08.loopLimit = 20 ∧ BfeVerif.Generated.C08.retryGet = 1 ∧
    BfeVerif.Generated.C08.retryConnect = 0 := by
  decide

/-- **C08 (nothing resends outside clusterInvoke's loop; regenerated facts)**: `ServeHTTP` calls `clusterInvoke`
    exactly once, not in a loop, and no `goto` label precedes the call (an error from clusterInvoke becomes the
    500 response); `bfe_http.Transport.RoundTrip` dials once and sends once, `bfe_fcgi.Transport.RoundTrip` sends
    once, the h2c wrapper calls the x/net transport once, none of them in a loop; the h2c wrapper hands the
    request body over without a `GetBody`; the x/net version is the one whose rule is transcribed. -/
theorem C08_no_resend_outside :
    BfeVerif.Generated.C08.serveHTTPInvokeCalls = 1 ∧
    BfeVerif.Generated.C08.serveHTTPInvokeInLoop = false ∧
    BfeVerif.Generated.C08.serveHTTPLabelBeforeInvoke = false ∧
    BfeVerif.Generated.C08.httpRoundTripSends = 1 ∧ BfeVerif.Generated.C08.httpRoundTripDials = 1 ∧
    BfeVerif.Generated.C08.httpRoundTripInLoop = false ∧
    BfeVerif.Generated.C08.fcgiRoundTripSends = 1 ∧ BfeVerif.Generated.C08.fcgiRoundTripInLoop = false ∧
    BfeVerif.Generated.C08.h2cRoundTripSends = 1 ∧ BfeVerif.Generated.C08.h2cRoundTripInLoop = false ∧
    BfeVerif.Generated.C08.h2cSetsBody = true ∧ BfeVerif.Generated.C08.h2cSetsGetBody = false ∧
    BfeVerif.Generated.C08.xnetVersion = "v0.0.0-20201021035429-f5854403a974" := by
  decide

/-- **C08 (the h2c transport's internal retry never replays a body)**: with the request bfe hands to the x/net
    transport (no GetBody — `C08_no_resend_outside`), the transport resends on its own only when the error is
    one of its "request was not processed" errors AND (the request has no body OR the body has not started to
    be written); it never builds a fresh body.  So a body that may have been consumed is not resent there
    either; such resends are invisible to clusterInvoke's budget (x/net caps them at 6 per RoundTrip). -/
theorem C08_h2c_no_body_replay (canRetryErr bodyNil afterBodyWrite : Bool) :
    let r := h2ShouldRetry canRetryErr bodyNil BfeVerif.Generated.C08.h2cSetsGetBody afterBodyWrite
    r ≠ .fresh ∧ (r = .same → canRetryErr = true ∧ (bodyNil = true ∨ afterBodyWrite = false)) := by
  cases canRetryErr <;> cases bodyNil <;> cases afterBodyWrite <;> decide

/-! Non-vacuity: the bound is attained, a GET is retried after a read error, a POST is not. -/
def cfg2 : Cfg := ⟨1, 1, 1, 0, 0, 0, [⟨"a", 1, false, [⟨true, 1⟩]⟩, ⟨"b", 0, false, [⟨true, 1⟩]⟩], 0⟩
def entry (rq : ReqSpec) : LS := entryLS (G.init cfg2 1) rq []
def allConnect : List Attempt := [⟨.goon, .connect⟩, ⟨.goon, .connect⟩, ⟨.goon, .connect⟩, ⟨.goon, .connect⟩]

example : rtCount (loop realPolicy cfg2 ⟨false, false, allConnect, [], none⟩ 20 (entry ⟨false, false, allConnect, [], none⟩) .nil).evs = 3 := by
  decide
example : (loop realPolicy cfg2 ⟨false, false, allConnect, [], none⟩ 20 (entry ⟨false, false, allConnect, [], none⟩) .nil).err = .toomany := by
  decide
example : rtCount (loop realPolicy cfg2 ⟨true, true, [⟨.goon, .rhdr⟩], [], none⟩ 20 (entry ⟨true, true, [⟨.goon, .rhdr⟩], [], none⟩) .nil).evs = 2 := by
  decide
example : rtCount (loop realPolicy cfg2 ⟨false, true, [⟨.goon, .rhdr⟩], [], none⟩ 20 (entry ⟨false, true, [⟨.goon, .rhdr⟩], [], none⟩) .nil).evs = 1 := by
  decide
example : rtCount (loop realPolicy cfg2 ⟨true, false, [⟨.goon, .write⟩], [], none⟩ 20 (entry ⟨true, false, [⟨.goon, .write⟩], [], none⟩) .nil).evs = 1 := by
  decide

end BfeVerif.C08
