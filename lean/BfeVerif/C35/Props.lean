import BfeVerif.C35.Proofs
/-!
  C35 — HTTP/2 stream state machine is enforced without internal failures.   Property theorems only.

  `cstep c ev` = one iteration of the serve loop on connection state `c`; `runEvs c evs []` a whole schedule
  (client frames interleaved with handler completion / panic and write completion).  Error codes:
  1 PROTOCOL_ERROR, 5 STREAM_CLOSED, 0 NO_ERROR.
-/
namespace BfeVerif.C35

/-! ### the RFC 7540 rules, one theorem per rule (each for every connection state in which no GOAWAY has been
    started; `cstepCore` is the step of a connection whose frame reader is alive) -/

/-- even (or zero) stream id on HEADERS ⇒ connection error PROTOCOL_ERROR -/
theorem C35_rule_even_id (c : Conn) (id : Nat) (es : Bool) (k : Kind) (hg : c.goAway = none) (h : id % 2 ≠ 1) :
    (headersEv c id es k).2 = .ga 1 := by
  have h2 : id % 2 = 0 := by omega
  by_cases h0 : id = 0
  · simp [cstepCore, headersEv, connErr, hg, h0]
  · simp [cstepCore, headersEv, connErr, hg, h0, h2]

/-- a new stream whose id is not above every earlier one ⇒ connection error PROTOCOL_ERROR -/
theorem C35_rule_non_increasing (c : Conn) (id : Nat) (es : Bool) (k : Kind) (hg : c.goAway = none)
    (hodd : id % 2 = 1) (hnl : (c.streams id).live = false) (hle : id ≤ c.maxId) :
    (headersEv c id es k).2 = .ga 1 := by
  have h0 : id ≠ 0 := by omega
  simp [cstepCore, headersEv, connErr, hg, h0, hodd, hnl, hle]

/-- a HEADERS frame that would exceed the advertised SETTINGS_MAX_CONCURRENT_STREAMS is never served:
    bfe treats it as an attack and closes the connection (instead of the REFUSED_STREAM / PROTOCOL_ERROR
    stream error of RFC 7540 5.1.2 — known finding `limit-closes-connection`). -/
theorem C35_rule_over_limit (c : Conn) (id : Nat) (es : Bool) (k : Kind) (hg : c.goAway = none) (hodd : id % 2 = 1)
    (hnl : (c.streams id).live = false) (hgt : c.maxId < id) (hover : c.cur + 1 > c.adv) :
    (headersEv c id es k).2 = .close := by
  have h0 : id ≠ 0 := by omega
  have : ¬ id ≤ c.maxId := by omega
  simp [cstepCore, headersEv, hg, h0, hodd, hnl, this, Conn.upd, sstep, hover]

/-- within the limit, a request with malformed pseudo-headers (no :method …) ⇒ stream error PROTOCOL_ERROR,
    and the stream is closed -/
theorem C35_rule_bad_pseudo (c : Conn) (id : Nat) (es : Bool) (hg : c.goAway = none) (hodd : id % 2 = 1)
    (hnl : (c.streams id).live = false) (hgt : c.maxId < id) (hin : ¬ c.cur + 1 > c.adv) :
    (headersEv c id es .bad).2 = .rst 1 ∧ ((headersEv c id es .bad).1.streams id).phase = .closedReset := by
  have h0 : id ≠ 0 := by omega
  have : ¬ id ≤ c.maxId := by omega
  simp [cstepCore, headersEv, hg, h0, hodd, hnl, this, Conn.upd, sstep, hin]

/-- DATA on a stream that is not open (idle, half-closed(remote), closed, or after trailers) ⇒ STREAM_CLOSED -/
theorem C35_rule_data_not_open (c : Conn) (id n pad : Nat) (es : Bool) (hg : c.goAway = none) (h0 : id ≠ 0)
    (h : (c.streams id).phase ≠ .opn ∨ (c.streams id).trailer = true) :
    (cstepCore c (.D id n es pad)).2 = .rst 5 := by
  have h0' : (id == 0) = false := by simpa using h0
  simp only [cstepCore, h0', Bool.false_eq_true, if_false, discardData, hg, Conn.upd, sstep]
  have : (!((c.streams id).live && (c.streams id).phase == .opn && !(c.streams id).trailer)) = true := by
    rcases h with h | h
    · simp [h]
    · simp [h]
  rw [if_pos this]

/-- HEADERS on a half-closed(remote) stream ⇒ stream error STREAM_CLOSED and the stream is closed
    (after the fix; before it the frame was taken for trailers and could dereference a nil body pipe) -/
theorem C35_rule_headers_half_closed (c : Conn) (id : Nat) (es : Bool) (k : Kind) (hg : c.goAway = none)
    (hodd : id % 2 = 1) (h : (c.streams id).phase = .hcr) :
    (headersEv c id es k).2 = .rst 5 ∧ ((headersEv c id es k).1.streams id).phase = .closedReset := by
  have h0 : id ≠ 0 := by omega
  simp [cstepCore, headersEv, hg, h0, hodd, h, SS.live, Conn.upd, sstep, closeReset]

/-- trailers without END_STREAM ⇒ stream error PROTOCOL_ERROR -/
theorem C35_rule_trailers_without_end (c : Conn) (id : Nat) (k : Kind) (hg : c.goAway = none) (hodd : id % 2 = 1)
    (h : (c.streams id).phase = .opn) (ht : (c.streams id).trailer = false) :
    (headersEv c id false k).2 = .rst 1 := by
  have h0 : id ≠ 0 := by omega
  simp [cstepCore, headersEv, hg, h0, hodd, h, ht, SS.live, Conn.upd, sstep]

/-- a second trailer block ⇒ connection error PROTOCOL_ERROR -/
theorem C35_rule_duplicate_trailers (c : Conn) (id : Nat) (es : Bool) (k : Kind) (hg : c.goAway = none)
    (hodd : id % 2 = 1) (h : (c.streams id).phase = .opn) (ht : (c.streams id).trailer = true) :
    (headersEv c id es k).2 = .ga 1 := by
  have h0 : id ≠ 0 := by omega
  simp [cstepCore, headersEv, hg, h0, hodd, h, ht, SS.live, Conn.upd, sstep]

/-- more DATA than the declared content-length ⇒ stream error PROTOCOL_ERROR -/
theorem C35_rule_over_declared (c : Conn) (id n d pad : Nat) (es : Bool) (hg : c.goAway = none) (h0 : id ≠ 0)
    (h : (c.streams id).phase = .opn) (ht : (c.streams id).trailer = false) (hb : (c.streams id).hasBody = true)
    (hd : (c.streams id).decl = some d) (hov : (c.streams id).got + n > d) :
    (cstepCore c (.D id n es pad)).2 = .rst 1 := by
  have h0' : (id == 0) = false := by simpa using h0
  simp [cstepCore, h0', discardData, hg, h, ht, hb, SS.live, Conn.upd, sstep, overDeclared, hd, hov]

/-- RST_STREAM for an idle stream ⇒ connection error PROTOCOL_ERROR -/
theorem C35_rule_rst_idle (c : Conn) (id : Nat) (hg : c.goAway = none) (h0 : id ≠ 0)
    (hnl : (c.streams id).live = false) (hgt : c.maxId < id) :
    (cstepCore c (.R id)).2 = .ga 1 := by
  have h0' : (id == 0) = false := by simpa using h0
  simp [cstepCore, connErr, hg, h0', hnl, hgt]

/-- CONTINUATION sequencing errors, PING / PRIORITY / WINDOW_UPDATE(0) / SETTINGS violations are connection errors -/
theorem C35_rule_frame_sequence (c : Conn) (id : Nat) (hg : c.goAway = none) :
    (cstepCore c (.C id)).2 = .ga 1 ∧ (cstepCore c (.X id)).2 = .ga 1 ∧
    (id ≠ 0 → (cstepCore c (.G id false)).2 = .ga 1) ∧ (cstepCore c (.Y 0 id false)).2 = .ga 1 ∧
    (cstepCore c (.U 0 0)).2 = .ga 1 := by
  refine ⟨by simp [cstepCore, connErr, hg], by simp [cstepCore, connErr, hg], ?_, by simp [cstepCore, connErr, hg],
    by simp [cstepCore, connErr, hg]⟩
  intro h; simp [cstepCore, connErr, hg, h]

/-- the inGoAway rules: once a GOAWAY is under way HEADERS are ignored (no stream is created, nothing is sent) and
    further connection errors send nothing; after an error GOAWAY every DATA frame is discarded -/
theorem C35_rule_in_goaway (c : Conn) (code id n : Nat) (es : Bool) (k : Kind) (hg : c.goAway = some code) (h0 : id ≠ 0) :
    headersEv c id es k = (c, .ok) ∧ (code ≠ 0 → cstepCore c (.D id n es 0) = (c, .ok)) ∧
    (cstepCore c .Q).2 = .ok := by
  have h0' : (id == 0) = false := by simpa using h0
  refine ⟨by simp [cstepCore, headersEv, hg, h0], ?_, by simp [cstepCore, hg]⟩
  intro hc
  simp [cstepCore, h0', discardData, hg, hc]

/-- after a framing-level connection error the frame reader is gone: no client frame has any effect -/
theorem C35_rule_reader_gone (c : Conn) (e : Ev) (hc : e.isClient = true) (hg : c.gone = true) :
    (cstep c e).1 = c ∧ ((cstep c e).2 = .gone ∨ (cstep c e).2 = .busy) := by
  unfold cstep
  split
  · exact ⟨rfl, Or.inr rfl⟩
  · simp [hc, hg]

/-- a header block the frame reader rejects (upper-case or invalid field name / value, pseudo header after a regular
    one, unknown / duplicate / mixed pseudo headers) ⇒ stream error PROTOCOL_ERROR, and a live stream is closed -/
theorem C35_rule_malformed_block (c : Conn) (id : Nat) (es : Bool) (h0 : id ≠ 0) :
    (cstepCore c (.H id es .inv)).2 = .rst 1 ∧
    ((c.streams id).live = true → ((cstepCore c (.H id es .inv)).1.streams id).phase = .closedReset) := by
  have h0' : (id == 0) = false := by simpa using h0
  refine ⟨by simp [cstepCore, headersKindEv, h0', Conn.upd, sstep], ?_⟩
  intro hl
  simp [cstepCore, headersKindEv, h0', Conn.upd, sstep, hl, closeReset]

/-- a request carrying a connection-specific header field (RFC 7540 8.1.2.2; names from the server's own list) is
    never handed to the application: on a fresh odd id within the limit, with an idle scheduler, the stream's
    handler is the built-in 400 responder — its HEADERS and DATA(END_STREAM) are queued at once -/
theorem C35_rule_conn_specific (c : Conn) (id L : Nat) (es : Bool) (hg : c.goAway = none) (hodd : id % 2 = 1)
    (hnl : (c.streams id).live = false) (hgt : c.maxId < id) (hin : ¬ c.cur + 1 > c.adv)
    (hidle : c.held = none ∧ anyQueued c = false) :
    (cstepCore c (.H id es (.conn L))).2 = .pending ∧
    ((cstepCore c (.H id es (.conn L))).1.streams id).handler = .finished ∧
    ((cstepCore c (.H id es (.conn L))).1.streams id).q = [.hdr false, .data L true] := by
  have h0 : id ≠ 0 := by omega
  have : ¬ id ≤ c.maxId := by omega
  simp [cstepCore, headersKindEv, headersEv, hg, h0, hodd, hnl, this, Conn.upd, sstep, hin, hidle.1, hidle.2]

/-- PUSH_PROMISE from the client ⇒ connection error PROTOCOL_ERROR; a stream timeout ⇒ RST_STREAM PROTOCOL_ERROR -/
theorem C35_rule_push_promise_timeout (c : Conn) (id : Nat) (hg : c.goAway = none) :
    (cstepCore c (.Z id)).2 = .ga 1 ∧ (cstepCore c (.T id)).2 = .rst 1 := by
  refine ⟨?_, by simp [cstepCore, Conn.upd, sstep]⟩
  by_cases h0 : id = 0
  · simp [cstepCore, connErr, hg, h0]
  · simp [cstepCore, connErr, hg, h0]

/-! ### no internal failure -/

/-- full-strength statement: no schedule reaches an internal panic. -/
def NoInternal : Prop :=
  ∀ (adv : Nat) (evs : List Ev), ∀ o ∈ (runEvs { adv := adv } evs []).2, o.isPanic = false

/-- **C35_no_internal_partial**: for every advertised limit and every schedule of client frames, handler
    completions and write completions in which no handler PANICS, the connection never reaches one of the
    panic sites (closeStream on a closed stream, a write on a closed / half-closed-local stream, DATA or
    trailers without a body pipe): it continues, resets a stream, sends GOAWAY or closes. -/
theorem C35_no_internal_partial (adv : Nat) (evs : List Ev) (hp : ∀ e ∈ evs, e.isP = false) :
    ∀ o ∈ (runEvs { adv := adv } evs []).2, o.isPanic = false :=
  runEvs_no_panic { adv := adv } evs [] hp (fun _ => sinv_default) (fun _ h => by cases h)

/-- **C35_no_queued_frame_on_closed_stream**: in every reachable state of a schedule without handler panics, a
    stream closed by completion (`errHandlerComplete`, no reset flag) has no frame left in the write scheduler —
    closeStream forgets the stream's queue — and every queued response frame belongs to a handler that has ended.
    This is the invariant that makes the "attempt to send a write … on a closed stream" panic of startFrameWrite
    unreachable when the scheduler later takes frames (`drainStep_inv`); it is preserved by every step. -/
theorem C35_no_queued_frame_on_closed_stream (c : Conn) (e : Ev) (hp : e.isP = false)
    (h : ∀ id, SInv (c.streams id)) :
    (∀ id, SInv ((cstep c e).1.streams id)) ∧
    ∀ id, (((cstep c e).1.streams id).phase = .closedDone → ((cstep c e).1.streams id).q = []) :=
  ⟨(cstep_inv c e hp h).1, fun id hc => ((cstep_inv c e hp h).1 id).qidle (Or.inl hc)⟩

/-- the hypothesis cannot be dropped: a handler panics, its handlerPanicRST is in flight, the client's own
    RST_STREAM closes the stream, and `wroteFrame` then calls `closeStream` on the closed stream
    ("invariant; can't close stream in state Closed").  Replayed on the real code (corpus/C35/known.ops). -/
theorem C35_witness_internal : ¬ NoInternal := by
  intro h
  have := h 3 [.H 1 true .ok, .P 1, .R 1, .W] (.panic .closeClosed) (by decide)
  cases this

/-- every `panic(...)` call of the CURRENT bfe_http2/server.go (regenerated list) has a disposition: it is
    one of the model's `Out.panic` transitions, or it is outside this model for the reason recorded in
    `panicTable`.  A new or reworded panic site makes this theorem fail until it is looked at. -/
theorem C35_panic_sites_classified :
    BfeVerif.Generated.C35.panicSites.all classifySite = true := by decide

/-- non-vacuity: a schedule with two streams, trailers, a reset racing with the handler's final frame -/
example : (runEvs { adv := 3 } [.H 1 false .ok, .D 1 3 false 0, .H 1 true .tr, .H 3 true .ok, .F 1, .R 1, .W, .F 3, .W] []).2
    = [.ok, .ok, .ok, .ok, .held, .ok, .ok, .held, .ok] := by decide

example : (runEvs { adv := 1 } [.H 1 true .ok, .H 3 true .ok] []).2 = [.ok, .close] := by decide

/-- response DATA blocked by a small stream window, a PADDED DATA+END_STREAM from the client (its refund
    WINDOW_UPDATE queues behind the blocked DATA), then the window opens: the final DATA goes in flight, its
    completion closes the stream and forgets the queued WINDOW_UPDATE; the next scheduler run finds nothing. -/
example : (runEvs { adv := 3 } [.S false (some 5), .H 1 false .ok, .B 1 10, .D 1 0 true 4, .U 1 10, .W, .G 0 false] []).2
    = [.ok, .ok, .blocked, .ok, .ok, .ok, .ok] := by decide

/-- the larger alphabet: SETTINGS ACK, WINDOW_UPDATE, graceful shutdown (HEADERS ignored, DATA still accepted),
    PING, a framing error that ends the frame reader, and the handler finishing afterwards -/
example : (runEvs { adv := 3 } [.S true none, .H 1 false .ok, .U 1 1000, .Q, .H 3 true .ok, .D 1 1 false 0,
    .G 0 false, .C 1, .R 1, .F 1] []).2
    = [.ok, .ok, .ok, .ga 0, .ok, .ok, .ok, .ok, .gone, .held] := by decide

end BfeVerif.C35
