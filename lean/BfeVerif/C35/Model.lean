/-!
  C35 — model of the HTTP/2 stream state machine of `bfe_http2/server.go` at message granularity:
  one event = one iteration of `serverConn.serve`'s select (a client frame processed by
  `processFrameFromReader`, a handler's frame handed to `writeFrame`, or `wroteFrame` for the frame in flight).

  The stream-local part (`sstep`) is a small automaton; the connection (`cstep`) adds `maxStreamID`,
  `curOpenStreams`, `advMaxStreams` and the single frame in flight.  Every `panic(...)` site of server.go
  that this granularity can reach is an outcome `Out.panic _` (see `PanicSite`).
-/
namespace BfeVerif.C35

/-- stream state as `serverConn.state` sees it; `closedReset` = closed with `sentReset || gotReset`,
    `closedDone` = closed by completion (`errHandlerComplete` / `errHandlerPanicked`), no reset flag. -/
inductive Phase | idle | opn | hcr | closedReset | closedDone
  deriving DecidableEq, Repr

inductive HState | none | running | finished
  deriving DecidableEq, Repr

/-- the stream's frame in flight (between `startFrameWrite` and `wroteFrame`) -/
inductive Fly | none | endFrame | panicFrame
  deriving DecidableEq, Repr

/-- reachable `panic` sites of server.go -/
inductive PanicSite
  | closeClosed   -- closeStream: "invariant; can't close stream in state Closed"
  | writeClosed   -- startFrameWrite: "internal error: attempt to send a write ... on a closed stream"
  | writeHcl      -- startFrameWrite: "internal error: attempt to send frame on half-closed-local stream"
  | noBody        -- processData: "internal error: should have a body in this state"
  | nilBody       -- endStream on a stream without body pipe (nil dereference)
  deriving DecidableEq, Repr

inductive Out
  | ok | rst (code : Nat) | ga (code : Nat) | close
  | held | skip | queued | blocked | busy | nohandler | idle | gone | sfail
  | pending                     -- internal: the handler's frames were queued; the scheduler decides what the harness sees
  | panic (site : PanicSite)
  deriving DecidableEq, Repr

/-- a frame in a stream's write-scheduler queue (`writeSched.sq[id]`) -/
inductive QF
  | hdr (es : Bool)             -- response HEADERS
  | panicRst                    -- handlerPanicRST
  | winupd                      -- stream-level WINDOW_UPDATE queued by the serve loop (padding refund)
  | data (len : Nat) (es : Bool)  -- response DATA (costs send window)
  deriving DecidableEq, Repr

structure SS where
  phase : Phase := .idle
  trailer : Bool := false       -- gotTrailerHeader
  hasBody : Bool := false       -- st.body != nil
  decl : Option Nat := none     -- declBodyBytes (none = -1)
  got : Nat := 0                -- bodyBytes
  handler : HState := .none
  fly : Fly := .none
  flow : Int := 0               -- st.flow.n (send window)
  q : List QF := []             -- frames queued for the stream in the write scheduler
  deriving DecidableEq, Repr

def SS.live (s : SS) : Bool := s.phase == .opn || s.phase == .hcr

inductive SEv
  | hnew (es ok over : Bool) (decl : Option Nat) (iws : Int)   -- HEADERS creating the stream
  | hagain (es pseudo : Bool)                     -- HEADERS on a stream of the map (trailers)
  | data (n : Nat) (es : Bool) (pad : Nat)         -- pad > 0: PADDED flag, pad = bytes refunded at once
  | rstc                                          -- RST_STREAM from the client
  | handlerFrames (fs : List QF)                  -- the handler ends: its last frame(s) are handed to writeFrame (queued)
  | start (f : QF)                                -- startFrameWrite for a frame taken from this stream's queue
  | winUpd (inc : Nat)                            -- WINDOW_UPDATE with a non-zero increment
  | badWinUpd                                     -- WINDOW_UPDATE with increment 0 (stream error from the framer)
  | wrote                                         -- wroteFrame for this stream's frame in flight
  deriving Repr

/-- closeStream after a reset: state closed, `forgetStream` drops the queued frames -/
def closeReset (s : SS) : SS := { s with phase := .closedReset, q := [] }

def wrap32 (x : Int) : Int := (x + 2147483648) % 4294967296 - 2147483648

/-- `flow.add(n)` with its int32 arithmetic: the new value, or `none` when the call reports overflow -/
def flowAdd (f n : Int) : Option Int :=
  let sum := wrap32 (f + n)
  if (decide (sum > n)) == (decide (f > 0)) then some sum else none

/-- "sender tried to send more than declared Content-Length" -/
def overDeclared (s : SS) (n : Nat) : Bool :=
  match s.decl with
  | some d => decide (s.got + n > d)
  | none => false

/-- error codes: 0 NO_ERROR, 1 PROTOCOL_ERROR, 5 STREAM_CLOSED, 7 REFUSED_STREAM -/
def sstep (s : SS) : SEv → SS × Out
  | .hnew es ok over d iws =>
    let ph := if es then Phase.hcr else Phase.opn
    -- a fresh `stream` struct is allocated for the id
    if over then ({ phase := ph, hasBody := !es, flow := iws }, .close)   -- maxStreamsError: the connection is closed at once
    else if !ok then ({ phase := .closedReset }, .rst 1)     -- newWriterAndRequest: malformed pseudo headers
    else ({ phase := ph, hasBody := !es, decl := if es then some 0 else d, handler := .running, flow := iws }, .ok)
  | .hagain es pseudo =>
    if !s.live then (s, .ok)
    else if s.phase == .hcr then (closeReset s, .rst 5)      -- (fix) HEADERS on half-closed(remote)
    else if s.trailer then (s, .ga 1)                        -- duplicated trailers
    else
      let s := { s with trailer := true }
      if !es then (closeReset s, .rst 1)
      else if pseudo then (closeReset s, .rst 1)
      else if !s.hasBody then (s, .panic .nilBody)
      else ({ s with phase := .hcr }, .ok)
  | .data n es pad =>
    if !(s.live && s.phase == .opn && !s.trailer) then
      ((if s.live then closeReset s else s), .rst 5)
    else if !s.hasBody then (s, .panic .noBody)
    else if overDeclared s n then (closeReset s, .rst 1)
    else
      -- padding is refunded at once: sendWindowUpdate(st, pad) hands a stream-level WINDOW_UPDATE to writeFrame
      let s := { s with got := s.got + n, q := if pad > 0 then s.q ++ [QF.winupd] else s.q }
      if es then ({ s with phase := .hcr }, .ok) else (s, .ok)
  | .rstc => if s.live then (closeReset s, .ok) else (s, .ok)
  | .handlerFrames fs =>
    if s.handler != .running then (s, .nohandler)
    else ({ s with handler := .finished, q := s.q ++ fs }, .pending)
  | .start f =>
    match s.phase with
    | .closedReset => (s, .skip)                             -- "Skip this frame."
    | .closedDone => (s, .panic .writeClosed)
    | .idle => (s, .panic .writeClosed)
    | _ =>
      match f with
      | .hdr true => ({ s with fly := .endFrame }, .held)
      | .data _ true => ({ s with fly := .endFrame }, .held)
      | .panicRst => ({ s with fly := .panicFrame }, .held)
      | _ => (s, .ok)                                        -- written at once by the writer
  | .winUpd inc =>
    if !s.live then (s, .ok)
    else match flowAdd s.flow inc with
      | some f => ({ s with flow := f }, .ok)
      | none => (closeReset s, .rst 3)
  | .badWinUpd => ((if s.live then closeReset s else s), .rst 1)   -- resetStream(PROTOCOL_ERROR): also a malformed header block, a stream timeout
  | .wrote =>
    match s.fly with
    | .none => (s, .idle)
    | .endFrame =>
      let s := { s with fly := .none }
      match s.phase with
      | .opn => (closeReset s, .rst 0)                       -- half-closed(local) for an instant, then RST NO_ERROR
      | .hcr => ({ s with phase := .closedDone, q := [] }, .ok)   -- closeStream(errHandlerComplete): forgetStream
      | _ => (s, .ok)
    | .panicFrame =>
      let s := { s with fly := .none }
      if s.live then ({ s with phase := .closedDone, q := [] }, .ok)
      else (s, .panic .closeClosed)                          -- closeStream on a stream already closed

/-! ### the connection -/
/-- `inv`: header block rejected by the frame reader (stream error); `conn L`: a connection-specific request header —
    the request is answered by the 400 handler with a body of `L` bytes -/
inductive Kind | ok | cl (n : Nat) | bad | tr | inv | conn (L : Nat)
  deriving Repr

inductive Ev
  | H (id : Nat) (es : Bool) (k : Kind)
  | D (id n : Nat) (es : Bool) (pad : Nat)
  | R (id : Nat)
  | F (id : Nat)
  | P (id : Nat)
  | B (id n : Nat)                        -- the handler writes n body bytes and returns
  | W
  | S (ack : Bool) (iws : Option Nat)     -- SETTINGS: ACK / empty / INITIAL_WINDOW_SIZE
  | G (id : Nat) (ack : Bool)             -- PING
  | U (id inc : Nat)                      -- WINDOW_UPDATE
  | Y (id dep : Nat) (excl : Bool)        -- PRIORITY
  | C (id : Nat)                          -- CONTINUATION following nothing
  | X (id : Nat)                          -- HEADERS without END_HEADERS followed by DATA
  | K (id : Nat) (es : Bool)              -- valid request as HEADERS + CONTINUATION
  | Z (id : Nat)                          -- PUSH_PROMISE from the client
  | T (id : Nat)                          -- a stream timeout fires (timeoutEventCh): resetStream(PROTOCOL_ERROR)
  | A                                     -- GOAWAY from the client
  | Q                                     -- graceful shutdown (closeNotifyCh): goAway(NO_ERROR)
  deriving Repr

structure Conn where
  adv : Nat
  maxId : Nat := 0
  cur : Nat := 0
  streams : Nat → SS := fun _ => {}
  held : Option Nat := none
  ids : List Nat := []
  goAway : Option Nat := none      -- inGoAway / goAwayCode
  iws : Int := 65535               -- initialWindowSize (peer's SETTINGS_INITIAL_WINDOW_SIZE)
  cflow : Int := 65535             -- sc.flow.n
  unacked : Int := 1               -- unackedSettings (the server's initial SETTINGS)
  gone : Bool := false             -- readFrames has returned after a framing-level connection error

def Conn.upd (c : Conn) (id : Nat) (r : SS × Out) : Conn × Out :=
  let was := (c.streams id).live
  let now := r.1.live
  let cur := if was && !now then c.cur - 1 else if !was && now then c.cur + 1 else c.cur
  ({ c with streams := fun j => if j = id then r.1 else c.streams j, cur := cur,
            ids := if c.ids.contains id then c.ids else c.ids ++ [id],
            goAway := match r.2 with | .ga code => (if c.goAway.isSome then c.goAway else some code) | _ => c.goAway }, r.2)

/-- a connection error: `goAway(code)` — a no-op when a GOAWAY was already started; a framing-level error
    (returned by Framer.ReadFrame) also ends the frame reader. -/
def connErr (c : Conn) (code : Nat) (framer : Bool) : Conn × Out :=
  let c := if framer then { c with gone := true } else c
  if c.goAway.isSome then (c, .ok) else ({ c with goAway := some code }, .ga code)

/-- a rejected SETTINGS: FLOW_CONTROL_ERROR; reported as `sfail` when a GOAWAY is already under way -/
def settingsErr (c : Conn) (framer : Bool) : Conn × Out :=
  let r := connErr c 3 framer
  if c.goAway.isSome then (r.1, .sfail) else r

def Ev.isClient : Ev → Bool
  | .F _ => false | .P _ => false | .B _ _ => false | .W => false | .Q => false | .T _ => false | _ => true

def headersEv (c : Conn) (id : Nat) (es : Bool) (k : Kind) : Conn × Out :=
  if id == 0 then connErr c 1 true
  else if c.goAway.isSome then (c, .ok)                       -- processHeaders: ignored while inGoAway
  else if id % 2 != 1 then connErr c 1 false
  else if (c.streams id).live then
    c.upd id (sstep (c.streams id) (.hagain es (match k with | .tr => false | _ => true)))
  else if id ≤ c.maxId then connErr c 1 false
  else
    let c := { c with maxId := id }
    let ok := match k with | .ok => true | .cl _ => true | .conn _ => true | _ => false
    let d := match k with | .cl n => some n | _ => none
    c.upd id (sstep (c.streams id) (.hnew es ok (c.cur + 1 > c.adv) d c.iws))

/-- SETTINGS_INITIAL_WINDOW_SIZE: every stream of the map gets `flow.add(growth)` -/
def growAll (c : Conn) (g : Int) : Option (Nat → SS) :=
  if c.ids.all (fun id => !(c.streams id).live || (flowAdd (c.streams id).flow g).isSome) then
    some fun j => if (c.streams j).live then
      { c.streams j with flow := (flowAdd (c.streams j).flow g).getD (c.streams j).flow } else c.streams j
  else none

/-- processData while inGoAway: DATA is discarded after an error GOAWAY, or for streams above the last one -/
def discardData (c : Conn) (id : Nat) : Bool :=
  match c.goAway with
  | some code => code != 0 || id > c.maxId
  | none => false

/-- scheduleFrameWrite takes nothing from the queues once a GOAWAY with an error code is under way -/
def schedStopped (c : Conn) : Bool :=
  match c.goAway with
  | some code => code != 0
  | none => false

/-- some other stream has frames in the write scheduler (the harness then refuses a body: which of several
    streams with DATA goes first is Go map order, property C34) -/
def othersQueued (c : Conn) (id : Nat) : Bool :=
  c.ids.any fun j => j != id && !(c.streams j).q.isEmpty

def anyQueued (c : Conn) : Bool := c.ids.any fun j => !(c.streams j).q.isEmpty

/-- HEADERS with its kinds: `inv` is a stream error of the frame reader (no parity / order / GOAWAY check applies);
    `conn L` is refused by the harness (`busy`, nothing sent) unless the scheduler is idle, and a request that gets
    through is answered at once by the 400 handler: HEADERS(400) + DATA(L, END_STREAM) are queued -/
def headersKindEv (c : Conn) (id : Nat) (es : Bool) (k : Kind) : Conn × Out :=
  match k with
  | .inv => if id == 0 then connErr c 1 true else c.upd id (sstep (c.streams id) .badWinUpd)
  | .conn L =>
    if c.held.isSome || anyQueued c then (c, .busy)
    else
      let r := headersEv c id es k
      if r.2 == .ok && c.goAway.isNone then
        r.1.upd id (sstep (r.1.streams id) (.handlerFrames [.hdr false, .data L true]))
      else r
  | _ => headersEv c id es k

def cstepCore (c : Conn) : Ev → Conn × Out
  | .H id es k => headersKindEv c id es k
  | .K id es => headersEv c id es .ok
  | .D id n es pad =>
    if id == 0 then connErr c 1 true
    else if discardData c id then (c, .ok)
    else c.upd id (sstep (c.streams id) (.data n es pad))
  | .R id =>
    if id == 0 then connErr c 1 true
    else if !(c.streams id).live && id > c.maxId then connErr c 1 false
    else c.upd id (sstep (c.streams id) .rstc)
  | .F id =>
    if c.held.isSome then (c, .busy)
    else c.upd id (sstep (c.streams id) (.handlerFrames [.hdr true]))
  | .P id =>
    if c.held.isSome then (c, .busy)
    else c.upd id (sstep (c.streams id) (.handlerFrames [.panicRst]))
  | .B id n =>
    if c.held.isSome || othersQueued c id then (c, .busy)
    else c.upd id (sstep (c.streams id) (.handlerFrames [.hdr false, .data n true]))
  | .W =>
    match c.held with
    | none => (c, .idle)
    | some id => ({ c with held := none }).upd id (sstep (c.streams id) .wrote)
  | .S ack iws =>
    if ack then
      let c := { c with unacked := c.unacked - 1 }
      if c.unacked < 0 then connErr c 1 false else (c, .ok)
    else match iws with
      | none => (c, .ok)
      | some v =>
        if v > 2147483647 then settingsErr c true              -- rejected by the frame parser
        else
          let g := (v : Int) - c.iws
          let c := { c with iws := v }
          match growAll c g with
          | some st => ({ c with streams := st }, .ok)
          | none => settingsErr c false
  | .G id _ => if id != 0 then connErr c 1 true else (c, .ok)
  | .U id inc =>
    if inc == 0 then
      (if id == 0 then connErr c 1 true else c.upd id (sstep (c.streams id) .badWinUpd))
    else if id == 0 then
      match flowAdd c.cflow inc with
      | some f => ({ c with cflow := f }, .ok)
      | none => connErr c 3 false
    else c.upd id (sstep (c.streams id) (.winUpd inc))
  | .Y id _ _ => if id == 0 then connErr c 1 true else (c, .ok)
  | .C _ => connErr c 1 true
  | .X _ => connErr c 1 true
  | .Z id => if id == 0 then connErr c 1 true else connErr c 1 false   -- "client should not send PushPromise"
  | .T id => c.upd id (sstep (c.streams id) .badWinUpd)
  | .A => (c, .ok)                                              -- a client GOAWAY is ignored
  | .Q => if c.goAway.isSome then (c, .ok) else ({ c with goAway := some 0 }, .ga 0)

def Out.terminal : Out → Bool
  | .close => true | .panic _ => true | _ => false

/-- the schedule stops when the connection is closed or panics, and (harness rule) at a SETTINGS that ends
    in a flow-control GOAWAY, whose partial stream updates depend on Go's map order. -/
def stops (e : Ev) (o : Out) : Bool :=
  o.terminal || (match e, o with | .S _ _, .ga 3 => true | .S _ _, .sfail => true | _, _ => false)

/-! ### scheduleFrameWrite: taking frames from the stream queues -/
def maxFrame : Int := 16384

def noCostHead (s : SS) : Bool :=
  match s.q with
  | .data _ _ :: _ => false
  | _ :: _ => true
  | [] => false

def dataReady (c : Conn) (s : SS) : Bool :=
  match s.q with
  | .data _ _ :: _ => decide (min s.flow c.cflow > 0)
  | _ => false

/-- startFrameWrite of frame `f` on stream `id`, whose record (head already taken off the queue) is `s` -/
def startOn (c : Conn) (id : Nat) (s : SS) (f : QF) : Conn × Out :=
  let x := c.upd id (sstep s (.start f))
  if x.2 == .held then ({ x.1 with held := some id }, x.2) else x

/-- `writeScheduler.take` + `startFrameWrite`: frames that cost nothing first, then DATA as far as the stream and
    connection windows and the 16384-byte frame size allow (a partial chunk never ends the stream) -/
def drainStep (c : Conn) : Option (Conn × Out) :=
  match c.ids.find? (fun id => noCostHead (c.streams id)) with
  | some id =>
    (match (c.streams id).q with
     | f :: rest => some (startOn c id { c.streams id with q := rest } f)
     | [] => none)
  | none =>
    match c.ids.find? (fun id => dataReady c (c.streams id)) with
    | some id =>
      (match (c.streams id).q with
       | .data len es :: rest =>
         let s := c.streams id
         let allowed := min (min s.flow c.cflow) maxFrame
         if (len : Int) > allowed then
           some (startOn { c with cflow := c.cflow - allowed } id
             { s with flow := s.flow - allowed, q := .data (len - allowed.toNat) es :: rest } (.data allowed.toNat false))
         else
           some (startOn { c with cflow := c.cflow - len } id { s with flow := s.flow - len, q := rest } (.data len es))
       | _ => none)
    | none => none

/-- the scheduler runs until a frame is in flight, nothing can be taken, or an error GOAWAY has stopped it -/
def drain : Nat → Conn → Conn × Option PanicSite
  | 0, c => (c, none)
  | fuel + 1, c =>
    if c.held.isSome || schedStopped c then (c, none)
    else match drainStep c with
      | none => (c, none)
      | some (c', .panic site) => (c', some site)
      | some (c', _) => drain fuel c'

/-- what became of the handler's last frame(s) -/
def handlerOutcome (c : Conn) (id : Nat) : Out :=
  if c.held == some id then .held
  else if !(c.streams id).q.isEmpty then (if schedStopped c then .queued else .blocked)
  else .skip

def Ev.isConnReq : Ev → Bool
  | .H _ _ (.conn _) => true
  | _ => false

/-- one serve-loop iteration: the event itself, then the write scheduler -/
def cstep (c : Conn) (e : Ev) : Conn × Out :=
  if e.isConnReq && (c.held.isSome || anyQueued c) then (c, .busy)
  else if e.isClient && c.gone then (c, .gone)
  else
    let r := cstepCore c e
    if stops e r.2 then r
    else
      let d := drain 1000 r.1
      match d.2 with
      | some site => (d.1, .panic site)
      | none =>
        match e, r.2 with
        | .F id, .pending => (d.1, handlerOutcome d.1 id)
        | .P id, .pending => (d.1, handlerOutcome d.1 id)
        | .B id _, .pending => (d.1, handlerOutcome d.1 id)
        | .H id _ _, .pending => (d.1, handlerOutcome d.1 id)
        | _, _ => (d.1, r.2)

def runEvs : Conn → List Ev → List Out → Conn × List Out
  | c, [], acc => (c, acc.reverse)
  | c, e :: r, acc =>
    let x := cstep c e
    if stops e x.2 then (x.1, (x.2 :: acc).reverse) else runEvs x.1 r (x.2 :: acc)

end BfeVerif.C35
