/-!
  C35 — model of the HTTP/2 stream state machine of `bfe_http2/server.go` at message granularity:
  one event = one iteration of `serverConn.serve`'s select (a client frame processed by
  `processFrameFromReader`, a handler's frame handed to `writeFrame`, or `wroteFrame` for the frame in flight).

  The stream-local part (`sstep`) is a small automaton; the connection (`cstep`) adds `maxStreamID`,
  `curOpenStreams`, `advMaxStreams` and the single frame in flight.  Every `panic(...)` site of server.go
  that this granularity can reach is an outcome `Out.panic _` (see `PanicSite`).
-/
namespace BfeVerif.C35

/-- stream state as `serverConn.state` sees it; `closedReset` = closed with `sentReset || gotReset`,
    `closedDone` = closed by completion (`errHandlerComplete` / `errHandlerPanicked`), no reset flag. -/
inductive Phase | idle | opn | hcr | closedReset | closedDone
  deriving DecidableEq, Repr

inductive HState | none | running | finished
  deriving DecidableEq, Repr

/-- the stream's frame in flight (between `startFrameWrite` and `wroteFrame`) -/
inductive Fly | none | endFrame | panicFrame
  deriving DecidableEq, Repr

/-- reachable `panic` sites of server.go -/
inductive PanicSite
  | closeClosed   -- closeStream: "invariant; can't close stream in state Closed"
  | writeClosed   -- startFrameWrite: "internal error: attempt to send a write ... on a closed stream"
  | writeHcl      -- startFrameWrite: "internal error: attempt to send frame on half-closed-local stream"
  | noBody        -- processData: "internal error: should have a body in this state"
  | nilBody       -- endStream on a stream without body pipe (nil dereference)
  deriving DecidableEq, Repr

inductive Out
  | ok | rst (code : Nat) | ga (code : Nat) | close
  | held | skip | busy | nohandler | idle
  | panic (site : PanicSite)
  deriving DecidableEq, Repr

structure SS where
  phase : Phase := .idle
  trailer : Bool := false       -- gotTrailerHeader
  hasBody : Bool := false       -- st.body != nil
  decl : Option Nat := none     -- declBodyBytes (none = -1)
  got : Nat := 0                -- bodyBytes
  handler : HState := .none
  fly : Fly := .none
  deriving DecidableEq, Repr

def SS.live (s : SS) : Bool := s.phase == .opn || s.phase == .hcr

inductive SEv
  | hnew (es ok over : Bool) (decl : Option Nat)   -- HEADERS creating the stream
  | hagain (es pseudo : Bool)                     -- HEADERS on a stream of the map (trailers)
  | data (n : Nat) (es : Bool)
  | rstc                                          -- RST_STREAM from the client
  | fin | pan                                     -- the handler returns / panics: its frame reaches startFrameWrite
  | wrote                                         -- wroteFrame for this stream's frame in flight
  deriving Repr

def closeReset (s : SS) : SS := { s with phase := .closedReset }

/-- "sender tried to send more than declared Content-Length" -/
def overDeclared (s : SS) (n : Nat) : Bool :=
  match s.decl with
  | some d => decide (s.got + n > d)
  | none => false

/-- error codes: 0 NO_ERROR, 1 PROTOCOL_ERROR, 5 STREAM_CLOSED, 7 REFUSED_STREAM -/
def sstep (s : SS) : SEv → SS × Out
  | .hnew es ok over d =>
    let ph := if es then Phase.hcr else Phase.opn
    -- a fresh `stream` struct is allocated for the id
    if over then ({ phase := ph, hasBody := !es }, .close)   -- maxStreamsError: the connection is closed at once
    else if !ok then ({ phase := .closedReset }, .rst 1)     -- newWriterAndRequest: malformed pseudo headers
    else ({ phase := ph, hasBody := !es, decl := if es then some 0 else d, handler := .running }, .ok)
  | .hagain es pseudo =>
    if !s.live then (s, .ok)
    else if s.phase == .hcr then (closeReset s, .rst 5)      -- (fix) HEADERS on half-closed(remote)
    else if s.trailer then (s, .ga 1)                        -- duplicated trailers
    else
      let s := { s with trailer := true }
      if !es then (closeReset s, .rst 1)
      else if pseudo then (closeReset s, .rst 1)
      else if !s.hasBody then (s, .panic .nilBody)
      else ({ s with phase := .hcr }, .ok)
  | .data n es =>
    if !(s.live && s.phase == .opn && !s.trailer) then
      ((if s.live then closeReset s else s), .rst 5)
    else if !s.hasBody then (s, .panic .noBody)
    else if overDeclared s n then (closeReset s, .rst 1)
    else
      let s := { s with got := s.got + n }
      if es then ({ s with phase := .hcr }, .ok) else (s, .ok)
  | .rstc => if s.live then (closeReset s, .ok) else (s, .ok)
  | .fin =>
    if s.handler != .running then (s, .nohandler)
    else
      let s := { s with handler := .finished }
      match s.phase with
      | .closedReset => (s, .skip)
      | .closedDone => (s, .panic .writeClosed)
      | .idle => (s, .panic .writeClosed)
      | _ => ({ s with fly := .endFrame }, .held)
  | .pan =>
    if s.handler != .running then (s, .nohandler)
    else
      let s := { s with handler := .finished }
      match s.phase with
      | .closedReset => (s, .skip)
      | .closedDone => (s, .panic .writeClosed)
      | .idle => (s, .panic .writeClosed)
      | _ => ({ s with fly := .panicFrame }, .held)
  | .wrote =>
    match s.fly with
    | .none => (s, .idle)
    | .endFrame =>
      let s := { s with fly := .none }
      match s.phase with
      | .opn => (closeReset s, .rst 0)                       -- half-closed(local) for an instant, then RST NO_ERROR
      | .hcr => ({ s with phase := .closedDone }, .ok)
      | _ => (s, .ok)
    | .panicFrame =>
      let s := { s with fly := .none }
      if s.live then ({ s with phase := .closedDone }, .ok)
      else (s, .panic .closeClosed)                          -- closeStream on a stream already closed

/-! ### the connection -/
inductive Kind | ok | cl (n : Nat) | bad | tr
  deriving Repr

inductive Ev
  | H (id : Nat) (es : Bool) (k : Kind)
  | D (id n : Nat) (es : Bool)
  | R (id : Nat)
  | F (id : Nat)
  | P (id : Nat)
  | W
  deriving Repr

structure Conn where
  adv : Nat
  maxId : Nat := 0
  cur : Nat := 0
  streams : Nat → SS := fun _ => {}
  held : Option Nat := none
  ids : List Nat := []

def Conn.upd (c : Conn) (id : Nat) (r : SS × Out) : Conn × Out :=
  let was := (c.streams id).live
  let now := r.1.live
  let cur := if was && !now then c.cur - 1 else if !was && now then c.cur + 1 else c.cur
  ({ c with streams := fun j => if j = id then r.1 else c.streams j, cur := cur,
            ids := if c.ids.contains id then c.ids else c.ids ++ [id] }, r.2)

def cstep (c : Conn) : Ev → Conn × Out
  | .H id es k =>
    if id % 2 != 1 then (c, .ga 1)
    else if (c.streams id).live then
      c.upd id (sstep (c.streams id) (.hagain es (match k with | .tr => false | _ => true)))
    else if id ≤ c.maxId then (c, .ga 1)
    else
      let c := { c with maxId := id }
      let ok := match k with | .ok => true | .cl _ => true | _ => false
      let d := match k with | .cl n => some n | _ => none
      c.upd id (sstep (c.streams id) (.hnew es ok (c.cur + 1 > c.adv) d))
  | .D id n es =>
    if id == 0 then (c, .ga 1) else c.upd id (sstep (c.streams id) (.data n es))
  | .R id =>
    if id == 0 then (c, .ga 1)
    else if !(c.streams id).live && id > c.maxId then (c, .ga 1)
    else c.upd id (sstep (c.streams id) .rstc)
  | .F id =>
    if c.held.isSome then (c, .busy)
    else
      let r := c.upd id (sstep (c.streams id) .fin)
      if r.2 == .held then ({ r.1 with held := some id }, r.2) else r
  | .P id =>
    if c.held.isSome then (c, .busy)
    else
      let r := c.upd id (sstep (c.streams id) .pan)
      if r.2 == .held then ({ r.1 with held := some id }, r.2) else r
  | .W =>
    match c.held with
    | none => (c, .idle)
    | some id => ({ c with held := none }).upd id (sstep (c.streams id) .wrote)

def Out.terminal : Out → Bool
  | .ga _ => true | .close => true | .panic _ => true | _ => false

/-- run a schedule; the script stops at the first terminal outcome (the connection is over). -/
def runEvs : Conn → List Ev → List Out → Conn × List Out
  | c, [], acc => (c, acc.reverse)
  | c, e :: r, acc =>
    let x := cstep c e
    if x.2.terminal then (x.1, (x.2 :: acc).reverse) else runEvs x.1 r (x.2 :: acc)

end BfeVerif.C35
