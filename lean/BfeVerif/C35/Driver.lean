import BfeVerif.Common.Proto
import BfeVerif.C35.Model
/-!
  C35 driver.  op / result format: see harness/cmd/c35/main.go.
  The spec oracle replays the schedule with an independent, client-side RFC 7540 view of every stream
  (idle / open / half-closed(remote) / closed) and judges each outcome the IMPLEMENTATION reported.
-/
namespace BfeVerif.C35
open BfeVerif.Proto

def parseBool (s : String) : Option Bool := if s == "1" then some true else if s == "0" then some false else none

def parseKind (s : String) : Option Kind :=
  if s == "ok" then some .ok else if s == "bad" then some .bad else if s == "tr" then some .tr
  else if s.startsWith "cl" then ((s.drop 2).toString.toNat?).map Kind.cl else none

def parseEv (e : String) : Option Ev :=
  if e == "W" then some .W else
  let f := ((e.drop 1).toString).splitOn ":"
  match e.front, f with
  | 'H', [id, es, k] => do pure (.H (← id.toNat?) (← parseBool es) (← parseKind k))
  | 'D', [id, n, es] => do pure (.D (← id.toNat?) (← n.toNat?) (← parseBool es))
  | 'R', [id] => id.toNat?.map .R
  | 'F', [id] => id.toNat?.map .F
  | 'P', [id] => id.toNat?.map .P
  | _, _ => none

def parseOp (op : String) : Option (Nat × List Ev) :=
  match op.splitOn ";" with
  | m :: rest =>
    if !m.startsWith "m=" then none else do
      let adv ← (m.drop 2).toString.toNat?
      let evs ← (rest.filter (· != "")).mapM parseEv
      pure (adv, evs)
  | _ => none

def renderSite : PanicSite → String
  | .closeClosed => "close-closed" | .writeClosed => "write-closed" | .writeHcl => "write-hcl"
  | .noBody => "no-body" | .nilBody => "nil"

def renderOut : Out → String
  | .ok => "ok" | .rst c => "rst:" ++ toString c | .ga c => "ga:" ++ toString c | .close => "close"
  | .held => "held" | .skip => "skip" | .busy => "busy" | .nohandler => "nohandler" | .idle => "idle"
  | .panic s => "panic:" ++ renderSite s

def insertNat (k : Nat) : List Nat → List Nat
  | [] => [k]
  | x :: r => if x < k then x :: insertNat k r else k :: x :: r

def renderState (c : Conn) : String :=
  let live := (c.ids.foldr insertNat []).filter fun id => (c.streams id).live
  toString c.maxId ++ ":" ++ toString c.cur ++ ":" ++
    ",".intercalate (live.map fun id =>
      let s := c.streams id
      toString id ++ (if s.phase == .opn then "o" else "r") ++ (if s.trailer then "t" else ""))

def render (r : Conn × List Out) : String :=
  let o := ",".intercalate (r.2.map renderOut)
  (if o.isEmpty then "-" else o) ++ "|" ++ renderState r.1

/-! ### spec oracle -/
inductive CPh | idle | opn | hcr | closed
  deriving DecidableEq

structure CView where
  ph : Nat → CPh := fun _ => .idle
  tr : Nat → Bool := fun _ => false     -- trailers seen
  decl : Nat → Option Nat := fun _ => none
  got : Nat → Nat := fun _ => 0
  maxId : Nat := 0
  nOpen : Nat := 0                        -- streams open or half-closed(remote) from the server's view
  held : Option Nat := none

def CView.set (v : CView) (id : Nat) (p : CPh) : CView :=
  let was := v.ph id == .opn || v.ph id == .hcr
  let now := p == .opn || p == .hcr
  { v with ph := fun j => if j = id then p else v.ph j,
           nOpen := if was && !now then v.nOpen - 1 else if !was && now then v.nOpen + 1 else v.nOpen }

/-- what RFC 7540 (as listed in C35) demands for event `e` in view `v`: the list of acceptable outcomes
    ([] = anything that is not an internal failure), and the next view given the reported outcome. -/
def expect (adv : Nat) (v : CView) (e : Ev) : List String :=
  match e with
  | .H id es k =>
    if id % 2 != 1 then ["ga:1"]
    else match v.ph id with
      | .idle =>
        if id ≤ v.maxId then ["ga:1"]
        else if v.nOpen + 1 > adv then ["rst:7", "rst:1", "close"]   -- REFUSED_STREAM / PROTOCOL_ERROR (bfe: closes the connection)
        else (match k with | .ok => ["ok"] | .cl _ => ["ok"] | _ => ["rst:1"])
      | .closed => ["ga:1", "rst:5"]
      | .hcr => ["rst:5"]
      | .opn =>
        if v.tr id then ["ga:1", "rst:1", "rst:5"]
        else if !es then ["rst:1"]
        else (match k with | .tr => ["ok"] | _ => ["rst:1"])
  | .D id n _ =>
    if id == 0 then ["ga:1"]
    else match v.ph id with
      | .opn =>
        if v.tr id then ["rst:5", "rst:1"]
        else (match v.decl id with
              | some d => if v.got id + n > d then ["rst:1"] else ["ok"]
              | none => ["ok"])
      | .idle => ["rst:5", "ga:1"]        -- RFC: connection error; bfe answers STREAM_CLOSED (noted deviation)
      | _ => ["rst:5"]
  | .R id =>
    if id == 0 then ["ga:1"]
    else if v.ph id == .idle && id > v.maxId then ["ga:1"]
    else ["ok"]
  | .F _ => ["held", "skip", "busy", "nohandler"]
  | .P _ => ["held", "skip", "busy", "nohandler"]
  | .W => ["ok", "idle", "rst:0"]

def advance (v : CView) (e : Ev) (out : String) : CView :=
  match e with
  | .H id es k =>
    if out == "ok" then
      match v.ph id with
      | .idle =>
        let v := { v with maxId := id, decl := fun j => if j = id then (match k with | .cl n => if es then some 0 else some n | _ => if es then some 0 else none) else v.decl j }
        v.set id (if es then .hcr else .opn)
      | .opn => ({ v with tr := fun j => if j = id then true else v.tr j }).set id .hcr
      | _ => v
    else if out.startsWith "rst" then
      let v := if v.ph id == .idle && id > v.maxId && id % 2 == 1 then { v with maxId := id } else v
      v.set id .closed
    else v
  | .D id n es =>
    if out == "ok" then
      let v := { v with got := fun j => if j = id then v.got id + n else v.got j }
      if es then v.set id .hcr else v
    else if out.startsWith "rst" then (if v.ph id == .idle then v else v.set id .closed)
    else v
  | .R id => if out == "ok" && v.ph id != .idle then v.set id .closed else v
  | .F id => if out == "held" then { v with held := some id } else v
  | .P id => if out == "held" then { v with held := some id } else v
  | .W =>
    match v.held with
    | some id => ({ v with held := none }).set id .closed
    | none => v

def classify (e : Ev) (out : String) : String :=
  let evs := match e with | .H .. => "H" | .D .. => "D" | .R _ => "R" | .F _ => "F" | .P _ => "P" | .W => "W"
  if out.startsWith "panic:" then "panic-" ++ evs ++ "-" ++ (out.drop 6).toString
  else "rule-" ++ evs ++ "-got-" ++ (out.replace ":" "")

def judge (adv : Nat) : CView → List Ev → List String → String
  | _, _, [] => "ok"
  | _, [], _ :: _ => "FAIL:extra-outcome"
  | v, e :: es, o :: os =>
    if (expect adv v e).contains o then judge adv (advance v e o) es os
    else "FAIL:" ++ classify e o

def run (op impl : String) : Ans :=
  match parseOp op with
  | none => { model := "bad-op", verdict := "skip" }
  | some (adv, evs) =>
    let r := runEvs { adv := adv } evs []
    let outs := match impl.splitOn "|" with
      | o :: _ => if o == "-" then [] else o.splitOn ","
      | [] => []
    let verdict :=
      if impl.contains "HANG" then "FAIL:hang"
      else if outs.length < r.2.length && !(outs.getLast?.map (fun o => o.startsWith "ga" || o == "close" || o.startsWith "panic")).getD false
        && outs.length < evs.length then "FAIL:short"
      else judge adv {} evs outs
    let has (p : Out → Bool) := r.2.any p
    let tags :=
      (if has (fun o => match o with | .rst _ => true | _ => false) then ["rst"] else [])
      ++ (if has (fun o => match o with | .ga _ => true | _ => false) then ["goaway"] else [])
      ++ (if has (fun o => o == .close) then ["close"] else [])
      ++ (if has (fun o => o == .held) then ["held"] else [])
      ++ (if has (fun o => o == .skip) then ["skip"] else [])
      ++ (if has (fun o => match o with | .panic _ => true | _ => false) then ["panic"] else [])
      ++ (if has (fun o => o == .rst 0) then ["rst-noerror"] else [])
      ++ (if evs.any (fun e => match e with | .P _ => true | _ => false) then ["has-P"] else [])
      ++ (if r.2.length ≥ 4 then ["nt"] else [])
    { model := render r, verdict := verdict, tags := tags }

end BfeVerif.C35
