import BfeVerif.Common.Proto
import BfeVerif.C35.Model
import BfeVerif.Generated.C35
/-!
  C35 driver.  op / result format: see harness/cmd/c35/main.go.
  The spec oracle replays the schedule with an independent, client-side RFC 7540 view of every stream
  (idle / open / half-closed(remote) / closed) and judges each outcome the IMPLEMENTATION reported.
-/
namespace BfeVerif.C35
open BfeVerif.Proto

def parseBool (s : String) : Option Bool := if s == "1" then some true else if s == "0" then some false else none

/-- kinds of the harness mapped to the model's: what newWriterAndRequest rejects is `bad`, what the frame reader
    rejects is `inv`, a connection-specific header is `conn` with the length of the 400 handler's body -/
def parseKind (s : String) (es : Bool) : Option Kind :=
  if s == "ok" || s == "connect" || s == "teok" || s == "teempty" then some .ok
  else if s == "head" then (if es then none else some .bad)
  else if ["bad", "nometh", "nopath", "scheme", "status", "badpath", "connectbad"].contains s then some .bad
  else if ["invupper", "invafter", "invunk", "invdup", "invval", "invmix"].contains s then some .inv
  else if s == "tr" then some .tr
  else if s == "te" || s == "te2" then some (.conn 53)   -- `request header "TE" may only be "trailers" in HTTP/2` + LF
  else if s.startsWith "cl" then ((s.drop 2).toString.toNat?).map Kind.cl
  else if s.startsWith "ch" then
    ((s.drop 2).toString.toNat?).map fun i =>
      let names := BfeVerif.Generated.C35.connHeaders
      -- `request header "<name>" is not valid in HTTP/2` + LF
      Kind.conn (41 + (names.getD (i % names.length) "").length)
  else none

def parseEv (e : String) : Option Ev :=
  if e == "W" then some .W else if e == "A" then some .A else if e == "Q" then some .Q
  else if e == "S" then some (.S false none) else if e == "Sa" then some (.S true none)
  else if e.startsWith "Si" then ((e.drop 2).toString.toNat?).map fun v => Ev.S false (some v)
  else if e == "Ga" then some (.G 0 true)
  else
  let f := ((e.drop 1).toString).splitOn ":"
  match e.front, f with
  | 'H', [id, es, k] => do
    let e ← parseBool es
    pure (.H (← id.toNat?) e (← parseKind k e))
  | 'Z', [id] => id.toNat?.map .Z
  | 'T', [id] => id.toNat?.map .T
  | 'D', [id, n, es] => do pure (.D (← id.toNat?) (← n.toNat?) (← parseBool es) 0)
  | 'D', [id, n, es, pad] => do pure (.D (← id.toNat?) (← n.toNat?) (← parseBool es) ((← pad.toNat?) + 1))
  | 'B', [id, n] => do pure (.B (← id.toNat?) (← n.toNat?))
  | 'R', [id] => id.toNat?.map .R
  | 'F', [id] => id.toNat?.map .F
  | 'P', [id] => id.toNat?.map .P
  | 'G', [id] => id.toNat?.map fun i => Ev.G i false
  | 'U', [id, inc] => do pure (.U (← id.toNat?) (← inc.toNat?))
  | 'Y', [id, dep, x] => do pure (.Y (← id.toNat?) (← dep.toNat?) (← parseBool x))
  | 'C', [id] => id.toNat?.map .C
  | 'X', [id] => id.toNat?.map .X
  | 'K', [id, es] => do pure (.K (← id.toNat?) (← parseBool es))
  | _, _ => none

def parseOp (op : String) : Option (Nat × List Ev) :=
  match op.splitOn ";" with
  | m :: rest =>
    if !m.startsWith "m=" then none else do
      let adv ← (((m.drop 2).toString.splitOn "/").headD "").toNat?
      let evs ← (rest.filter (· != "")).mapM parseEv
      pure (adv, evs)
  | _ => none

def renderSite : PanicSite → String
  | .closeClosed => "close-closed" | .writeClosed => "write-closed" | .writeHcl => "write-hcl"
  | .noBody => "no-body" | .nilBody => "nil"

def renderOut : Out → String
  | .ok => "ok" | .rst c => "rst:" ++ toString c | .ga c => "ga:" ++ toString c | .close => "close"
  | .held => "held" | .skip => "skip" | .busy => "busy" | .nohandler => "nohandler" | .idle => "idle"
  | .queued => "queued" | .gone => "gone" | .sfail => "fail" | .blocked => "blocked" | .pending => "pending"
  | .panic s => "panic:" ++ renderSite s

def insertNat (k : Nat) : List Nat → List Nat
  | [] => [k]
  | x :: r => if x < k then x :: insertNat k r else k :: x :: r

def renderState (c : Conn) (flows : Bool := true) : String :=
  let live := (c.ids.foldr insertNat []).filter fun id => (c.streams id).live
  toString c.maxId ++ ":" ++ toString c.cur ++ ":" ++ toString c.cflow ++ ":" ++ toString c.iws ++ ":" ++
    ",".intercalate (live.map fun id =>
      let s := c.streams id
      toString id ++ (if s.phase == .opn then "o" else "r") ++ (if s.trailer then "t" else "")
        ++ (if flows then "(" ++ toString s.flow ++ ")" else ""))
    ++ ":q" ++ ",".intercalate (((c.ids.foldr insertNat []).filter fun id => !(c.streams id).q.isEmpty).map fun id =>
        toString id ++ "=" ++ toString (c.streams id).q.length)

def render (r : Conn × List Out) (halfUpdated : Bool) : String :=
  let o := ",".intercalate (r.2.map renderOut)
  (if o.isEmpty then "-" else o) ++ "|" ++ renderState r.1 (!halfUpdated)

/-! ### spec oracle -/
inductive CPh | idle | opn | hcr | closed
  deriving DecidableEq

structure CView where
  ph : Nat → CPh := fun _ => .idle
  tr : Nat → Bool := fun _ => false     -- trailers seen
  decl : Nat → Option Nat := fun _ => none
  got : Nat → Nat := fun _ => 0
  maxId : Nat := 0
  nOpen : Nat := 0                        -- streams open or half-closed(remote) from the server's view
  held : Option Nat := none
  pending : Option Nat := none            -- stream whose final DATA waits for send window (goes in flight later)
  ga : Option Nat := none                 -- the server announced GOAWAY with this code
  gone : Bool := false                    -- a framing-level connection error ended the frame reader
  acks : Nat := 1                         -- SETTINGS of the server not yet acknowledged
  ghost : Nat → Bool := fun _ => false    -- the client opened this stream with a malformed header block (reset by the
                                          -- server): closed for RFC 7540, but the server still treats the id as idle

def CView.set (v : CView) (id : Nat) (p : CPh) : CView :=
  let was := v.ph id == .opn || v.ph id == .hcr
  let now := p == .opn || p == .hcr
  { v with ph := fun j => if j = id then p else v.ph j,
           pending := if p == .closed && v.pending == some id then none else v.pending,
           nOpen := if was && !now then v.nOpen - 1 else if !was && now then v.nOpen + 1 else v.nOpen }

/-- framing-level connection errors (the frame never reaches processFrame; the reader stops) -/
def framingErr : Ev → Bool
  | .H id _ _ => id == 0 | .Z id => id == 0 | .K id _ => id == 0 | .D id _ _ _ => id == 0 | .R id => id == 0
  | .G id _ => id != 0 | .U id inc => id == 0 && inc == 0 | .Y id _ _ => id == 0
  | .C _ => true | .X _ => true | .S false (some v) => v > 2147483647 | _ => false

def expectH (adv : Nat) (v : CView) (id : Nat) (es : Bool) (k : Kind) : List String :=
  if (match k with | .inv => true | _ => false) then ["rst:1"]      -- malformed header block: stream error, whatever the stream
  else if id % 2 != 1 then ["ga:1"]
  else match v.ph id with
    | .idle =>
      if id ≤ v.maxId then ["ga:1"]
      else if v.nOpen + 1 > adv then ["rst:7", "rst:1"]     -- RFC 7540 5.1.2: stream error REFUSED_STREAM / PROTOCOL_ERROR
      else (match k with
            | .ok => ["ok"] | .cl _ => ["ok"]
            | .conn _ => ["held", "blocked"]      -- RFC 7540 8.1.2.2: must not be served; bfe answers 400 itself
            | _ => ["rst:1"])
    | .closed => ["ga:1", "rst:5"]
    | .hcr => ["rst:5"]
    | .opn =>
      if v.tr id then ["ga:1", "rst:1", "rst:5"]
      else if !es then ["rst:1"]
      else (match k with | .tr => ["ok"] | _ => ["rst:1"])

/-- what RFC 7540 (as listed in C35) demands for event `e` in view `v` before any GOAWAY -/
def expect0 (adv : Nat) (v : CView) (e : Ev) : List String :=
  match e with
  | .H id es k => (match k with | .conn _ => "busy" :: expectH adv v id es k | _ => expectH adv v id es k)
  | .Z _ => ["ga:1"]
  | .T _ => ["rst:1"]
  | .K id es => expectH adv v id es .ok
  | .D id n _ _ =>
    match v.ph id with
      | .opn =>
        if v.tr id then ["rst:5", "rst:1"]
        else (match v.decl id with
              | some d => if v.got id + n > d then ["rst:1"] else ["ok"]
              | none => ["ok"])
      | .idle => if id > v.maxId && id % 2 == 1 then ["ga:1"] else ["rst:5", "ga:1"]   -- RFC 5.1: idle => connection error
      | _ => ["rst:5"]
  | .R id => if v.ph id == .idle && id > v.maxId then ["ga:1"] else ["ok"]
  | .F _ => ["held", "skip", "busy", "nohandler", "queued"]
  | .P _ => ["held", "skip", "busy", "nohandler", "queued"]
  | .B _ _ => ["held", "skip", "busy", "nohandler", "queued", "blocked"]
  | .W => ["ok", "idle", "rst:0"]
  | .S ack iws =>
    if ack then (if v.acks == 0 then ["ga:1"] else ["ok"])
    else (match iws with | some x => if x > 2147483647 then ["ga:3"] else ["ok", "ga:3", "fail"] | none => ["ok"])
  | .G _ _ => ["ok"]
  | .U id inc =>
    if inc == 0 then ["rst:1"]
    else if id == 0 then ["ok", "ga:3"]
    else if v.ph id == .idle && id > v.maxId then ["ga:1"]     -- RFC 5.1: WINDOW_UPDATE on an idle stream
    else ["ok", "rst:3"]
  | .Y _ _ _ => ["ok"]
  | .C _ => ["ga:1"]
  | .X _ => ["ga:1"]
  | .A => ["ok"]
  | .Q => ["ga:0"]

def expectCore (adv : Nat) (v : CView) (e : Ev) : List String :=
  if e.isClient && v.gone then ["gone"]
  else
    let base := if framingErr e then (match e with | .S .. => ["ga:3"] | _ => ["ga:1"]) else expect0 adv v e
    match v.ga with
    | none => base
    | some code =>
      match e with
      | .H _ _ .inv => if framingErr e then ["ok"] else ["rst:1"]
      | .H _ _ _ => ["ok"]
      | .K _ _ => ["ok"]
      | .Q => ["ok"]
      | .D id _ _ _ => if !framingErr e && (code != 0 || id > v.maxId) then ["ok"]
                     else base.map fun o => if o.startsWith "ga:" then "ok" else o
      | .S _ _ => base.map fun o => if o == "ga:3" then "fail" else if o.startsWith "ga:" then "ok" else o
      | _ => base.map fun o => if o.startsWith "ga:" then "ok" else o

/-- a request with a connection-specific header may also be held back by the harness (`busy`: not sent) -/
def expect (adv : Nat) (v : CView) (e : Ev) : List String :=
  match e with
  | .H _ _ (.conn _) => "busy" :: expectCore adv v e
  | _ => expectCore adv v e

def advance (v : CView) (e : Ev) (out : String) : CView :=
  let v := if out.startsWith "ga:" && v.ga.isNone then { v with ga := (out.drop 3).toString.toNat? } else v
  let v := if framingErr e && e.isClient && out != "gone" && out != "busy" then { v with gone := true } else v
  if out == "gone" then v else
  match e with
  | .H id es k =>
    if (out == "held" || out == "blocked") && v.ga.isNone && v.ph id == .idle then
      let v := ({ v with maxId := id, decl := fun j => if j = id then (if es then some 0 else none) else v.decl j }).set id (if es then .hcr else .opn)
      if out == "held" then { v with held := some id } else { v with pending := some id }
    else if out == "busy" then v
    else if out == "ok" && v.ga.isNone then
      match v.ph id with
      | .idle =>
        let v := { v with maxId := id, decl := fun j => if j = id then (match k with | .cl n => if es then some 0 else some n | _ => if es then some 0 else none) else v.decl j }
        v.set id (if es then .hcr else .opn)
      | .opn => ({ v with tr := fun j => if j = id then true else v.tr j }).set id .hcr
      | _ => v
    else if out.startsWith "rst" then
      if (match k with | .inv => true | _ => false) then
        (if v.ph id == .idle then { v with ghost := fun j => j == id || v.ghost j } else v.set id .closed)
      else
        let v := if v.ph id == .idle && id > v.maxId && id % 2 == 1 then { v with maxId := id } else v
        v.set id .closed
    else v
  | .K id es =>
    if out == "ok" && v.ga.isNone && v.ph id == .idle then
      ({ v with maxId := id, decl := fun j => if j = id then (if es then some 0 else none) else v.decl j }).set id (if es then .hcr else .opn)
    else if out.startsWith "rst" then
      let v := if v.ph id == .idle && id > v.maxId && id % 2 == 1 then { v with maxId := id } else v
      v.set id .closed
    else v
  | .D id n es _ =>
    if out == "ok" && (v.ph id == .opn) && !(match v.ga with | some code => code != 0 || id > v.maxId | none => false) then
      let v := { v with got := fun j => if j = id then v.got id + n else v.got j }
      if es then v.set id .hcr else v
    else if out.startsWith "rst" then (if v.ph id == .idle then v else v.set id .closed)
    else v
  | .R id => if out == "ok" && v.ph id != .idle then v.set id .closed else v
  | .F id => if out == "held" then { v with held := some id } else v
  | .P id => if out == "held" then { v with held := some id } else v
  | .B id _ => if out == "held" then { v with held := some id } else if out == "blocked" then { v with pending := some id } else v
  | .W =>
    match v.held with
    | some id => ({ v with held := none }).set id .closed
    | none =>
      if out == "idle" then v
      else match v.pending with
        | some id => ({ v with pending := none }).set id .closed
        | none => v
  | .S ack _ => if ack && v.acks > 0 then { v with acks := v.acks - 1 } else v
  | .U id _ => if out.startsWith "rst" && v.ph id != .idle then v.set id .closed else v
  | .T id => if v.ph id != .idle then v.set id .closed else v
  | _ => v

def evName : Ev → String
  | .H .. => "H" | .D .. => "D" | .R _ => "R" | .F _ => "F" | .P _ => "P" | .B .. => "B" | .W => "W" | .S .. => "S" | .G .. => "G"
  | .Z _ => "Z" | .T _ => "T" | .U .. => "U" | .Y .. => "Y" | .C _ => "C" | .X _ => "X" | .K .. => "K" | .A => "A" | .Q => "Q"

def evId : Ev → Nat
  | .H id _ _ => id | .K id _ => id | .D id _ _ _ => id | .R id => id | .U id _ => id | _ => 0

/-- what RFC 7540 allows for a frame on a stream the client opened with a malformed header block (closed) -/
def ghostExpect : Ev → List String
  | .H _ _ .inv => ["rst:1"]
  | .H .. => ["ga:1", "rst:5"]
  | .K .. => ["ga:1", "rst:5"]
  | .D .. => ["rst:5"]
  | .R _ => ["ok"]
  | .U _ inc => if inc == 0 then ["rst:1"] else ["ok"]
  | _ => []

def classify (adv : Nat) (v : CView) (e : Ev) (out : String) : String :=
  if out.startsWith "panic:" then "panic-" ++ evName e ++ "-" ++ (out.drop 6).toString
  else
    -- named deviations from RFC 7540 that the code makes on purpose or by omission
    let overLimit := match e with
      | .H id _ _ => id % 2 == 1 && v.ph id == .idle && id > v.maxId && v.nOpen + 1 > adv
      | .K id _ => id % 2 == 1 && v.ph id == .idle && id > v.maxId && v.nOpen + 1 > adv
      | _ => false
    let dataIdle := match e with | .D id _ _ _ => v.ph id == .idle && id > v.maxId && id % 2 == 1 | _ => false
    let wuIdle := match e with | .U id inc => inc != 0 && id != 0 && v.ph id == .idle && id > v.maxId | _ => false
    if overLimit && out == "close" then "limit-closes-connection"
    else if dataIdle && out == "rst:5" then "data-idle-stream-error"
    else if wuIdle && out == "ok" then "winupdate-idle-ignored"
    else "rule-" ++ evName e ++ "-got-" ++ (out.replace ":" "")

/-- the first deviation decides the class; deviations that are known findings do not stop the judgement of
    the rest of the schedule only when they leave the connection alive -/
def judge (adv : Nat) : CView → List Ev → List String → Option String → String
  | _, _, [], first => first.getD "ok"
  | _, [], _ :: _, _ => "FAIL:extra-outcome"
  | v, e :: es, o :: os, first =>
    -- a stream id the server forgot after a malformed header block: judged by RFC 7540 as a closed stream
    let first := if v.ghost (evId e) && v.ph (evId e) == .idle && v.ga.isNone && !v.gone && !(ghostExpect e).isEmpty
        && !(ghostExpect e).contains o && o != "busy"
      then (first <|> some "FAIL:malformed-headers-stream-stays-idle") else first
    if (expect adv v e).contains o then judge adv (advance v e o) es os first
    else
      let cls := classify adv v e o
      let soft := cls == "data-idle-stream-error" || cls == "winupdate-idle-ignored" || cls == "limit-closes-connection"
      if soft then judge adv (advance v e o) es os (first <|> some ("FAIL:" ++ cls))
      else "FAIL:" ++ cls

/-! ### real serve loop mode (`r=<adv>;...`): the same model, F / P expanded to "handler ends, frame written" -/

/-- events the harness does not send once a graceful GOAWAY is under way (nothing would be visible: the frame reader
    stops without a new GOAWAY, or a rejected SETTINGS leaves half-updated windows) — the script ends there -/
def realStop (e : Ev) : Bool :=
  framingErr e || (match e with | .S false (some _) => true | _ => false)

def realOut : Out → String
  | .ok => "ok" | .rst c => "rst:" ++ toString c | .ga c => "ga:" ++ toString c | .close => "close"
  | .panic _ => "close"          -- a serve-loop panic is recovered by notePanic and the connection is closed
  | .nohandler => "nohandler"
  | _ => "ok"

/-- returns the final connection, the outcomes and whether the connection is over -/
def realRun : Conn → List Ev → List String → Conn × List String × Bool
  | c, [], acc => (c, acc.reverse, false)
  | c, e :: r, acc =>
    if c.goAway.isSome && realStop e then (c, acc.reverse, false)
    else
      let (c', o) : Conn × String :=
        match e with
        | .F id =>
          let x := cstep c (.F id)
          if x.2 == .nohandler then (x.1, "nohandler")
          else
            let y := cstep x.1 .W
            (y.1, if x.2 == .held then (match y.2 with | .rst 0 => "rst:0" | .panic _ => "close" | _ => "ok") else "ok")
        | .P id =>
          let x := cstep c (.P id)
          if x.2 == .nohandler then (x.1, "nohandler")
          else
            let y := cstep x.1 .W
            (y.1, if x.2 == .held then (match y.2 with | .panic _ => "close" | _ => "rst:2") else "ok")
        | _ => let x := cstep c e; (x.1, realOut x.2)
      let over := o == "close" || (o.startsWith "ga:" && o != "ga:0")
      if over then (c', (o :: acc).reverse, true) else realRun c' r (o :: acc)

/-- the real-mode observation translated to the scripted alphabet, for the same client-side oracle -/
def realTranslate : List Ev → List String → List Ev × List String
  | e :: es, o :: os =>
    let (es', os') := realTranslate es os
    match e with
    | .F id =>
      if o == "nohandler" then (.F id :: .W :: es', "nohandler" :: "idle" :: os')
      else if o == "close" then (.F id :: .W :: es', "held" :: "panic:real" :: os')
      else (.F id :: .W :: es', "held" :: o :: os')
    | .P id =>
      if o == "nohandler" then (.P id :: .W :: es', "nohandler" :: "idle" :: os')
      else if o == "rst:2" then (.P id :: .W :: es', "held" :: "ok" :: os')
      else if o == "ok" then (.P id :: .W :: es', "skip" :: "idle" :: os')
      else (.P id :: .W :: es', "held" :: "panic:real" :: os')
    | _ => (e :: es', o :: os')
  | _, _ => ([], [])

def runReal (op impl : String) : Ans :=
  match op.splitOn ";" with
  | m :: rest =>
    match (m.drop 2).toString.toNat?, (rest.filter (· != "")).mapM parseEv with
    | some adv, some evs =>
      if evs.any (fun e => match e with | .B .. => true | .P _ => true | .W => true | .T _ => true | .H _ _ (.conn _) => true | _ => false) then
        { model := "bad-op", verdict := "skip" }
      else
        let (c, outs, over) := realRun { adv := adv } evs []
        let o := ",".intercalate outs
        let model := (if o.isEmpty then "-" else o) ++ "|" ++ (if over then "" else renderState c)
        let implOuts := match impl.splitOn "|" with
          | x :: _ => if x == "-" then [] else x.splitOn ","
          | [] => []
        let (tes, tos) := realTranslate evs implOuts
        let verdict := if impl.contains "HANG" then "FAIL:hang" else judge adv {} tes tos none
        { model := model, verdict := verdict,
          tags := ["real"] ++ (if outs.length ≥ 4 then ["nt"] else []) ++ (if over then ["real-over"] else []) }
    | _, _ => { model := "bad-op", verdict := "skip" }
  | _ => { model := "bad-op", verdict := "skip" }

def run (op impl : String) : Ans :=
  if op.startsWith "r=" then runReal op impl else
  match parseOp op with
  | none => { model := "bad-op", verdict := "skip" }
  | some (adv, evs) =>
    let r := runEvs { adv := adv } evs []
    let outs := match impl.splitOn "|" with
      | o :: _ => if o == "-" then [] else o.splitOn ","
      | [] => []
    let verdict :=
      if impl.contains "HANG" then "FAIL:hang"
      else if outs.length < r.2.length && !(outs.getLast?.map (fun o => o == "ga:3" || o == "fail" || o == "close" || o.startsWith "panic")).getD false
        && outs.length < evs.length then "FAIL:short"
      else judge adv {} evs outs none
    let has (p : Out → Bool) := r.2.any p
    let tags :=
      (if has (fun o => match o with | .rst _ => true | _ => false) then ["rst"] else [])
      ++ (if has (fun o => match o with | .ga _ => true | _ => false) then ["goaway"] else [])
      ++ (if has (fun o => o == .close) then ["close"] else [])
      ++ (if has (fun o => o == .held) then ["held"] else [])
      ++ (if has (fun o => o == .skip) then ["skip"] else [])
      ++ (if has (fun o => match o with | .panic _ => true | _ => false) then ["panic"] else [])
      ++ (if has (fun o => o == .rst 0) then ["rst-noerror"] else [])
      ++ (if evs.any (fun e => match e with | .P _ => true | _ => false) then ["has-P"] else [])
      ++ (if has (fun o => o == .queued) then ["queued"] else [])
      ++ (if has (fun o => o == .blocked) then ["blocked"] else [])
      ++ (if evs.any (fun e => match e with | .D _ _ _ p => p > 0 | _ => false) then ["padded"] else [])
      ++ (if has (fun o => o == .gone) then ["reader-gone"] else [])
      ++ (if has (fun o => o == .ga 0) then ["graceful"] else [])
      ++ (if has (fun o => o == .ga 3 || o == .rst 3) then ["flow-err"] else [])
      ++ (if evs.any (fun e => match e with | .S .. => true | .G .. => true | .U .. => true | .Y .. => true | .C _ => true | .X _ => true | .K .. => true | .A => true | .Q => true | _ => false) then ["ctl"] else [])
      ++ (if r.2.length ≥ 4 then ["nt"] else [])
    -- the schedule stopped at a rejected SETTINGS: stream windows are not compared (Go map order)
    let half := match evs[r.2.length - 1]?, r.2.getLast? with
      | some (.S _ _), some (.ga 3) => true
      | some (.S _ _), some .sfail => true
      | _, _ => false
    { model := render r half, verdict := verdict, tags := tags }

end BfeVerif.C35
