import BfeVerif.C35.Driver
def main : IO Unit := BfeVerif.Proto.driverMain BfeVerif.C35.run
