import BfeVerif.C35.Model
import BfeVerif.Generated.C35
/-! Helper lemmas for C35 (core only). -/
namespace BfeVerif.C35

/-- invariant of one stream in schedules without handler panics -/
structure SInv (s : SS) : Prop where
  body : s.phase = .opn → s.hasBody = true
  run : s.handler = .running → s.phase = .opn ∨ s.phase = .hcr ∨ s.phase = .closedReset
  nopanic : s.fly ≠ .panicFrame
  fin : s.fly = .endFrame → s.handler = .finished

theorem sinv_default : SInv {} := ⟨by simp, by simp, by simp, by simp⟩

def Out.isPanic : Out → Bool
  | .panic _ => true
  | _ => false

theorem sstep_inv (s : SS) (e : SEv) (hne : e ≠ .pan) (h : SInv s) :
    SInv (sstep s e).1 ∧ (sstep s e).2.isPanic = false := by
  obtain ⟨hb, hr, hn, hf⟩ := h
  cases e with
  | pan => exact absurd rfl hne
  | hnew es ok over d =>
    simp only [sstep]
    split
    · refine ⟨⟨?_, by simp, by simp, by simp⟩, rfl⟩
      cases es <;> simp
    · split
      · exact ⟨⟨by simp, by simp, by simp, by simp⟩, rfl⟩
      · refine ⟨⟨?_, ?_, by simp, by simp⟩, rfl⟩
        · cases es <;> simp
        · cases es <;> simp
  | hagain es pseudo =>
    simp only [sstep]
    split
    · exact ⟨⟨hb, hr, hn, hf⟩, rfl⟩
    · split
      · exact ⟨⟨by simp [closeReset], by simp [closeReset], hn, hf⟩, rfl⟩
      · split
        · exact ⟨⟨hb, hr, hn, hf⟩, rfl⟩
        · rename_i hlive hhcr _
          have hopn : s.phase = .opn := by
            simp only [SS.live, Bool.or_eq_true, beq_iff_eq, Bool.not_eq_true] at hlive hhcr
            cases hp : s.phase <;> simp_all
          split
          · exact ⟨⟨by simp [closeReset], by simp [closeReset], hn, hf⟩, rfl⟩
          · split
            · exact ⟨⟨by simp [closeReset], by simp [closeReset], hn, hf⟩, rfl⟩
            · split
              · rename_i hnb
                simp [hb hopn] at hnb
              · exact ⟨⟨by simp, fun _ => Or.inr (Or.inl rfl), hn, hf⟩, rfl⟩
  | data n es =>
    simp only [sstep]
    split
    · split
      · exact ⟨⟨by simp [closeReset], by simp [closeReset], hn, hf⟩, rfl⟩
      · exact ⟨⟨hb, hr, hn, hf⟩, rfl⟩
    · rename_i hc
      have hopn : s.phase = .opn := by
        have h1 : (s.live && s.phase == .opn && !s.trailer) = true := by simpa using hc
        simp only [Bool.and_eq_true, beq_iff_eq] at h1
        exact h1.1.2
      split
      · rename_i hnb; simp [hb hopn] at hnb
      · split
        · exact ⟨⟨by simp [closeReset], by simp [closeReset], hn, hf⟩, rfl⟩
        · skip
          split
          · exact ⟨⟨by simp, fun _ => Or.inr (Or.inl rfl), hn, hf⟩, rfl⟩
          · exact ⟨⟨hb, hr, hn, hf⟩, rfl⟩
  | rstc =>
    simp only [sstep]
    split
    · exact ⟨⟨by simp [closeReset], by simp [closeReset], hn, hf⟩, rfl⟩
    · exact ⟨⟨hb, hr, hn, hf⟩, rfl⟩
  | fin =>
    simp only [sstep]
    split
    · exact ⟨⟨hb, hr, hn, hf⟩, rfl⟩
    · rename_i hrun
      have hrun' : s.handler = .running := by simpa using hrun
      have := hr hrun'
      split
      · exact ⟨⟨hb, by simp, hn, by simp⟩, rfl⟩
      · rename_i hp; rcases this with h | h | h <;> simp [h] at hp
      · rename_i hp; rcases this with h | h | h <;> simp [h] at hp
      · exact ⟨⟨hb, by simp, by simp, by simp⟩, rfl⟩
  | wrote =>
    simp only [sstep]
    split
    · exact ⟨⟨hb, hr, hn, hf⟩, rfl⟩
    · rename_i hfly
      have hfin := hf hfly
      split
      · exact ⟨⟨by simp [closeReset], by simp [closeReset], by simp [closeReset], by simp [closeReset]⟩, rfl⟩
      · exact ⟨⟨by simp, by simp [hfin], by simp, by simp⟩, rfl⟩
      · exact ⟨⟨hb, by simp [hfin], by simp, by simp⟩, rfl⟩
    · rename_i hfly; exact absurd hfly hn

/-- connection invariant: every stream satisfies `SInv` -/
def CInv (c : Conn) : Prop := ∀ id, SInv (c.streams id)

theorem cinv_upd (c : Conn) (id : Nat) (r : SS × Out) (h : CInv c) (hr : SInv r.1) : CInv (c.upd id r).1 := by
  intro j
  simp only [Conn.upd]
  split
  · exact hr
  · exact h j

theorem upd_out (c : Conn) (id : Nat) (r : SS × Out) : (c.upd id r).2 = r.2 := rfl

def Ev.isP : Ev → Bool
  | .P _ => true
  | _ => false

theorem cstep_inv (c : Conn) (e : Ev) (hp : e.isP = false) (h : CInv c) :
    CInv (cstep c e).1 ∧ (cstep c e).2.isPanic = false := by
  cases e with
  | P id => cases hp
  | H id es k =>
    clear hp
    simp only [cstep]
    split
    · exact ⟨h, rfl⟩
    · split
      · obtain ⟨a, b⟩ := sstep_inv (c.streams id) (.hagain es (match k with | .tr => false | _ => true)) (by simp) (h id)
        exact ⟨cinv_upd c id _ h a, b⟩
      · split
        · exact ⟨h, rfl⟩
        · skip
          have h' : CInv { c with maxId := id } := h
          obtain ⟨a, b⟩ := sstep_inv (c.streams id)
            (.hnew es (match k with | .ok => true | .cl _ => true | _ => false) (decide (c.cur + 1 > c.adv))
              (match k with | .cl n => some n | _ => none)) (by simp) (h id)
          exact ⟨cinv_upd { c with maxId := id } id _ h' a, b⟩
  | D id n es =>
    simp only [cstep]
    split
    · exact ⟨h, rfl⟩
    · obtain ⟨a, b⟩ := sstep_inv (c.streams id) (.data n es) (by simp) (h id)
      exact ⟨cinv_upd c id _ h a, b⟩
  | R id =>
    simp only [cstep]
    split
    · exact ⟨h, rfl⟩
    · split
      · exact ⟨h, rfl⟩
      · obtain ⟨a, b⟩ := sstep_inv (c.streams id) .rstc (by simp) (h id)
        exact ⟨cinv_upd c id _ h a, b⟩
  | F id =>
    simp only [cstep]
    split
    · exact ⟨h, rfl⟩
    · obtain ⟨a, b⟩ := sstep_inv (c.streams id) .fin (by simp) (h id)
      have hc := cinv_upd c id (sstep (c.streams id) .fin) h a
      split
      · exact ⟨hc, by rw [upd_out]; exact b⟩
      · exact ⟨hc, b⟩
  | W =>
    simp only [cstep]
    split
    · exact ⟨h, rfl⟩
    · rename_i id _
      have h' : CInv { c with held := none } := h
      obtain ⟨a, b⟩ := sstep_inv (c.streams id) .wrote (by simp) (h id)
      exact ⟨cinv_upd { c with held := none } id _ h' a, b⟩

theorem runEvs_no_panic (c : Conn) (evs : List Ev) (acc : List Out)
    (hp : ∀ e ∈ evs, e.isP = false) (h : CInv c) (hacc : ∀ o ∈ acc, o.isPanic = false) :
    ∀ o ∈ (runEvs c evs acc).2, o.isPanic = false := by
  induction evs generalizing c acc with
  | nil =>
    intro o ho
    simp only [runEvs, List.mem_reverse] at ho
    exact hacc o ho
  | cons e r ih =>
    obtain ⟨a, b⟩ := cstep_inv c e (hp e (by simp)) h
    have hacc' : ∀ o ∈ (cstep c e).2 :: acc, o.isPanic = false := by
      intro o ho
      rcases List.mem_cons.mp ho with ho | ho
      · rw [ho]; exact b
      · exact hacc o ho
    simp only [runEvs]
    split
    · intro o ho
      simp only [List.mem_reverse] at ho
      exact hacc' o ho
    · exact ih _ _ (fun e he => hp e (List.mem_cons_of_mem _ he)) a hacc'

/-! ### disposition of every `panic(...)` site of server.go (the list is regenerated from the source) -/
inductive Disp
  | modelled (s : PanicSite)     -- an `Out.panic s` transition of the model
  | outside (why : String)       -- not reachable at this granularity / other property, with the reason

def panicTable : List ((String × String) × Disp) := [
  (("notePanic", "<expr>"), .outside "re-panic of an already recovered panic, only when a test hook asks for it"),
  (("setTimeout", "internal error: bad request body"), .outside "timeout API: RequestBody.conn is set to the serverConn by newWriterAndRequest"),
  (("startFrameWrite", "internal error: can only be writing one frame at a time"), .outside "scheduleFrameWrite returns early while writingFrame; the model keeps one frame in flight (busy)"),
  (("startFrameWrite", "internal error: attempt to send frame on half-closed-local stream"), .modelled .writeHcl),
  (("startFrameWrite", "internal error: attempt to send a write %v on a closed stream"), .modelled .writeClosed),
  (("wroteFrame", "internal error: expected to be already writing a frame"), .outside "wroteFrame only follows startFrameWrite; the model's W on nothing in flight is `idle`"),
  (("wroteFrame", "unbuffered done channel passed in for type %T"), .outside "every call site passes make(chan error, 1)"),
  (("wroteFrame", "internal error: expecting non-nil stream"), .outside "frames with END_STREAM are only built by writeDataFromHandler / writeHeaders, which pass the stream"),
  (("closeStream", "invariant; can't close stream in state %v"), .modelled .closeClosed),
  (("processData", "internal error: should have a body in this state"), .modelled .noBody),
  (("processData", "internal error: bad Writer"), .outside "contract of pipe.Write (bfe_util/pipe)"),
  (("sendWindowUpdate32", "negative update"), .outside "flow control, property C33"),
  (("sendWindowUpdate32", "internal error; sent too many window updates without decrements?"), .outside "flow control, property C33"),
  (("Flush", "Header called after Handler finished"), .outside "handler goroutine misuse of a finished ResponseWriter, not the serve loop"),
  (("CloseNotify", "CloseNotify called after Handler finished"), .outside "handler goroutine misuse of a finished ResponseWriter, not the serve loop"),
  (("Header", "Header called after Handler finished"), .outside "handler goroutine misuse of a finished ResponseWriter, not the serve loop"),
  (("WriteHeader", "WriteHeader called after Handler finished"), .outside "handler goroutine misuse of a finished ResponseWriter, not the serve loop"),
  (("write", "Write called after Handler finished"), .outside "handler goroutine misuse of a finished ResponseWriter, not the serve loop")
]

def classifySite (s : String × String) : Bool := panicTable.any fun e => e.1.1 == s.1 && e.1.2 == s.2

end BfeVerif.C35
