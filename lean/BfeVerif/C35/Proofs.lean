import BfeVerif.C35.Model
import BfeVerif.Generated.C35
/-! Helper lemmas for C35 (core only). -/
namespace BfeVerif.C35

/-- invariant of one stream in schedules without handler panics -/
structure SInv (s : SS) : Prop where
  body : s.phase = .opn → s.hasBody = true
  run : s.handler = .running → s.phase = .opn ∨ s.phase = .hcr ∨ s.phase = .closedReset
  nopanic : s.fly ≠ .panicFrame
  fin : s.fly = .endFrame → s.handler = .finished

theorem sinv_default : SInv {} := ⟨by simp, by simp, by simp, by simp⟩

def Out.isPanic : Out → Bool
  | .panic _ => true
  | _ => false

theorem sstep_inv (s : SS) (e : SEv) (hne : e ≠ .pan) (h : SInv s) :
    SInv (sstep s e).1 ∧ (sstep s e).2.isPanic = false := by
  obtain ⟨hb, hr, hn, hf⟩ := h
  cases e with
  | pan => exact absurd rfl hne
  | hnew es ok over d iws =>
    simp only [sstep]
    split
    · refine ⟨⟨?_, by simp, by simp, by simp⟩, rfl⟩
      cases es <;> simp
    · split
      · exact ⟨⟨by simp, by simp, by simp, by simp⟩, rfl⟩
      · refine ⟨⟨?_, ?_, by simp, by simp⟩, rfl⟩
        · cases es <;> simp
        · cases es <;> simp
  | hagain es pseudo =>
    simp only [sstep]
    split
    · exact ⟨⟨hb, hr, hn, hf⟩, rfl⟩
    · split
      · exact ⟨⟨by simp [closeReset], by simp [closeReset], hn, hf⟩, rfl⟩
      · split
        · exact ⟨⟨hb, hr, hn, hf⟩, rfl⟩
        · rename_i hlive hhcr _
          have hopn : s.phase = .opn := by
            simp only [SS.live, Bool.or_eq_true, beq_iff_eq, Bool.not_eq_true] at hlive hhcr
            cases hp : s.phase <;> simp_all
          split
          · exact ⟨⟨by simp [closeReset], by simp [closeReset], hn, hf⟩, rfl⟩
          · split
            · exact ⟨⟨by simp [closeReset], by simp [closeReset], hn, hf⟩, rfl⟩
            · split
              · rename_i hnb
                simp [hb hopn] at hnb
              · exact ⟨⟨by simp, fun _ => Or.inr (Or.inl rfl), hn, hf⟩, rfl⟩
  | data n es =>
    simp only [sstep]
    split
    · split
      · exact ⟨⟨by simp [closeReset], by simp [closeReset], hn, hf⟩, rfl⟩
      · exact ⟨⟨hb, hr, hn, hf⟩, rfl⟩
    · rename_i hc
      have hopn : s.phase = .opn := by
        have h1 : (s.live && s.phase == .opn && !s.trailer) = true := by simpa using hc
        simp only [Bool.and_eq_true, beq_iff_eq] at h1
        exact h1.1.2
      split
      · rename_i hnb; simp [hb hopn] at hnb
      · split
        · exact ⟨⟨by simp [closeReset], by simp [closeReset], hn, hf⟩, rfl⟩
        · skip
          split
          · exact ⟨⟨by simp, fun _ => Or.inr (Or.inl rfl), hn, hf⟩, rfl⟩
          · exact ⟨⟨hb, hr, hn, hf⟩, rfl⟩
  | rstc =>
    simp only [sstep]
    split
    · exact ⟨⟨by simp [closeReset], by simp [closeReset], hn, hf⟩, rfl⟩
    · exact ⟨⟨hb, hr, hn, hf⟩, rfl⟩
  | fin =>
    simp only [sstep]
    split
    · exact ⟨⟨hb, hr, hn, hf⟩, rfl⟩
    · rename_i hrun
      have hrun' : s.handler = .running := by simpa using hrun
      have := hr hrun'
      split
      · exact ⟨⟨hb, by simp, hn, by simp⟩, rfl⟩
      · rename_i hp; rcases this with h | h | h <;> simp [h] at hp
      · rename_i hp; rcases this with h | h | h <;> simp [h] at hp
      · exact ⟨⟨hb, by simp, by simp, by simp⟩, rfl⟩
  | finQueued =>
    simp only [sstep]
    split
    · exact ⟨⟨hb, hr, hn, hf⟩, rfl⟩
    · exact ⟨⟨hb, by simp, hn, by simp⟩, rfl⟩
  | winUpd inc =>
    simp only [sstep]
    split
    · exact ⟨⟨hb, hr, hn, hf⟩, rfl⟩
    · split
      · exact ⟨⟨hb, hr, hn, hf⟩, rfl⟩
      · exact ⟨⟨by simp [closeReset], by simp [closeReset], hn, hf⟩, rfl⟩
  | badWinUpd =>
    simp only [sstep]
    split
    · exact ⟨⟨by simp [closeReset], by simp [closeReset], hn, hf⟩, rfl⟩
    · exact ⟨⟨hb, hr, hn, hf⟩, rfl⟩
  | wrote =>
    simp only [sstep]
    split
    · exact ⟨⟨hb, hr, hn, hf⟩, rfl⟩
    · rename_i hfly
      have hfin := hf hfly
      split
      · exact ⟨⟨by simp [closeReset], by simp [closeReset], by simp [closeReset], by simp [closeReset]⟩, rfl⟩
      · exact ⟨⟨by simp, by simp [hfin], by simp, by simp⟩, rfl⟩
      · exact ⟨⟨hb, by simp [hfin], by simp, by simp⟩, rfl⟩
    · rename_i hfly; exact absurd hfly hn

/-- connection invariant: every stream satisfies `SInv` -/
def CInv (c : Conn) : Prop := ∀ id, SInv (c.streams id)

theorem cinv_upd (c : Conn) (id : Nat) (r : SS × Out) (h : CInv c) (hr : SInv r.1) : CInv (c.upd id r).1 := by
  intro j
  simp only [Conn.upd]
  split
  · exact hr
  · exact h j

theorem upd_out (c : Conn) (id : Nat) (r : SS × Out) : (c.upd id r).2 = r.2 := rfl

/-- a stream step followed by the bookkeeping of the connection -/
theorem upd_step (c : Conn) (id : Nat) (e : SEv) (hne : e ≠ .pan) (h : CInv c) :
    CInv (c.upd id (sstep (c.streams id) e)).1 ∧ (c.upd id (sstep (c.streams id) e)).2.isPanic = false := by
  obtain ⟨a, b⟩ := sstep_inv (c.streams id) e hne (h id)
  exact ⟨cinv_upd c id _ h a, b⟩

theorem connErr_inv (c : Conn) (code : Nat) (f : Bool) (h : CInv c) :
    CInv (connErr c code f).1 ∧ (connErr c code f).2.isPanic = false := by
  unfold connErr
  simp only []
  split <;> split <;> exact ⟨h, rfl⟩

theorem settingsErr_inv (c : Conn) (f : Bool) (h : CInv c) :
    CInv (settingsErr c f).1 ∧ (settingsErr c f).2.isPanic = false := by
  unfold settingsErr
  simp only []
  split
  · exact ⟨(connErr_inv c 3 f h).1, rfl⟩
  · exact connErr_inv c 3 f h

theorem sinv_flow (s : SS) (x : Int) (h : SInv s) : SInv { s with flow := x } := ⟨h.body, h.run, h.nopanic, h.fin⟩

theorem growAll_inv (c : Conn) (g : Int) (st : Nat → SS) (h : CInv c) (hg : growAll c g = some st) :
    ∀ id, SInv (st id) := by
  unfold growAll at hg
  split at hg
  · cases hg
    intro id
    simp only []
    split
    · exact sinv_flow _ _ (h id)
    · exact h id
  · cases hg

def Ev.isP : Ev → Bool
  | .P _ => true
  | _ => false

theorem headersEv_inv (c : Conn) (id : Nat) (es : Bool) (k : Kind) (h : CInv c) :
    CInv (headersEv c id es k).1 ∧ (headersEv c id es k).2.isPanic = false := by
  unfold headersEv
  split
  · exact connErr_inv c 1 true h
  · split
    · exact ⟨h, rfl⟩
    · split
      · exact connErr_inv c 1 false h
      · split
        · exact upd_step c id _ (by simp) h
        · split
          · exact connErr_inv c 1 false h
          · simp only []
            have h' : CInv { c with maxId := id } := h
            exact upd_step { c with maxId := id } id _ (by simp) h'

theorem cstepCore_inv (c : Conn) (e : Ev) (hp : e.isP = false) (h : CInv c) :
    CInv (cstepCore c e).1 ∧ (cstepCore c e).2.isPanic = false := by
  cases e with
  | P id => cases hp
  | H id es k => exact headersEv_inv c id es k h
  | K id es => exact headersEv_inv c id es .ok h
  | D id n es =>
    simp only [cstepCore]
    split
    · exact connErr_inv c 1 true h
    · split
      · exact ⟨h, rfl⟩
      · exact upd_step c id _ (by simp) h
  | R id =>
    simp only [cstepCore]
    split
    · exact connErr_inv c 1 true h
    · split
      · exact connErr_inv c 1 false h
      · exact upd_step c id _ (by simp) h
  | F id =>
    simp only [cstepCore]
    split
    · exact ⟨h, rfl⟩
    · split
      · exact upd_step c id _ (by simp) h
      · obtain ⟨a, b⟩ := upd_step c id .fin (by simp) h
        split
        · exact ⟨a, by rw [upd_out] at b ⊢; exact b⟩
        · exact ⟨a, b⟩
  | W =>
    simp only [cstepCore]
    split
    · exact ⟨h, rfl⟩
    · rename_i id _
      have h' : CInv { c with held := none } := h
      exact upd_step { c with held := none } id .wrote (by simp) h'
  | S ack iws =>
    simp only [cstepCore]
    split
    · have h' : CInv { c with unacked := c.unacked - 1 } := h
      split
      · exact connErr_inv _ 1 false h'
      · exact ⟨h', rfl⟩
    · split
      · exact ⟨h, rfl⟩
      · rename_i v
        split
        · exact settingsErr_inv c true h
        · have h' : CInv { c with iws := (v : Int) } := h
          split
          · rename_i st hst
            exact ⟨growAll_inv _ _ st h' hst, rfl⟩
          · exact settingsErr_inv _ false h'
  | G id ack =>
    simp only [cstepCore]
    split
    · exact connErr_inv c 1 true h
    · exact ⟨h, rfl⟩
  | U id inc =>
    simp only [cstepCore]
    split
    · split
      · exact connErr_inv c 1 true h
      · exact upd_step c id _ (by simp) h
    · split
      · split
        · exact ⟨h, rfl⟩
        · exact connErr_inv c 3 false h
      · exact upd_step c id _ (by simp) h
  | Y id dep excl =>
    simp only [cstepCore]
    split
    · exact connErr_inv c 1 true h
    · exact ⟨h, rfl⟩
  | C id => exact connErr_inv c 1 true h
  | X id => exact connErr_inv c 1 true h
  | A => exact ⟨h, rfl⟩
  | Q =>
    simp only [cstepCore]
    split
    · exact ⟨h, rfl⟩
    · exact ⟨h, rfl⟩

theorem cstep_inv (c : Conn) (e : Ev) (hp : e.isP = false) (h : CInv c) :
    CInv (cstep c e).1 ∧ (cstep c e).2.isPanic = false := by
  unfold cstep
  split
  · exact ⟨h, rfl⟩
  · exact cstepCore_inv c e hp h

theorem runEvs_no_panic (c : Conn) (evs : List Ev) (acc : List Out)
    (hp : ∀ e ∈ evs, e.isP = false) (h : CInv c) (hacc : ∀ o ∈ acc, o.isPanic = false) :
    ∀ o ∈ (runEvs c evs acc).2, o.isPanic = false := by
  induction evs generalizing c acc with
  | nil =>
    intro o ho
    simp only [runEvs, List.mem_reverse] at ho
    exact hacc o ho
  | cons e r ih =>
    obtain ⟨a, b⟩ := cstep_inv c e (hp e (by simp)) h
    have hacc' : ∀ o ∈ (cstep c e).2 :: acc, o.isPanic = false := by
      intro o ho
      rcases List.mem_cons.mp ho with ho | ho
      · rw [ho]; exact b
      · exact hacc o ho
    simp only [runEvs]
    split
    · intro o ho
      simp only [List.mem_reverse] at ho
      exact hacc' o ho
    · exact ih _ _ (fun e he => hp e (List.mem_cons_of_mem _ he)) a hacc'

/-! ### disposition of every `panic(...)` site of server.go (the list is regenerated from the source) -/
inductive Disp
  | modelled (s : PanicSite)     -- an `Out.panic s` transition of the model
  | outside (why : String)       -- not reachable at this granularity / other property, with the reason

def panicTable : List ((String × String) × Disp) := [
  (("notePanic", "<expr>"), .outside "re-panic of an already recovered panic, only when a test hook asks for it"),
  (("setTimeout", "internal error: bad request body"), .outside "timeout API: RequestBody.conn is set to the serverConn by newWriterAndRequest"),
  (("startFrameWrite", "internal error: can only be writing one frame at a time"), .outside "scheduleFrameWrite returns early while writingFrame; the model keeps one frame in flight (busy)"),
  (("startFrameWrite", "internal error: attempt to send frame on half-closed-local stream"), .modelled .writeHcl),
  (("startFrameWrite", "internal error: attempt to send a write %v on a closed stream"), .modelled .writeClosed),
  (("wroteFrame", "internal error: expected to be already writing a frame"), .outside "wroteFrame only follows startFrameWrite; the model's W on nothing in flight is `idle`"),
  (("wroteFrame", "unbuffered done channel passed in for type %T"), .outside "every call site passes make(chan error, 1)"),
  (("wroteFrame", "internal error: expecting non-nil stream"), .outside "frames with END_STREAM are only built by writeDataFromHandler / writeHeaders, which pass the stream"),
  (("closeStream", "invariant; can't close stream in state %v"), .modelled .closeClosed),
  (("processData", "internal error: should have a body in this state"), .modelled .noBody),
  (("processData", "internal error: bad Writer"), .outside "contract of pipe.Write (bfe_util/pipe)"),
  (("sendWindowUpdate32", "negative update"), .outside "flow control, property C33"),
  (("sendWindowUpdate32", "internal error; sent too many window updates without decrements?"), .outside "flow control, property C33"),
  (("Flush", "Header called after Handler finished"), .outside "handler goroutine misuse of a finished ResponseWriter, not the serve loop"),
  (("CloseNotify", "CloseNotify called after Handler finished"), .outside "handler goroutine misuse of a finished ResponseWriter, not the serve loop"),
  (("Header", "Header called after Handler finished"), .outside "handler goroutine misuse of a finished ResponseWriter, not the serve loop"),
  (("WriteHeader", "WriteHeader called after Handler finished"), .outside "handler goroutine misuse of a finished ResponseWriter, not the serve loop"),
  (("write", "Write called after Handler finished"), .outside "handler goroutine misuse of a finished ResponseWriter, not the serve loop"),
  (("take", "internal error: took too much"), .outside "outbound DATA scheduling against the send windows, property C34 (handlers of this model send no body)"),
  (("putEmptyQueue", "queue must be empty"), .outside "write scheduler internals, property C34"),
  (("take", "internal error: ws.maxFrameSize not initialized or invalid"), .outside "maxFrameSize is initialised by ServeConn and SETTINGS_MAX_FRAME_SIZE is range-checked by Setting.Valid"),
  (("take", "should be empty"), .outside "write scheduler internals, property C34"),
  (("streamWritableBytes", "internal error: ws.maxFrameSize not initialized or invalid"), .outside "maxFrameSize is initialised by ServeConn and SETTINGS_MAX_FRAME_SIZE is range-checked by Setting.Valid"),
  (("head", "invalid use of queue"), .outside "write scheduler internals, property C34"),
  (("shift", "invalid use of queue"), .outside "write scheduler internals, property C34"),
  (("endsStream", "endsStream called on nil writeFramer"), .outside "wroteFrame reads wm.write before it is set to nil"),
  (("writeFrame", "unexpected empty hpack"), .outside "response encoding, property C38 (a status of 0 with no header at all)")
]

def classifySite (s : String × String) : Bool := panicTable.any fun e => e.1.1 == s.1 && e.1.2 == s.2

end BfeVerif.C35
