import BfeVerif.C35.Model
import BfeVerif.Generated.C35
/-! Helper lemmas for C35 (core only). -/
namespace BfeVerif.C35

/-- invariant of one stream in schedules without handler panics -/
structure SInv (s : SS) : Prop where
  body : s.phase = .opn → s.hasBody = true
  run : s.handler = .running → s.phase = .opn ∨ s.phase = .hcr ∨ s.phase = .closedReset
  nopanic : s.fly ≠ .panicFrame
  fin : s.fly = .endFrame → s.handler = .finished
  /-- no frame is queued in the write scheduler for a stream closed by completion (or never opened):
      closeStream forgets the stream's queue -/
  qidle : s.phase = .closedDone ∨ s.phase = .idle → s.q = []
  /-- response frames are queued only by a handler that has ended -/
  qfin : ∀ f ∈ s.q, f = .winupd ∨ s.handler = .finished
  qnp : ∀ f ∈ s.q, f ≠ .panicRst

theorem sinv_default : SInv {} :=
  ⟨by simp, by simp, by simp, by simp, by simp, by simp, by simp⟩

def Out.isPanic : Out → Bool
  | .panic _ => true
  | _ => false

/-- a state that differs only in fields the invariant does not read -/
theorem sinv_same (s s' : SS) (h : SInv s) (hp : s'.phase = s.phase) (hb : s'.hasBody = s.hasBody)
    (hh : s'.handler = s.handler) (hf : s'.fly = s.fly) (hq : s'.q = s.q) : SInv s' :=
  ⟨by rw [hp, hb]; exact h.body, by rw [hp, hh]; exact h.run, by rw [hf]; exact h.nopanic,
   by rw [hf, hh]; exact h.fin, by rw [hp, hq]; exact h.qidle, by rw [hq, hh]; exact h.qfin, by rw [hq]; exact h.qnp⟩

/-- closed by a reset (queue forgotten) -/
theorem sinv_reset (s s' : SS) (h : SInv s) (hp : s'.phase = .closedReset)
    (hh : s'.handler = s.handler) (hf : s'.fly = s.fly) (hq : s'.q = []) : SInv s' := by
  refine ⟨?_, fun _ => Or.inr (Or.inr hp), ?_, ?_, fun _ => hq, ?_, ?_⟩
  · rw [hp]; intro x; cases x
  · rw [hf]; exact h.nopanic
  · rw [hf, hh]; exact h.fin
  · rw [hq]; intro f hf'; cases hf'
  · rw [hq]; intro f hf'; cases hf'

/-- closed by a reset with nothing in flight any more -/
theorem sinv_reset_nofly (s' : SS) (hp : s'.phase = .closedReset) (hf : s'.fly = .none) (hq : s'.q = []) : SInv s' := by
  refine ⟨?_, fun _ => Or.inr (Or.inr hp), ?_, ?_, fun _ => hq, ?_, ?_⟩
  · rw [hp]; intro x; cases x
  · rw [hf]; intro x; cases x
  · rw [hf]; intro x; cases x
  · rw [hq]; intro f hf'; cases hf'
  · rw [hq]; intro f hf'; cases hf'

theorem sinv_closeReset (s : SS) (h : SInv s) : SInv (closeReset s) :=
  sinv_reset s _ h rfl rfl rfl rfl

/-- still live (open or half-closed(remote)), same queue or one more WINDOW_UPDATE -/
theorem sinv_live (s s' : SS) (h : SInv s) (hp : s'.phase = .hcr ∨ (s'.phase = .opn ∧ s.phase = .opn))
    (hb : s'.hasBody = s.hasBody) (hh : s'.handler = s.handler) (hf : s'.fly = s.fly)
    (hq : s'.q = s.q ∨ s'.q = s.q ++ [QF.winupd]) : SInv s' := by
  refine ⟨?_, ?_, by rw [hf]; exact h.nopanic, by rw [hf, hh]; exact h.fin, ?_, ?_, ?_⟩
  · intro ho
    rcases hp with hp | ⟨_, hp2⟩
    · rw [hp] at ho; cases ho
    · rw [hb]; exact h.body hp2
  · intro _
    rcases hp with hp | ⟨hp1, _⟩
    · exact Or.inr (Or.inl hp)
    · exact Or.inl hp1
  · intro hc
    rcases hp with hp | ⟨hp1, _⟩
    · rw [hp] at hc; rcases hc with hc | hc <;> cases hc
    · rw [hp1] at hc; rcases hc with hc | hc <;> cases hc
  · intro f hf'
    rcases hq with hq | hq
    · rw [hq] at hf'; rw [hh]; exact h.qfin f hf'
    · rw [hq, List.mem_append] at hf'
      rcases hf' with hf' | hf'
      · rw [hh]; exact h.qfin f hf'
      · exact Or.inl (List.mem_singleton.mp hf')
  · intro f hf'
    rcases hq with hq | hq
    · rw [hq] at hf'; exact h.qnp f hf'
    · rw [hq, List.mem_append] at hf'
      rcases hf' with hf' | hf'
      · exact h.qnp f hf'
      · rw [List.mem_singleton.mp hf']; intro x; cases x

/-- the events of a schedule without handler panic never hand a handlerPanicRST to the scheduler -/
def SEv.noPanicFrame : SEv → Bool
  | .handlerFrames fs => fs.all fun f => f != .panicRst
  | .start _ => false          -- `start` is used by the scheduler only, see `start_inv`
  | _ => true

theorem sstep_inv (s : SS) (e : SEv) (hne : e.noPanicFrame = true) (h : SInv s) :
    SInv (sstep s e).1 ∧ (sstep s e).2.isPanic = false := by
  cases e with
  | start f => cases hne
  | hnew es ok over d iws =>
    simp only [sstep]
    split
    · refine ⟨⟨?_, by simp, by simp, by simp, by simp, by simp, by simp⟩, rfl⟩
      cases es <;> simp
    · split
      · exact ⟨⟨by simp, by simp, by simp, by simp, by simp, by simp, by simp⟩, rfl⟩
      · refine ⟨⟨?_, ?_, by simp, by simp, by simp, by simp, by simp⟩, rfl⟩
        · cases es <;> simp
        · cases es <;> simp
  | hagain es pseudo =>
    simp only [sstep]
    split
    · exact ⟨h, rfl⟩
    · split
      · exact ⟨sinv_closeReset s h, rfl⟩
      · split
        · exact ⟨h, rfl⟩
        · rename_i hlive hhcr _
          have hopn : s.phase = .opn := by
            simp only [SS.live, Bool.or_eq_true, beq_iff_eq, Bool.not_eq_true] at hlive hhcr
            cases hp : s.phase <;> simp_all
          split
          · exact ⟨sinv_reset s _ h rfl rfl rfl rfl, rfl⟩
          · split
            · exact ⟨sinv_reset s _ h rfl rfl rfl rfl, rfl⟩
            · split
              · rename_i hnb
                simp [h.body hopn] at hnb
              · exact ⟨sinv_live s _ h (Or.inl rfl) rfl rfl rfl (Or.inl rfl), rfl⟩
  | data n es pad =>
    simp only [sstep]
    split
    · split
      · exact ⟨sinv_closeReset s h, rfl⟩
      · exact ⟨h, rfl⟩
    · rename_i hc
      have hopn : s.phase = .opn := by
        have h1 : (s.live && s.phase == .opn && !s.trailer) = true := by simpa using hc
        simp only [Bool.and_eq_true, beq_iff_eq] at h1
        exact h1.1.2
      split
      · rename_i hnb; simp [h.body hopn] at hnb
      · split
        · exact ⟨sinv_closeReset s h, rfl⟩
        · have hq : (if pad > 0 then s.q ++ [QF.winupd] else s.q) = s.q ∨
              (if pad > 0 then s.q ++ [QF.winupd] else s.q) = s.q ++ [QF.winupd] := by
            split
            · exact Or.inr rfl
            · exact Or.inl rfl
          split
          · exact ⟨sinv_live s _ h (Or.inl rfl) rfl rfl rfl hq, rfl⟩
          · exact ⟨sinv_live s _ h (Or.inr ⟨hopn, hopn⟩) rfl rfl rfl hq, rfl⟩
  | rstc =>
    simp only [sstep]
    split
    · exact ⟨sinv_closeReset s h, rfl⟩
    · exact ⟨h, rfl⟩
  | handlerFrames fs =>
    simp only [sstep]
    split
    · exact ⟨h, rfl⟩
    · rename_i hrun
      have hrun' : s.handler = .running := by simpa using hrun
      have hph := h.run hrun'
      simp only [SEv.noPanicFrame, List.all_eq_true, bne_iff_ne] at hne
      refine ⟨⟨h.body, by simp, h.nopanic, by simp, ?_, ?_, ?_⟩, rfl⟩
      · intro hc
        simp only [] at hc
        rcases hc with hc | hc <;> rcases hph with hp | hp | hp <;> rw [hp] at hc <;> cases hc
      · intro f _; exact Or.inr rfl
      · intro f hf'
        simp only [List.mem_append] at hf'
        rcases hf' with hf' | hf'
        · exact h.qnp f hf'
        · exact hne f hf'
  | winUpd inc =>
    simp only [sstep]
    split
    · exact ⟨h, rfl⟩
    · split
      · exact ⟨sinv_same s _ h rfl rfl rfl rfl rfl, rfl⟩
      · exact ⟨sinv_closeReset s h, rfl⟩
  | badWinUpd =>
    simp only [sstep]
    split
    · exact ⟨sinv_closeReset s h, rfl⟩
    · exact ⟨h, rfl⟩
  | wrote =>
    simp only [sstep]
    split
    · exact ⟨h, rfl⟩
    · rename_i hfly
      have hfin := h.fin hfly
      split
      · exact ⟨sinv_reset_nofly _ rfl rfl rfl, rfl⟩
      · refine ⟨⟨by simp, by simp [hfin], by simp, by simp, by simp, by simp, by simp⟩, rfl⟩
      · rename_i hp1 hp2
        refine ⟨⟨h.body, h.run, by simp, by simp, h.qidle, h.qfin, h.qnp⟩, rfl⟩
    · rename_i hfly; exact absurd hfly h.nopanic

/-- startFrameWrite for a frame the scheduler took from the stream's queue: the stream is not closed by
    completion (its queue would be empty), so the "write on a closed stream" panic is not reached -/
theorem start_inv (s : SS) (f : QF) (h : SInv s) (hp : s.phase ≠ .closedDone ∧ s.phase ≠ .idle)
    (hf : f = .winupd ∨ s.handler = .finished) (hnp : f ≠ .panicRst) :
    SInv (sstep s (.start f)).1 ∧ (sstep s (.start f)).2.isPanic = false := by
  simp only [sstep]
  split
  · exact ⟨h, rfl⟩
  · rename_i hc; exact absurd hc hp.1
  · rename_i hc; exact absurd hc hp.2
  · have hfin : f ≠ .winupd → s.handler = .finished := fun hn => hf.resolve_left hn
    split
    · exact ⟨⟨h.body, h.run, by simp, fun _ => hfin (by simp), h.qidle, h.qfin, h.qnp⟩, rfl⟩
    · exact ⟨⟨h.body, h.run, by simp, fun _ => hfin (by simp), h.qidle, h.qfin, h.qnp⟩, rfl⟩
    · exact absurd rfl hnp
    · exact ⟨h, rfl⟩

/-- connection invariant: every stream satisfies `SInv` -/
def CInv (c : Conn) : Prop := ∀ id, SInv (c.streams id)

theorem cinv_upd (c : Conn) (id : Nat) (r : SS × Out) (h : CInv c) (hr : SInv r.1) : CInv (c.upd id r).1 := by
  intro j
  simp only [Conn.upd]
  split
  · exact hr
  · exact h j

theorem upd_out (c : Conn) (id : Nat) (r : SS × Out) : (c.upd id r).2 = r.2 := rfl

/-- a stream step followed by the bookkeeping of the connection -/
theorem upd_step (c : Conn) (id : Nat) (e : SEv) (hne : e.noPanicFrame = true) (h : CInv c) :
    CInv (c.upd id (sstep (c.streams id) e)).1 ∧ (c.upd id (sstep (c.streams id) e)).2.isPanic = false := by
  obtain ⟨a, b⟩ := sstep_inv (c.streams id) e hne (h id)
  exact ⟨cinv_upd c id _ h a, b⟩

theorem connErr_inv (c : Conn) (code : Nat) (f : Bool) (h : CInv c) :
    CInv (connErr c code f).1 ∧ (connErr c code f).2.isPanic = false := by
  unfold connErr
  simp only []
  split <;> split <;> exact ⟨h, rfl⟩

theorem settingsErr_inv (c : Conn) (f : Bool) (h : CInv c) :
    CInv (settingsErr c f).1 ∧ (settingsErr c f).2.isPanic = false := by
  unfold settingsErr
  simp only []
  split
  · exact ⟨(connErr_inv c 3 f h).1, rfl⟩
  · exact connErr_inv c 3 f h

theorem sinv_flow (s : SS) (x : Int) (h : SInv s) : SInv { s with flow := x } :=
  sinv_same s _ h rfl rfl rfl rfl rfl

theorem growAll_inv (c : Conn) (g : Int) (st : Nat → SS) (h : CInv c) (hg : growAll c g = some st) :
    ∀ id, SInv (st id) := by
  unfold growAll at hg
  split at hg
  · cases hg
    intro id
    simp only []
    split
    · exact sinv_flow _ _ (h id)
    · exact h id
  · cases hg

def Ev.isP : Ev → Bool
  | .P _ => true
  | _ => false

theorem headersEv_inv (c : Conn) (id : Nat) (es : Bool) (k : Kind) (h : CInv c) :
    CInv (headersEv c id es k).1 ∧ (headersEv c id es k).2.isPanic = false := by
  unfold headersEv
  split
  · exact connErr_inv c 1 true h
  · split
    · exact ⟨h, rfl⟩
    · split
      · exact connErr_inv c 1 false h
      · split
        · exact upd_step c id _ (by simp [SEv.noPanicFrame]) h
        · split
          · exact connErr_inv c 1 false h
          · simp only []
            have h' : CInv { c with maxId := id } := h
            exact upd_step { c with maxId := id } id _ (by simp [SEv.noPanicFrame]) h'

theorem headersKindEv_inv (c : Conn) (id : Nat) (es : Bool) (k : Kind) (h : CInv c) :
    CInv (headersKindEv c id es k).1 ∧ (headersKindEv c id es k).2.isPanic = false := by
  unfold headersKindEv
  split
  · split
    · exact connErr_inv c 1 true h
    · exact upd_step c id _ (by simp [SEv.noPanicFrame]) h
  · rename_i L
    split
    · exact ⟨h, rfl⟩
    · obtain ⟨a, b⟩ := headersEv_inv c id es (.conn L) h
      simp only []
      split
      · exact upd_step _ id _ (by simp [SEv.noPanicFrame]) a
      · exact ⟨a, b⟩
  · exact headersEv_inv c id es k h

theorem cstepCore_inv (c : Conn) (e : Ev) (hp : e.isP = false) (h : CInv c) :
    CInv (cstepCore c e).1 ∧ (cstepCore c e).2.isPanic = false := by
  cases e with
  | P id => cases hp
  | H id es k => exact headersKindEv_inv c id es k h
  | K id es => exact headersEv_inv c id es .ok h
  | Z id =>
    simp only [cstepCore]
    split
    · exact connErr_inv c 1 true h
    · exact connErr_inv c 1 false h
  | T id => exact upd_step c id _ (by simp [SEv.noPanicFrame]) h
  | D id n es pad =>
    simp only [cstepCore]
    split
    · exact connErr_inv c 1 true h
    · split
      · exact ⟨h, rfl⟩
      · exact upd_step c id _ (by simp [SEv.noPanicFrame]) h
  | R id =>
    simp only [cstepCore]
    split
    · exact connErr_inv c 1 true h
    · split
      · exact connErr_inv c 1 false h
      · exact upd_step c id _ (by simp [SEv.noPanicFrame]) h
  | F id =>
    simp only [cstepCore]
    split
    · exact ⟨h, rfl⟩
    · exact upd_step c id _ (by simp [SEv.noPanicFrame]) h
  | B id n =>
    simp only [cstepCore]
    split
    · exact ⟨h, rfl⟩
    · exact upd_step c id _ (by simp [SEv.noPanicFrame]) h
  | W =>
    simp only [cstepCore]
    split
    · exact ⟨h, rfl⟩
    · rename_i id _
      have h' : CInv { c with held := none } := h
      exact upd_step { c with held := none } id .wrote (by simp [SEv.noPanicFrame]) h'
  | S ack iws =>
    simp only [cstepCore]
    split
    · have h' : CInv { c with unacked := c.unacked - 1 } := h
      split
      · exact connErr_inv _ 1 false h'
      · exact ⟨h', rfl⟩
    · split
      · exact ⟨h, rfl⟩
      · rename_i v
        split
        · exact settingsErr_inv c true h
        · have h' : CInv { c with iws := (v : Int) } := h
          split
          · rename_i st hst
            exact ⟨growAll_inv _ _ st h' hst, rfl⟩
          · exact settingsErr_inv _ false h'
  | G id ack =>
    simp only [cstepCore]
    split
    · exact connErr_inv c 1 true h
    · exact ⟨h, rfl⟩
  | U id inc =>
    simp only [cstepCore]
    split
    · split
      · exact connErr_inv c 1 true h
      · exact upd_step c id _ (by simp [SEv.noPanicFrame]) h
    · split
      · split
        · exact ⟨h, rfl⟩
        · exact connErr_inv c 3 false h
      · exact upd_step c id _ (by simp [SEv.noPanicFrame]) h
  | Y id dep excl =>
    simp only [cstepCore]
    split
    · exact connErr_inv c 1 true h
    · exact ⟨h, rfl⟩
  | C id => exact connErr_inv c 1 true h
  | X id => exact connErr_inv c 1 true h
  | A => exact ⟨h, rfl⟩
  | Q =>
    simp only [cstepCore]
    split
    · exact ⟨h, rfl⟩
    · exact ⟨h, rfl⟩

/-! ### the write scheduler -/

/-- startFrameWrite on the stream record `s'` obtained from `c.streams id` by taking (part of) its queue head -/
theorem startOn_inv (c : Conn) (id : Nat) (s' : SS) (f : QF) (h : CInv c) (hs : SInv s')
    (hp : s'.phase ≠ .closedDone ∧ s'.phase ≠ .idle) (hf : f = .winupd ∨ s'.handler = .finished) (hnp : f ≠ .panicRst) :
    CInv (startOn c id s' f).1 ∧ (startOn c id s' f).2.isPanic = false := by
  obtain ⟨a, b⟩ := start_inv s' f hs hp hf hnp
  have hc := cinv_upd c id (sstep s' (.start f)) h a
  unfold startOn
  simp only []
  split
  · exact ⟨hc, by rw [upd_out]; exact b⟩
  · exact ⟨hc, b⟩

/-- a stream with a non-empty queue is not closed by completion, and the queue head is a frame the invariant knows -/
theorem head_facts (s : SS) (f : QF) (rest : List QF) (h : SInv s) (hq : s.q = f :: rest) :
    (s.phase ≠ .closedDone ∧ s.phase ≠ .idle) ∧ (f = .winupd ∨ s.handler = .finished) ∧ f ≠ .panicRst := by
  refine ⟨⟨?_, ?_⟩, h.qfin f (by rw [hq]; simp), h.qnp f (by rw [hq]; simp)⟩
  · intro hc; have := h.qidle (Or.inl hc); rw [hq] at this; cases this
  · intro hc; have := h.qidle (Or.inr hc); rw [hq] at this; cases this

/-- the record after taking the head (or part of a DATA head) still satisfies the invariant -/
theorem sinv_take (s : SS) (f : QF) (rest q' : List QF) (x : Int) (h : SInv s) (hq : s.q = f :: rest)
    (hq' : q' = rest ∨ ∃ k k' es, f = .data k es ∧ q' = .data k' es :: rest) : SInv { s with flow := x, q := q' } := by
  obtain ⟨⟨hp1, hp2⟩, hf, _⟩ := head_facts s f rest h hq
  refine ⟨h.body, h.run, h.nopanic, h.fin, ?_, ?_, ?_⟩
  · intro hc; rcases hc with hc | hc
    · exact absurd hc hp1
    · exact absurd hc hp2
  · intro g hg
    simp only [] at hg
    rcases hq' with hq' | ⟨k, k', es, hfk, hq'⟩
    · rw [hq'] at hg; exact h.qfin g (by rw [hq]; exact List.mem_cons_of_mem _ hg)
    · rw [hq'] at hg
      rcases List.mem_cons.mp hg with hg | hg
      · rcases hf with hf | hf
        · rw [hfk] at hf; cases hf
        · exact Or.inr hf
      · exact h.qfin g (by rw [hq]; exact List.mem_cons_of_mem _ hg)
  · intro g hg
    simp only [] at hg
    rcases hq' with hq' | ⟨k, k', es, _, hq'⟩
    · rw [hq'] at hg; exact h.qnp g (by rw [hq]; exact List.mem_cons_of_mem _ hg)
    · rw [hq'] at hg
      rcases List.mem_cons.mp hg with hg | hg
      · rw [hg]; intro x; cases x
      · exact h.qnp g (by rw [hq]; exact List.mem_cons_of_mem _ hg)

theorem drainStep_inv (c : Conn) (r : Conn × Out) (h : CInv c) (hd : drainStep c = some r) :
    CInv r.1 ∧ r.2.isPanic = false := by
  unfold drainStep at hd
  split at hd
  · rename_i id _
    split at hd
    · rename_i f rest hq
      cases hd
      obtain ⟨hp, hf, hnp⟩ := head_facts (c.streams id) f rest (h id) hq
      have hs := sinv_take (c.streams id) f rest rest (c.streams id).flow (h id) hq (Or.inl rfl)
      exact startOn_inv c id _ f h hs hp hf hnp
    · cases hd
  · split at hd
    · rename_i id _
      split at hd
      · rename_i len es rest hq
        obtain ⟨hp, hf, _⟩ := head_facts (c.streams id) (.data len es) rest (h id) hq
        have hfin : (c.streams id).handler = .finished := by
          rcases hf with hf | hf
          · cases hf
          · exact hf
        simp only [] at hd
        split at hd
        · cases hd
          have hc' : CInv { c with cflow := c.cflow - min (min (c.streams id).flow c.cflow) maxFrame } := h
          have hs := sinv_take (c.streams id) (.data len es) rest
            (.data (len - (min (min (c.streams id).flow c.cflow) maxFrame).toNat) es :: rest)
            ((c.streams id).flow - min (min (c.streams id).flow c.cflow) maxFrame) (h id) hq
            (Or.inr ⟨len, _, es, rfl, rfl⟩)
          exact startOn_inv _ id _ _ hc' hs hp (Or.inr hfin) (by intro x; cases x)
        · cases hd
          have hc' : CInv { c with cflow := c.cflow - (len : Int) } := h
          have hs := sinv_take (c.streams id) (.data len es) rest rest ((c.streams id).flow - (len : Int)) (h id) hq (Or.inl rfl)
          exact startOn_inv _ id _ _ hc' hs hp (Or.inr hfin) (by intro x; cases x)
      · cases hd
    · cases hd

theorem drain_inv (fuel : Nat) (c : Conn) (h : CInv c) : CInv (drain fuel c).1 ∧ (drain fuel c).2 = none := by
  induction fuel generalizing c with
  | zero => exact ⟨h, rfl⟩
  | succ n ih =>
    simp only [drain]
    split
    · exact ⟨h, rfl⟩
    · split
      · exact ⟨h, rfl⟩
      · rename_i c' site hd
        have := (drainStep_inv c _ h hd).2
        cases this
      · rename_i c' o _ hd
        exact ih c' (drainStep_inv c _ h hd).1

theorem handlerOutcome_np (c : Conn) (id : Nat) : (handlerOutcome c id).isPanic = false := by
  unfold handlerOutcome
  split
  · rfl
  · split
    · split <;> rfl
    · rfl

theorem cstep_inv (c : Conn) (e : Ev) (hp : e.isP = false) (h : CInv c) :
    CInv (cstep c e).1 ∧ (cstep c e).2.isPanic = false := by
  unfold cstep
  split
  · exact ⟨h, rfl⟩
  · split
    · exact ⟨h, rfl⟩
    · obtain ⟨a, b⟩ := cstepCore_inv c e hp h
      simp only []
      split
      · exact ⟨a, b⟩
      · obtain ⟨d1, d2⟩ := drain_inv 1000 (cstepCore c e).1 a
        rw [d2]
        simp only []
        split
        · exact ⟨d1, handlerOutcome_np _ _⟩
        · exact ⟨d1, handlerOutcome_np _ _⟩
        · exact ⟨d1, handlerOutcome_np _ _⟩
        · exact ⟨d1, handlerOutcome_np _ _⟩
        · exact ⟨d1, b⟩

theorem runEvs_no_panic (c : Conn) (evs : List Ev) (acc : List Out)
    (hp : ∀ e ∈ evs, e.isP = false) (h : CInv c) (hacc : ∀ o ∈ acc, o.isPanic = false) :
    ∀ o ∈ (runEvs c evs acc).2, o.isPanic = false := by
  induction evs generalizing c acc with
  | nil =>
    intro o ho
    simp only [runEvs, List.mem_reverse] at ho
    exact hacc o ho
  | cons e r ih =>
    obtain ⟨a, b⟩ := cstep_inv c e (hp e (by simp)) h
    have hacc' : ∀ o ∈ (cstep c e).2 :: acc, o.isPanic = false := by
      intro o ho
      rcases List.mem_cons.mp ho with ho | ho
      · rw [ho]; exact b
      · exact hacc o ho
    simp only [runEvs]
    split
    · intro o ho
      simp only [List.mem_reverse] at ho
      exact hacc' o ho
    · exact ih _ _ (fun e he => hp e (List.mem_cons_of_mem _ he)) a hacc'

/-! ### disposition of every `panic(...)` site of server.go (the list is regenerated from the source) -/
inductive Disp
  | modelled (s : PanicSite)     -- an `Out.panic s` transition of the model
  | outside (why : String)       -- not reachable at this granularity / other property, with the reason

def panicTable : List ((String × String) × Disp) := [
  (("notePanic", "<expr>"), .outside "re-panic of an already recovered panic, only when a test hook asks for it"),
  (("setTimeout", "internal error: bad request body"), .outside "timeout API: RequestBody.conn is set to the serverConn by newWriterAndRequest"),
  (("startFrameWrite", "internal error: can only be writing one frame at a time"), .outside "scheduleFrameWrite returns early while writingFrame; the model keeps one frame in flight (busy)"),
  (("startFrameWrite", "internal error: attempt to send frame on half-closed-local stream"), .modelled .writeHcl),
  (("startFrameWrite", "internal error: attempt to send a write %v on a closed stream"), .modelled .writeClosed),
  (("wroteFrame", "internal error: expected to be already writing a frame"), .outside "wroteFrame only follows startFrameWrite; the model's W on nothing in flight is `idle`"),
  (("wroteFrame", "unbuffered done channel passed in for type %T"), .outside "every call site passes make(chan error, 1)"),
  (("wroteFrame", "internal error: expecting non-nil stream"), .outside "frames with END_STREAM are only built by writeDataFromHandler / writeHeaders, which pass the stream"),
  (("closeStream", "invariant; can't close stream in state %v"), .modelled .closeClosed),
  (("processData", "internal error: should have a body in this state"), .modelled .noBody),
  (("processData", "internal error: bad Writer"), .outside "contract of pipe.Write (bfe_util/pipe)"),
  (("sendWindowUpdate32", "negative update"), .outside "flow control, property C33"),
  (("sendWindowUpdate32", "internal error; sent too many window updates without decrements?"), .outside "flow control, property C33"),
  (("Flush", "Header called after Handler finished"), .outside "handler goroutine misuse of a finished ResponseWriter, not the serve loop"),
  (("CloseNotify", "CloseNotify called after Handler finished"), .outside "handler goroutine misuse of a finished ResponseWriter, not the serve loop"),
  (("Header", "Header called after Handler finished"), .outside "handler goroutine misuse of a finished ResponseWriter, not the serve loop"),
  (("WriteHeader", "WriteHeader called after Handler finished"), .outside "handler goroutine misuse of a finished ResponseWriter, not the serve loop"),
  (("write", "Write called after Handler finished"), .outside "handler goroutine misuse of a finished ResponseWriter, not the serve loop"),
  (("take", "internal error: took too much"), .outside "outbound DATA scheduling against the send windows, property C34 (handlers of this model send no body)"),
  (("putEmptyQueue", "queue must be empty"), .outside "write scheduler internals, property C34"),
  (("take", "internal error: ws.maxFrameSize not initialized or invalid"), .outside "maxFrameSize is initialised by ServeConn and SETTINGS_MAX_FRAME_SIZE is range-checked by Setting.Valid"),
  (("take", "should be empty"), .outside "write scheduler internals, property C34"),
  (("streamWritableBytes", "internal error: ws.maxFrameSize not initialized or invalid"), .outside "maxFrameSize is initialised by ServeConn and SETTINGS_MAX_FRAME_SIZE is range-checked by Setting.Valid"),
  (("head", "invalid use of queue"), .outside "write scheduler internals, property C34"),
  (("shift", "invalid use of queue"), .outside "write scheduler internals, property C34"),
  (("endsStream", "endsStream called on nil writeFramer"), .outside "wroteFrame reads wm.write before it is set to nil"),
  (("writeFrame", "unexpected empty hpack"), .outside "response encoding, property C38 (a status of 0 with no header at all)")
]

def classifySite (s : String × String) : Bool := panicTable.any fun e => e.1.1 == s.1 && e.1.2 == s.2

end BfeVerif.C35
