import BfeVerif.C40.Driver
def main : IO Unit := BfeVerif.Proto.driverMain BfeVerif.C40.run
