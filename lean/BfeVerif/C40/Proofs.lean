import BfeVerif.C40.Model
import BfeVerif.Generated.C40
namespace BfeVerif.C40

def I32 (x : Int) : Prop := -2147483648 ≤ x ∧ x ≤ 2147483647

/-! ### flow arithmetic -/

theorem flowAdd_some (f n : Int) (hf : I32 f) (hn : I32 n) (hs : I32 (f + n)) : flowAdd f n = some (f + n) := by
  unfold I32 at *
  unfold flowAdd wrap32
  have e : (f + n + 2147483648) % 4294967296 - 2147483648 = f + n := by omega
  simp only [e]
  by_cases h1 : f + n > n <;> by_cases h2 : f > 0 <;> simp [h1, h2] <;> omega

theorem flowAdd_sound (f n f' : Int) (hf : I32 f) (hn : I32 n) (h : flowAdd f n = some f') :
    f' = f + n ∧ I32 f' := by
  unfold I32 at *
  unfold flowAdd wrap32 at h
  by_cases h1 : (f + n + 2147483648) % 4294967296 - 2147483648 > n <;> by_cases h2 : f > 0 <;>
    simp [h1, h2] at h <;> subst h <;> omega

theorem flowAdd_none (f n : Int) (hf : I32 f) (hn : I32 n) (h : flowAdd f n = none) : ¬ I32 (f + n) := by
  intro hs
  rw [flowAdd_some f n hf hn hs] at h
  cases h

/-! ### per-stream / global invariants -/

/-- inbound side of one stream: the advertised window is never negative and, together with the bytes already
    accepted and not yet read, never exceeds the initial grant; outbound window is an int32 (no wrap-around). -/
def StOK (st : St) : Prop := 0 ≤ st.inflow ∧ st.inflow + st.buf ≤ 65536 ∧ I32 st.flow

structure Inv (s : State) : Prop where
  connIn : 0 ≤ s.connIn ∧ s.connIn ≤ 2147483647
  connFlow : I32 s.connFlow
  iws : I32 s.iws
  sts : ∀ st ∈ s.streams, StOK st
  ids : ∀ x ∈ s.opened, x ≤ s.maxId ∧ x % 2 = 1
  incr : s.opened.Pairwise (· < ·)

theorem inv_init (a : Nat) : Inv { adv := a } := by
  constructor <;> simp [I32]

theorem inv_kick (s : State) (b : Bool) (h : Inv s) : Inv { s with kick := b } := ⟨h.1, h.2, h.3, h.4, h.5, h.6⟩

theorem sts_updSt (s : State) (id : Nat) (f : St → St) (h : ∀ st ∈ s.streams, StOK st)
    (hf : ∀ x, StOK x → StOK (f x)) : ∀ st ∈ (updSt s id f).streams, StOK st := by
  intro st hst
  simp only [updSt, List.mem_map] at hst
  obtain ⟨x, hx, rfl⟩ := hst
  split
  · exact hf x (h x hx)
  · exact h x hx

theorem inv_updSt (s : State) (id : Nat) (f : St → St) (h : Inv s) (hf : ∀ x, StOK x → StOK (f x)) :
    Inv (updSt s id f) :=
  ⟨h.1, h.2, h.3, sts_updSt s id f h.4 hf, h.5, h.6⟩

theorem inv_updH (s : State) (id : Nat) (f : H → H) (h : Inv s) : Inv (updH s id f) :=
  ⟨h.1, h.2, h.3, h.4, h.5, h.6⟩

theorem inv_popCmd (s : State) (id : Nat) (h : Inv s) : Inv (popCmd s id) := inv_updH s id _ h
theorem inv_setHead (s : State) (id : Nat) (c : Cmd) (h : Inv s) : Inv (setHead s id c) := inv_updH s id _ h

theorem find_mem (s : State) (id : Nat) (st : St) (h : find s id = some st) : st ∈ s.streams :=
  List.mem_of_find?_eq_some h

theorem findAny_mem (s : State) (id : Nat) (st : St) (h : findAny s id = some st) : st ∈ s.streams :=
  List.mem_of_find?_eq_some h

/-- adding a non-negative amount to the connection's inbound window keeps it a non-negative int32 -/
theorem connIn_add (c : Int) (k : Nat) (h : 0 ≤ c ∧ c ≤ 2147483647) (hk : (k : Int) ≤ 2147483647) :
    0 ≤ (flowAdd c k).getD c ∧ (flowAdd c k).getD c ≤ 2147483647 := by
  cases hfa : flowAdd c k with
  | none => simpa using h
  | some v =>
    have := flowAdd_sound c k v ⟨by omega, h.2⟩ ⟨by omega, hk⟩ hfa
    simp only [Option.getD_some]
    unfold I32 at this
    omega

theorem inv_close (s : State) (id : Nat) (h : Inv s) : Inv (close s id) := by
  unfold close
  cases hf : find s id with
  | none => exact h
  | some st =>
    have hst := h.4 st (find_mem s id st hf)
    have hb : (st.buf : Int) ≤ 2147483647 := by unfold StOK at hst; omega
    have hc := connIn_add s.connIn st.buf h.1 hb
    simp only []
    refine ⟨?_, h.2, h.3, ?_, h.5, h.6⟩
    · show 0 ≤ (if st.buf > 0 then (flowAdd s.connIn st.buf).getD s.connIn else s.connIn) ∧ _
      split
      · exact hc
      · exact h.1
    · show ∀ x ∈ (updSt _ id _).streams, StOK x
      apply sts_updSt
      · exact h.4
      · intro x hx
        refine ⟨hx.1, ?_, hx.2.2⟩
        show x.inflow + ((0 : Nat) : Int) ≤ 65536
        have h1 := hx.2.1
        have h2 : (0 : Int) ≤ (x.buf : Int) := Int.natCast_nonneg _
        omega

theorem inv_reset (s : State) (id c : Nat) (h : Inv s) : Inv (reset s id c).st :=
  inv_kick _ _ (inv_close s id h)

theorem growAll_ok (l : List St) (g : Int) (hg : I32 g) (l' : List St) (h : ∀ st ∈ l, StOK st)
    (hr : growAll l g = some l') : ∀ st ∈ l', StOK st := by
  induction l generalizing l' with
  | nil => simp [growAll] at hr; subst hr; simp
  | cons a t ih =>
    unfold growAll at hr
    have ha := h a (List.mem_cons_self)
    have ht : ∀ st ∈ t, StOK st := fun st hst => h st (List.mem_cons_of_mem _ hst)
    split at hr
    · cases hfa : flowAdd a.flow g with
      | none => simp [hfa] at hr
      | some f =>
        cases hgt : growAll t g with
        | none => simp [hfa, hgt] at hr
        | some t' =>
          simp only [hfa, hgt, Option.some.injEq] at hr
          subst hr
          intro st hst
          rcases List.mem_cons.mp hst with rfl | hst
          · have := flowAdd_sound a.flow g f ha.2.2 hg hfa
            exact ⟨ha.1, ha.2.1, this.2⟩
          · exact ih t' ht hgt st hst
    · cases hgt : growAll t g with
      | none => simp [hgt] at hr
      | some t' =>
        simp only [hgt, Option.map_some, Option.some.injEq] at hr
        subst hr
        intro st hst
        rcases List.mem_cons.mp hst with rfl | hst
        · exact ha
        · exact ih t' ht hgt st hst

theorem wrap32_I32 (x : Int) : I32 (wrap32 x) := by unfold I32 wrap32; omega

theorem wrap32_id (x : Int) (h : I32 x) : wrap32 x = x := by unfold I32 at h; unfold wrap32; omega

theorem inv_newStream (s : State) (st : St) (id : Nat) (l : List H) (h : Inv s) (hst : StOK st)
    (hodd : id % 2 = 1) (hgt : s.maxId < id) :
    Inv { s with kick := false, maxId := id, streams := s.streams ++ [st], handlers := l, cur := s.cur + 1,
                 opened := s.opened ++ [id] } := by
  refine ⟨h.1, h.2, h.3, ?_, ?_, ?_⟩
  · intro x hx
    rcases List.mem_append.mp hx with hx | hx
    · exact h.4 x hx
    · simp only [List.mem_singleton] at hx
      subst hx
      exact hst
  · intro x hx
    rcases List.mem_append.mp hx with hx | hx
    · have := h.5 x hx
      exact ⟨by show x ≤ id; omega, this.2⟩
    · simp only [List.mem_singleton] at hx
      subst hx
      exact ⟨Nat.le_refl _, hodd⟩
  · refine List.pairwise_append.mpr ⟨h.6, List.pairwise_singleton _ _, ?_⟩
    intro a ha b hb
    simp only [List.mem_singleton] at hb
    subst hb
    have := (h.5 a ha).1
    omega

theorem goAway_st (s : State) (c : Nat) : (goAway s c).st = s := by
  unfold goAway; split <;> rfl

theorem inv_step (s : State) (e : Ev) (h : Inv s) : Inv (step s e).st := by
  have h0 : Inv { s with kick := false } := inv_kick s false h
  cases e with
  | syn id fin meth cl =>
    simp only [step]
    split
    · exact h0
    · split
      · exact h0
      · split
        · rw [goAway_st]; exact h0
        · split
          · exact inv_reset _ _ _ h0
          · rename_i hz hga hbad heq
            have hodd : id % 2 = 1 := by omega
            have hgt : s.maxId < id := by
              have : ¬ id < s.maxId := fun hh => hbad (Or.inr hh)
              have : id ≠ s.maxId := heq
              omega
            have hflow : I32 ((flowAdd 0 s.iws).getD 0) := by
              cases hfa : flowAdd 0 s.iws with
              | none => simp [I32]
              | some v => exact (flowAdd_sound 0 s.iws v (by simp [I32]) h.3 hfa).2
            have key := fun (st : St) (hst : StOK st) (l : List H) => inv_newStream s st id l h hst hodd hgt
            split
            · exact key _ ⟨by show (0 : Int) ≤ 65536; omega, by show (65536 : Int) + ((0 : Nat) : Int) ≤ 65536; omega, hflow⟩ _
            · split
              · exact inv_reset _ _ _ (key _ ⟨by show (0 : Int) ≤ 65536; omega, by show (65536 : Int) + ((0 : Nat) : Int) ≤ 65536; omega, hflow⟩ _)
              · exact key _ ⟨by show (0 : Int) ≤ 65536; omega, by show (65536 : Int) + ((0 : Nat) : Int) ≤ 65536; omega, hflow⟩ _
  | data id len fin =>
    simp only [step]
    split
    · exact h0
    · cases hf : find { s with kick := false } id with
      | none => exact inv_reset _ _ _ h0
      | some st =>
        simp only []
        split
        · exact inv_reset _ _ _ h0
        · split
          · exact inv_reset _ _ _ h0
          · split
            · split
              · exact inv_reset _ _ _ h0
              · rename_i hav
                cases hft : flowTake st.inflow s.connIn len with
                | none => exact h0
                | some ic =>
                  obtain ⟨i, c⟩ := ic
                  simp only []
                  unfold flowTake at hft
                  split at hft
                  · cases hft
                  · rename_i hle
                    simp only [Option.some.injEq, Prod.mk.injEq] at hft
                    have hc : c = wrap32 (s.connIn - len) := hft.2.symm
                    have hcl : (len : Int) ≤ s.connIn := by
                      unfold available at hle; split at hle <;> omega
                    have hcn := h.1
                    have hs2 : Inv (updSt { ({ s with kick := false } : State) with connIn := c } id fun x =>
                        if (len : Int) ≤ x.inflow then
                          { x with inflow := wrap32 (x.inflow - len), buf := x.buf + len, isOpen := x.isOpen && !fin,
                                   eof := x.eof || fin, got := x.got + len }
                        else x) := by
                      apply inv_updSt
                      · refine ⟨?_, h.2, h.3, h.4, h.5, h.6⟩
                        show 0 ≤ c ∧ c ≤ 2147483647
                        subst hc; unfold wrap32; omega
                      · intro x hx
                        split
                        · rename_i hxl
                          unfold StOK at hx ⊢
                          refine ⟨?_, ?_, hx.2.2⟩
                          · show 0 ≤ wrap32 (x.inflow - len); unfold wrap32; omega
                          · show wrap32 (x.inflow - len) + ((x.buf + len : Nat) : Int) ≤ 65536
                            unfold wrap32
                            have : ((x.buf + len : Nat) : Int) = (x.buf : Int) + (len : Int) := by simp
                            omega
                        · exact hx
                    split
                    · exact inv_reset _ _ _ hs2
                    · exact hs2
            · have hs2 : Inv (updSt ({ s with kick := false } : State) id fun x =>
                  { x with isOpen := x.isOpen && !fin, eof := x.eof || fin }) := by
                apply inv_updSt _ _ _ h0
                intro x hx
                exact ⟨hx.1, hx.2.1, hx.2.2⟩
              split
              · exact inv_reset _ _ _ hs2
              · exact hs2
  | wu id delta =>
    simp only [step]
    have hd : I32 ((delta % 2147483648 : Nat) : Int) := by unfold I32; omega
    split
    · cases hf : find { s with kick := false } id with
      | none => exact h0
      | some st =>
        simp only []
        cases hfa : flowAdd st.flow ((delta % 2147483648 : Nat) : Int) with
        | none => exact inv_reset _ _ _ h0
        | some f =>
          simp only []
          have hst := h.4 st (find_mem _ id st hf)
          have hs := flowAdd_sound _ _ f hst.2.2 hd hfa
          apply inv_kick
          apply inv_updSt _ _ _ h0
          intro x hx
          exact ⟨hx.1, hx.2.1, hs.2⟩
    · cases hfa : flowAdd s.connFlow ((delta % 2147483648 : Nat) : Int) with
      | none => simp only []; rw [goAway_st]; exact h0
      | some f =>
        have hs := flowAdd_sound _ _ f h.2 hd hfa
        exact ⟨h.1, hs.2, h.3, h.4, h.5, h.6⟩
  | rst id status =>
    simp only [step]
    split
    · exact h0
    · split
      · exact inv_close _ _ h0
      · split
        · exact h0
        · rw [goAway_st]; exact h0
  | iws val =>
    simp only [step]
    have hn : I32 (wrap32 (val : Int)) := wrap32_I32 _
    have hbase : Inv { ({ s with kick := false } : State) with iws := wrap32 (val : Int) } :=
      ⟨h.1, h.2, hn, h.4, h.5, h.6⟩
    cases hg : growAll s.streams (wrap32 (wrap32 (val : Int) - s.iws)) with
    | none => simp only [hg]; rw [goAway_st]; exact hbase
    | some l =>
      simp only [hg]
      exact ⟨h.1, h.2, hn, growAll_ok s.streams _ (wrap32_I32 _) l h.4 hg, h.5, h.6⟩
  | ping id =>
    simp only [step]
    split
    · exact h0
    · exact inv_kick s true h
  | hcmd id c =>
    simp only [step]
    exact inv_updH _ _ _ h0
  | graceful =>
    simp only [step]
    split
    · exact h0
    · exact ⟨h.1, h.2, h.3, h.4, h.5, h.6⟩

theorem inv_handlers (s : State) (l : List H) (b : Bool) (h : Inv s) : Inv { s with handlers := l, kick := b } :=
  ⟨h.1, h.2, h.3, h.4, h.5, h.6⟩

theorem inv_takeOut (s : State) (id c : Nat) (h : Inv s) : Inv (takeOut s id c) := by
  unfold takeOut
  apply inv_updSt
  · exact ⟨h.1, wrap32_I32 _, h.3, h.4, h.5, h.6⟩
  · intro x hx
    exact ⟨hx.1, hx.2.1, wrap32_I32 _⟩

theorem inv_connInAdd (s : State) (k : Nat) (hk : (k : Int) ≤ 2147483647) (h : Inv s) :
    Inv { s with connIn := (flowAdd s.connIn k).getD s.connIn, kick := true } :=
  ⟨connIn_add s.connIn k h.1 hk, h.2, h.3, h.4, h.5, h.6⟩

theorem inv_readUpd (s : State) (id k : Nat) (h : Inv s) :
    Inv (updSt s id fun x =>
      if k ≤ x.buf then
        { x with buf := x.buf - k, inflow := if x.isOpen then (flowAdd x.inflow k).getD x.inflow else x.inflow }
      else x) := by
  apply inv_updSt s id _ h
  intro x hx
  split
  · rename_i hk
    unfold StOK at hx ⊢
    have hcast : ((x.buf - k : Nat) : Int) = (x.buf : Int) - (k : Int) := by omega
    refine ⟨?_, ?_, hx.2.2⟩
    · show 0 ≤ (if x.isOpen = true then (flowAdd x.inflow k).getD x.inflow else x.inflow)
      split
      · cases hfa : flowAdd x.inflow k with
        | none => simpa using hx.1
        | some v =>
          have := flowAdd_sound x.inflow k v ⟨by omega, by omega⟩ ⟨by omega, by omega⟩ hfa
          simp only [Option.getD_some]; omega
      · exact hx.1
    · show (if x.isOpen = true then (flowAdd x.inflow k).getD x.inflow else x.inflow) + ((x.buf - k : Nat) : Int) ≤ 65536
      split
      · cases hfa : flowAdd x.inflow k with
        | none => simp only [Option.getD_none]; omega
        | some v =>
          have := flowAdd_sound x.inflow k v ⟨by omega, by omega⟩ ⟨by omega, by omega⟩ hfa
          simp only [Option.getD_some]; omega
      · omega
  · exact hx

theorem inv_microH (s : State) (st : St) (hh : H) (hst : st ∈ s.streams) (h : Inv s) (s' : State) (o : List Out)
    (hm : microH s st hh = some (s', o)) : Inv s' := by
  have hstok := h.4 st hst
  have hbuf : (st.buf : Int) ≤ 65536 := by unfold StOK at hstok; omega
  unfold microH at hm
  split at hm
  · cases hm
  · -- read
    split at hm
    · simp only [Option.some.injEq, Prod.mk.injEq] at hm; obtain ⟨rfl, _⟩ := hm; exact inv_popCmd _ _ h
    · split at hm
      · simp only [Option.some.injEq, Prod.mk.injEq] at hm
        obtain ⟨rfl, _⟩ := hm
        have hk : ∀ m : Nat, ((min m st.buf : Nat) : Int) ≤ 2147483647 := by
          intro m
          have : min m st.buf ≤ st.buf := Nat.min_le_right _ _
          omega
        split
        · exact inv_popCmd _ _ (inv_readUpd _ hh.id _ (inv_connInAdd s _ (hk _) h))
        · exact inv_setHead _ _ _ (inv_readUpd _ hh.id _ (inv_connInAdd s _ (hk _) h))
      · split at hm
        · simp only [Option.some.injEq, Prod.mk.injEq] at hm; obtain ⟨rfl, _⟩ := hm; exact inv_popCmd _ _ h
        · cases hm
  · -- write
    split at hm
    · simp only [Option.some.injEq, Prod.mk.injEq] at hm; obtain ⟨rfl, _⟩ := hm; exact inv_popCmd _ _ h
    · split at hm
      · split at hm
        · simp only [Option.some.injEq, Prod.mk.injEq] at hm
          obtain ⟨rfl, _⟩ := hm
          have h1 := inv_updH _ hh.id (fun x => { x with sentHeader := true }) (inv_kick s true h)
          split
          · exact inv_popCmd _ _ h1
          · exact inv_setHead _ _ _ h1
        · simp only [Option.some.injEq, Prod.mk.injEq] at hm
          obtain ⟨rfl, _⟩ := hm
          exact inv_popCmd _ _ (inv_updH _ _ _ h)
      · split at hm
        · simp only [Option.some.injEq, Prod.mk.injEq] at hm; obtain ⟨rfl, _⟩ := hm; exact inv_popCmd _ _ h
        · split at hm
          · simp only [Option.some.injEq, Prod.mk.injEq] at hm
            obtain ⟨rfl, _⟩ := hm
            exact inv_setHead _ _ _ (inv_kick s true h)
          · simp only [Option.some.injEq, Prod.mk.injEq] at hm
            obtain ⟨rfl, _⟩ := hm
            exact inv_popCmd _ _ (inv_updH _ _ _ h)
  · -- send
    split at hm
    · simp only [Option.some.injEq, Prod.mk.injEq] at hm; obtain ⟨rfl, _⟩ := hm; exact inv_popCmd _ _ h
    · split at hm
      · simp only [Option.some.injEq, Prod.mk.injEq] at hm
        obtain ⟨rfl, _⟩ := hm
        split
        · exact inv_popCmd _ _ (inv_takeOut _ _ _ h)
        · exact inv_setHead _ _ _ (inv_takeOut _ _ _ h)
      · cases hm
  · -- finish
    split at hm
    · simp only [Option.some.injEq, Prod.mk.injEq] at hm
      obtain ⟨rfl, _⟩ := hm
      exact inv_close _ _ (inv_handlers s _ _ h)
    · simp only [Option.some.injEq, Prod.mk.injEq] at hm
      obtain ⟨rfl, _⟩ := hm
      exact inv_handlers s _ _ h

theorem inv_microS (s : State) (st : St) (hst : st ∈ s.streams) (h : Inv s) (s' : State) (o : List Out)
    (hm : microS s st = some (s', o)) : Inv s' := by
  unfold microS at hm
  split at hm
  · cases hm
  · exact inv_microH s st _ hst h s' o hm

theorem inv_microFirst (s : State) (l : List St) (hl : ∀ st ∈ l, st ∈ s.streams) (h : Inv s) (s' : State)
    (o : List Out) (hm : microFirst s l = some (s', o)) : Inv s' := by
  induction l with
  | nil => cases hm
  | cons a t ih =>
    unfold microFirst at hm
    cases hms : microS s a with
    | some r =>
      simp only [hms, Option.some.injEq] at hm
      subst hm
      exact inv_microS s a (hl a List.mem_cons_self) h _ _ hms
    | none =>
      simp only [hms] at hm
      exact ih (fun st hst => hl st (List.mem_cons_of_mem _ hst)) hm

theorem inv_settle (rev : Bool) (fuel : Nat) (s : State) (acc : List Out) (h : Inv s) :
    Inv (settle rev fuel s acc).1 := by
  induction fuel generalizing s acc with
  | zero => exact h
  | succ n ih =>
    unfold settle
    cases hm : microFirst s (if rev = true then s.streams.reverse else s.streams) with
    | none => exact h
    | some r =>
      obtain ⟨s', o⟩ := r
      simp only []
      apply ih
      apply inv_microFirst s _ _ h s' o hm
      intro st hst
      split at hst
      · exact List.mem_reverse.mp hst
      · exact hst

theorem inv_stepQ (rev : Bool) (s : State) (e : Ev) (h : Inv s) : Inv (stepQ rev s e).st := by
  have hs := inv_step s e h
  cases hstat : (step s e).status <;> simp only [stepQ, hstat]
  · exact inv_settle rev settleFuel _ _ hs
  all_goals exact hs

theorem inv_run (rev : Bool) (s : State) (evs : List Ev) (h : Inv s) : Inv (runScript rev s evs).2.2 := by
  induction evs generalizing s with
  | nil => exact h
  | cons e t ih =>
    have hq := inv_stepQ rev s e h
    cases hstat : (stepQ rev s e).status <;> simp only [runScript, hstat]
    · exact ih _ hq
    all_goals exact hq

theorem allowed_le (s : State) (st : St) :
    allowed s st ≤ st.flow ∧ allowed s st ≤ s.connFlow ∧ allowed s st ≤ 16384 := by
  simp only [allowed, available, maxFrame]
  repeat' split
  all_goals omega

/-! ### panic sites of package bfe_spdy (regenerated list: BfeVerif.Generated.C40.panicSites) -/

/-- disposition of every `panic(` message of the package: (message, number of sites, [where it was when classified]
    disposition).  Keyed by message and count only, so that moving a site into a helper or another file changes nothing. -/
def panicTable : List (String × Nat × String) := [
  ("internal error: took too much", 1, "[flow.go take] modelled (flowTake = none): unreachable from processData (C40_no_panic) and from the scheduler (C40_out_window: every chunk is at most available())"),
  ("Header called after Handler finished", 2, "[response_writer.go Flush, response_writer.go Header] handler misuse after return: outside the model (scripted handlers stop using w at `finish`)"),
  ("WriteHeader called after Handler finished", 1, "[response_writer.go WriteHeader] handler misuse after return: outside the model"),
  ("Write called after Handler finished", 1, "[response_writer.go write] handler misuse after return: outside the model"),
  ("handlerDone called twice", 1, "[response_writer.go handlerDone] called once from runHandler's defer: outside the model"),
  ("CloseNotify called after Handler finished", 1, "[response_writer.go CloseNotify] handler misuse after return: outside the model"),
  ("internal error: bad request body", 1, "[server_conn.go setTimeout] timeout API called with a body of another connection: outside the model"),
  ("internal error: can only be writing one frame at a time", 1, "[server_conn.go startFrameWrite] writeFrames hand-off protocol (writingFrame flag): below the model's granularity; exercised"),
  ("internal error: attempt to send frame on half-closed-local stream", 1, "[server_conn.go startFrameWrite] stateHalfClosedLocal only exists inside wroteFrame: below the model's granularity; exercised"),
  ("internal error: attempt to send a write %v on a closed stream", 1, "[server_conn.go startFrameWrite] frames for closed streams are dropped by writeFrame before they reach the scheduler (fix C40-closed-stream-writes); modelled as skipped; exercised"),
  ("internal error: expected to be already writing a frame", 1, "[server_conn.go wroteFrame] writeFrames hand-off protocol: below the model's granularity; exercised"),
  ("unbuffered done channel passed in for type %T", 1, "[server_conn.go wroteFrame] all done channels are made with capacity 1: outside the model"),
  ("internal error: expecting non-nil stream", 1, "[server_conn.go wroteFrame] FIN frames always carry their stream: outside the model"),
  ("endsStream called on nil writeFramer", 1, "[server_conn.go endsStream] defensive: outside the model"),
  ("invariant; can't close stream in state %v", 1, "[server_conn.go closeStream] modelled: `close` acts on streams found alive only (find); exercised"),
  ("<expr>", 1, "[server_conn.go notePanic] re-panic of a recovered panic under a test hook: outside the model"),
  ("negative update", 1, "[server_flow_control.go sendWindowUpdate32] n comes from a Read count or pipe.Discard(): never negative; outside the model"),
  ("internal error; sent too many window updates without decrements?", 1, "[server_flow_control.go sendWindowUpdate32] modelled as flowAdd failing on an inbound window: per stream impossible by the trace invariant (inflow + unread <= 65536); for the connection window NOT proved (needs the sum over streams), exercised"),
  ("internal error: should have a body in this state", 1, "[server_process_frame.go processData] stateOpen streams are created with a body pipe (hasBody = isOpen at creation): exercised"),
  ("internal error: bad Writer", 1, "[server_process_frame.go processData] the fixed buffer holds 65536 bytes and inflow + unread <= 65536 (trace invariant): a short write would first be an error; exercised"),
  ("queue must be empty", 1, "[server_write_sched.go putEmptyQueue] scheduler queue bookkeeping: below the model's granularity; exercised"),
  ("internal error: ws.maxFrameSize not initialized or invalid", 2, "[server_write_sched.go streamWritableBytes, server_write_sched.go take] maxFrameSize is the constant 16384: outside the model"),
  ("should be empty", 1, "[server_write_sched.go take] scheduler scratch slice: below the model's granularity; exercised"),
  ("invalid use of queue", 2, "[server_write_sched.go head, server_write_sched.go shift] scheduler queue bookkeeping: below the model's granularity; exercised"),
  ("out of range", 1, "[spdy.go mustUint31] not called in the package: outside the model") ]

def classifySite (s : String × Nat) : Bool := panicTable.any fun e => e.1 == s.1 && e.2.1 == s.2

end BfeVerif.C40
