import BfeVerif.C40.Model
namespace BfeVerif.C40

theorem close_absent (s : State) (id : Nat) (h : find s id = none) : close s id = s := by
  simp [close, h]

end BfeVerif.C40
