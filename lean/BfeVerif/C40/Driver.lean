import BfeVerif.Common.Proto
import BfeVerif.C40.Model
namespace BfeVerif.C40
open BfeVerif.Proto

def Out.str : Out → String
  | .rst a b => s!"rst({a},{b})"
  | .goaway a b => s!"goaway({a},{b})"
  | .ping a => s!"ping({a})"

def parseEv (t : String) : Option Ev :=
  let body := (t.drop 1).toString
  let ns := (body.splitOn ",").mapM String.toNat?
  match (t.take 1).toString, ns with
  | "S", some [a, b] => some (.syn a (b != 0))
  | "D", some [a, b, c] => if b ≤ 1048576 then some (.data a b (c != 0)) else none
  | "W", some [a, b] => some (.wu a b)
  | "R", some [a, b] => if b = 0 then none else some (.rst a b)
  | "I", some [a] => some (.iws a)
  | "P", some [a] => some (.ping a)
  | _, _ => none

def renderRun (r : List (List Out) × Status × State) : String :=
  let evs := r.1.map fun o => "[" ++ ",".intercalate (o.map Out.str) ++ "]"
  let tail := match r.2.1 with
    | .run => []
    | .closed => ["closed"]
    | .stop => ["stop"]
    | .panic => ["PANIC"]
  " ".intercalate (evs ++ tail)

def showInt (i : Int) : String := toString i

def run' (op impl : String) : Ans :=
  match op.splitOn " " with
  | "sv" :: adv :: evs =>
    match adv.toNat?, evs.mapM parseEv with
    | some a, some es =>
      if a = 0 then { model := "bad-op", verdict := "skip" } else
      let r := runScript { adv := a } es
      let model := renderRun r
      let bad := impl.startsWith "PANIC" || (impl.splitOn "HANG").length > 1 || (impl.splitOn "PANIC").length > 1
      let kinds := es.map fun e => match e with
        | .syn .. => "syn" | .data .. => "data" | .wu .. => "wu" | .rst .. => "rst" | .iws .. => "iws" | .ping .. => "ping"
      let outs := (r.1.flatMap id).map fun o => match o with
        | .rst _ c => s!"rst{c}" | .goaway _ c => s!"goaway{c}" | .ping _ => "echo"
      { model, verdict := if bad then "FAIL:panic-or-hang" else "ok",
        tags := ["sv"] ++ kinds.eraseDups ++ outs.eraseDups ++
          (match r.2.1 with | .closed => ["closed"] | .stop => ["stop"] | _ => []) ++
          (if es.length ≥ 2 then ["nt"] else []) }
    | _, _ => { model := "bad-op", verdict := "skip" }
  | ["fa", a, b] =>
    match a.toInt?, b.toInt? with
    | some f, some n =>
      let model := match flowAdd f n with
        | some x => s!"{showInt x} true"
        | none => s!"{showInt f} false"
      -- spec of flow.add: "adds n; returns false if the sum would exceed 2^31-1"
      let sum := f + n
      let verdict :=
        if sum < -2147483648 then "skip"
        else
          let want := if sum ≤ 2147483647 then s!"{showInt sum} true" else s!"{showInt f} false"
          if impl == want then "ok" else if f < 0 then "FAIL:flow-add-negative-window" else "FAIL:flow-add"
      { model, verdict, tags := ["fa", if f < 0 then "neg" else "nonneg", "nt"] }
    | _, _ => { model := "bad-op", verdict := "skip" }
  | ["ft", a, b, c] =>
    match a.toInt?, b.toInt?, c.toInt? with
    | some s, some cf, some n =>
      let model := match flowTake s cf n with
        | some (x, y) => s!"{showInt x} {showInt y} {showInt (available s cf)}"
        | none => "PANIC:internal error: took too much"
      { model, verdict := "ok", tags := ["ft", if n > available s cf then "toomuch" else "fits", "nt"] }
    | _, _, _ => { model := "bad-op", verdict := "skip" }
  | _ => { model := "bad-op", verdict := "skip" }

def run (op impl : String) : Ans := run' op impl

end BfeVerif.C40
