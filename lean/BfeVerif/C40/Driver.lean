import BfeVerif.Common.Proto
import BfeVerif.C40.Model
/-!
  C40 driver.  op `sv <adv> E…` (client frames S D W R I P, handler commands r w f), `fa`, `ft`: see harness/cmd/c40.
  verdict = the client-side MONITOR (`monitor`): an executable statement of the stream / flow-control rules, run on
  the op and on the tokens the IMPLEMENTATION printed (it never looks at the model's state).
-/
namespace BfeVerif.C40
open BfeVerif.Proto

/-! ### rendering (as `render` of the harness) -/

def Out.id : Out → Nat
  | .rst id _ | .wu id _ | .reply id _ | .data id _ _ | .read id _ | .rend id _ => id
  | .goaway .. | .ping _ => 0

def Out.str : Out → String
  | .rst a b => s!"rst({a},{b})"
  | .goaway a b => s!"goaway({a},{b})"
  | .ping a => s!"ping({a})"
  | .wu a b => s!"wu({a},{b})"
  | .reply a f => s!"reply({a},{if f then 1 else 0})"
  | .data a l f => s!"data({a},{l},{if f then 1 else 0})"
  | .read a n => s!"read({a},{n})"
  | .rend a k => s!"rend({a},{if k = 0 then "full" else if k = 1 then "eof" else "err"})"

/-- merge the WINDOW_UPDATEs of one stream id into the first one -/
def mergeWu : List Out → List Out → List Out
  | [], acc => acc
  | .wu id n :: t, acc =>
    if acc.any (fun o => match o with | .wu i _ => i == id | _ => false) then
      mergeWu t (acc.map fun o => match o with
        | .wu i m => if i == id then .wu i (m + n) else .wu i m
        | x => x)
    else mergeWu t (acc ++ [.wu id n])
  | o :: t, acc => mergeWu t (acc ++ [o])

/-- order inside a stream's group: goaway, ping, rst, reply, data (arrival order), wu, read -/
def Out.rank : Out → Nat
  | .goaway .. => 0 | .ping _ => 1 | .rst .. => 2 | .reply .. => 3 | .data .. => 4 | .wu .. => 5 | .read .. => 6
  | .rend .. => 7

def insertById (o : Out) : List Out → List Out
  | [] => [o]
  | x :: t => if o.id < x.id ∨ (o.id = x.id ∧ o.rank < x.rank) then o :: x :: t else x :: insertById o t

/-- the bytes read by a handler during the event, summed: last token of the stream's group -/
def mergeRead (os : List Out) : List Out :=
  let ids := (os.filterMap fun o => match o with | .read i _ => some i | _ => none).eraseDups
  let frames := os.filter fun o => match o with | .read .. => false | _ => true
  frames ++ ids.map fun i => .read i (os.foldl (fun a o => match o with | .read j n => if j == i then a + n else a | _ => a) 0)

def renderEvent (os : List Out) : String :=
  let sorted := (mergeWu (mergeRead os) []).foldl (fun acc o => insertById o acc) []
  "[" ++ ",".intercalate (sorted.map Out.str) ++ "]"

def renderRun (r : List (List Out) × Status × State) : String :=
  let evs := r.1.map renderEvent
  let tail := match r.2.1 with
    | .run => []
    | .closed => ["closed"]
    | .stop => ["stop"]
    | .panic => ["PANIC"]
  " ".intercalate (evs ++ tail)

def parseEv (t : String) : Option Ev :=
  let body := (t.drop 1).toString
  let ns := (body.splitOn ",").mapM String.toNat?
  match (t.take 1).toString, ns with
  | "S", some [a, b] => some (.syn a (b != 0) (if b != 0 then 1 else 0) 0)
  | "S", some [a, b, m, c] => if m ≤ 2 ∧ (c ≤ 2 ∨ c ≥ 10) then some (.syn a (b != 0) m c) else none
  | "D", some [a, b, c] => if b ≤ 1048576 then some (.data a b (c != 0)) else none
  | "W", some [a, b] => some (.wu a b)
  | "R", some [a, b] => if b = 0 then none else some (.rst a b)
  | "I", some [a] => some (.iws a)
  | "P", some [a] => some (.ping a)
  | "r", some [a, b] => if b ≤ 131072 then some (.hcmd a (.read b)) else none
  | "w", some [a, b] => if b ≤ 131072 then some (.hcmd a (.write b)) else none
  | "f", some [a] => some (.hcmd a .finish)
  | "G", some [_] => some .graceful
  | _, _ => none

/-! ### the monitor: the property as seen by the client -/

inductive MState | open | hcr | closed
  deriving DecidableEq, Repr

structure MSt where
  id : Nat
  state : MState
  inWin : Int := 65536     -- what the server still advertises for this stream
  outWin : Int             -- what the client still grants the server on this stream
  decl : Option Nat := none  -- Content-Length announced for the request body
  got : Nat := 0           -- body bytes sent so far
  unread : Int := 0        -- body bytes the server accepted and its handler has not consumed yet
  finSent : Bool := false  -- the client has ended the request body (FIN on SYN_STREAM or DATA)
  deriving Repr

structure Mon where
  maxSeen : Nat := 0
  streams : List MSt := []
  connIn : Int := 65536
  connOut : Int := 65536
  iws : Int := 65536
  acted : Nat := 0         -- highest stream id the server has answered on (SYN_REPLY / DATA)
  goaway : Bool := false   -- the server announced its (graceful) shutdown: it ignores new streams, sends no 2nd GOAWAY
  void : Bool := false     -- the script left the protocol's domain (initial window >= 2^31): nothing more is demanded
  deriving Repr

inductive Tok
  | rst (id c : Nat) | goaway (l c : Nat) | ping (id : Nat) | wu (id n : Nat) | reply (id : Nat) (fin : Bool)
  | data (id len : Nat) (fin : Bool) | read (id n : Nat) | rend (id kind : Nat) | other
  deriving Repr, DecidableEq

def parseTok (s : String) : Tok :=
  match s.splitOn "(" with
  | ["rend", rest] =>
    match (rest.dropEnd 1).toString.splitOn "," with
    | [a, k] => match a.toNat? with
      | some i => .rend i (if k == "full" then 0 else if k == "eof" then 1 else 2)
      | none => .other
    | _ => .other
  | [name, rest] =>
    let args := ((rest.dropEnd 1).toString.splitOn ",").map String.toNat?
    match name, args with
    | "rst", [some a, some b] => .rst a b
    | "goaway", [some a, some b] => .goaway a b
    | "ping", [some a] => .ping a
    | "wu", [some a, some b] => .wu a b
    | "reply", [some a, some b] => .reply a (b != 0)
    | "data", [some a, some b, some c] => .data a b (c != 0)
    | "read", [some a, some b] => .read a b
    | _, _ => .other
  | _ => .other

/-- `[a(1,2),b(3)]` -> tokens -/
def parseGroup (g : String) : List Tok :=
  let inner := ((g.drop 1).toString.dropEnd 1).toString
  if inner == "" then [] else
  let parts := inner.splitOn "),"
  let n := parts.length
  (parts.mapIdx fun i p => if i + 1 < n then p ++ ")" else p).map parseTok

def mFind (m : Mon) (id : Nat) : Option MSt := m.streams.find? (·.id = id)
def mUpd (m : Mon) (id : Nat) (f : MSt → MSt) : Mon :=
  { m with streams := m.streams.map fun x => if x.id = id then f x else x }

def rstCode (toks : List Tok) (id : Nat) : Option Nat :=
  toks.findSome? fun t => match t with | .rst i c => if i = id then some c else none | _ => none
def goawayCode (toks : List Tok) : Option Nat :=
  toks.findSome? fun t => match t with | .goaway _ c => some c | _ => none

def maxWin : Int := 2147483647

/-- the server's own frames, as the client accounts for them; `Except` = a rule is broken -/
def monOutCore (m : Mon) : List Tok → Except String Mon
  | [] => .ok m
  | t :: rest =>
    match t with
    | .data id len fin =>
      match mFind m id with
      | none => .error "data-on-unknown-stream"
      | some st =>
        let o := st.outWin - len
        let c := m.connOut - len
        if len > 0 ∧ (o < 0 ∨ c < 0) then .error "out-window-exceeded"
        else
          let m := mUpd { m with connOut := c } id fun x =>
            { x with outWin := o, state := if fin ∧ x.state = .hcr then .closed else x.state }
          monOutCore m rest
    | .wu id n =>
      if id = 0 then
        if m.connIn + n > 65536 then .error "over-replenished" else monOutCore { m with connIn := m.connIn + n } rest
      else match mFind m id with
        | none => monOutCore m rest
        | some st =>
          if st.inWin + n > 65536 then .error "over-replenished"
          else monOutCore (mUpd m id fun x => { x with inWin := x.inWin + n }) rest
    | .rst id _ => monOutCore (mUpd m id fun x => { x with state := .closed }) rest
    | .reply id fin =>
      monOutCore (mUpd m id fun x => { x with state := if fin ∧ x.state = .hcr then .closed else x.state }) rest
    | _ => monOutCore m rest

def sumWu (toks : List Tok) (id : Nat) : Int :=
  toks.foldl (fun a t => match t with | .wu i n => if i = id then a + (n : Int) else a | _ => a) 0

def readOf (toks : List Tok) (id : Nat) : Int :=
  toks.foldl (fun a t => match t with | .read i n => if i = id then a + (n : Int) else a | _ => a) 0

/-- the server's frames of one event, plus the REPLENISHMENT rule: every byte a handler consumed (`read` tokens,
    observed inside the handler) is given back to the connection window, and to the stream window while the client
    may still send on the stream; unread bytes of a stream that is closed go back to the connection window; nothing
    else is ever granted — whatever state (GOAWAY …) the connection is in.  `m` = the client's view after its own
    frame, before the server's reaction; `extraClosed` = streams closed by the client's frame itself. -/
def monOut (m : Mon) (toks : List Tok) (extraClosed : List Nat := []) : Except String Mon :=
  let ids := (toks.filterMap fun t => match t with
    | .read i _ => some i
    | .wu i _ => if i = 0 then none else some i
    | _ => none).eraseDups
  let bad := ids.find? fun id =>
    let want : Int := match mFind m id with
      | some st => if st.state = .open then readOf toks id else 0
      | none => 0
    sumWu toks id != want
  match bad with
  | some id =>
    let want : Int := match mFind m id with
      | some st => if st.state = .open then readOf toks id else 0
      | none => 0
    .error (if sumWu toks id < want then "window-not-replenished" else "over-replenished")
  | none =>
    match monOutCore m toks with
    | .error e => .error e
    | .ok m' =>
      let closedNow := m.streams.filter fun st =>
        st.state != .closed && (extraClosed.contains st.id ||
          (match mFind m' st.id with | some x => x.state == .closed | none => false))
      let totalRead : Int := toks.foldl (fun a t => match t with | .read _ n => a + (n : Int) | _ => a) 0
      let dropped : Int := closedNow.foldl (fun a st => a + max 0 (st.unread - readOf toks st.id)) 0
      let back := sumWu toks 0
      if back < totalRead + dropped then .error "window-not-replenished"
      else if back > totalRead + dropped then .error "over-replenished"
      else .ok { m' with streams := m'.streams.map fun x => { x with unread := x.unread - readOf toks x.id } }

/-- what the property demands for one client frame, given the tokens the server answered with -/
def monEvent (adv : Nat) (m : Mon) (e : Ev) (toks : List Tok) (closed : Bool) : Except String Mon :=
  if m.void then .ok m else
  match e with
  | .syn id fin meth cl =>
    if id = 0 then .ok m
    else if m.goaway then monOut m toks   -- new streams are ignored after GOAWAY
    else if id % 2 = 0 ∨ id < m.maxSeen then
      if goawayCode toks = some 1 then .ok m else .error "bad-stream-id-accepted"
    else if id = m.maxSeen then
      if rstCode toks id = some 1 then monOut m toks else .error "duplicate-syn-accepted"
    else
      let live := (m.streams.filter (·.state ≠ .closed)).length
      -- a request that announces a body (no FIN) must not be a HEAD and must carry a usable Content-Length
      let malformed := !fin && (meth == 2 || cl == 1 || cl == 2)
      let m := { m with maxSeen := id,
                        streams := m.streams ++ [{ id, state := if fin then .hcr else .open, outWin := m.iws, finSent := fin,
                                                   decl := if !fin ∧ cl ≥ 10 then some (cl - 10) else none }] }
      if live + 1 > adv then (if closed then .ok m else .error "max-streams-not-enforced")
      else if closed then .error "connection-killed"
      else if malformed then
        match rstCode toks id with
        | none => .error "malformed-request-accepted"
        | some c => if c = 1 then monOut m toks else .error "wrong-reset-code"
      else if ((rstCode toks id).isSome ∧ rstCode toks id ≠ some 5) ∨ (goawayCode toks).isSome then
        .error "syn-refused"
      else monOut m toks
  | .data id len fin =>
    if id = 0 then .ok m else
    match mFind m id with
    | none =>
      match rstCode toks id with
      | none => .error "data-on-closed-stream-accepted"
      | some c => if c = 2 then monOut m toks else .error "wrong-reset-code"
    | some st =>
      match st.state with
      | .closed =>
        match rstCode toks id with
        | none => .error "data-on-closed-stream-accepted"
        | some c => if c = 2 then monOut m toks else .error "wrong-reset-code"
      | .hcr =>
        match rstCode toks id with
        | none => .error "data-on-half-closed-accepted"
        | some c => if c = 9 then monOut m toks else .error "wrong-reset-code"
      | .open =>
        let over := match st.decl with | some dl => decide (st.got + len > dl) | none => false
        let short := fin && (match st.decl with | some dl => decide (dl ≠ st.got + len) | none => false)
        if over then
          -- more body than announced: PROTOCOL_ERROR (FLOW_CONTROL_ERROR is as good if the window is exceeded too)
          match rstCode toks id with
          | none => .error "content-length-exceeded-accepted"
          | some c =>
            if c = 1 ∨ (c = 7 ∧ (len : Int) > min st.inWin m.connIn) then monOut m toks else .error "wrong-reset-code"
        else if (len : Int) > min st.inWin m.connIn then
          match rstCode toks id with
          | none => .error "over-window-data-accepted"
          | some c => if c = 7 then monOut m toks else .error "wrong-reset-code"
        else if short then
          -- END_STREAM before the announced length: the frame itself is within the windows, the request is not
          let m := mUpd { m with connIn := m.connIn - len } id fun x =>
            { x with inWin := x.inWin - len, unread := x.unread + len }
          match rstCode toks id with
          | none => .error "content-length-short-accepted"
          | some c => if c = 1 then monOut m toks else .error "wrong-reset-code"
        else if (rstCode toks id).isSome ∧ rstCode toks id ≠ some 5 then .error "data-refused-within-window"
        else
          let m := mUpd { m with connIn := m.connIn - len } id fun x =>
            { x with inWin := x.inWin - len, got := x.got + len, unread := x.unread + len,
                     state := if fin then .hcr else x.state, finSent := x.finSent || fin }
          monOut m toks
  | .wu id delta =>
    let d : Int := (delta % 2147483648 : Nat)
    if id = 0 then
      if m.connOut + d > maxWin then
        (if goawayCode toks = some 7 ∨ m.goaway then .ok { m with void := m.goaway } else .error "window-overflow-accepted")
      else if (goawayCode toks).isSome then .error "window-update-refused"
      else monOut { m with connOut := m.connOut + d } toks
    else match mFind m id with
      | none => monOut m toks
      | some st =>
        if st.state = .closed then monOut m toks
        else if st.outWin + d > maxWin then
          match rstCode toks id with
          | none => .error "window-overflow-accepted"
          | some c => if c = 7 then monOut m toks else .error "wrong-reset-code"
        else if (rstCode toks id).isSome ∧ rstCode toks id ≠ some 5 then .error "window-update-refused"
        else monOut (mUpd m id fun x => { x with outWin := x.outWin + d }) toks
  | .rst id _ =>
    if id = 0 then .ok m else
    match mFind m id with
    | none =>
      if id > m.maxSeen then (if goawayCode toks = some 1 ∨ m.goaway then .ok m else .error "rst-on-idle-accepted")
      else monOut m toks
    | some st =>
      -- (unread bytes are dropped with the stream and must go back to the connection window: `monOut`)
      if st.state = .closed then monOut m toks
      else match monOut m toks [id] with
        | .error e => .error e
        | .ok m' => .ok (mUpd m' id fun x => { x with state := .closed, unread := 0 })
  | .iws val =>
    if val ≥ 2147483648 then .ok { m with void := true }
    else
      let g : Int := (val : Int) - m.iws
      let m' : Mon := { m with iws := val, streams := m.streams.map fun (x : MSt) =>
                    if x.state = MState.closed then x else { x with outWin := x.outWin + g } }
      if m'.streams.any (fun (x : MSt) => x.state ≠ MState.closed ∧ x.outWin > maxWin) then
        (if goawayCode toks = some 7 ∨ m.goaway then .ok { m' with void := m.goaway } else .error "window-overflow-accepted")
      else if (goawayCode toks).isSome then .error "settings-refused"
      else monOut m' toks
  | .ping id =>
    if id % 2 = 1 ∧ !toks.contains (.ping id) then .error "ping-not-echoed" else monOut m toks
  | .hcmd _ _ => monOut m toks
  | .graceful =>
    if m.goaway then monOut m toks
    else if goawayCode toks = some 0 then monOut { m with goaway := true } toks
    else .error "graceful-goaway-missing"

/-- GOAWAY's last-good-stream-id: not below a stream the server has answered on, not above the highest id seen -/
def goawayLastOK (m : Mon) (toks : List Tok) : Bool :=
  let acted := toks.foldl (fun a t => match t with
    | .reply i _ => max a i
    | .data i _ _ => max a i
    | _ => a) m.acted
  toks.all fun t => match t with
    | .goaway l _ => acted ≤ l && l ≤ m.maxSeen
    | _ => true

/-- the contract of the request body's Read, as the handler saw it: io.EOF only after the client ended the body,
    an error only once the stream is closed -/
def readEndsOK (m : Mon) (toks : List Tok) : Bool :=
  toks.all fun t => match t with
    | .rend id 1 => (match mFind m id with | some st => st.finSent | none => false)
    | .rend id 2 => (match mFind m id with | some st => st.state == .closed | none => false)
    | _ => true

def bumpActed (m : Mon) (toks : List Tok) : Mon :=
  { m with acted := toks.foldl (fun a t => match t with
      | .reply i _ => max a i
      | .data i _ _ => max a i
      | _ => a) m.acted }

def monitor (adv : Nat) : Mon → List Ev → List String → Option String
  | _, [], _ => none
  | _, _, [] => none
  | m, e :: es, g :: gs =>
    if g == "closed" ∨ g == "stop" then none else
    let closed := gs.head? == some "closed"
    -- only a SYN_STREAM beyond the advertised stream limit entitles the server to drop the connection
    let isSyn := match e with | .syn .. => true | _ => false
    if closed ∧ !isSyn ∧ !m.void then some "connection-killed" else
    match monEvent adv m e (parseGroup g) closed with
    | .error c => some c
    | .ok m' =>
      if !m'.void ∧ !goawayLastOK m' (parseGroup g) then some "goaway-last-id-wrong"
      else if !m'.void ∧ !readEndsOK m' (parseGroup g) then some "read-result-wrong"
      else if closed ∨ gs.head? == some "stop" then none else monitor adv (bumpActed m' (parseGroup g)) es gs

/-! ### bursts: a group of events written back to back, quiescence awaited once -/

/-- schedule A: everything settles between two frames -/
def seqQ (rev : Bool) : State → List Ev → List Out → Res
  | s, [], acc => { st := s, out := acc }
  | s, e :: t, acc =>
    let r := stepQ rev s e
    match r.status with
    | .run => seqQ rev r.st t (acc ++ r.out)
    | _ => { r with out := acc ++ r.out }

/-- schedule B: the serve loop takes all frames first, handlers and scheduler move afterwards -/
def seqS (rev : Bool) : State → List Ev → List Out → Bool → Res
  | s, [], acc, k => let (s', o) := settle rev settleFuel { s with kick := s.kick || k } acc; { st := s', out := o }
  | s, e :: t, acc, k =>
    let r := step s e
    match r.status with
    | .run => seqS rev r.st t (acc ++ r.out) (k || s.kick)
    | _ => { r with out := acc ++ r.out }

def runGroups (rev : Bool) : State → List (List Ev) → List (List Out) × Status × Bool
  | _, [] => ([], .run, false)
  | s, g :: t =>
    let a := match g with
      | [e] => stepQ rev s e
      | _ => seqQ rev s g []
    -- (a handler command in the same burst as the SYN_STREAM that starts its handler may or may not find it)
    let early := g.any fun e => match e with
      | .hcmd id _ => g.any (fun e' => match e' with | .syn id' .. => id' == id | _ => false)
      | _ => false
    -- (the shutdown signal and handler commands reach the serve loop on their own channels: their order relative to the
    -- frames of a burst is open; bursts are judged only when they consist of client frames)
    let early := early || g.any fun e => match e with | .graceful => true | .hcmd .. => true | _ => false
    let raced := match g with
      | [_] => false
      | _ => early || let b := seqS rev s g [] false
             renderEvent a.out != renderEvent b.out || a.status != b.status || reprStr a.st != reprStr b.st
    match a.status with
    | .run => let (o, st, r') := runGroups rev a.st t; (a.out :: o, st, raced || r')
    -- (a burst that contains the frame ending the script: what the later frames of the burst still cause is not modelled)
    | x => ([a.out], x, raced || g.length > 1)

def renderGroups (r : List (List Out) × Status × Bool) : String :=
  let evs := r.1.map renderEvent
  let tail := match r.2.1 with
    | .run => []
    | .closed => ["closed"]
    | .stop => ["stop"]
    | .panic => ["PANIC"]
  " ".intercalate (evs ++ tail)

/-! ### canonical form of a result line

  Within one step group that resets stream `id` (`rst(id,…)`), whether the handler's blocked read still got bytes
  before the body pipe was closed is a goroutine race of the real code, and no stream WINDOW_UPDATE is owed for a
  stream that was reset: `read(id,n)` and `wu(id,n)` of that stream are dropped (`rend(id,err)` stays) — before the
  model comparison and before the monitor. -/

def canonGroup (g : String) : String :=
  if !(g.startsWith "[") then g else
  let inner := ((g.drop 1).toString.dropEnd 1).toString
  if inner == "" then g else
  let parts := inner.splitOn "),"
  let n := parts.length
  let toks := parts.mapIdx fun i p => if i + 1 < n then p ++ ")" else p
  let resetIds := toks.filterMap fun t => match parseTok t with | .rst id _ => some id | _ => none
  let keep := toks.filter fun t => match parseTok t with
    | .read id _ => !resetIds.contains id
    | .wu id _ => id == 0 || !resetIds.contains id
    | _ => true
  "[" ++ ",".intercalate keep ++ "]"

def canonLine (s : String) : String := " ".intercalate ((s.splitOn " ").map canonGroup)

def showInt (i : Int) : String := toString i

def run (op impl : String) : Ans :=
  match op.splitOn " " with
  | "sv" :: adv :: evs =>
    -- "<adv>[:<k>]": the client's bytes arrive in writes of k bytes — the model does not care
    match ((adv.splitOn ":").headD "").toNat?, evs.mapM (fun g => (g.splitOn "+").mapM parseEv) with
    | some a, some groups =>
      if a = 0 then { model := "bad-op", verdict := "skip" } else
      let es := groups.flatMap id
      let r := runGroups false { adv := a } groups
      let rawModel := renderGroups r
      -- compare and judge canonical forms; if they agree the implementation's own line is echoed as the model result
      let implRaw := impl
      let impl := canonLine implRaw
      let model := if canonLine rawModel == impl then implRaw else rawModel
      let r2 := runGroups true { adv := a } groups
      let raced := renderGroups r2 != rawModel || r.2.2 || r2.2.2
      let hasBurst := groups.any (·.length > 1)
      -- the monitor judges event by event: up to the first burst
      let monEvs := (groups.takeWhile (·.length == 1)).flatMap id
      let panicked := (impl.splitOn "PANIC").length > 1
      let hung := (impl.splitOn "HANG").length > 1
      let kinds := es.map fun e => match e with
        | .syn _ _ 2 _ => "synhead" | .syn _ false _ 1 => "synbadcl" | .syn _ false _ 2 => "synbadcl"
        | .syn _ false _ (_ + 10) => "syncl" | .syn .. => "syn" | .data .. => "data" | .wu .. => "wu" | .rst .. => "rst" | .iws .. => "iws" | .ping .. => "ping"
        | .hcmd _ (.read _) => "hread" | .hcmd _ (.write _) => "hwrite" | .hcmd _ _ => "hfin" | .graceful => "graceful"
      let outs := (r.1.flatMap id).map fun o => match o with
        | .rst _ c => s!"rst{c}" | .goaway _ c => s!"goaway{c}" | .ping _ => "echo" | .wu 0 _ => "wuconn"
        | .wu _ _ => "wustream" | .read .. => "consumed" | .rend _ 1 => "readeof" | .rend _ 2 => "readerr"
        | .rend .. => "readfull" | .reply .. => "reply" | .data _ 0 _ => "datafin" | .data .. => "dataout"
      let verdict :=
        -- a crash or a hang on individually legal frames is a failure whatever the model predicts
        if panicked then "FAIL:server-panic"
        else if hung then "FAIL:server-hang"
        else if (impl.splitOn "corruptout(").length > 1 then "FAIL:response-body-corrupted"
        else if (impl.splitOn "corrupt(").length > 1 then "FAIL:request-body-corrupted"
        else if raced then "skip"
        else match monitor a {} monEvs (impl.splitOn " ") with
          | some c => "FAIL:" ++ c
          | none => "ok"
      { model, verdict,
        tags := ["sv"] ++ kinds.eraseDups ++ outs.eraseDups ++ (if raced then ["race"] else []) ++
          (if hasBurst then ["burst"] else []) ++ (if (adv.splitOn ":").length > 1 then ["segwrite"] else []) ++
          (match r.2.1 with | .closed => ["closed"] | .stop => ["stop"] | _ => []) ++
          (if es.length ≥ 2 then ["nt"] else []) }
    | _, _ => { model := "bad-op", verdict := "skip" }
  | ["fa", a, b] =>
    match a.toInt?, b.toInt? with
    | some f, some n =>
      let model := match flowAdd f n with
        | some x => s!"{showInt x} true"
        | none => s!"{showInt f} false"
      -- spec of flow.add: adds n unless the sum leaves the int32 range (a window above 2^31-1 is a protocol error)
      let sum := f + n
      let want := if -2147483648 ≤ sum ∧ sum ≤ 2147483647 then s!"{showInt sum} true" else s!"{showInt f} false"
      let verdict := if impl == want then "ok" else if f < 0 then "FAIL:flow-add-negative-window" else "FAIL:flow-add"
      { model, verdict, tags := ["fa", if f < 0 then "neg" else "nonneg", "nt"] }
    | _, _ => { model := "bad-op", verdict := "skip" }
  | ["ft", a, b, c] =>
    match a.toInt?, b.toInt?, c.toInt? with
    | some s, some cf, some n =>
      let model := match flowTake s cf n with
        | some (x, y) => s!"{showInt x} {showInt y} {showInt (available s cf)}"
        | none => "PANIC:internal error: took too much"
      { model, verdict := "ok", tags := ["ft", if n > available s cf then "toomuch" else "fits", "nt"] }
    | _, _, _ => { model := "bad-op", verdict := "skip" }
  | _ => { model := "bad-op", verdict := "skip" }

end BfeVerif.C40
