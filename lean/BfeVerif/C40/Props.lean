import BfeVerif.C40.Proofs
/-!
  C40 — the SPDY server enforces stream and flow-control rules.  Property theorems only.
  The theorems are about `step` (one client frame processed by the serve loop) and `flowAdd`/`flowTake`
  (flow.go); the correspondence run ties `step` to a real server connection driven over net.Pipe.
-/
namespace BfeVerif.C40

def I32 (x : Int) : Prop := -2147483648 ≤ x ∧ x ≤ 2147483647

/-- `flow.add` never produces a wrong window: if it reports success (and the true sum is representable) the new
    window is exactly the sum and does not exceed 2^31-1. -/
theorem C40_flow_add_sound (f n f' : Int) (hf : I32 f) (hn : I32 n) (hs : -2147483648 ≤ f + n)
    (h : flowAdd f n = some f') : f' = f + n ∧ f' ≤ 2147483647 := by
  unfold I32 at hf hn
  unfold flowAdd at h
  by_cases hgt : n > wrap32 (2147483647 - f)
  · simp [hgt] at h
  · simp only [hgt, if_false, Option.some.injEq] at h
    subst h
    unfold wrap32 at hgt ⊢
    omega

/-- Full statement: `add` succeeds exactly when the sum does not exceed 2^31-1.  It holds for non-negative
    windows (`_partial`); `C40_witness_flow_add_negative` shows it fails for a negative one. -/
theorem C40_flow_add_complete_partial (f n : Int) (hf : 0 ≤ f ∧ f ≤ 2147483647) (hn : I32 n) :
    (flowAdd f n).isSome = true ↔ f + n ≤ 2147483647 := by
  unfold I32 at hn
  unfold flowAdd
  by_cases hgt : n > wrap32 (2147483647 - f)
  · simp only [hgt, if_true]
    unfold wrap32 at hgt
    simp
    omega
  · simp only [hgt, if_false]
    unfold wrap32 at hgt
    simp
    omega

/-- **Witness (known finding `flow-add-negative-window`)**: a window of -1 (possible after SETTINGS shrank the
    initial window) refuses an update of 1 although the sum 0 is far below 2^31-1 (`remain` wraps around). -/
theorem C40_witness_flow_add_negative : flowAdd (-1) 1 = none ∧ (-1 : Int) + 1 ≤ 2147483647 := by
  constructor <;> decide

/-- **No panic in `flow.take`**: the serve loop never calls `take` with more than `available()`
    (`panic("internal error: took too much")` is unreachable from client frames), for every state and frame. -/
theorem C40_no_panic (s : State) (e : Ev) : (step s e).status ≠ .panic := by
  cases e <;> simp only [step, goAway, reset] <;> (repeat' split) <;> simp_all [flowTake] <;> omega

/-- **Inbound windows**: a DATA frame with payload that is accepted (no RST_STREAM) fits both the stream's and the
    connection's advertised window, and both are debited by exactly its length. -/
theorem C40_data_within_windows (s : State) (id len : Nat) (fin : Bool) (st : St)
    (hid : id ≠ 0) (hf : find s id = some st) (ho : st.isOpen = true) (hl : len > 0)
    (hi : I32 st.inflow) (hc : I32 s.connIn)
    (hacc : (step s (.data id len fin)).out = []) :
    (len : Int) ≤ st.inflow ∧ (len : Int) ≤ s.connIn ∧
      (step s (.data id len fin)).st.connIn = s.connIn - len := by
  unfold I32 at hi hc
  simp only [step, hid, if_false, hf, ho, Bool.not_true, Bool.false_eq_true, hl, if_true, reset] at hacc ⊢
  by_cases hav : available st.inflow s.connIn < (len : Int)
  · simp [hav] at hacc
  · simp only [hav, if_false] at hacc ⊢
    have hav' : ¬ ((len : Int) > available st.inflow s.connIn) := by omega
    simp only [flowTake, hav', if_false, upd]
    unfold available at hav
    unfold wrap32
    split at hav <;> refine ⟨by omega, by omega, by omega⟩

/-- **Frames for closed / never opened streams**: DATA for a stream that is not in the stream table is answered
    with RST_STREAM(INVALID_STREAM) and changes nothing (no window is debited). -/
theorem C40_data_unknown_stream (s : State) (id len : Nat) (fin : Bool) (hid : id ≠ 0) (hf : find s id = none) :
    (step s (.data id len fin)).out = [.rst id 2] ∧ (step s (.data id len fin)).st = s := by
  simp [step, hid, hf, reset, close]

/-- DATA for a half-closed (remote) stream is answered with RST_STREAM(STREAM_ALREADY_CLOSED). -/
theorem C40_data_half_closed (s : State) (id len : Nat) (fin : Bool) (st : St) (hid : id ≠ 0)
    (hf : find s id = some st) (ho : st.isOpen = false) :
    (step s (.data id len fin)).out = [.rst id 9] := by
  simp [step, hid, hf, ho, reset]

/-- **Stream ids**: the highest stream id only grows, and it changes only for an odd id above every id seen so far;
    an even id or a lower id is a connection error (GOAWAY PROTOCOL_ERROR). -/
theorem C40_ids (s : State) (id : Nat) (fin : Bool) :
    s.maxId ≤ (step s (.syn id fin)).st.maxId ∧
    ((step s (.syn id fin)).st.maxId ≠ s.maxId → id % 2 = 1 ∧ s.maxId < id ∧ (step s (.syn id fin)).st.maxId = id) ∧
    (id ≠ 0 → (id % 2 ≠ 1 ∨ id < s.maxId) → (step s (.syn id fin)).out = [.goaway s.maxId 1]) := by
  simp only [step, goAway, reset, close]
  repeat' split
  all_goals simp_all
  all_goals omega

/-- **Outbound windows**: a WINDOW_UPDATE that would push a window above 2^31-1 is refused — the stream is reset
    (FLOW_CONTROL_ERROR), the connection-level one ends the session (GOAWAY 7); an accepted one adds exactly delta. -/
theorem C40_window_update_conn (s : State) (delta : Nat) (hd : delta < 2147483648)
    (hc : 0 ≤ s.connFlow ∧ s.connFlow ≤ 2147483647) :
    (s.connFlow + delta ≤ 2147483647 →
      (step s (.wu 0 delta)).st.connFlow = s.connFlow + delta ∧ (step s (.wu 0 delta)).out = []) ∧
    (s.connFlow + delta > 2147483647 → (step s (.wu 0 delta)).out = [.goaway s.maxId 7]) := by
  have hm : (delta % 2147483648 : Nat) = delta := Nat.mod_eq_of_lt hd
  simp only [step, ne_eq, not_true_eq_false, if_false, hm, goAway, flowAdd]
  by_cases hgt : (delta : Int) > wrap32 (2147483647 - s.connFlow)
  · simp only [hgt, if_true]
    unfold wrap32 at hgt
    constructor
    · intro h; omega
    · intro _; trivial
  · simp only [hgt, if_false]
    unfold wrap32 at hgt ⊢
    constructor
    · intro h; refine ⟨?_, trivial⟩; omega
    · intro h; omega

example : (step {} (.syn 1 false)).st.streams.length = 1 := by decide
example : (step (step {} (.syn 1 false)).st (.data 1 65537 false)).out = [.rst 1 7] := by decide
example : I32 65536 := by unfold I32; omega

end BfeVerif.C40
