import BfeVerif.C40.Proofs
/-!
  C40 — the SPDY server enforces stream and flow-control rules.  Property theorems only.
  `runScript` = any sequence of client frames and (scripted) handler commands, each run to quiescence; the
  correspondence run ties it to a real server connection driven over net.Pipe, and the driver's client-side monitor
  judges the same rules on the implementation's own output.
-/
namespace BfeVerif.C40

/-- **flow.add (fixed)**: it succeeds exactly when the sum is representable (so a window never exceeds 2^31-1 and
    never wraps), and then the window is exactly the sum — for every int32 window, negative ones included. -/
theorem C40_flow_add_exact (f n f' : Int) (hf : I32 f) (hn : I32 n) :
    flowAdd f n = some f' ↔ (f' = f + n ∧ I32 (f + n)) := by
  constructor
  · intro h
    have := flowAdd_sound f n f' hf hn h
    exact ⟨this.1, this.1 ▸ this.2⟩
  · rintro ⟨rfl, hs⟩
    exact flowAdd_some f n hf hn hs

/-- **Witness of the fixed defect** (`flow-add-negative-window`): the old test `n > (1<<31-1) - f.n` wraps for a
    negative window and refused every update, e.g. window -1, update 1; the fixed code accepts it. -/
theorem C40_witness_flow_add_old_negative : flowAddOld (-1) 1 = none ∧ flowAdd (-1) 1 = some 0 := by
  constructor <;> decide

/-- **Trace invariant**: after ANY sequence of client frames and handler commands (any visiting order of the
    scheduler), on every stream the advertised inbound window is never negative and, together with the bytes
    accepted and not yet read, never exceeds the 65536 granted; every outbound window and the connection windows
    are int32 values (no wrap-around, never above 2^31-1); the ids of the streams created are odd, bounded by the
    highest id seen, and strictly increasing. -/
theorem C40_trace_invariant (adv : Nat) (rev : Bool) (evs : List Ev) :
    Inv (runScript rev { adv := adv } evs).2.2 :=
  inv_run rev _ evs (inv_init adv)

/-- **Stream ids** (corollary): over any trace the created stream ids are strictly increasing and odd. -/
theorem C40_ids (adv : Nat) (rev : Bool) (evs : List Ev) :
    (runScript rev { adv := adv } evs).2.2.opened.Pairwise (· < ·) ∧
      ∀ x ∈ (runScript rev { adv := adv } evs).2.2.opened, x % 2 = 1 :=
  ⟨(C40_trace_invariant adv rev evs).6, fun x hx => ((C40_trace_invariant adv rev evs).5 x hx).2⟩

/-- a SYN_STREAM with an even id or an id below the highest seen is a connection error (GOAWAY PROTOCOL_ERROR),
    and creates nothing. -/
theorem C40_bad_id_rejected (s : State) (id : Nat) (fin : Bool) (meth cl : Nat) (h0 : id ≠ 0)
    (hg : s.inGoAway = false) (hb : id % 2 ≠ 1 ∨ id < s.maxId) :
    (step s (.syn id fin meth cl)).out = [.goaway s.maxId 1] ∧ (step s (.syn id fin meth cl)).st.opened = s.opened := by
  have hb' : (id % 2 ≠ 1 ∨ id < ({ s with kick := false } : State).maxId) := hb
  have hg' : ({ s with kick := false } : State).inGoAway = false := hg
  simp only [step, h0, if_false, hb', if_true, goAway, hg, hg', Bool.false_eq_true, if_false]
  constructor <;> first | rfl | trivial

/-- **Request headers**: a SYN_STREAM that announces a body (no FIN) with method HEAD, or with a Content-Length
    that is not a non-negative number, is answered with RST_STREAM(PROTOCOL_ERROR) (no handler is started: `handlers` is left as it was before the reset). -/
theorem C40_malformed_request_reset (s : State) (id : Nat) (meth cl : Nat) (h0 : id ≠ 0) (hodd : id % 2 = 1)
    (hg : s.inGoAway = false) (hgt : s.maxId < id) (hadv : s.cur + 1 ≤ s.adv)
    (hbad : meth = 2 ∨ cl = 1 ∨ cl = 2) :
    (step s (.syn id false meth cl)).out.head? = some (.rst id 1) := by
  have h1 : ¬ (id % 2 ≠ 1 ∨ id < ({ s with kick := false } : State).maxId) := by
    show ¬ (id % 2 ≠ 1 ∨ id < s.maxId); omega
  have h2 : ¬ id = ({ s with kick := false } : State).maxId := by show ¬ id = s.maxId; omega
  have h3 : ¬ (({ s with kick := false } : State).cur + 1 > ({ s with kick := false } : State).adv) := by
    show ¬ (s.cur + 1 > s.adv); omega
  have hb : (!false && (meth == 2 || cl == 1 || cl == 2)) = true := by
    rcases hbad with h | h | h <;> simp [h]
  have hg' : ({ s with kick := false } : State).inGoAway = false := hg
  simp only [step, h0, if_false, h1, h2, h3, hb, if_true, reset, hg, hg', Bool.false_eq_true]
  rfl

/-- **Declared length**: DATA beyond the announced Content-Length, and END_STREAM before it is reached, reset the
    stream with PROTOCOL_ERROR (the latter after the frame itself was accepted). -/
theorem C40_content_length (s : State) (id len : Nat) (fin : Bool) (st : St) (hid : id ≠ 0)
    (hf : find s id = some st) (ho : st.isOpen = true) :
    (overDecl st len = true → (step s (.data id len fin)).out.head? = some (.rst id 1)) := by
  intro hov
  have hf' : find { s with kick := false } id = some st := hf
  simp [step, hid, hf', ho, hov, reset]

/-- **No panic in `flow.take` from client frames**: processData never calls `take` with more than `available()`. -/
theorem C40_no_panic (s : State) (e : Ev) : (step s e).status ≠ .panic := by
  cases e <;> simp only [step, goAway, reset] <;> (repeat' split) <;> simp_all [flowTake] <;> omega

/-- **Inbound windows**: a DATA frame with payload that is accepted (no RST_STREAM) fits the stream's and the
    connection's advertised window (with the trace invariant: both stay non-negative). -/
theorem C40_in_window (s : State) (id len : Nat) (fin : Bool) (st : St)
    (hid : id ≠ 0) (hf : find s id = some st) (ho : st.isOpen = true) (hl : len > 0)
    (hacc : (step s (.data id len fin)).out = []) :
    (len : Int) ≤ st.inflow ∧ (len : Int) ≤ s.connIn := by
  have hf' : find { s with kick := false } id = some st := hf
  simp only [step, hid, if_false, hf', ho, Bool.not_true, Bool.false_eq_true, hl, if_true, reset] at hacc
  cases hov : overDecl st len with
  | true => simp [hov] at hacc
  | false =>
    by_cases hav : available st.inflow s.connIn < (len : Int)
    · simp [hov, hav] at hacc
    · unfold available at hav
      split at hav <;> omega

/-- **Frames for closed / never opened streams** are answered with RST_STREAM(INVALID_STREAM), half-closed
    (remote) ones with RST_STREAM(STREAM_ALREADY_CLOSED); no window is debited. -/
theorem C40_closed_streams (s : State) (id len : Nat) (fin : Bool) (hid : id ≠ 0) :
    (find s id = none → (step s (.data id len fin)).out = [.rst id 2] ∧
        (step s (.data id len fin)).st.connIn = s.connIn) ∧
    (∀ st, find s id = some st → st.isOpen = false → (step s (.data id len fin)).out.head? = some (.rst id 9)) := by
  constructor
  · intro hf
    have hf' : find { s with kick := false } id = none := hf
    simp [step, hid, hf', reset, close, closeOut]
  · intro st hf ho
    have hf' : find { s with kick := false } id = some st := hf
    simp [step, hid, hf', ho, reset]

/-- **C40_out_window**: whenever the scheduler emits a DATA chunk for a handler's queued write, the chunk is
    positive, at most 16384, and at most BOTH the stream's and the connection's outbound window at that moment
    (so `flow.take` cannot panic and the client's windows are never overdrawn); for every state, hence on every trace. -/
theorem C40_out_window (s : State) (st : St) (h : H) (r : Nat) (q : List Cmd) (s' : State) (o : List Out)
    (hq : h.queue = .send r :: q) (hr : 0 < r) (ha : st.alive = true)
    (hm : microH s st h = some (s', o)) :
    ∃ c : Nat, o = [.data h.id c false] ∧ 0 < c ∧ (c : Int) ≤ st.flow ∧ (c : Int) ≤ s.connFlow ∧ (c : Int) ≤ 16384 ∧
      c ≤ r := by
  unfold microH at hm
  simp only [hq, ha, Bool.not_true, Bool.false_eq_true, if_false] at hm
  split at hm
  · rename_i hk
    simp only [Option.some.injEq, Prod.mk.injEq] at hm
    have hb := allowed_le s st
    have hpos := hk.2
    have hcast : ((allowed s st).toNat : Int) = allowed s st := Int.toNat_of_nonneg (by omega)
    have hle : min r (allowed s st).toNat ≤ (allowed s st).toNat := Nat.min_le_right _ _
    have hgt : 0 < min r (allowed s st).toNat := by
      apply Nat.lt_min.mpr
      exact ⟨hr, by omega⟩
    refine ⟨min r (allowed s st).toNat, hm.2.symm, hgt, ?_, ?_, ?_, Nat.min_le_left _ _⟩ <;> omega
  · cases hm

/-- **Replenishment**: a handler read of `k` bytes (`read` = what the handler got) emits WINDOW_UPDATE(connection, k),
    and for a stream that is still open WINDOW_UPDATE(stream, k), with `k` at most what is buffered: the windows are
    replenished by exactly the bytes consumed.  The statement is about EVERY state `s` — in particular it does not
    depend on `s.inGoAway`: after a graceful GOAWAY uploads in progress keep their windows open
    (`C40_replenish_during_goaway` spells that instance out). -/
theorem C40_replenish (s : State) (st : St) (h : H) (n : Nat) (q : List Cmd) (s' : State) (o : List Out)
    (hq : h.queue = .read n :: q) (hn : n ≠ 0) (hb : st.hasBody = true) (ha : st.alive = true) (hbuf : st.buf > 0)
    (hm : microH s st h = some (s', o)) :
    o = [.read h.id (min n st.buf), .wu 0 (min n st.buf)] ++ (if st.isOpen then [.wu h.id (min n st.buf)] else []) ++
        (if n - min n st.buf = 0 then [.rend h.id 0] else []) ∧
      min n st.buf ≤ st.buf := by
  unfold microH at hm
  simp only [hq, hn, hb, ha, Bool.not_true, Bool.false_eq_true, or_self, if_false, hbuf, if_true] at hm
  simp only [Option.some.injEq, Prod.mk.injEq] at hm
  exact ⟨hm.2.symm, Nat.min_le_right _ _⟩

theorem C40_replenish_during_goaway (s : State) (st : St) (h : H) (n : Nat) (q : List Cmd) (s' : State)
    (o : List Out) (_hg : s.inGoAway = true)
    (hq : h.queue = .read n :: q) (hn : n ≠ 0) (hb : st.hasBody = true) (ha : st.alive = true) (hbuf : st.buf > 0)
    (hm : microH s st h = some (s', o)) :
    Out.wu 0 (min n st.buf) ∈ o ∧ (st.isOpen = true → Out.wu h.id (min n st.buf) ∈ o) := by
  have := (C40_replenish s st h n q s' o hq hn hb ha hbuf hm).1
  subst this
  constructor
  · simp
  · intro ho; simp [ho]

/-- **The request body's Read contract**: a read command of a handler ends with io.EOF only if the client has ended
    the body (FIN seen) or the request has none, and with an error only if the stream has been closed. -/
theorem C40_read_end (s : State) (st : St) (h : H) (n : Nat) (q : List Cmd) (s' : State) (o : List Out)
    (hq : h.queue = .read n :: q) (hm : microH s st h = some (s', o)) :
    (Out.rend h.id 1 ∈ o → st.eof = true ∨ st.hasBody = false) ∧ (Out.rend h.id 2 ∈ o → st.alive = false) := by
  unfold microH at hm
  simp only [hq] at hm
  split at hm
  · rename_i hc
    simp only [Option.some.injEq, Prod.mk.injEq] at hm
    obtain ⟨_, rfl⟩ := hm
    by_cases h0 : n = 0
    · simp [h0]
    · by_cases hb : st.hasBody = true
      · have ha : st.alive = false := by
          rcases hc with hc | hc | hc
          · exact absurd hc h0
          · simp [hb] at hc
          · simpa using hc
        simp [h0, hb, ha]
      · simp [h0, hb]
  · split at hm
    · simp only [Option.some.injEq, Prod.mk.injEq] at hm
      obtain ⟨_, rfl⟩ := hm
      constructor <;> intro hmem <;> (split at hmem <;> split at hmem <;> simp at hmem)
    · split at hm
      · rename_i he
        simp only [Option.some.injEq, Prod.mk.injEq] at hm
        obtain ⟨_, rfl⟩ := hm
        simp [he]
      · cases hm

/-- a graceful shutdown sends GOAWAY(last stream id, OK) once and leaves every window and stream as it is. -/
theorem C40_graceful (s : State) (hg : s.inGoAway = false) :
    (step s .graceful).out = [.goaway s.maxId 0] ∧ (step s .graceful).st.streams = s.streams ∧
      (step s .graceful).st.connIn = s.connIn ∧ (step s .graceful).status = .run := by
  simp [step, hg]

/-- every `panic(...)` call of the CURRENT package bfe_spdy (regenerated list) has a disposition in `panicTable`:
    modelled and shown unreachable, or outside this model for the recorded reason.  A new or reworded panic site
    makes this theorem fail until it is looked at. -/
theorem C40_panic_sites_classified :
    BfeVerif.Generated.C40.panicSites.all classifySite = true := by decide

example : (stepQ false (stepQ false {} (.syn 1 false)).st (.hcmd 1 (.write 10))).out = [.reply 1 false, .data 1 10 false] := by
  decide
example : (stepQ false (stepQ false {} (.syn 1 false)).st (.data 1 65537 false)).out = [.rst 1 7] := by decide
example : I32 65536 := by unfold I32; omega

end BfeVerif.C40
