/-
  C40 — model of the SPDY server's stream and flow-control rules (bfe_spdy/flow.go, server_process_frame.go
  processSynStream / processData / processWindowUpdate / processResetStream / processSettingInitialWindowSize /
  processPing, server_conn.go processFrameFromReader / resetStream / closeStream / goAway), at the granularity of
  one client frame = one step of the serve loop.  Core-only.
  The handler of the modelled server never reads the request body and never writes (as in the harness): nothing is
  replenished and nothing is sent on the streams, so every frame the server emits comes from these functions.
-/
namespace BfeVerif.C40

/-- Go int32 wrap-around -/
def wrap32 (x : Int) : Int := (x + 2147483648) % 4294967296 - 2147483648

/-- `flow.add`: `remain := (1<<31 - 1) - f.n; if n > remain { return false }; f.n += n` (all on int32). -/
def flowAdd (f n : Int) : Option Int :=
  if n > wrap32 (2147483647 - f) then none else some (wrap32 (f + n))

/-- `flow.available` for a stream flow linked to the connection flow -/
def available (s c : Int) : Int := if c < s then c else s

/-- `flow.take`: `none` = `panic("internal error: took too much")` -/
def flowTake (s c n : Int) : Option (Int × Int) :=
  if n > available s c then none else some (wrap32 (s - n), wrap32 (c - n))

structure St where
  id : Nat
  isOpen : Bool          -- stateOpen (true) / stateHalfClosedRemote (false)
  inflow : Int
  flow : Int
  deriving Repr, DecidableEq

structure State where
  maxId : Nat := 0
  streams : List St := []
  connIn : Int := 65536
  connFlow : Int := 65536
  iws : Int := 65536
  cur : Nat := 0
  adv : Nat := 200
  deriving Repr

inductive Ev
  | syn (id : Nat) (fin : Bool)
  | data (id len : Nat) (fin : Bool)
  | wu (id delta : Nat)
  | rst (id status : Nat)
  | iws (val : Nat)
  | ping (id : Nat)
  deriving Repr

inductive Out
  | rst (id status : Nat)
  | goaway (last status : Nat)
  | ping (id : Nat)
  deriving Repr, DecidableEq

inductive Status | run | closed | stop | panic
  deriving Repr, DecidableEq

structure Res where
  st : State
  out : List Out := []
  status : Status := .run

def find (s : State) (id : Nat) : Option St := s.streams.find? (·.id = id)

/-- `closeStream` -/
def close (s : State) (id : Nat) : State :=
  if (find s id).isSome then { s with streams := s.streams.filter (·.id ≠ id), cur := s.cur - 1 } else s

/-- `resetStream(StreamError{id, code})`: RST_STREAM is queued, the stream (if any) is closed. -/
def reset (s : State) (id code : Nat) : Res := { st := close s id, out := [.rst id code] }

def upd (s : State) (st : St) : State :=
  { s with streams := s.streams.map fun x => if x.id = st.id then st else x }

def goAway (s : State) (code : Nat) : Res := { st := s, out := [.goaway s.maxId code], status := .stop }

/-- all streams get `flow.add(growth)`; `none` = one of them overflowed. -/
def growAll : List St → Int → Option (List St)
  | [], _ => some []
  | st :: t, g =>
    match flowAdd st.flow g, growAll t g with
    | some f, some t' => some ({ st with flow := f } :: t')
    | _, _ => none

def step (s : State) : Ev → Res
  | .syn id fin =>
    if id = 0 then { st := s }          -- the client's own writer refuses stream id 0: nothing is sent
    else if id % 2 ≠ 1 ∨ id < s.maxId then goAway s 1
    else if id = s.maxId then reset s id 1
    else
      let st : St := { id, isOpen := !fin, inflow := (flowAdd 0 65536).getD 0, flow := (flowAdd 0 s.iws).getD 0 }
      let s' := { s with maxId := id, streams := s.streams ++ [st], cur := s.cur + 1 }
      if s'.cur > s'.adv then { st := s', status := .closed } else { st := s' }
  | .data id len fin =>
    if id = 0 then { st := s } else
    match find s id with
    | none => reset s id 2
    | some st =>
      if !st.isOpen then reset s id 9
      else if len > 0 then
        if available st.inflow s.connIn < len then reset s id 7
        else match flowTake st.inflow s.connIn len with
          | none => { st := s, status := .panic }
          | some (i, c) =>
            { st := upd { s with connIn := c } { st with inflow := i, isOpen := st.isOpen && !fin } }
      else { st := upd s { st with isOpen := st.isOpen && !fin } }
  | .wu id delta =>
    let d : Int := (delta % 2147483648 : Nat)
    if id ≠ 0 then
      match find s id with
      | none => { st := s }
      | some st =>
        match flowAdd st.flow d with
        | none => reset s id 7
        | some f => { st := upd s { st with flow := f } }
    else match flowAdd s.connFlow d with
      | none => goAway s 7
      | some f => { st := { s with connFlow := f } }
  | .rst id _ =>
    if id = 0 then { st := s }
    else if (find s id).isSome then { st := close s id }
    else if id ≤ s.maxId then { st := s }
    else goAway s 1
  | .iws val =>
    let new := wrap32 (val : Int)
    let growth := wrap32 (new - s.iws)
    let s := { s with iws := new }
    match growAll s.streams growth with
    | none => goAway s 7
    | some l => { st := { s with streams := l } }
  | .ping id => if id = 0 ∨ id % 2 = 0 then { st := s } else { st := s, out := [.ping id] }

/-- run a script; the outputs per event, and the final status. -/
def runScript : State → List Ev → List (List Out) × Status × State
  | s, [] => ([], .run, s)
  | s, e :: t =>
    let r := step s e
    match r.status with
    | .run => let (o, st, s') := runScript r.st t; (r.out :: o, st, s')
    | x => ([r.out], x, r.st)

end BfeVerif.C40
