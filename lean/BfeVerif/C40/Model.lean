/-
  C40 — model of the SPDY server's stream and flow-control rules (bfe_spdy/flow.go, server_process_frame.go,
  server_flow_control.go, server_write_sched.go takeFrom, server_conn.go processFrameFromReader / resetStream /
  closeStream / wroteFrame / goAway, response_writer.go writeChunk / handlerDone, request_body.go Read).  Core-only.

  Granularity: one client frame or one handler command = one `step` of the serve loop, followed by `settle`:
  atomic micro-steps (`micro`) of the handler goroutines and of the write scheduler until nothing can move.
  Handlers are scripted (as in the harness): a FIFO of commands `read n` (io.ReadFull on the body), `write n`
  (Write+Flush), `finish` (return).  `flowAdd` is the code AFTER fix C40-flow-add (sum based overflow test).
  `opened` is a ghost field (ids of the streams created, in order); everything else mirrors serverConn/stream.
-/
namespace BfeVerif.C40

/-- Go int32 wrap-around -/
def wrap32 (x : Int) : Int := (x + 2147483648) % 4294967296 - 2147483648

/-- `flow.add` (fixed): `sum := f.n + n; if (sum > n) == (f.n > 0) { f.n = sum; return true }; return false` -/
def flowAdd (f n : Int) : Option Int :=
  let sum := wrap32 (f + n)
  if (decide (sum > n)) = (decide (f > 0)) then some sum else none

/-- the unfixed `flow.add`, kept for the witness: `remain := (1<<31-1) - f.n; if n > remain { return false }` -/
def flowAddOld (f n : Int) : Option Int :=
  if n > wrap32 (2147483647 - f) then none else some (wrap32 (f + n))

/-- `flow.available` for a stream flow linked to the connection flow -/
def available (s c : Int) : Int := if c < s then c else s

/-- `flow.take`: `none` = `panic("internal error: took too much")` -/
def flowTake (s c n : Int) : Option (Int × Int) :=
  if n > available s c then none else some (wrap32 (s - n), wrap32 (c - n))

def maxFrame : Int := 16384
def initWin : Int := 65536

structure St where
  id : Nat
  alive : Bool := true    -- still in sc.streams
  isOpen : Bool           -- stateOpen (true) / stateHalfClosedRemote (false)
  inflow : Int := 65536
  flow : Int
  hasBody : Bool          -- request created with a body pipe
  buf : Nat := 0          -- unread bytes in the body pipe
  eof : Bool := false     -- FIN seen: pipe closed with io.EOF
  decl : Option Nat := none  -- declBodyBytes (none = -1: no Content-Length)
  got : Nat := 0          -- bodyBytes
  deriving Repr, DecidableEq

inductive Cmd
  | read (n : Nat)
  | write (n : Nat)
  | send (r : Nat)        -- a DATA frame of r bytes is queued in the scheduler, the handler waits for it
  | finish
  deriving Repr, DecidableEq

structure H where
  id : Nat
  queue : List Cmd := []
  sentHeader : Bool := false
  werr : Bool := false    -- sticky error of the handler's bufio.Writer
  deriving Repr, DecidableEq

structure State where
  maxId : Nat := 0
  streams : List St := []
  handlers : List H := []
  connIn : Int := 65536
  connFlow : Int := 65536
  iws : Int := 65536
  cur : Nat := 0
  adv : Nat := 200
  inGoAway : Bool := false -- a GOAWAY has been scheduled (graceful shutdown)
  kick : Bool := false     -- scheduleFrameWrite has been called since the last event
  opened : List Nat := []  -- ghost
  deriving Repr

inductive Ev
  | syn (id : Nat) (fin : Bool) (meth : Nat := 0) (cl : Nat := 0)
      -- meth: 0 POST, 1 GET, 2 HEAD;  cl: 0 no Content-Length, 1 "abc", 2 "-5", k+10 = the number k
  | data (id len : Nat) (fin : Bool)
  | wu (id delta : Nat)
  | rst (id status : Nat)
  | iws (val : Nat)
  | ping (id : Nat)
  | hcmd (id : Nat) (c : Cmd)
  | graceful              -- bfe closes http.Server.CloseNotifyCh: serve calls goAway(GoAwayOK)
  deriving Repr

inductive Out
  | rst (id status : Nat)
  | goaway (last status : Nat)
  | ping (id : Nat)
  | wu (id n : Nat)
  | reply (id : Nat) (fin : Bool)
  | data (id len : Nat) (fin : Bool)
  | read (id n : Nat)     -- not a frame: the handler of stream `id` got n bytes from its request body
  | rend (id kind : Nat)  -- not a frame: a read command of the handler ended: 0 all bytes, 1 io.EOF, 2 stream error
  deriving Repr, DecidableEq

inductive Status | run | closed | stop | panic
  deriving Repr, DecidableEq

structure Res where
  st : State
  out : List Out := []
  status : Status := .run

def find (s : State) (id : Nat) : Option St := s.streams.find? fun x => x.id = id ∧ x.alive

def findAny (s : State) (id : Nat) : Option St := s.streams.find? fun x => x.id = id

/-- apply `f` to the stream `id` -/
def updSt (s : State) (id : Nat) (f : St → St) : State :=
  { s with streams := s.streams.map fun x => if x.id = id then f x else x }

def updH (s : State) (id : Nat) (f : H → H) : State :=
  { s with handlers := s.handlers.map fun h => if h.id = id then f h else h }

def dropSend : List Cmd → List Cmd
  | .send _ :: q => q
  | q => q

/-- what `closeStream` sends: the unread bytes of the body are given back to the connection window
    (fix C40-conn-window-return, as golang.org/issue/16481) -/
def closeOut (s : State) (id : Nat) : List Out :=
  match find s id with
  | none => []
  | some st => if st.buf > 0 then [.wu 0 st.buf] else []

/-- `closeStream`: out of the table, body pipe closed, its unread bytes returned to the connection window and its
    buffer released, scheduler queue forgotten (a handler waiting for a queued DATA frame gets errStreamClosed:
    its bufio.Writer keeps the error). -/
def close (s : State) (id : Nat) : State :=
  match find s id with
  | none => s
  | some st =>
    let s := { s with connIn := if st.buf > 0 then (flowAdd s.connIn st.buf).getD s.connIn else s.connIn,
                      kick := s.kick || decide (st.buf > 0) }
    let s := updSt s id fun x => { x with alive := false, buf := 0 }
    let s := updH s id fun h =>
      match h.queue with
      | .send _ :: q => { h with queue := q, werr := true }
      | _ => h
    { s with cur := s.cur - 1 }

/-- `resetStream(StreamError{id, code})`: RST_STREAM is queued (a frame write: the scheduler is kicked). -/
def reset (s : State) (id code : Nat) : Res :=
  { st := { close s id with kick := true }, out := [.rst id code] ++ closeOut s id }

/-- `goAway(code)` with an error code: nothing if a GOAWAY was already scheduled (`if sc.inGoAway { return }`),
    else GOAWAY is sent, nothing else is written any more and the connection closes 250 ms later (the script stops). -/
def goAway (s : State) (code : Nat) : Res :=
  if s.inGoAway then { st := s } else { st := s, out := [.goaway s.maxId code], status := .stop }

/-- all live streams get `flow.add(growth)`; `none` = one of them overflowed. -/
def growAll : List St → Int → Option (List St)
  | [], _ => some []
  | st :: t, g =>
    if st.alive then
      match flowAdd st.flow g, growAll t g with
      | some f, some t' => some ({ st with flow := f } :: t')
      | _, _ => none
    else (growAll t g).map (st :: ·)

/-- "sender tried to send more than declared Content-Length" -/
def overDecl (st : St) (len : Nat) : Bool :=
  match st.decl with
  | some d => decide (st.got + len > d)
  | none => false

/-- END_STREAM with a body shorter than the declared Content-Length -/
def shortDecl (st : St) (len : Nat) (fin : Bool) : Bool :=
  fin && (match st.decl with
    | some d => decide (d ≠ st.got + len)
    | none => false)

/-- one client frame / handler command processed by the serve loop -/
def step (s0 : State) (e : Ev) : Res :=
  let s := { s0 with kick := false }
  match e with
  | .syn id fin meth cl =>
    if id = 0 then { st := s }          -- the client's own writer refuses stream id 0: nothing is sent
    else if s.inGoAway then { st := s }  -- processSynStream ignores new streams once GOAWAY is scheduled
    else if id % 2 ≠ 1 ∨ id < s.maxId then goAway s 1
    else if id = s.maxId then reset s id 1
    else
      -- newWriterAndRequest: HEAD with an open body, or an unparsable / negative Content-Length -> PROTOCOL_ERROR
      let bad : Bool := !fin && (meth == 2 || cl == 1 || cl == 2)
      let st : St := { id, isOpen := !fin, flow := (flowAdd 0 s.iws).getD 0, hasBody := !fin,
                       decl := if !fin ∧ cl ≥ 10 then some (cl - 10) else none }
      let s' := { s with maxId := id, streams := s.streams ++ [st],
                         handlers := if bad then s.handlers else s.handlers ++ [{ id }],
                         cur := s.cur + 1, opened := s.opened ++ [id] }
      if s'.cur > s'.adv then { st := s', status := .closed }
      else if bad then reset s' id 1
      else { st := s' }
  | .data id len fin =>
    if id = 0 then { st := s } else
    match find s id with
    | none => reset s id 2
    | some st =>
      if !st.isOpen then reset s id 9
      -- "sender tried to send more than declared Content-Length" (checked before flow control)
      else if overDecl st len then reset s id 1
      else
        -- END_STREAM with fewer bytes than declared: the frame is accepted first, then the stream is reset
        let short : Bool := shortDecl st len fin
        if len > 0 then
          if available st.inflow s.connIn < len then reset s id 7
          else match flowTake st.inflow s.connIn len with
            | none => { st := s, status := .panic }
            | some (_, c) =>
              -- (`st.inflow.take`: the stream's own window is debited; the guard is true for the stream found)
              let s2 := updSt { s with connIn := c } id fun x =>
                  if (len : Int) ≤ x.inflow then
                    { x with inflow := wrap32 (x.inflow - len), buf := x.buf + len, isOpen := x.isOpen && !fin,
                             eof := x.eof || fin, got := x.got + len }
                  else x
              if short then reset s2 id 1 else { st := s2 }
        else
          let s2 := updSt s id fun x => { x with isOpen := x.isOpen && !fin, eof := x.eof || fin }
          if short then reset s2 id 1 else { st := s2 }
  | .wu id delta =>
    let d : Int := (delta % 2147483648 : Nat)
    if id ≠ 0 then
      match find s id with
      | none => { st := s }
      | some st =>
        match flowAdd st.flow d with
        | none => reset s id 7
        | some f => { st := { updSt s id (fun x => { x with flow := f }) with kick := true } }
    else match flowAdd s.connFlow d with
      | none => goAway s 7
      | some f => { st := { s with connFlow := f, kick := true } }
  | .rst id _ =>
    if id = 0 then { st := s }
    else if (find s id).isSome then { st := close s id, out := closeOut s id }
    else if id ≤ s.maxId then { st := s }
    else goAway s 1
  | .iws val =>
    let new := wrap32 (val : Int)
    let growth := wrap32 (new - s.iws)
    let s := { s with iws := new }
    match growAll s.streams growth with
    | none => goAway s 7
    | some l => { st := { s with streams := l } }
  | .ping id => if id = 0 ∨ id % 2 = 0 then { st := s } else { st := { s with kick := true }, out := [.ping id] }
  | .hcmd id c =>
    { st := updH s id fun h => { h with queue := h.queue ++ [c] } }
  | .graceful =>
    -- goAway(GoAwayOK): GOAWAY(last stream, OK) is sent first, streams in progress go on (reads, writes, windows)
    if s.inGoAway then { st := s }
    else { st := { s with inGoAway := true, kick := true }, out := [.goaway s.maxId 0] }

/-- what the scheduler may take for a DATA frame of stream `st` now (`takeFrom`) -/
def allowed (s : State) (st : St) : Int :=
  let a := available st.flow s.connFlow
  if maxFrame < a then maxFrame else a

/-- debit `c` bytes from the stream's and the connection's outbound window (`flow.take`) -/
def takeOut (s : State) (id : Nat) (c : Nat) : State :=
  updSt { s with connFlow := wrap32 (s.connFlow - c) } id fun x => { x with flow := wrap32 (x.flow - c) }

def popCmd (s : State) (id : Nat) : State := updH s id fun h => { h with queue := h.queue.drop 1 }

def setHead (s : State) (id : Nat) (c : Cmd) : State := updH s id fun h => { h with queue := c :: h.queue.drop 1 }

/-- one atomic action of handler `h` (or of the scheduler on its behalf), if it can move. -/
def microH (s : State) (st : St) (h : H) : Option (State × List Out) :=
    match h.queue with
    | [] => none
    | .read n :: _ =>
      if n = 0 ∨ !st.hasBody ∨ !st.alive then
        -- nothing asked / no body (io.EOF at once) / stream closed (its error, the buffer is gone)
        some (popCmd s h.id, [.rend h.id (if n = 0 then 0 else if !st.hasBody then 1 else 2)])
      else if st.buf > 0 then
        let k := min n st.buf
        -- noteBodyRead: connection WINDOW_UPDATE always, stream one unless half closed (remote)
        let s1 := { s with connIn := (flowAdd s.connIn k).getD s.connIn, kick := true }
        let s2 := updSt s1 h.id fun x =>
          if k ≤ x.buf then
            { x with buf := x.buf - k, inflow := if x.isOpen then (flowAdd x.inflow k).getD x.inflow else x.inflow }
          else x
        let s3 := if n - k = 0 then popCmd s2 h.id else setHead s2 h.id (.read (n - k))
        some (s3, [.read h.id k, .wu 0 k] ++ (if st.isOpen then [.wu h.id k] else []) ++
                  (if n - k = 0 then [.rend h.id 0] else []))
      else if st.eof then some (popCmd s h.id, [.rend h.id 1])
      else none
    | .write n :: _ =>
      if h.werr then some (popCmd s h.id, [])
      else if !h.sentHeader then
        -- first chunk: the SYN_REPLY goes first (skipped by startFrameWrite if the stream is closed)
        if st.alive then
          let s1 := updH { s with kick := true } h.id fun x => { x with sentHeader := true }
          some (if n = 0 then popCmd s1 h.id else setHead s1 h.id (.write n), [.reply h.id false])
        else
          -- (a frame for a closed stream is dropped by writeFrame, fix C40-closed-stream-writes: no scheduler kick)
          let s1 := updH s h.id fun x => { x with sentHeader := true, werr := decide (n > 0) }
          some (popCmd s1 h.id, [])
      else if n = 0 then some (popCmd s h.id, [])
      else if st.alive then some (setHead { s with kick := true } h.id (.send n), [])
      else some (popCmd (updH s h.id fun x => { x with werr := true }) h.id, [])
    | .send r :: _ =>
      if !st.alive then some (popCmd s h.id, [])
      else if s.kick ∧ allowed s st > 0 then
        let c := min r (allowed s st).toNat
        let s1 := takeOut s h.id c
        some (if r - c = 0 then popCmd s1 h.id else setHead s1 h.id (.send (r - c)), [.data h.id c false])
      else none
    | .finish :: _ =>
      let s1 := { s with handlers := s.handlers.filter fun x => x.id ≠ h.id, kick := s.kick || st.alive }
      if st.alive then
        let first := if h.sentHeader then Out.data h.id 0 true else Out.reply h.id true
        -- wroteFrame: an open stream is cancelled (RST_STREAM CANCEL), a half closed one just closed
        some (close s1 h.id, (if st.isOpen then [first, .rst h.id 5] else [first]) ++ closeOut s1 h.id)
      else some (s1, [])

/-- one atomic action concerning stream `st`: its handler (or the scheduler on the handler's behalf) moves. -/
def microS (s : State) (st : St) : Option (State × List Out) :=
  match s.handlers.find? (fun h => h.id = st.id) with
  | none => none
  | some h => microH s st h

/-- the first stream (in the given order) on which something can move -/
def microFirst (s : State) : List St → Option (State × List Out)
  | [] => none
  | st :: t => match microS s st with
    | some r => some r
    | none => microFirst s t

/-- run micro-steps until nothing moves.  `rev` = visit the handlers in the opposite order (the real scheduler
    ranges over Go maps): the driver compares both orders and skips cases where they differ. -/
def settle (rev : Bool) : Nat → State → List Out → State × List Out
  | 0, s, acc => (s, acc)
  | fuel + 1, s, acc =>
    match microFirst s (if rev then s.streams.reverse else s.streams) with
    | none => (s, acc)
    | some (s', o) => settle rev fuel s' (acc ++ o)

def settleFuel : Nat := 400

/-- one event to quiescence -/
def stepQ (rev : Bool) (s : State) (e : Ev) : Res :=
  let r := step s e
  match r.status with
  | .run => let (s', o) := settle rev settleFuel r.st r.out; { st := s', out := o }
  | _ => r

/-- run a script; the outputs per event, and the final status. -/
def runScript (rev : Bool) : State → List Ev → List (List Out) × Status × State
  | s, [] => ([], .run, s)
  | s, e :: t =>
    let r := stepQ rev s e
    match r.status with
    | .run => let (o, st, s') := runScript rev r.st t; (r.out :: o, st, s')
    | x => ([r.out], x, r.st)

end BfeVerif.C40
