import BfeVerif.C54.Driver
def main : IO Unit := BfeVerif.Proto.driverMain BfeVerif.C54.run
