/-
  C54 — model of mod_compress (bfe_modules/mod_compress/mod_compress.go, gzip_filter.go,
  brotli_filter.go) and of bfe_http.HasToken.  Core-only.

  (1) `compressHandler`:
        ae := req Accept-Encoding;  if !(HasToken(ae,"gzip") || HasToken(ae,"br")) return
        ce := res Content-Encoding; if ce != "" && ce != "identity" return
        rule := first rule of the product whose condition matches (none → return)
        GZIP:   if !HasToken(ae,"gzip") return; body = NewGzipFilter(..);   Content-Encoding = gzip
        BROTLI: if !HasToken(ae,"br")   return; body = NewBrotliFilter(..); Content-Encoding = br
        other:  return
        delete Content-Length
  (2) `GzipFilter.Read` / `BrotliFilter.Read` (identical code):
        c, err := io.CopyN(writer, source, flushSize)       // err other than EOF → return it
        if c != 0 { writer.Flush() } else if !closed { closed = true; writer.Close() }
        return buffer.Read(p)
      over an ABSTRACT streaming compressor (write/flush/close each append bytes to `buffer`).
      The buffer is represented as "everything emitted by the compressor calls so far, minus the bytes
      already handed out": `buffer = (emit trace).drop consumed`.
-/
namespace BfeVerif.C54

abbrev Bytes := List UInt8

/-! ### bfe_http.HasToken -/

def isTokenBoundary (b : UInt8) : Bool := b == 32 || b == 44 || b == 9

def lowerB (b : UInt8) : UInt8 := if 65 ≤ b ∧ b ≤ 90 then b + 32 else b

/-- `strings.EqualFold(s, token)` for an ASCII lower-case token without `k`/`s` (the only letters
    with non-ASCII simple-fold partners); both sides have equal length here. -/
def equalFold (s tok : Bytes) : Bool := s.map lowerB == tok.map lowerB

/-- the `for sp` loop: `prev` = byte before position sp (none at sp = 0), `rest` = v[sp:] -/
def hasTokenLoop (tok : Bytes) : Option UInt8 → Bytes → Bool
  | _, [] => false
  | prev, b :: rest =>
    let v := b :: rest
    if v.length < tok.length then false
    else
      let first := tok.headD 0
      let ok :=
        !(b != first && (b ||| 0x20) != first) &&
        (match prev with | none => true | some p => isTokenBoundary p) &&
        (match v.drop tok.length with | [] => true | e :: _ => isTokenBoundary e) &&
        equalFold (v.take tok.length) tok
      if ok then true else hasTokenLoop tok (some b) rest

def hasToken (v tok : Bytes) : Bool :=
  if tok.length > v.length || tok.isEmpty then false
  else if v == tok then true
  else hasTokenLoop tok none v

def sGzip : Bytes := [103, 122, 105, 112]          -- "gzip"
def sBr : Bytes := [98, 114]                       -- "br"
def sIdentity : Bytes := [105, 100, 101, 110, 116, 105, 116, 121]   -- "identity"

/-! ### compressHandler -/

inductive Cmd where
  | gzip | brotli | other
deriving DecidableEq, Repr

structure Rule where
  hit : Bool      -- rule.Cond.Match(req)
  cmd : Cmd

structure HIn where
  ae : Bytes                  -- request Accept-Encoding ("" when absent)
  ce : Bytes                  -- response Content-Encoding ("" when absent)
  hasCL : Bool                -- response carries Content-Length
  rules : Option (List Rule)  -- rule list of the request's product (none: product unknown)

structure HOut where
  enc : Option Cmd   -- which filter now wraps the body
  ce : Bytes
  hasCL : Bool
deriving DecidableEq

def tokOf : Cmd → Bytes
  | .gzip => sGzip
  | .brotli => sBr
  | .other => []

def handler (i : HIn) : HOut :=
  let same : HOut := { enc := none, ce := i.ce, hasCL := i.hasCL }
  if !(hasToken i.ae sGzip || hasToken i.ae sBr) then same
  else if !i.ce.isEmpty && i.ce != sIdentity then same
  else match i.rules with
    | none => same
    | some rs =>
      match rs.find? (·.hit) with
      | none => same
      | some r =>
        match r.cmd with
        | .gzip => if !hasToken i.ae sGzip then same else { enc := some .gzip, ce := sGzip, hasCL := false }
        | .brotli => if !hasToken i.ae sBr then same else { enc := some .brotli, ce := sBr, hasCL := false }
        | .other => same

/-! ### what RFC 7231 §5.3.4 says "the request accepts coding `tok`" means (used by the oracle) -/

def isOWS (b : UInt8) : Bool := b == 32 || b == 9

def trimL : Bytes → Bytes
  | [] => []
  | b :: r => if isOWS b then trimL r else b :: r

def trimB (s : Bytes) : Bytes := (trimL (trimL s).reverse).reverse

def splitOnB (sep : UInt8) : Bytes → Bytes → List Bytes
  | acc, [] => [acc.reverse]
  | acc, b :: r => if b == sep then acc.reverse :: splitOnB sep [] r else splitOnB sep (b :: acc) r

/-- a qvalue that is zero: `0`, `0.`, `0.0`, `0.00`, `0.000` -/
def qIsZero (q : Bytes) : Bool :=
  match q with
  | 48 :: [] => true
  | 48 :: 46 :: r => r.length ≤ 3 && r.all (· == 48)
  | _ => false

/-- weight parameter `q=...` (case-insensitive `q`) among the parameters of one element -/
def weightZero (params : List Bytes) : Bool :=
  params.any fun p =>
    match trimB p with
    | q :: 61 :: r => (q == 113 || q == 81) && qIsZero (trimB r)
    | _ => false

def rfcAccepts (ae tok : Bytes) : Bool :=
  (splitOnB 44 [] ae).any fun el =>
    match splitOnB 59 [] el with
    | [] => false
    | coding :: params => equalFold (trimB coding) tok && (trimB coding).length == tok.length && !weightZero params

/-- the element is listed (any weight) -/
def rfcListed (ae tok : Bytes) : Bool :=
  (splitOnB 44 [] ae).any fun el =>
    match splitOnB 59 [] el with
    | [] => false
    | coding :: _ => equalFold (trimB coding) tok && (trimB coding).length == tok.length

/-! ### abstract streaming compressor -/

inductive Op where
  | w (b : Bytes)
  | f
  | c
deriving DecidableEq, Repr

structure Comp (S : Type) where
  init : S
  write : S → Bytes → S × Bytes
  flush : S → S × Bytes
  close : S → S × Bytes

def Comp.step {S : Type} (cp : Comp S) (s : S) : Op → S × Bytes
  | .w b => cp.write s b
  | .f => cp.flush s
  | .c => cp.close s

/-- bytes appended to the buffer by the calls `ops`, starting in state `s` -/
def Comp.emitFrom {S : Type} (cp : Comp S) : S → List Op → Bytes
  | _, [] => []
  | s, o :: r => (cp.step s o).2 ++ cp.emitFrom (cp.step s o).1 r

def Comp.emit {S : Type} (cp : Comp S) (ops : List Op) : Bytes := cp.emitFrom cp.init ops

/-- the bytes written to the compressor by `ops` -/
def written : List Op → Bytes
  | [] => []
  | .w b :: r => b ++ written r
  | _ :: r => written r

/-! ### io.CopyN(writer, source, n) against a chunked source -/

/-- split `d` into reads of at most `b` bytes (`fuel ≥ d.length`) -/
def pieces (b : Nat) : Nat → Bytes → List Bytes
  | 0, _ => []
  | fuel + 1, d => if d.isEmpty then [] else d.take b :: pieces b fuel (d.drop b)

/-- the source is a list of chunks: one `Read` returns (a prefix of) the head chunk.
    Returns the non-empty writes made to the compressor (in order) and the remaining source. -/
def copyLoop (b : Nat) : List Bytes → Nat → List Bytes × List Bytes
  | [], _ => ([], [])
  | d :: rest, rem =>
    if rem = 0 then ([], d :: rest)
    else if d.length > rem then (pieces b rem (d.take rem), d.drop rem :: rest)
    else
      let r := copyLoop b rest (rem - d.length)
      (pieces b d.length d ++ r.1, r.2)

/-- io.Copy's buffer for a LimitedReader: min(32 KiB, n), at least 1 -/
def copyBuf (n : Nat) : Nat := if n < 1 then 1 else if n < 32768 then n else 32768

def copyN (src : List Bytes) (n : Nat) : List Bytes × List Bytes := copyLoop (copyBuf n) src n

/-- repeated `CopyN(…, fs)` until one call copies nothing (what the successive `Read`s of a filter do
    to the source): returns everything copied and what is left of the source -/
def drain (fs : Nat) : Nat → List Bytes → Bytes × List Bytes
  | 0, src => ([], src)
  | k + 1, src =>
    let r := copyN src fs
    if r.1.flatten.length = 0 then ([], r.2)
    else
      let q := drain fs k r.2
      (r.1.flatten ++ q.1, q.2)

/-! ### rule files: `ActionFileCheck` (action.go) as reached from ProductRuleConfLoad -/

inductive Load where
  | ok | err | panic
deriving DecidableEq, Repr

/-- `cmd = none`: no Cmd in the file; `q`/`fs = none`: field missing — reported as an error since fix
    4bfed1b (before it the code dereferenced the nil pointer and panicked).  Order of the checks as in
    the code: Cmd, Quality, FlushSize present; command known and Quality in its range; FlushSize in range. -/
def actionFileCheck (cmd : Option Cmd) (q fs : Option Int) : Load :=
  match cmd, q, fs with
  | none, _, _ => .err
  | some _, none, _ => .err
  | some _, some _, none => .err
  | some .other, some _, some _ => .err
  | some c, some qv, some f =>
    let lo : Int := if c = .gzip then -2 else 0      -- gzip.HuffmanOnly / brotli.BestSpeed
    let hi : Int := if c = .gzip then 9 else 11      -- gzip.BestCompression / brotli.BestCompression
    if qv < lo || qv > hi then .err
    else if f < 64 || f > 4096 then .err else .ok

/-! ### the filter -/

structure FSt where
  src : List Bytes
  trace : List Op := []     -- every compressor call so far
  consumed : Nat := 0       -- compressed bytes already returned by Read
  closed : Bool := false

/-- one `Read(p)` with `len(p) = p`: returns (bytes, io.EOF?) and the new state -/
def fread {S : Type} (cp : Comp S) (fs : Nat) (st : FSt) (p : Nat) : (Bytes × Bool) × FSt :=
  let r := copyN st.src fs
  let ws := r.1.map Op.w
  let ops := if r.1.flatten.length ≠ 0 then ws ++ [Op.f] else if !st.closed then ws ++ [Op.c] else ws
  let closed := if r.1.flatten.length ≠ 0 then st.closed else true
  let tr := st.trace ++ ops
  let avail := (cp.emit tr).drop st.consumed
  -- bytes.Buffer.Read: empty buffer → (0, io.EOF) (or (0, nil) when len(p) = 0); else copy(p, buf)
  ((avail.take p, avail.isEmpty && decide (p ≠ 0)),
   { src := r.2, trace := tr, consumed := st.consumed + (avail.take p).length, closed := closed })

/-! a source that FAILS: after its chunks `Read` returns an error instead of io.EOF -/

inductive RRes where
  | ok | eof | err
deriving DecidableEq, Repr

/-- `Read` over a possibly failing source.  CopyN meets the end of the source iff fewer than `fs` bytes
    are left; the non-EOF error is then returned at once (`return 0, err`): what this call copied stays
    written to the compressor, unflushed, and nothing is handed out. -/
def freadX {S : Type} (cp : Comp S) (fs : Nat) (failing : Bool) (st : FSt) (p : Nat) : (Bytes × RRes) × FSt :=
  if failing && decide (st.src.flatten.length < fs) then
    (([], .err), { st with src := (copyN st.src fs).2, trace := st.trace ++ (copyN st.src fs).1.map Op.w })
  else
    (((fread cp fs st p).1.1, if (fread cp fs st p).1.2 then .eof else .ok), (fread cp fs st p).2)

/-- rule table after two rule files were offered in turn (`CompressRuleTable.Update` replaces the table;
    a file that fails the checks leaves it as it was): the action in force -/
def actionInForce (first second : Option (Load × Cmd × Nat)) : Option (Cmd × Nat) :=
  match second with
  | some (.ok, c, f) => some (c, f)
  | _ =>
    match first with
    | some (.ok, c, f) => some (c, f)
    | _ => none

/-- a reader calling `Read` with buffer sizes `ps` until the first io.EOF -/
def session {S : Type} (cp : Comp S) (fs : Nat) : FSt → List Nat → List Bytes × Bool × FSt
  | st, [] => ([], false, st)
  | st, p :: ps =>
    let r := fread cp fs st p
    if r.1.2 then ([], true, r.2)
    else
      let q := session cp fs r.2 ps
      (r.1.1 :: q.1, q.2.1, q.2.2)

/-- contract 1: whatever was written, flushed in between, and closed once, decompresses to the input -/
def Comp.Correct {S : Type} (cp : Comp S) (dec : Bytes → Option Bytes) : Prop :=
  ∀ pre : List Op, Op.c ∉ pre → dec (cp.emit (pre ++ [Op.c])) = some (written pre)

/-- contract 2: writing at least one byte and then flushing puts at least one byte into the buffer -/
def Comp.FlushProgress {S : Type} (cp : Comp S) : Prop :=
  ∀ (pre : List Op) (ws : List Bytes), ws.flatten ≠ [] →
    (cp.emit pre).length < (cp.emit (pre ++ ws.map Op.w ++ [Op.f])).length

end BfeVerif.C54
