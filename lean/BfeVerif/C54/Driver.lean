import BfeVerif.Common.Proto
import BfeVerif.C54.Model
/-!
  C54 driver.  Two kinds of op:
  `h ae=<hex>;ce=<hex>;cl=<0|1>;prod=<0|1>;rules=<T|F><G|B>,...`            → `enc=<none|gzip|br>;ce=<hex>;cl=<0|1>`
  `f enc=<g|b>;q=<n>;fs=<n>;chunks=<len,...>;kind=<n>;seed=<n>;reads=<p,...>;eofw=<0|1>;max=<n>`
       → `r=<n>/<buffered after>/<closed>/<w+w+..>,...;eof=<0|1>;dec=<ok|na|bad-..>`  (one entry per Read call)
  For `f` the compressor is abstract in the model; the driver instantiates it with one that emits, at
  each flush/close, as many bytes as the real compressor put into the filter's buffer during that Read
  (derived from the implementation's own n/buffered numbers).
-/
namespace BfeVerif.C54
open BfeVerif.Proto

def parseKV (s : String) : List (String × String) :=
  (s.splitOn ";").filterMap fun f =>
    match f.splitOn "=" with
    | [a, b] => some (a, b)
    | _ => none

def look (kv : List (String × String)) (k : String) : Option String := (kv.find? (·.1 == k)).map (·.2)
def lookNat (kv : List (String × String)) (k : String) : Option Nat := (look kv k).bind String.toNat?

def natList (sep : String) (s : String) : Option (List Nat) :=
  if s == "-" then some [] else (s.splitOn sep).mapM String.toNat?

def parseRules (s : String) : Option (List Rule) :=
  if s == "-" then some [] else
  (s.splitOn ",").mapM fun r =>
    match r.toList with
    | [h, c] =>
      if (h == 'T' || h == 'F') && (c == 'G' || c == 'B') then
        some { hit := h == 'T', cmd := if c == 'G' then Cmd.gzip else Cmd.brotli }
      else none
    | _ => none

def encName : Option Cmd → String
  | some .gzip => "gzip"
  | some .brotli => "br"
  | _ => "none"

def runH (rest impl : String) : Ans :=
  let kv := parseKV rest
  match (look kv "ae").bind bytesOfHex, (look kv "ce").bind bytesOfHex, lookNat kv "cl", lookNat kv "prod",
        (look kv "rules").bind parseRules with
  | some ae, some ce, some cl, some prod, some rules =>
    let i : HIn := { ae := ae, ce := ce, hasCL := cl == 1, rules := if prod == 1 then some rules else none }
    let o := handler i
    -- optional response / request attributes the handler does not look at (status, method, Content-Range,
    -- ETag, Vary, a second Accept-Encoding line): the model echoes ETag / Vary unchanged
    let ext := (look kv "st").isSome
    let stt := (lookNat kv "st").getD 200
    let mth := (look kv "mth").getD "G"
    let cr := (lookNat kv "cr").getD 0
    let m := "enc=" ++ encName o.enc ++ ";ce=" ++ hexField o.ce ++ ";cl=" ++ (if o.hasCL then "1" else "0") ++
      (if ext then ";et=" ++ (look kv "et").getD "0" ++ ";vy=" ++ (look kv "vy").getD "-" else "")
    -- oracle on the implementation's answer
    let ikv := parseKV impl
    let ienc := (look ikv "enc").getD "?"
    let ice := (look ikv "ce").bind bytesOfHex
    let icl := lookNat ikv "cl"
    let verdict :=
      if ienc == "none" then
        (if ice == some ce && icl == some cl then "ok" else "FAIL:headers-changed-without-encoding")
      else if ienc == "gzip" || ienc == "br" then
        let tok := if ienc == "gzip" then sGzip else sBr
        if ice != some tok then "FAIL:wrong-content-encoding"
        else if icl != some 0 then "FAIL:stale-content-length"
        else if ext && (look ikv "et") != (look kv "et") then "FAIL:etag-changed"
        else if ext && (stt == 204 || stt == 304 || stt < 200 || mth == "H") then "FAIL:bodiless-response-compressed"
        else if ext && (cr == 1 || stt == 206) then "FAIL:partial-content-compressed"
        else if rfcAccepts ae tok then "ok"
        else if rfcListed ae tok then "FAIL:q0-accepted"
        else if hasToken ae tok then "FAIL:malformed-element-accepted"   -- the word occurs, but not as a list element
        else "FAIL:coding-not-in-header"
      else "FAIL:unparsable"
    let tags := ["h"] ++ (if o.enc.isSome then ["nt", "h-enc"] else ["h-none"]) ++
      (if ext then ["h-ext"] else []) ++ (if (look kv "ae2").getD "-" != "-" then ["h-ae2"] else []) ++
      (if ext && o.enc.isSome && (look kv "vy").getD "-" == "-" then ["h-no-vary"] else []) ++
      (if ae.any (· == 59) then ["ae-params"] else []) ++
      (if hasToken ae sGzip != rfcAccepts ae sGzip || hasToken ae sBr != rfcAccepts ae sBr then ["tok-vs-rfc-differ"] else [])
    { model := m, verdict := verdict, tags := tags }
  | _, _, _, _, _ => { model := "bad-op", verdict := "skip" }

/-- compressor whose i-th flush/close emits `q[i]` bytes -/
def lenComp : Comp (List Nat) :=
  { init := [], write := fun s _ => (s, []),
    flush := fun s => (s.drop 1, List.replicate (s.headD 0) 0),
    close := fun s => (s.drop 1, List.replicate (s.headD 0) 0) }

structure RRec where
  n : Nat
  buf : Nat
  closed : Nat
  ws : List Nat

def parseRec (s : String) : Option RRec :=
  match s.splitOn "/" with
  | [a, b, c, d] => do
    let n ← a.toNat?; let bf ← b.toNat?; let cl ← c.toNat?; let ws ← natList "+" d
    pure { n := n, buf := bf, closed := cl, ws := ws }
  | _ => none

def showRec (r : RRec) : String :=
  toString r.n ++ "/" ++ toString r.buf ++ "/" ++ toString r.closed ++ "/" ++
    (if r.ws.isEmpty then "-" else "+".intercalate (r.ws.map toString))

/-- pass 1: which Reads make a flush/close call (independent of the compressor and of p) -/
def opReads (fs : Nat) : Nat → FSt → List Bool
  | 0, _ => []
  | k + 1, st =>
    let r := fread lenComp fs st 1
    let had := r.2.trace.length > st.trace.length && (r.2.trace.getLast? == some Op.f || r.2.trace.getLast? == some Op.c)
    had :: opReads fs k { r.2 with consumed := 0 }

def cyc (l : List Nat) (i : Nat) : Nat := if l.isEmpty then 1 else l.getD (i % l.length) 1

/-- pass 2: the model's Read results -/
def simReads (cp : Comp (List Nat)) (fs : Nat) (ps : List Nat) : Nat → Nat → FSt → List RRec × Bool
  | 0, _, _ => ([], false)
  | k + 1, i, st =>
    let before := st.trace.length
    let r := fread cp fs st (cyc ps i)
    let ws := (r.2.trace.drop before).filterMap fun o => match o with | .w b => some b.length | _ => none
    let rec_ : RRec := { n := r.1.1.length, buf := (cp.emit r.2.trace).length - r.2.consumed,
                         closed := if r.2.closed then 1 else 0, ws := ws }
    if r.1.2 then ([rec_], true)
    else
      let q := simReads cp fs ps k (i + 1) r.2
      (rec_ :: q.1, q.2)

/-- pass 2 over a possibly failing source: (records, eof reached, error reached).  The buffer level
    reported for the failing Read is the implementation's (what a compressor emits at a Write without
    flush is not modelled). -/
def simReadsX (cp : Comp (List Nat)) (fs : Nat) (ps : List Nat) (failing : Bool) (lastBuf : Nat) :
    Nat → Nat → FSt → List RRec × Bool × Bool
  | 0, _, _ => ([], false, false)
  | k + 1, i, st =>
    let before := st.trace.length
    let r := freadX cp fs failing st (cyc ps i)
    let ws := (r.2.trace.drop before).filterMap fun o => match o with | .w b => some b.length | _ => none
    let isErr := r.1.2 == RRes.err
    let rec_ : RRec := { n := r.1.1.length,
                         buf := if isErr then lastBuf else (cp.emit r.2.trace).length - r.2.consumed,
                         closed := if r.2.closed then 1 else 0, ws := ws }
    if isErr then ([rec_], false, true)
    else if r.1.2 == RRes.eof then ([rec_], true, false)
    else
      let q := simReadsX cp fs ps failing lastBuf k (i + 1) r.2
      (rec_ :: q.1, q.2.1, q.2.2)

/-- the filter part shared by `f` and `r` ops: model string, verdict, tags -/
def filterPart (fs : Nat) (chunks ps : List Nat) (mx : Nat) (ikv : List (String × String))
    (failing : Bool := false) : Option (String × String × List String) :=
  match (look ikv "r").bind (fun s => if s == "-" then some [] else (s.splitOn ",").mapM parseRec), lookNat ikv "eof", look ikv "dec" with
  | some recs, some ieof, some idec =>
    let src : List Bytes := chunks.map fun n => List.replicate n 0
    let st0 : FSt := { src := src }
    let k := recs.length
    -- emission per Read, from the implementation's numbers
    let es := (recs.zip (0 :: recs.map (·.buf))).map fun (r, prev) => r.n + r.buf - prev
    let has := opReads fs k st0
    let q := ((es.zip has).filter (·.2)).map (·.1)
    let stray := (es.zip has).any fun x => !x.2 && x.1 != 0
    let cp : Comp (List Nat) := { lenComp with init := q }
    let sim := simReadsX cp fs ps failing ((recs.getLast?.map (·.buf)).getD 0) k 0 st0
    let stray := stray && !sim.2.2
    let m := "r=" ++ (if sim.1.isEmpty then "-" else ",".intercalate (sim.1.map showRec)) ++ ";eof=" ++
      (if sim.2.1 then "1" else "0") ++ ";dec=" ++ (if sim.2.2 then "readerr" else if sim.2.1 then "ok" else "na") ++
      (if (look ikv "close").isSome then ";close=1" else "")
    let m := if stray then "emission-without-compressor-call" else m
    let sim : List RRec × Bool := (sim.1, sim.2.1)
    let verdict :=
      if (look ikv "close").isSome && look ikv "close" != some "1" then "FAIL:source-not-closed"
      else if failing then
        (if ieof == 1 then "FAIL:source-error-swallowed"
         else if idec == "readerr" || k ≥ mx then "ok" else "FAIL:reader-stopped-" ++ idec)
      else if ieof == 1 then (if idec == "ok" then "ok" else "FAIL:corrupt-body-" ++ idec)
      else if k < mx then "FAIL:reader-stopped-" ++ idec else "ok"
    let nflush := (has.filter id).length
    let tags := (if sim.2 && nflush ≥ 3 then ["nt", "f-multiflush"] else []) ++
      (if sim.2 then ["f-eof"] else ["f-partial"]) ++
      (if chunks.any (· == 0) then ["f-emptychunk"] else []) ++
      (if chunks.foldl (· + ·) 0 == 0 then ["f-emptybody"] else []) ++
      (if chunks.any (· > fs) then ["f-chunk>fs"] else []) ++
      (if ps.any (· == 1) then ["f-p1"] else []) ++ (if failing then ["f-srcerr"] else [])
    some (m, verdict, tags)
  | _, _, _ => none

def runF (rest impl : String) : Ans :=
  let kv := parseKV rest
  match lookNat kv "fs", (look kv "chunks").bind (natList ","), (look kv "reads").bind (natList ","), lookNat kv "max" with
  | some fs, some chunks, some ps, some mx =>
    match filterPart fs chunks ps mx (parseKV impl) ((look kv "fail") == some "1") with
    | some (m, v, tags) => { model := m, verdict := v, tags := ["f"] ++ tags }
    | none => { model := "unparsable-impl", verdict := "ok" }
  | _, _, _, _ => { model := "bad-op", verdict := "skip" }

def optInt (s : String) : Option (Option Int) :=
  if s == "m" then some none else (s.toInt?).map some

/-- `r cmd=<G|B|X|m>;q=<int|m>;fs=<int|m>;ae=<hex>;chunks=..;kind=..;seed=..;reads=..;eofw=..;max=..`:
    a product rule FILE is written and loaded by the real ProductRuleConfLoad, then one response goes
    through compressHandler and the installed filter.
    → `load=<ok|err|panic>;enc=<none|gzip|br>;raw=<ok|bad|na>` [`;r=..;eof=..;dec=..` when a filter was installed] -/
def runR (rest impl : String) : Ans :=
  let kv := parseKV rest
  match look kv "cmd", (look kv "q").bind optInt, (look kv "fs").bind optInt, (look kv "ae").bind bytesOfHex,
        (look kv "chunks").bind (natList ","), (look kv "reads").bind (natList ","), lookNat kv "max" with
  | some cmds, some q, some fs, some ae, some chunks, some ps, some mx =>
    let cmd : Option Cmd := if cmds == "G" then some .gzip else if cmds == "B" then some .brotli
      else if cmds == "m" then none else some .other
    let ld := actionFileCheck cmd q fs
    let ldStr := fun (l : Load) => match l with | .ok => "ok" | .err => "err" | .panic => "panic"
    -- optional second rule file offered to the same module (reload)
    let has2 := (look kv "cmd2").isSome
    let cmds2 := (look kv "cmd2").getD "m"
    let cmd2 : Option Cmd := if cmds2 == "G" then some .gzip else if cmds2 == "B" then some .brotli
      else if cmds2 == "m" then none else some .other
    let q2 := ((look kv "q2").bind optInt).getD none
    let fs2 := ((look kv "fs2").bind optInt).getD none
    let ld2 := actionFileCheck cmd2 q2 fs2
    let lds := ldStr ld ++ (if has2 then "/" ++ ldStr ld2 else "")
    let natOf := fun (x : Option Int) => match x with | some f => f.toNat | none => 0
    let inForce := actionInForce (some (ld, cmd.getD .other, natOf fs))
      (if has2 then some (ld2, cmd2.getD .other, natOf fs2) else none)
    let ikv := parseKV impl
    let ild := (look ikv "load").getD "?"
    let ienc := (look ikv "enc").getD "?"
    let iraw := (look ikv "raw").getD "?"
    let failing := (look kv "fail") == some "1"
    -- oracle (on the implementation's answer only)
    let bodyVerdict : String :=
      if ienc == "none" then (if iraw == "ok" || (!has2 && ild != "ok" && iraw == "na") then "ok" else "FAIL:passthrough-body-changed")
      else if ienc == "gzip" || ienc == "br" then
        match lookNat ikv "eof", look ikv "dec" with
        | some 1, some d => if failing then "FAIL:source-error-swallowed" else if d == "ok" then "ok" else "FAIL:rulefile-corrupt-body-" ++ d
        | some _, some d =>
          if d == "readerr" && failing then "ok"
          else if (((look ikv "r").getD "").splitOn ",").length < mx then "FAIL:reader-stopped-" ++ d else "ok"
        | _, _ => "FAIL:unparsable"
      else "FAIL:unparsable"
    let fsE := if has2 && ld2 == .ok then fs2 else fs
    let btags := ["r", "load-" ++ ldStr ld] ++ (if has2 then ["r-reload", "reload-" ++ ldStr ld2] else []) ++
      (match fsE with | some f => (if f == 0 then ["fs0"] else if f < 64 then ["fs<64"] else if f > 4096 then ["fs>4096"]
                                  else if f == 64 || f == 4096 then ["fs-edge"] else []) | none => ["fs-missing"])
    match inForce with
    | some (c, f) =>
      let o := handler { ae := ae, ce := [], hasCL := true, rules := some [{ hit := true, cmd := c }] }
      match o.enc with
      | none => { model := "load=" ++ lds ++ ";enc=none;raw=ok", verdict := bodyVerdict, tags := btags ++ ["r-none"] }
      | some e =>
        match filterPart f chunks ps mx ikv failing with
        | some (m, _, tags) =>
          { model := "load=" ++ lds ++ ";enc=" ++ encName (some e) ++ ";raw=na;" ++ m, verdict := bodyVerdict,
            tags := btags ++ ["r-enc"] ++ tags }
        | none => { model := "load=" ++ lds ++ ";enc=" ++ encName (some e) ++ ";raw=na;<no filter record>", verdict := bodyVerdict, tags := btags }
    | none =>
      { model := "load=" ++ lds ++ ";enc=none;raw=" ++ (if has2 then "ok" else "na"), verdict := bodyVerdict, tags := btags }
  | _, _, _, _, _, _, _ => { model := "bad-op", verdict := "skip" }

def run (op impl : String) : Ans :=
  if op.startsWith "h " then runH (op.drop 2).toString impl
  else if op.startsWith "f " then runF (op.drop 2).toString impl
  else if op.startsWith "r " then runR (op.drop 2).toString impl
  else { model := "bad-op", verdict := "skip" }

end BfeVerif.C54
