import BfeVerif.C54.Model
/-! C54 helper lemmas. -/
namespace BfeVerif.C54

variable {S : Type}

def Comp.after (cp : Comp S) : S → List Op → S
  | s, [] => s
  | s, o :: r => cp.after (cp.step s o).1 r

theorem emitFrom_append (cp : Comp S) (s : S) (a b : List Op) :
    cp.emitFrom s (a ++ b) = cp.emitFrom s a ++ cp.emitFrom (cp.after s a) b := by
  induction a generalizing s with
  | nil => simp [Comp.emitFrom, Comp.after]
  | cons o r ih => simp [Comp.emitFrom, Comp.after, ih, List.append_assoc]

theorem emit_append (cp : Comp S) (a b : List Op) :
    cp.emit (a ++ b) = cp.emit a ++ cp.emitFrom (cp.after cp.init a) b := by
  unfold Comp.emit; exact emitFrom_append cp _ a b

theorem written_append (a b : List Op) : written (a ++ b) = written a ++ written b := by
  induction a with
  | nil => rfl
  | cons o r ih => cases o <;> simp [written, ih, List.append_assoc]

theorem written_map_w (ws : List Bytes) : written (ws.map Op.w) = ws.flatten := by
  induction ws with
  | nil => rfl
  | cons a r ih => simp [written, ih]

theorem c_not_mem_map_w (ws : List Bytes) : Op.c ∉ ws.map Op.w := by
  simp

theorem pieces_flatten (b : Nat) (hb : 0 < b) : ∀ (fuel : Nat) (d : Bytes), d.length ≤ fuel →
    (pieces b fuel d).flatten = d := by
  intro fuel
  induction fuel with
  | zero => intro d h; have : d = [] := List.eq_nil_of_length_eq_zero (by omega); subst this; rfl
  | succ n ih =>
    intro d h
    unfold pieces
    split
    · rename_i he; simp at he; subst he; rfl
    · rename_i he
      have hl : 0 < d.length := by
        cases d with
        | nil => simp at he
        | cons _ _ => simp
      have : (d.drop b).length ≤ n := by simp; omega
      simp [ih _ this]

theorem copyLoop_flatten (b : Nat) (hb : 0 < b) : ∀ (src : List Bytes) (rem : Nat),
    (copyLoop b src rem).1.flatten ++ (copyLoop b src rem).2.flatten = src.flatten := by
  intro src
  induction src with
  | nil => intro rem; simp [copyLoop]
  | cons d rest ih =>
    intro rem
    unfold copyLoop
    split
    · simp
    · split
      · have := pieces_flatten b hb rem (d.take rem) (List.length_take_le rem d)
        simp only [this, List.flatten_cons]
        rw [← List.append_assoc, List.take_append_drop]
      · have h1 := pieces_flatten b hb d.length d (Nat.le_refl _)
        have h2 := ih (rem - d.length)
        simp only [List.flatten_append, h1, List.append_assoc, h2, List.flatten_cons]

/-- CopyN copied nothing although it was asked for at least one byte: the source is exhausted -/
theorem copyLoop_zero (b : Nat) (hb : 0 < b) : ∀ (src : List Bytes) (rem : Nat), 0 < rem →
    (copyLoop b src rem).1.flatten = [] → (copyLoop b src rem).2 = [] := by
  intro src
  induction src with
  | nil => intro rem _ _; simp [copyLoop]
  | cons d rest ih =>
    intro rem hr h0
    unfold copyLoop at h0 ⊢
    split at h0
    · omega
    · rename_i hne
      rw [if_neg hne]
      split at h0
      · rename_i hgt
        have := pieces_flatten b hb rem (d.take rem) (List.length_take_le rem d)
        rw [this] at h0
        have hl : (d.take rem).length = 0 := by rw [h0]; rfl
        rw [List.length_take] at hl
        omega
      · rename_i hle
        rw [if_neg hle]
        have h1 := pieces_flatten b hb d.length d (Nat.le_refl _)
        simp only [List.flatten_append, h1, List.append_eq_nil_iff] at h0
        have hd : d.length = 0 := by rw [h0.1]; rfl
        have := ih (rem - d.length) (by omega) h0.2
        simpa using this

theorem copyBuf_pos (n : Nat) : 0 < copyBuf n := by
  unfold copyBuf
  split
  · omega
  · split <;> omega

theorem take_len_take {α : Type} (p : Nat) (X : List α) : X.take (X.take p).length = X.take p := by
  rw [List.length_take]
  by_cases h : p ≤ X.length
  · rw [Nat.min_eq_left h]
  · rw [Nat.min_eq_right (by omega), List.take_length, List.take_of_length_le (by omega)]

/-! ### the filter invariant -/

def Inv (cp : Comp S) (body : Bytes) (st : FSt) : Prop :=
  written st.trace ++ st.src.flatten = body ∧
  (st.closed = false → Op.c ∉ st.trace) ∧
  (st.closed = true → st.src = [] ∧ ∃ pre, st.trace = pre ++ [Op.c] ∧ Op.c ∉ pre) ∧
  st.consumed ≤ (cp.emit st.trace).length

/-- the compressor calls made by one Read -/
def readOps (fs : Nat) (st : FSt) : List Op :=
  let r := copyN st.src fs
  if r.1.flatten.length ≠ 0 then r.1.map Op.w ++ [Op.f]
  else if !st.closed then r.1.map Op.w ++ [Op.c] else r.1.map Op.w

def readClosed (fs : Nat) (st : FSt) : Bool :=
  if (copyN st.src fs).1.flatten.length ≠ 0 then st.closed else true

theorem fread_src (cp : Comp S) (fs : Nat) (st : FSt) (p : Nat) :
    (fread cp fs st p).2.src = (copyN st.src fs).2 := by
  unfold fread; rfl

theorem fread_trace (cp : Comp S) (fs : Nat) (st : FSt) (p : Nat) :
    (fread cp fs st p).2.trace = st.trace ++ readOps fs st := by
  unfold fread readOps; rfl

theorem fread_closed (cp : Comp S) (fs : Nat) (st : FSt) (p : Nat) :
    (fread cp fs st p).2.closed = readClosed fs st := by
  unfold fread readClosed; rfl

theorem fread_out (cp : Comp S) (fs : Nat) (st : FSt) (p : Nat) :
    (fread cp fs st p).1.1 = ((cp.emit (st.trace ++ readOps fs st)).drop st.consumed).take p ∧
    (fread cp fs st p).2.consumed = st.consumed + (fread cp fs st p).1.1.length ∧
    ((fread cp fs st p).1.2 = true → (cp.emit (st.trace ++ readOps fs st)).length ≤ st.consumed) := by
  unfold fread readOps; dsimp only
  refine ⟨rfl, rfl, ?_⟩
  intro h
  simp only [Bool.and_eq_true, List.isEmpty_iff] at h
  have := congrArg List.length h.1
  simp only [List.length_drop, List.length_nil] at this
  omega

theorem readOps_closed_of_closed (fs : Nat) (st : FSt) (hc : st.closed = true) (hs : st.src = []) :
    readOps fs st = [] := by
  unfold readOps copyN
  simp [hs, copyLoop, hc]

theorem fread_inv (cp : Comp S) (hp : cp.FlushProgress) (body : Bytes) (fs : Nat) (hfs : 0 < fs)
    (st : FSt) (p : Nat) (hi : Inv cp body st) :
    Inv cp body (fread cp fs st p).2 ∧
    (cp.emit (fread cp fs st p).2.trace).take (fread cp fs st p).2.consumed =
      (cp.emit st.trace).take st.consumed ++ (fread cp fs st p).1.1 ∧
    ((fread cp fs st p).1.2 = true → (fread cp fs st p).2.closed = true ∧
       (fread cp fs st p).2.consumed = (cp.emit (fread cp fs st p).2.trace).length) := by
  obtain ⟨hw, hnc, hcl, hle⟩ := hi
  have ho := fread_out cp fs st p
  have hpre := emit_append cp st.trace (readOps fs st)
  have hb := copyBuf_pos fs
  have hfl := copyLoop_flatten (copyBuf fs) hb st.src fs
  -- the output relation
  have hout : (cp.emit (st.trace ++ readOps fs st)).take ((fread cp fs st p).2.consumed) =
      (cp.emit st.trace).take st.consumed ++ (fread cp fs st p).1.1 := by
    rw [ho.2.1, List.take_add, ho.1]
    congr 1
    · rw [hpre, List.take_append_of_le_length hle]
    · exact take_len_take _ _
  have hcons : (fread cp fs st p).2.consumed ≤ (cp.emit (st.trace ++ readOps fs st)).length := by
    rw [ho.2.1, ho.1, hpre]
    simp only [List.length_take, List.length_drop, List.length_append]
    omega
  unfold Inv
  rw [fread_trace, fread_closed, fread_src]
  by_cases hc0 : (copyN st.src fs).1.flatten.length ≠ 0
  · -- copied something: flush
    have hro : readOps fs st = (copyN st.src fs).1.map Op.w ++ [Op.f] := by
      unfold readOps; dsimp only; rw [if_pos hc0]
    have hrc : readClosed fs st = st.closed := by unfold readClosed; rw [if_pos hc0]
    have hopen : st.closed = false := by
      cases hcc : st.closed with
      | false => rfl
      | true =>
        have := (hcl hcc).1
        exfalso; apply hc0
        unfold copyN; rw [this]; simp [copyLoop]
    refine ⟨⟨?_, ?_, ?_, hcons⟩, hout, ?_⟩
    · rw [hro, written_append, written_append, written_map_w]
      simp only [written, List.append_nil]
      rw [List.append_assoc, ← hw]
      congr 1
      all_goals (first | exact hfl | rfl)
    · intro _
      rw [hro]
      simp only [List.mem_append, List.mem_map, List.mem_singleton, not_or]
      exact ⟨hnc hopen, ⟨by simp, by simp⟩⟩
    · rw [hrc, hopen]; intro h; cases h
    · intro heof
      exfalso
      have h1 := ho.2.2 heof
      have hne : (copyN st.src fs).1.flatten ≠ [] := by
        intro h; apply hc0; rw [h]; rfl
      have h2 := hp st.trace (copyN st.src fs).1 hne
      rw [hro, ← List.append_assoc] at h1
      omega
  · -- copied nothing
    have hz : (copyN st.src fs).1.flatten = [] := by
      have : (copyN st.src fs).1.flatten.length = 0 := by omega
      exact List.eq_nil_of_length_eq_zero this
    have hsrc : (copyN st.src fs).2 = [] := copyLoop_zero (copyBuf fs) hb st.src fs hfs hz
    have hrc : readClosed fs st = true := by unfold readClosed; rw [if_neg hc0]
    have hsf : st.src.flatten = [] := by
      unfold copyN at hz hsrc
      rw [hz, hsrc] at hfl
      simpa using hfl.symm
    cases hcc : st.closed with
    | true =>
      have hs := (hcl hcc).1
      have hro := readOps_closed_of_closed fs st hcc hs
      rw [hro, List.append_nil] at hcons hout ⊢
      refine ⟨⟨?_, ?_, ?_, hcons⟩, hout, ?_⟩
      · rw [hsrc]; rw [hs] at hw; exact hw
      · rw [hrc]; intro h; cases h
      · intro _; exact ⟨hsrc, (hcl hcc).2⟩
      · intro heof
        have h1 := ho.2.2 heof
        rw [hro, List.append_nil] at h1
        refine ⟨hrc, ?_⟩
        rw [ho.2.1, ho.1, hro, List.append_nil]
        have : List.drop st.consumed (cp.emit st.trace) = [] := by
          apply List.drop_eq_nil_of_le; exact h1
        simp [this]; omega
    | false =>
      have hro : readOps fs st = (copyN st.src fs).1.map Op.w ++ [Op.c] := by
        unfold readOps; dsimp only; rw [if_neg hc0, hcc]; rfl
      refine ⟨⟨?_, ?_, ?_, hcons⟩, hout, ?_⟩
      · rw [hro, written_append, written_append, written_map_w, hz, hsrc]
        simp only [written, List.append_nil, List.flatten_nil]
        rw [← hw, hsf, List.append_nil]
      · rw [hrc]; intro h; cases h
      · intro _
        refine ⟨hsrc, st.trace ++ (copyN st.src fs).1.map Op.w, ?_, ?_⟩
        · rw [hro, List.append_assoc]
        · simp only [List.mem_append, not_or]
          exact ⟨hnc hcc, c_not_mem_map_w _⟩
      · intro heof
        have h1 := ho.2.2 heof
        refine ⟨hrc, ?_⟩
        have h3 : (fread cp fs st p).1.1 = [] := by
          rw [ho.1]
          have : List.drop st.consumed (cp.emit (st.trace ++ readOps fs st)) = [] :=
            List.drop_eq_nil_of_le h1
          rw [this]; simp
        rw [ho.2.1, h3]
        simp only [List.length_nil, Nat.add_zero]
        rw [ho.2.1, h3] at hcons
        simp only [List.length_nil, Nat.add_zero] at hcons
        omega

/-- a CopyN with a positive limit that copies nothing has seen the end of the source -/
theorem copyN_zero_iff_done (src : List Bytes) (fs : Nat) (hfs : 0 < fs)
    (h0 : (copyN src fs).1.flatten.length = 0) : src.flatten = [] ∧ (copyN src fs).2 = [] := by
  have hz : (copyN src fs).1.flatten = [] := List.eq_nil_of_length_eq_zero h0
  have hb := copyBuf_pos fs
  have hsrc : (copyN src fs).2 = [] := copyLoop_zero (copyBuf fs) hb src fs hfs hz
  have hfl := copyLoop_flatten (copyBuf fs) hb src fs
  unfold copyN at hz hsrc
  rw [hz, hsrc] at hfl
  exact ⟨by simpa using hfl.symm, hsrc⟩

theorem drain_all (fs : Nat) (hfs : 0 < fs) : ∀ (n : Nat) (src : List Bytes), src.flatten.length ≤ n →
    (drain fs (n + 1) src).1 = src.flatten ∧ (drain fs (n + 1) src).2 = [] := by
  intro n
  induction n with
  | zero =>
    intro src hlen
    have hnil : src.flatten = [] := List.eq_nil_of_length_eq_zero (by omega)
    have hfl := copyLoop_flatten (copyBuf fs) (copyBuf_pos fs) src fs
    have h0 : (copyN src fs).1.flatten.length = 0 := by
      have := congrArg List.length hfl
      unfold copyN
      rw [hnil] at this
      simp only [List.length_append, List.length_nil] at this
      omega
    have hd := copyN_zero_iff_done src fs hfs h0
    simp only [drain, h0, if_true]
    exact ⟨hnil.symm, hd.2⟩
  | succ n ih =>
    intro src hlen
    by_cases h0 : (copyN src fs).1.flatten.length = 0
    · have hd := copyN_zero_iff_done src fs hfs h0
      rw [drain]
      simp only [h0, if_true]
      exact ⟨hd.1.symm, hd.2⟩
    · have hfl := copyLoop_flatten (copyBuf fs) (copyBuf_pos fs) src fs
      have hlen2 : (copyN src fs).2.flatten.length ≤ n := by
        have := congrArg List.length hfl
        unfold copyN at h0 ⊢
        simp only [List.length_append] at this
        omega
      have := ih (copyN src fs).2 hlen2
      rw [drain]
      simp only [h0, if_false, this.1, this.2]
      refine ⟨?_, trivial⟩
      unfold copyN
      exact hfl

theorem emit_length_mono (cp : Comp S) (a b : List Op) : (cp.emit a).length ≤ (cp.emit (a ++ b)).length := by
  rw [emit_append]; simp

/-- a failing source never produces io.EOF, and the filter never closes the compressor -/
theorem freadX_failing (cp : Comp S) (hp : cp.FlushProgress) (body : Bytes) (fs : Nat) (hfs : 0 < fs)
    (st : FSt) (p : Nat) (hi : Inv cp body st) (hopen : st.closed = false) :
    (freadX cp fs true st p).1.2 ≠ RRes.eof ∧ (freadX cp fs true st p).2.closed = false ∧
    Inv cp body (freadX cp fs true st p).2 := by
  unfold freadX
  by_cases hlt : st.src.flatten.length < fs
  · simp only [hlt, decide_true, Bool.and_self, if_true]
    refine ⟨by simp, hopen, ?_⟩
    obtain ⟨hw, hnc, _, hle⟩ := hi
    have hfl := copyLoop_flatten (copyBuf fs) (copyBuf_pos fs) st.src fs
    refine ⟨?_, ?_, ?_, ?_⟩
    · show written (st.trace ++ _) ++ _ = body
      rw [written_append, written_map_w, List.append_assoc, ← hw]
      congr 1
    · intro _
      show Op.c ∉ st.trace ++ _
      simp only [List.mem_append, not_or]
      exact ⟨hnc hopen, c_not_mem_map_w _⟩
    · intro h
      have : st.closed = true := h
      rw [hopen] at this; cases this
    · exact Nat.le_trans hle (emit_length_mono cp _ _)
  · simp only [hlt, decide_false, Bool.and_false, Bool.false_eq_true, if_false]
    have hinv := fread_inv cp hp body fs hfs st p hi
    have hc0 : (copyN st.src fs).1.flatten.length ≠ 0 := by
      intro h0
      have := (copyN_zero_iff_done st.src fs hfs h0).1
      rw [this] at hlt
      simp at hlt
      omega
    have hcl : (fread cp fs st p).2.closed = false := by
      rw [fread_closed]; unfold readClosed; rw [if_pos hc0]; exact hopen
    refine ⟨?_, hcl, hinv.1⟩
    intro heof
    split at heof
    · rename_i he
      have := (hinv.2.2 he).1
      rw [hcl] at this; cases this
    · cases heof

/-! ### a concrete compressor meeting both contracts (non-vacuity of C54_stream)

  write emits `1 x` for every byte x, flush emits `0`, close emits `2`. -/

def toy : Comp Unit :=
  { init := (), write := fun _ b => ((), b.flatMap fun x => [1, x]),
    flush := fun _ => ((), [0]), close := fun _ => ((), [2]) }

def toyDec : Bytes → Option Bytes
  | [] => none
  | a :: r =>
    if a = 0 then toyDec r
    else if a = 2 then (if r.isEmpty then some [] else none)
    else if a = 1 then
      (match r with
       | [] => none
       | b :: r' => (toyDec r').map (b :: ·))
    else none

theorem toyDec_write (b E : Bytes) :
    toyDec ((b.flatMap fun x => [1, x]) ++ E) = (toyDec E).map (b ++ ·) := by
  induction b with
  | nil => simp
  | cons x b' ih =>
    simp only [List.flatMap_cons, List.cons_append, List.nil_append, List.append_assoc]
    rw [toyDec]
    simp only [show ¬ ((1 : UInt8) = 0) by decide, show ¬ ((1 : UInt8) = 2) by decide, if_false, if_true]
    rw [ih]
    cases toyDec E <;> simp

theorem toyDec_zero (E : Bytes) : toyDec (0 :: E) = toyDec E := by
  cases E <;> simp [toyDec]

theorem toy_correct : toy.Correct toyDec := by
  intro pre
  unfold Comp.emit
  induction pre with
  | nil =>
    intro _
    simp [Comp.emitFrom, Comp.step, toy, toyDec, written]
  | cons o r ih =>
    intro hc
    have hr : Op.c ∉ r := fun h => hc (List.mem_cons_of_mem _ h)
    have ih' := ih hr
    cases o with
    | w b =>
      simp only [List.cons_append, Comp.emitFrom, Comp.step, written]
      show toyDec ((b.flatMap fun x => [1, x]) ++ toy.emitFrom () (r ++ [Op.c])) = _
      rw [toyDec_write]
      have : toy.emitFrom toy.init (r ++ [Op.c]) = toy.emitFrom () (r ++ [Op.c]) := rfl
      rw [← this, ih']
      simp
    | f =>
      simp only [List.cons_append, Comp.emitFrom, Comp.step, written]
      show toyDec (0 :: toy.emitFrom () (r ++ [Op.c])) = _
      rw [toyDec_zero]
      exact ih'
    | c => exact absurd (List.mem_cons_self) hc

theorem toy_flushProgress : toy.FlushProgress := by
  intro pre ws _
  rw [emit_append, emit_append]
  simp only [List.length_append, Comp.emitFrom, Comp.step, toy]
  simp
  omega

end BfeVerif.C54
