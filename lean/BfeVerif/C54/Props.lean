import BfeVerif.C54.Proofs
/-! C54 — property theorems (compressed responses decompress to the original body). -/
namespace BfeVerif.C54

variable {S : Type}

/-- one compressor close, and it is the last call -/
def ClosedOnce (tr : List Op) : Prop := ∃ pre, tr = pre ++ [Op.c] ∧ Op.c ∉ pre

theorem session_inv (cp : Comp S) (hp : cp.FlushProgress) (body : Bytes) (fs : Nat) (hfs : 0 < fs) :
    ∀ (ps : List Nat) (st : FSt), Inv cp body st →
      let r := session cp fs st ps
      Inv cp body r.2.2 ∧
      (cp.emit r.2.2.trace).take r.2.2.consumed = (cp.emit st.trace).take st.consumed ++ r.1.flatten ∧
      (r.2.1 = true → r.2.2.closed = true ∧ r.2.2.consumed = (cp.emit r.2.2.trace).length) := by
  intro ps
  induction ps with
  | nil => intro st hi; simp [session, hi]
  | cons p ps ih =>
    intro st hi
    have h := fread_inv cp hp body fs hfs st p hi
    simp only [session]
    split
    · rename_i he
      refine ⟨h.1, ?_, fun _ => h.2.2 he⟩
      rw [h.2.1]
      have ho := (fread_out cp fs st p).1
      have hl := (fread_out cp fs st p).2.2 he
      have : (fread cp fs st p).1.1 = [] := by
        rw [ho, List.drop_eq_nil_of_le hl]; simp
      simp [this]
    · have h2 := ih (fread cp fs st p).2 h.1
      refine ⟨h2.1, ?_, h2.2.2⟩
      rw [h2.2.1, h.2.1]
      simp [List.append_assoc]

/-- **C54_stream.**  For every source chunking, every flush size > 0 and every sequence of reader
    buffer sizes: if the reader reaches io.EOF, then the concatenation of everything it read is exactly
    the compressor's output for "write all source bytes (in some segmentation, flushed in between), close
    once", the close being the last compressor call — hence (compressor contract) it decompresses to
    exactly the source body.  No premature EOF: EOF is only returned after that close, with an empty buffer. -/
theorem C54_stream (cp : Comp S) (dec : Bytes → Option Bytes) (hc : cp.Correct dec) (hp : cp.FlushProgress)
    (chunks : List Bytes) (fs : Nat) (hfs : 0 < fs) (ps : List Nat) :
    let r := session cp fs { src := chunks } ps
    r.2.1 = true →
      r.1.flatten = cp.emit r.2.2.trace ∧ ClosedOnce r.2.2.trace ∧ written r.2.2.trace = chunks.flatten ∧
      dec r.1.flatten = some chunks.flatten := by
  intro r heof
  have hi0 : Inv cp chunks.flatten ({ src := chunks } : FSt) := by
    refine ⟨by simp [written], by simp, by simp, by simp⟩
  have h := session_inv cp hp chunks.flatten fs hfs ps { src := chunks } hi0
  obtain ⟨hinv, hout, hE⟩ := h
  obtain ⟨hcl, hcons⟩ := hE heof
  obtain ⟨hw, _, hclosed, _⟩ := hinv
  obtain ⟨hsrc, pre, htr, hpre⟩ := hclosed hcl
  have hflat : r.1.flatten = cp.emit r.2.2.trace := by
    have : (cp.emit r.2.2.trace).take r.2.2.consumed = cp.emit r.2.2.trace := by
      rw [hcons]; exact List.take_length
    rw [this] at hout
    simpa [Comp.emit, Comp.emitFrom] using hout.symm
  have hwr : written r.2.2.trace = chunks.flatten := by
    rw [hsrc] at hw; simpa using hw
  refine ⟨hflat, ⟨pre, htr, hpre⟩, hwr, ?_⟩
  rw [hflat, htr, hc pre hpre, ← hwr, htr, written_append]
  simp [written]

/-- non-vacuity of C54_stream: the concrete compressor `toy` (write: `1 x` per byte, flush: `0`,
    close: `2`; `toyDec` inverts it) satisfies BOTH contracts, so the theorem applies to it for every
    chunking / flush size / reader … -/
example (chunks : List Bytes) (fs : Nat) (hfs : 0 < fs) (ps : List Nat)
    (h : (session toy fs { src := chunks } ps).2.1 = true) :
    toyDec (session toy fs { src := chunks } ps).1.flatten = some chunks.flatten :=
  (C54_stream toy toyDec toy_correct toy_flushProgress chunks fs hfs ps h).2.2.2

/-- … and the EOF hypothesis is reachable: body `[7,8,9]` in chunks `[7] [] [8,9]`, flush size 2, reader
    buffers of 3 bytes — EOF at the 6th Read, output decodes to the body. -/
example : (session toy 2 { src := [[7], [], [8, 9]] } [3, 3, 3, 3, 3, 3, 3, 3]).2.1 = true ∧
    toyDec (session toy 2 { src := [[7], [], [8, 9]] } [3, 3, 3, 3, 3, 3, 3, 3]).1.flatten = some [7, 8, 9] := by
  decide

/-- **Rule files.**  A rule that `ActionFileCheck` lets through carries a flush size in [64, 4096] (in
    particular > 0) and a quality in the compressor's range; a missing Quality/FlushSize never loads. -/
theorem C54_loaded_in_range (cmd : Option Cmd) (q fs : Option Int)
    (h : actionFileCheck cmd q fs = .ok) :
    ∃ qv f, q = some qv ∧ fs = some f ∧ 64 ≤ f ∧ f ≤ 4096 ∧
      ((cmd = some .gzip ∧ -2 ≤ qv ∧ qv ≤ 9) ∨ (cmd = some .brotli ∧ 0 ≤ qv ∧ qv ≤ 11)) := by
  cases cmd with
  | none => simp [actionFileCheck] at h
  | some c =>
    cases q with
    | none => simp [actionFileCheck] at h
    | some qv =>
      cases fs with
      | none => simp [actionFileCheck] at h
      | some f =>
        cases c with
        | other => simp [actionFileCheck] at h
        | gzip =>
          simp only [actionFileCheck, if_true] at h
          split at h
          · simp at h
          · split at h
            · simp at h
            · rename_i h1 h2
              simp only [Bool.or_eq_true, decide_eq_true_eq, not_or, Int.not_lt] at h1 h2
              exact ⟨qv, f, rfl, rfl, h2.1, h2.2, Or.inl ⟨rfl, h1.1, h1.2⟩⟩
        | brotli =>
          simp only [actionFileCheck, show ¬ (Cmd.brotli = Cmd.gzip) by decide, if_false] at h
          split at h
          · simp at h
          · split at h
            · simp at h
            · rename_i h1 h2
              simp only [Bool.or_eq_true, decide_eq_true_eq, not_or, Int.not_lt] at h1 h2
              exact ⟨qv, f, rfl, rfl, h2.1, h2.2, Or.inr ⟨rfl, h1.1, h1.2⟩⟩

/-- **Progress of the chunked copy loop** (induction over the source length).  With a flush size > 0
    — which every loaded rule has, `C54_loaded_in_range` — repeating `CopyN(writer, source, flushSize)`
    until a call copies nothing has copied ALL bytes of the source, for every chunking: "copied nothing"
    happens only at the end of the source.  At most `n + 1` calls are needed for `n` bytes. -/
theorem C54_copy_progress (fs : Nat) (hfs : 0 < fs) (n : Nat) (src : List Bytes)
    (hlen : src.flatten.length ≤ n) :
    (drain fs (n + 1) src).1 = src.flatten ∧ (drain fs (n + 1) src).2 = [] :=
  drain_all fs hfs n src hlen

/-- … and the hypothesis is necessary: with flush size 0 the very first CopyN copies nothing from a
    non-empty source, which `Read` takes for the end of the body (the filter then closes the compressor
    and delivers a valid, EMPTY stream).  This is why a loader that lets FlushSize 0 through breaks C54. -/
theorem C54_witness_flush0 (d : Bytes) (rest : List Bytes) :
    copyN (d :: rest) 0 = ([], d :: rest) ∧
    ∀ {S : Type} (cp : Comp S) (p : Nat),
      (fread cp 0 { src := d :: rest } p).2.trace = [Op.c] ∧ (fread cp 0 { src := d :: rest } p).2.src = d :: rest := by
  refine ⟨by simp [copyN, copyLoop], ?_⟩
  intro S cp p
  simp [fread, copyN, copyLoop]

example : actionFileCheck (some .brotli) (some 4) (some 64) = .ok := by decide
example : actionFileCheck (some .brotli) (some 4) (some 0) = .err := by decide
example : actionFileCheck (some .gzip) none (some 512) = .err := by decide
example : (drain 2 6 [[7], [], [8, 9, 10], [11]]).1 = [7, 8, 9, 10, 11] := by decide

/-- **Source errors are not swallowed.**  If the backend body fails (its `Read` returns a non-EOF error
    instead of io.EOF after the data), no `Read` of the filter ever returns io.EOF — the reader cannot
    mistake the truncated stream for a complete one — and the compressor is never closed; this holds
    along every read sequence (the invariant and `closed = false` are preserved). -/
theorem C54_error_not_swallowed (cp : Comp S) (hp : cp.FlushProgress) (body : Bytes) (fs : Nat) (hfs : 0 < fs)
    (st : FSt) (p : Nat) (hi : Inv cp body st) (hopen : st.closed = false) :
    (freadX cp fs true st p).1.2 ≠ RRes.eof ∧ (freadX cp fs true st p).2.closed = false ∧
    Inv cp body (freadX cp fs true st p).2 :=
  freadX_failing cp hp body fs hfs st p hi hopen

/-- Reload of the rule table: the action in force is the one of the LAST accepted file; a rejected file
    changes nothing. -/
theorem C54_reload_last_accepted (first second : Option (Load × Cmd × Nat)) :
    (∀ c f, second = some (.ok, c, f) → actionInForce first second = some (c, f)) ∧
    ((∀ c f, second ≠ some (.ok, c, f)) → actionInForce first second = actionInForce none first) := by
  constructor
  · intro c f h; subst h; rfl
  · intro h
    unfold actionInForce
    split
    · rename_i c f; exact absurd rfl (h c f)
    · cases first with
      | none => rfl
      | some x => rfl

example : (freadX toy 4 true { src := [[1, 2]] } 8).1.2 = RRes.err := by decide
example : (freadX toy 2 true { src := [[1, 2]] } 8).1.2 = RRes.ok := by decide

/-- **C54_headers.**  If the handler installs a compression filter then it announces that coding in
    Content-Encoding, removes Content-Length, the response was not already encoded, and the request's
    Accept-Encoding contains the coding as a `HasToken` token; otherwise both headers are untouched. -/
theorem C54_headers (i : HIn) :
    (∀ e, (handler i).enc = some e →
        (e = Cmd.gzip ∨ e = Cmd.brotli) ∧ (handler i).ce = tokOf e ∧ (handler i).hasCL = false ∧
        hasToken i.ae (tokOf e) = true ∧ (i.ce = [] ∨ i.ce = sIdentity)) ∧
    ((handler i).enc = none → (handler i).ce = i.ce ∧ (handler i).hasCL = i.hasCL) := by
  unfold handler
  dsimp only
  split
  · simp
  · split
    · simp
    · rename_i hce
      have hce' : i.ce = [] ∨ i.ce = sIdentity := by
        by_cases h1 : i.ce = []
        · exact Or.inl h1
        · right
          simp only [Bool.and_eq_true, Bool.not_eq_true', bne_iff_ne, ne_eq, not_and, Decidable.not_not] at hce
          apply hce
          cases hh : i.ce with
          | nil => exact absurd hh h1
          | cons _ _ => rfl
      split
      · simp
      · split
        · simp
        · split
          · split
            · simp
            · rename_i hg
              have hg' : hasToken i.ae sGzip = true := by simpa using hg
              simp [tokOf, hg', hce']
          · split
            · simp
            · rename_i hb
              have hb' : hasToken i.ae sBr = true := by simpa using hb
              simp [tokOf, hb', hce']
          · simp

/-- Full-strength reading of "only if the request accepted that encoding" (RFC 7231 §5.3.4: the coding
    is listed with a non-zero weight).  The unchanged code does NOT satisfy it: -/
def AcceptedOnly : Prop :=
  ∀ i : HIn, ∀ e, (handler i).enc = some e → rfcAccepts i.ae (tokOf e) = true

def aeQ0 : Bytes := [103, 122, 105, 112, 32, 59, 113, 61, 48]              -- "gzip ;q=0"
def aeFoo : Bytes := [102, 111, 111, 32, 103, 122, 105, 112]              -- "foo gzip"
def aeBrGzHalf : Bytes := [98, 114, 44, 32, 103, 122, 105, 112, 59, 113, 61, 48, 46, 53]   -- "br, gzip;q=0.5"
def aeDeflGZip : Bytes := [100, 101, 102, 108, 97, 116, 101, 44, 32, 71, 90, 105, 112]     -- "deflate, GZip"

def witnessQ0 : HIn :=
  { ae := aeQ0, ce := [], hasCL := true, rules := some [{ hit := true, cmd := .gzip }] }

/-- `Accept-Encoding: gzip ;q=0` (gzip explicitly refused) is compressed with gzip: `HasToken` treats the
    space before `;` as a token boundary and never looks at the weight. -/
theorem C54_witness_q0 : ¬ AcceptedOnly := by
  intro h
  have := h witnessQ0 Cmd.gzip (by decide)
  revert this
  decide

/-- The provable part of the "only if accepted" clause: compression happens only when `HasToken` finds
    the coding in Accept-Encoding.  (How `HasToken` relates to the RFC element list is not proved; the
    harness compares the two on every generated Accept-Encoding value and reports the two deviation
    classes `q0-accepted` and `malformed-element-accepted`.) -/
theorem C54_accepted_partial (i : HIn) (e : Cmd) (h : (handler i).enc = some e) :
    hasToken i.ae (tokOf e) = true := ((C54_headers i).1 e h).2.2.2.1

/-- second deviation, malformed element: `foo gzip` lists no coding `gzip`, yet is compressed -/
example : (handler { witnessQ0 with ae := aeFoo }).enc = some Cmd.gzip ∧
    rfcListed aeFoo sGzip = false := by decide

/-- non-vacuity of C54_headers: a request that is compressed, one that is not -/
example : (handler { witnessQ0 with ae := aeBrGzHalf }).enc = none := by decide
example : (handler { witnessQ0 with ae := aeDeflGZip }).enc = some Cmd.gzip := by decide

end BfeVerif.C54
