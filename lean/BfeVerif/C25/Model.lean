import BfeVerif.Generated.C25
/-
  C25 — model of `(*Request).write` (bfe_http/request.go), `newTransferWriter` / `WriteHeader` /
  `WriteBody` (bfe_http/transfer.go), `Header.WriteSubset` (bfe_http/header.go) and
  `chunkedWriter` (bfe_http/chunked.go); plus the SPEC side: a strict single-request parser `rfcOne`
  and the per-frontend guarantee predicates.  Core-only.

  What is a parameter (computed by Go's net/url, trusted base): `urlRuri = req.URL.RequestURI()`,
  `reparse = url.ParseRequestURI(req.RequestURI)` reduced to (its RequestURI(), scheme=host=opaque="").
-/
namespace BfeVerif.C25

abbrev Bytes := List UInt8

/-- a `bfe_http.Request` as far as `write` consults it -/
structure Req where
  method : Bytes
  requestURI : Bytes                 -- req.RequestURI
  urlRuri : Bytes                    -- req.URL.RequestURI()                        [net/url]
  urlPathEmpty : Bool                -- req.URL.Path == ""
  reparse : Option (Bytes × Bool)    -- url.ParseRequestURI(req.RequestURI) ok: (RequestURI(), Scheme=Host=Opaque="")
  host : Bytes                       -- req.Host
  urlHost : Bytes                    -- req.URL.Host
  header : List (Bytes × List Bytes) -- the map, keys pairwise distinct, any order
  body : Option (List Bytes)         -- nil, or the non-empty pieces successive Reads return
  contentLength : Int
  te : List Bytes                    -- req.TransferEncoding
  close : Bool
  atLeast11 : Bool                   -- req.ProtoAtLeast(1,1)
  trailer : Option (List Bytes)      -- keys of req.Trailer (at most one key is modelled: map order)
  deriving Repr, BEq

/-! ## byte-string constants (explicit lists so that `decide`/`simp` can compute) -/
def crlf : Bytes := [13, 10]
def sGET : Bytes := [71, 69, 84]
def sCONNECT : Bytes := [67, 79, 78, 78, 69, 67, 84]
def sHTTP11 : Bytes := [72, 84, 84, 80, 47, 49, 46, 49]                       -- "HTTP/1.1"
def sHostPfx : Bytes := [72, 111, 115, 116, 58, 32]                           -- "Host: "
def sConnClose : Bytes := [67, 111, 110, 110, 101, 99, 116, 105, 111, 110, 58, 32, 99, 108, 111, 115, 101] -- "Connection: close"
def sCLPfx : Bytes := [67, 111, 110, 116, 101, 110, 116, 45, 76, 101, 110, 103, 116, 104, 58, 32]          -- "Content-Length: "
def sTEChunked : Bytes := [84, 114, 97, 110, 115, 102, 101, 114, 45, 69, 110, 99, 111, 100, 105, 110, 103, 58, 32, 99, 104, 117, 110, 107, 101, 100] -- "Transfer-Encoding: chunked"
def sTrailerPfx : Bytes := [84, 114, 97, 105, 108, 101, 114, 58, 32]          -- "Trailer: "
def sChunked : Bytes := [99, 104, 117, 110, 107, 101, 100]                    -- "chunked"
def kContentLength : Bytes := [67, 111, 110, 116, 101, 110, 116, 45, 76, 101, 110, 103, 116, 104]
def kTransferEncoding : Bytes := [84, 114, 97, 110, 115, 102, 101, 114, 45, 69, 110, 99, 111, 100, 105, 110, 103]
def kTrailer : Bytes := [84, 114, 97, 105, 108, 101, 114]
def kHost : Bytes := [72, 111, 115, 116]
def kConnection : Bytes := [67, 111, 110, 110, 101, 99, 116, 105, 111, 110]
def sClose : Bytes := [99, 108, 111, 115, 101]

/-! ## Header.WriteSubset -/
/-- textproto.isASCIISpace -/
def isWS (b : UInt8) : Bool := b == 32 || b == 9 || b == 10 || b == 13

/-- `headerNewlineToSpace.Replace` -/
def nl2sp (v : Bytes) : Bytes := v.map fun b => if b == 10 || b == 13 then 32 else b

/-- textproto.TrimString -/
def trimWS (v : Bytes) : Bytes := ((v.dropWhile isWS).reverse.dropWhile isWS).reverse

def sanitize (v : Bytes) : Bytes := trimWS (nl2sp v)

/-- one written field line: key VERBATIM, ": ", sanitised value, CRLF -/
def fieldLine (k v : Bytes) : Bytes := k ++ [58, 32] ++ sanitize v

/-- Go's `<` on strings -/
def bytesLt : Bytes → Bytes → Bool
  | [], [] => false
  | [], _ :: _ => true
  | _ :: _, [] => false
  | a :: as, b :: bs => if a < b then true else if b < a then false else bytesLt as bs

def insertKV (x : Bytes × List Bytes) : List (Bytes × List Bytes) → List (Bytes × List Bytes)
  | [] => [x]
  | y :: ys => if bytesLt y.1 x.1 then y :: insertKV x ys else x :: y :: ys

/-- `sortedKeyValues`: keys of a map are distinct, so the sorted order is unique -/
def sortKV (l : List (Bytes × List Bytes)) : List (Bytes × List Bytes) := l.foldr insertKV []

/-- `exclude[k]` for `reqWriteExcludeHeader` (table regenerated from the source) -/
def excluded (k : Bytes) : Bool := BfeVerif.Generated.C25.reqWriteExclude.contains k

/-- the lines (without CRLF) `Header.WriteSubset(w, reqWriteExcludeHeader)` writes -/
def subsetLines (h : List (Bytes × List Bytes)) : List Bytes :=
  (sortKV (h.filter fun kv => !excluded kv.1)).flatMap fun kv => kv.2.map (fieldLine kv.1)

/-- `Header.Get` for an already canonical key: first value or "" -/
def getFirst (h : List (Bytes × List Bytes)) (k : Bytes) : Bytes :=
  match h.find? (fun kv => kv.1 == k) with
  | some (_, v :: _) => v
  | _ => []

/-! ## newTransferWriter / WriteHeader / WriteBody -/
structure TW where
  body : Option (List Bytes)
  cl : Int
  chunked : Bool
  close : Bool
  trailer : Option (List Bytes)
  deriving Repr, BEq

def isChunked (te : List Bytes) : Bool :=
  match te with
  | t :: _ => t == sChunked
  | [] => false

/-- the one-byte probe `io.ReadFull(t.Body, buf[:1])`: the first byte becomes a piece of its own -/
def probe : List Bytes → Option (List Bytes)
  | [] => none
  | [] :: rest => probe rest
  | (b :: bs) :: rest => some ([b] :: (if bs.isEmpty then rest else bs :: rest))

/-- `newTransferWriter(*Request)`; `none` = error "ContentLength=%d with nil Body" -/
def newTW (r : Req) : Option TW :=
  if r.contentLength != 0 && r.body.isNone then none
  else
    -- probing when Body != nil, no TransferEncoding, HTTP/1.1
    let (body, cl, te) :=
      if r.body.isSome && r.te.isEmpty && r.atLeast11 then
        let (body, cl) :=
          if r.contentLength == 0 then
            match probe (r.body.getD []) with
            | some ps => (some ps, (-1 : Int))
            | none => (none, r.contentLength)
          else (r.body, r.contentLength)
        (body, cl, if cl < 0 then [sChunked] else r.te)
      else (r.body, r.contentLength, r.te)
    -- sanitize
    let te := if !r.atLeast11 || body.isNone then [] else te
    let ch := isChunked te
    let cl := if ch then -1 else if body.isNone then 0 else cl
    some { body := body, cl := cl, chunked := ch, close := r.close,
           trailer := if ch then r.trailer else none }

def digit (d : Nat) : UInt8 := UInt8.ofNat (48 + d)

def decFuel : Nat → Nat → Bytes → Bytes
  | 0, _, acc => acc
  | f + 1, n, acc => if n < 10 then digit n :: acc else decFuel f (n / 10) (digit (n % 10) :: acc)

/-- `strconv.FormatInt(n, 10)` for n ≥ 0 -/
def toDec (n : Nat) : Bytes := decFuel (n + 1) n []

def hexDigit (d : Nat) : UInt8 := if d < 10 then UInt8.ofNat (48 + d) else UInt8.ofNat (87 + d)

def hexFuel : Nat → Nat → Bytes → Bytes
  | 0, _, acc => acc
  | f + 1, n, acc => if n < 16 then hexDigit n :: acc else hexFuel f (n / 16) (hexDigit (n % 16) :: acc)

/-- `fmt.Sprintf("%x", n)` -/
def toHex (n : Nat) : Bytes := hexFuel (n + 1) n []

def isTrailerBad (k : Bytes) : Bool := k == kTransferEncoding || k == kTrailer || k == kContentLength

/-- `shouldSendContentLength` -/
def sendCL (t : TW) (h : List (Bytes × List Bytes)) : Bool :=
  if t.chunked then false
  else if t.cl > 0 then true
  else t.cl == 0 && !(getFirst h kContentLength).isEmpty

/-- lines written by `transferWriter.WriteHeader`; second component false = it returned an error
    (the partial "Trailer: " text is then part of the output, see `writeRequest`) -/
def twHeaderLines (t : TW) (h : List (Bytes × List Bytes)) : List Bytes :=
  (if t.close then [sConnClose] else []) ++
  (if sendCL t h then [sCLPfx ++ toDec t.cl.toNat]
   else if t.chunked then [sTEChunked] else [])

/-- the Trailer line: `some line` or `none` when a key is one of the three forbidden ones
    (keys are assumed canonical already: `CanonicalHeaderKey(k)` is applied by the harness side) -/
def joinComma : List Bytes → Bytes
  | [] => []
  | [k] => k
  | k :: ks => k ++ [44] ++ joinComma ks

def trailerLine (ks : List Bytes) : Option Bytes :=
  if ks.any isTrailerBad then none
  else some (sTrailerPfx ++ joinComma ks)

def chunkEnc (ps : List Bytes) : Bytes :=
  ps.flatMap fun p => if p.isEmpty then [] else toHex p.length ++ crlf ++ p ++ crlf

/-- `WriteBody`: bytes written and whether it succeeded -/
def twBody (t : TW) : Bytes × Bool :=
  match t.body with
  | none => ([], true)
  | some ps =>
    if t.chunked then (chunkEnc ps ++ [48, 13, 10] ++ crlf, true)
    else if t.cl == -1 then (ps.flatten, true)
    else
      let all := ps.flatten
      (all.take t.cl.toNat, decide (t.cl = all.length))

/-! ## (*Request).write -/
def effMethod (r : Req) : Bytes := if r.method.isEmpty then sGET else r.method

def effHost (r : Req) : Bytes := if r.host.isEmpty then r.urlHost else r.host

/-- the request-target selection rule of `write` (usingProxy = false) -/
def ruri (r : Req) : Bytes :=
  if r.method == sCONNECT && r.urlPathEmpty then effHost r
  else
    match r.reparse with
    | some (raw, bare) => if raw == r.urlRuri && bare then r.requestURI else r.urlRuri
    | none => r.urlRuri

def requestLine (r : Req) : Bytes := effMethod r ++ [32] ++ ruri r ++ [32] ++ sHTTP11

def joinLines (ls : List Bytes) : Bytes := ls.flatMap fun l => l ++ crlf

/-- the lines of the head when nothing fails -/
def headLinesOf (r : Req) (t : TW) : List Bytes :=
  [requestLine r, sHostPfx ++ effHost r] ++ twHeaderLines t r.header ++
  (match t.trailer with
   | some ks => match trailerLine ks with | some l => [l] | none => []
   | none => []) ++
  subsetLines r.header

/-- `Request.Write` into a `bytes.Buffer`: (no error?, bytes in the buffer) -/
def writeRequest (r : Req) : Bool × Bytes :=
  let l0 := joinLines [requestLine r, sHostPfx ++ effHost r]
  match newTW r with
  | none => (false, l0)
  | some t =>
    let l1 := l0 ++ joinLines (twHeaderLines t r.header)
    match t.trailer with
    | some ks =>
      (match trailerLine ks with
       | none => (false, l1 ++ sTrailerPfx)
       | some l =>
         let (b, ok) := twBody t
         (ok, l1 ++ joinLines [l] ++ joinLines (subsetLines r.header) ++ crlf ++ b))
    | none =>
      let (b, ok) := twBody t
      (ok, l1 ++ joinLines (subsetLines r.header) ++ crlf ++ b)

/-! ## SPEC: strict single HTTP/1.1 request parser (RFC 9112 §2–§7, no leniency) -/
structure Parsed where
  method : Bytes
  target : Bytes
  fields : List (Bytes × Bytes)   -- wire order; name verbatim; value with OWS trimmed
  body : Bytes
  deriving Repr, BEq

/-- a line is terminated by CR LF only; a bare CR or a bare LF anywhere rejects -/
def takeLine : Bytes → Option (Bytes × Bytes)
  | [] => none
  | b :: rest =>
    if b = 13 then
      (match rest with
       | c :: rest' => if c = 10 then some ([], rest') else none
       | [] => none)
    else if b = 10 then none
    else
      match takeLine rest with
      | some (l, r) => some (b :: l, r)
      | none => none

/-- lines up to and excluding the first empty line -/
def headLines : Nat → Bytes → Option (List Bytes × Bytes)
  | 0, _ => none
  | f + 1, bs =>
    match takeLine bs with
    | none => none
    | some (l, rest) =>
      if l.isEmpty then some ([], rest)
      else
        match headLines f rest with
        | some (ls, r) => some (l :: ls, r)
        | none => none

/-- RFC 9110 tchar -/
def isTchar (b : UInt8) : Bool :=
  (48 ≤ b && b ≤ 57) || (65 ≤ b && b ≤ 90) || (97 ≤ b && b ≤ 122) ||
  b == 33 || b == 35 || b == 36 || b == 37 || b == 38 || b == 39 || b == 42 || b == 43 ||
  b == 45 || b == 46 || b == 94 || b == 95 || b == 96 || b == 124 || b == 126

def isToken (s : Bytes) : Bool := !s.isEmpty && s.all isTchar

/-- bytes allowed in a request-target: no CTL, no SP, no DEL -/
def isTargetByte (b : UInt8) : Bool := b > 32 && b != 127

/-- bytes allowed in a field value: HTAB, SP, VCHAR, obs-text -/
def isValueByte (b : UInt8) : Bool := (b ≥ 32 && b != 127) || b == 9

def splitOn (sep : UInt8) : Bytes → List Bytes
  | [] => [[]]
  | b :: rest =>
    if b = sep then [] :: splitOn sep rest
    else match splitOn sep rest with
      | l :: ls => (b :: l) :: ls
      | [] => [[b]]

def isOWS (b : UInt8) : Bool := b == 32 || b == 9

def trimOWS (v : Bytes) : Bytes := ((v.dropWhile isOWS).reverse.dropWhile isOWS).reverse

def lower (b : UInt8) : UInt8 := if 65 ≤ b && b ≤ 90 then b + 32 else b

def eqFold (a b : Bytes) : Bool := a.map lower == b.map lower

def parseField (l : Bytes) : Option (Bytes × Bytes) :=
  let name := l.takeWhile (· != 58)
  let rest := l.dropWhile (· != 58)
  match rest with
  | [] => none
  | _ :: v =>
    if isToken name && v.all isValueByte then some (name, trimOWS v) else none

def parseFields : List Bytes → Option (List (Bytes × Bytes))
  | [] => some []
  | l :: ls =>
    match parseField l, parseFields ls with
    | some f, some fs => some (f :: fs)
    | _, _ => none

def decVal : Bytes → Option Nat
  | [] => none
  | ds => ds.foldl (fun (acc : Option Nat) (d : UInt8) => match acc with
      | some n => if 48 ≤ d && d ≤ 57 then some (n * 10 + (d.toNat - 48)) else none
      | none => none) (some 0)

def hexValOf (d : UInt8) : Option Nat :=
  if 48 ≤ d && d ≤ 57 then some (d.toNat - 48)
  else if 97 ≤ d && d ≤ 102 then some (d.toNat - 87)
  else if 65 ≤ d && d ≤ 70 then some (d.toNat - 55)
  else none

def hexVal : Bytes → Option Nat
  | [] => none
  | ds => ds.foldl (fun (acc : Option Nat) (d : UInt8) => match acc, hexValOf d with
      | some n, some v => some (n * 16 + v)
      | _, _ => none) (some 0)

/-- strict chunked body: `1*HEXDIG CRLF data CRLF … "0" CRLF CRLF`, no extensions, no trailers -/
def dechunk : Nat → Bytes → Option (Bytes × Bytes)
  | 0, _ => none
  | f + 1, bs =>
    match takeLine bs with
    | none => none
    | some (szl, rest) =>
      match hexVal szl with
      | none => none
      | some 0 =>
        (match takeLine rest with
         | some ([], rest') => some ([], rest')
         | _ => none)
      | some n =>
        if rest.length < n + 2 then none
        else if (rest.drop n).take 2 != crlf then none
        else match dechunk f (rest.drop (n + 2)) with
          | some (b, r) => some (rest.take n ++ b, r)
          | none => none

inductive Rej where
  | noHead | reqLineParts | badMethod | badTarget | badVersion | badField | hostCount
  | badFraming | shortBody | trailing
  deriving Repr, BEq, DecidableEq

def Rej.name : Rej → String
  | .noHead => "line-structure" | .reqLineParts => "reqline-parts" | .badMethod => "bad-method"
  | .badTarget => "bad-target" | .badVersion => "bad-version" | .badField => "bad-field"
  | .hostCount => "host-count" | .badFraming => "bad-framing" | .shortBody => "short-body"
  | .trailing => "trailing-bytes"

def kTE_l : Bytes := kTransferEncoding.map lower
def kCL_l : Bytes := kContentLength.map lower
def kHost_l : Bytes := kHost.map lower

/-- layer 1: the request line `method SP request-target SP HTTP/1.1` -/
def reqLine (rl : Bytes) : Except Rej (Bytes × Bytes) :=
  match splitOn 32 rl with
  | [m, t, v] =>
    if !isToken m then .error .badMethod
    else if t.isEmpty || !t.all isTargetByte then .error .badTarget
    else if v != sHTTP11 then .error .badVersion
    else .ok (m, t)
  | _ => .error .reqLineParts

/-- layer 3: message body framing (RFC 9112 §6): Transfer-Encoding must be exactly `chunked` and excludes
    Content-Length; all Content-Length values equal and 1*DIGIT; nothing may follow the message -/
def framing (fs : List (Bytes × Bytes)) (rest : Bytes) : Except Rej Bytes :=
  let tes := fs.filter fun f => eqFold f.1 kTransferEncoding
  let cls := fs.filter fun f => eqFold f.1 kContentLength
  if !tes.isEmpty then
    if tes.length != 1 || !cls.isEmpty || (tes.map (·.2)) != [sChunked] then .error .badFraming
    else
      match dechunk (rest.length + 1) rest with
      | none => .error .shortBody
      | some (b, r) => if r.isEmpty then .ok b else .error .trailing
  else
    match cls with
    | [] => if rest.isEmpty then .ok [] else .error .trailing
    | c :: more =>
      if !(more.all fun f => f.2 == c.2) then .error .badFraming
      else match decVal c.2 with
        | none => .error .badFraming
        | some n =>
          if rest.length < n then .error .shortBody
          else if rest.length > n then .error .trailing
          else .ok rest

/-- the whole byte string must be exactly one request: head lines (strict CRLF), request line,
    field lines (layer 2: `parseFields`), exactly one Host, framing -/
def rfcOne (bs : Bytes) : Except Rej Parsed :=
  match headLines (bs.length + 1) bs with
  | none => .error .noHead
  | some ([], _) => .error .noHead
  | some (rl :: fls, rest) =>
    match reqLine rl with
    | .error e => .error e
    | .ok (m, t) =>
      match parseFields fls with
      | none => .error .badField
      | some fs =>
        if (fs.filter fun f => eqFold f.1 kHost).length != 1 then .error .hostCount
        else
          match framing fs rest with
          | .error e => .error e
          | .ok b => .ok ⟨m, t, fs, b⟩

/-! ## what the accepted request says the backend must see (independent of `writeRequest`) -/
def bodyOf (r : Req) : Bytes := (r.body.getD []).flatten

/-- client fields expected on the wire: every non-excluded (key, value) of the header map, the value
    with CR/LF turned into SP and outer whitespace trimmed (the documented rewrite) -/
def expFields (r : Req) : List (Bytes × Bytes) :=
  (r.header.filter fun kv => !excluded kv.1).flatMap fun kv => kv.2.map fun v => (kv.1, sanitize v)

def pairLt (a b : Bytes × Bytes) : Bool :=
  bytesLt a.1 b.1 || (a.1 == b.1 && bytesLt a.2 b.2)

def insertP (x : Bytes × Bytes) : List (Bytes × Bytes) → List (Bytes × Bytes)
  | [] => [x]
  | y :: ys => if pairLt y x then y :: insertP x ys else x :: y :: ys

def sortP (l : List (Bytes × Bytes)) : List (Bytes × Bytes) := l.foldr insertP []

/-- fields of the parsed message that `write` itself is responsible for -/
def isOwnField (close : Bool) (f : Bytes × Bytes) : Bool :=
  f.1 == kHost || f.1 == kContentLength || f.1 == kTransferEncoding || f.1 == kTrailer ||
  (close && f.1 == kConnection && f.2 == sClose)

/-- `none` = the parsed message is what the property demands; `some cls` = first difference -/
def compareParsed (r : Req) (p : Parsed) : Option String :=
  if p.method != effMethod r then some "diff-method"
  else if p.target != ruri r then some "diff-target"
  else if (p.fields.filter fun f => f.1 == kHost).map (·.2) != [trimOWS (effHost r)] then some "diff-host"
  else if !((p.fields.filter fun f => !isOwnField r.close f).isPerm (expFields r)) then some "diff-fields"
  else if p.body != bodyOf r then some "diff-body"
  else none

/-! ## frontend guarantees (what each frontend's parser ensures about the Request it builds) -/
def noLF (s : Bytes) : Bool := s.all (· != 10)
def noCTL (s : Bytes) : Bool := s.all fun b => b ≥ 32 && b != 127
/-- http2 `validHeaderFieldValue` -/
def h2Value (s : Bytes) : Bool := s.all fun b => (b ≥ 32 || b == 9) && b != 127
def teOK (r : Req) : Bool := r.te.isEmpty || r.te == [sChunked]

/-- bfe_http.ReadRequest (+ httpProtoSet): the request line is split at SP, lines at LF, keys end at
    the first colon; nothing rejects a bare CR or other control bytes outside the request-target. -/
def guarH1 (r : Req) : Bool :=
  noLF r.method && r.method.all (· != 32) &&
  !r.requestURI.isEmpty && noCTL r.requestURI && r.requestURI.all (· != 32) &&
  noCTL r.urlRuri && r.urlRuri.all (· != 32) &&
  noLF r.host && noLF r.urlHost &&
  r.header.all (fun kv => !kv.1.isEmpty && noLF kv.1 && kv.1.all (· != 58) && kv.2.all noLF) &&
  teOK r && r.atLeast11 && !r.close &&
  r.trailer.isNone   -- fixTrailer `Del`s instead of adding: Trailer stays nil until the body was consumed

/-- bfe_http2: readMetaFrame (`validHeaderFieldName` on regular names, `validHeaderFieldValue` on ALL
    values incl. pseudo headers) + newWriterAndRequest (`url.ParseRequestURI(:path)`). -/
def guarH2 (r : Req) : Bool :=
  !r.method.isEmpty && h2Value r.method &&
  noCTL r.requestURI && noCTL r.urlRuri &&
  h2Value r.host && noCTL r.urlHost &&
  r.header.all (fun kv => isToken kv.1 && kv.2.all h2Value) &&
  r.te.isEmpty && r.atLeast11 && !r.close &&
  (match r.trailer with | some ks => ks.all h2Value | none => true)

/-- bfe_spdy BEFORE fix C25-spdy-validate: parseHeaderValueBlock validates nothing (names are lower-cased,
    values split at NUL); newWriterAndRequest only required non-empty method/path/version/host and a
    parsable path.  Kept for the witnesses of what that frontend let through. -/
def guarSpdyOld (r : Req) : Bool :=
  !r.method.isEmpty && !r.requestURI.isEmpty && noCTL r.requestURI && noCTL r.urlRuri &&
  !r.host.isEmpty &&
  r.header.all (fun kv => kv.2.all fun v => v.all (· != 0)) &&
  r.te.isEmpty && r.atLeast11 && !r.close && r.trailer.isNone

/-- spdy `validLinePart`: non-empty, no control byte, no SP, no DEL -/
def linePart (s : Bytes) : Bool := !s.isEmpty && s.all isTargetByte

/-- bfe_spdy (after the fix): newWriterAndRequest additionally requires `validLinePart` of method, path,
    host and of every header name; values are still unconstrained (split at NUL). -/
def guarSpdy (r : Req) : Bool :=
  linePart r.method && linePart r.requestURI && noCTL r.urlRuri && linePart r.host && noCTL r.urlHost &&
  r.header.all (fun kv => linePart kv.1 && kv.2.all fun v => v.all (· != 0)) &&
  r.te.isEmpty && r.atLeast11 && !r.close && r.trailer.isNone

/-- decidable hypothesis of the partial theorem: every component is what RFC 9112 allows -/
def wellFormed (r : Req) : Bool :=
  isToken (effMethod r) && !(ruri r).isEmpty && (ruri r).all isTargetByte &&
  (effHost r).all isValueByte &&
  r.header.all (fun kv => isToken kv.1 && kv.2.all fun v => (sanitize v).all isValueByte) &&
  (match r.trailer with | some ks => ks.all isToken | none => true)

/-- hypothesis of the round-trip theorem `C25_one_request_partial` (the strengthened frontend guarantee):
    method a token; target non-empty without SP/CTL; host without CTL; header names tokens that do not
    shadow Host / Transfer-Encoding / Content-Length under another spelling (true for canonical keys);
    values ARBITRARY except that no control byte other than HT may remain after the CR/LF→SP rewrite;
    what httpProtoSet and the frontends fix: HTTP/1.1, Close=false, TransferEncoding ∈ {[], [chunked]};
    no declared trailer; body pieces non-empty -/
def oneReqHyp (r : Req) : Bool :=
  isToken (effMethod r) && !(ruri r).isEmpty && (ruri r).all isTargetByte &&
  (effHost r).all isValueByte &&
  r.header.all (fun kv => isToken kv.1 && kv.2.all fun v => (sanitize v).all isValueByte) &&
  r.header.all (fun kv => excluded kv.1 ||
    !(eqFold kv.1 kHost || eqFold kv.1 kTransferEncoding || eqFold kv.1 kContentLength)) &&
  !r.close && r.trailer.isNone && r.atLeast11 && teOK r &&
  (r.body.getD []).all (fun p => !p.isEmpty)

/-- no CR / LF in any component that is written verbatim -/
def lineSafe (r : Req) : Bool :=
  let ok := fun (s : Bytes) => s.all fun b => b != 13 && b != 10
  ok r.method && ok r.requestURI && ok r.urlRuri && ok r.host && ok r.urlHost &&
  r.header.all (fun kv => ok kv.1) &&
  (match r.trailer with | some ks => ks.all ok | none => true)

end BfeVerif.C25
