import BfeVerif.C25.Proofs
/-! Lemmas for the round-trip theorem `C25_one_request_partial` (core Lean only). -/
namespace BfeVerif.C25

/-! ## decimal / hexadecimal print–parse -/
def decStep (acc : Option Nat) (d : UInt8) : Option Nat :=
  match acc with
  | some n => if 48 ≤ d && d ≤ 57 then some (n * 10 + (d.toNat - 48)) else none
  | none => none

def hexStep (acc : Option Nat) (d : UInt8) : Option Nat :=
  match acc, hexValOf d with
  | some n, some v => some (n * 16 + v)
  | _, _ => none

theorem decVal_eq (ds : Bytes) (h : ds ≠ []) : decVal ds = ds.foldl decStep (some 0) := by
  cases ds with
  | nil => exact absurd rfl h
  | cons a as => rfl

theorem hexVal_eq (ds : Bytes) (h : ds ≠ []) : hexVal ds = ds.foldl hexStep (some 0) := by
  cases ds with
  | nil => exact absurd rfl h
  | cons a as => rfl

theorem decStep_digit (n d : Nat) (hd : d < 10) : decStep (some n) (digit d) = some (n * 10 + d) := by
  have : d = 0 ∨ d = 1 ∨ d = 2 ∨ d = 3 ∨ d = 4 ∨ d = 5 ∨ d = 6 ∨ d = 7 ∨ d = 8 ∨ d = 9 := by omega
  rcases this with h|h|h|h|h|h|h|h|h|h <;> subst h <;> simp [decStep, digit]

theorem hexStep_digit (n d : Nat) (hd : d < 16) : hexStep (some n) (hexDigit d) = some (n * 16 + d) := by
  have : d = 0 ∨ d = 1 ∨ d = 2 ∨ d = 3 ∨ d = 4 ∨ d = 5 ∨ d = 6 ∨ d = 7 ∨ d = 8 ∨ d = 9 ∨
      d = 10 ∨ d = 11 ∨ d = 12 ∨ d = 13 ∨ d = 14 ∨ d = 15 := by omega
  rcases this with h|h|h|h|h|h|h|h|h|h|h|h|h|h|h|h <;> subst h <;> simp [hexStep, hexDigit, hexValOf]

theorem decFuel_acc (f n : Nat) (acc : Bytes) : decFuel f n acc = decFuel f n [] ++ acc := by
  induction f generalizing n acc with
  | zero => simp [decFuel]
  | succ f ih =>
    unfold decFuel
    split
    · simp
    · rw [ih (n / 10) (digit (n % 10) :: acc), ih (n / 10) [digit (n % 10)]]
      simp

theorem hexFuel_acc (f n : Nat) (acc : Bytes) : hexFuel f n acc = hexFuel f n [] ++ acc := by
  induction f generalizing n acc with
  | zero => simp [hexFuel]
  | succ f ih =>
    unfold hexFuel
    split
    · simp
    · rw [ih (n / 16) (hexDigit (n % 16) :: acc), ih (n / 16) [hexDigit (n % 16)]]
      simp

theorem dec_roundtrip (f n : Nat) (hf : n < f) :
    (decFuel f n []).foldl decStep (some 0) = some n ∧ decFuel f n [] ≠ [] := by
  induction f generalizing n with
  | zero => omega
  | succ f ih =>
    unfold decFuel
    by_cases h : n < 10
    · simp only [h, if_true]
      refine ⟨?_, by simp⟩
      simp only [List.foldl_cons, List.foldl_nil]
      rw [decStep_digit 0 n h]; simp
    · simp only [h, if_false]
      rw [decFuel_acc]
      have := ih (n / 10) (by omega)
      refine ⟨?_, by simp⟩
      rw [List.foldl_append, this.1]
      simp only [List.foldl_cons, List.foldl_nil]
      rw [decStep_digit _ _ (Nat.mod_lt _ (by decide))]
      congr 1; omega

theorem hex_roundtrip (f n : Nat) (hf : n < f) :
    (hexFuel f n []).foldl hexStep (some 0) = some n ∧ hexFuel f n [] ≠ [] := by
  induction f generalizing n with
  | zero => omega
  | succ f ih =>
    unfold hexFuel
    by_cases h : n < 16
    · simp only [h, if_true]
      refine ⟨?_, by simp⟩
      simp only [List.foldl_cons, List.foldl_nil]
      rw [hexStep_digit 0 n h]; simp
    · simp only [h, if_false]
      rw [hexFuel_acc]
      have := ih (n / 16) (by omega)
      refine ⟨?_, by simp⟩
      rw [List.foldl_append, this.1]
      simp only [List.foldl_cons, List.foldl_nil]
      rw [hexStep_digit _ _ (Nat.mod_lt _ (by decide))]
      congr 1; omega

theorem decVal_toDec (n : Nat) : decVal (toDec n) = some n := by
  have := dec_roundtrip (n + 1) n (by omega)
  unfold toDec
  rw [decVal_eq _ this.2]
  have e : (fun (acc : Option Nat) (d : UInt8) => match acc with
      | some n => if 48 ≤ d && d ≤ 57 then some (n * 10 + (d.toNat - 48)) else none
      | none => none) = decStep := rfl
  exact this.1

theorem hexVal_toHex (n : Nat) : hexVal (toHex n) = some n := by
  have := hex_roundtrip (n + 1) n (by omega)
  unfold toHex
  rw [hexVal_eq _ this.2]
  exact this.1

/-! ## trimming -/
theorem dropWhile_dropWhile_weaker {p q : UInt8 → Bool} (hqp : ∀ b, q b = true → p b = true) (l : Bytes) :
    (l.dropWhile p).dropWhile q = l.dropWhile p := by
  induction l with
  | nil => rfl
  | cons a l ih =>
    cases hp : p a with
    | true => simp only [List.dropWhile_cons, hp, if_true]; exact ih
    | false =>
      have hq : q a = false := by
        cases hq : q a with
        | true => rw [hqp a hq] at hp; cases hp
        | false => rfl
      simp [List.dropWhile_cons, hp, hq]

theorem dropWhile_self_head {p : UInt8 → Bool} {a : UInt8} {l : Bytes} (h : (a :: l).dropWhile p = a :: l) :
    p a = false := by
  cases hp : p a with
  | false => rfl
  | true =>
    simp only [List.dropWhile_cons, hp, if_true] at h
    have := (List.dropWhile_sublist p (l := l)).length_le
    rw [h] at this
    simp only [List.length_cons] at this
    omega

/-- a prefix of a list that does not start with a `p` byte does not either -/
theorem dropWhile_prefix_self {p : UInt8 → Bool} {s d : Bytes} (hpre : s <+: d) (hd : d.dropWhile p = d) :
    s.dropWhile p = s := by
  cases s with
  | nil => rfl
  | cons a s' =>
    obtain ⟨t, ht⟩ := hpre
    rw [← ht] at hd
    have : p a = false := dropWhile_self_head (l := s' ++ t) (by simpa using hd)
    simp [List.dropWhile_cons, this]

theorem isOWS_isWS (b : UInt8) (h : isOWS b = true) : isWS b = true := by
  unfold isOWS at h; unfold isWS
  simp only [Bool.or_eq_true, beq_iff_eq] at h ⊢
  rcases h with h | h
  · exact Or.inl (Or.inl (Or.inl h))
  · exact Or.inl (Or.inl (Or.inr h))

theorem dropWhile_idem (p : UInt8 → Bool) (l : Bytes) : (l.dropWhile p).dropWhile p = l.dropWhile p :=
  dropWhile_dropWhile_weaker (fun _ h => h) l

/-- the optional whitespace the parser strips around a value is exactly what bfe's `": "` adds,
    because a value written by `WriteSubset` is already trimmed -/
theorem trimOWS_sp_trimWS (y : Bytes) : trimOWS (32 :: trimWS y) = trimWS y := by
  unfold trimOWS
  have h32 : isOWS 32 = true := by decide
  simp only [List.dropWhile_cons, h32, if_true]
  -- s = e.reverse with e = (d.reverse).dropWhile isWS, d = y.dropWhile isWS
  have hs : trimWS y = ((y.dropWhile isWS).reverse.dropWhile isWS).reverse := rfl
  have hpre : trimWS y <+: y.dropWhile isWS := by
    rw [hs]
    have := List.dropWhile_suffix (l := (y.dropWhile isWS).reverse) isWS
    have h2 := List.reverse_prefix.mpr this
    simpa using h2
  have h1 : (trimWS y).dropWhile isWS = trimWS y := dropWhile_prefix_self hpre (dropWhile_idem isWS y)
  have h1' : (trimWS y).dropWhile isOWS = trimWS y := by
    rw [← h1]; exact dropWhile_dropWhile_weaker isOWS_isWS _
  rw [h1']
  rw [hs, List.reverse_reverse]
  rw [dropWhile_dropWhile_weaker isOWS_isWS]

theorem trimOWS_sp (h : Bytes) : trimOWS (32 :: h) = trimOWS h := by
  unfold trimOWS
  have h32 : isOWS 32 = true := by decide
  simp only [List.dropWhile_cons, h32, if_true]

theorem dropWhile_none {p : UInt8 → Bool} {l : Bytes} (h : ∀ b ∈ l, p b = false) : l.dropWhile p = l := by
  cases l with
  | nil => rfl
  | cons a l => simp [List.dropWhile_cons, h a (List.mem_cons_self ..)]

theorem trimOWS_none {l : Bytes} (h : ∀ b ∈ l, isOWS b = false) : trimOWS l = l := by
  unfold trimOWS
  rw [dropWhile_none h, dropWhile_none (fun b hb => h b (List.mem_reverse.mp hb)), List.reverse_reverse]

/-! ## one field line: print then parse -/
theorem tchar_ne_colon (b : UInt8) (h : isTchar b = true) : (b != 58) = true := by
  by_cases e : b = 58
  · subst e; revert h; decide
  · simpa using e

theorem parseField_line (k v : Bytes) (hk : isToken k = true) (hv : v.all isValueByte = true) :
    parseField (k ++ [58, 32] ++ v) = some (k, trimOWS (32 :: v)) := by
  have hk' := hk
  simp only [isToken, Bool.and_eq_true] at hk'
  have hall : ∀ a ∈ k, (a != 58) = true := fun a ha => tchar_ne_colon a (List.all_eq_true.mp hk'.2 a ha)
  have e : k ++ [58, 32] ++ v = k ++ (58 :: 32 :: v) := by simp
  unfold parseField
  rw [e]
  have h58 : ((58 : UInt8) != 58) = false := by decide
  have ht : (k ++ (58 :: 32 :: v)).takeWhile (· != 58) = k := by
    rw [List.takeWhile_append_of_pos hall]; simp [List.takeWhile_cons, h58]
  have hd : (k ++ (58 :: 32 :: v)).dropWhile (· != 58) = 58 :: 32 :: v := by
    rw [List.dropWhile_append_of_pos hall]; simp [List.dropWhile_cons, h58]
  simp only [ht, hd]
  have hv2 : (32 :: v).all isValueByte = true := by
    simp only [List.all_cons, hv, Bool.and_true]; decide
  simp [hk, hv2]

/-! ## the header block: print then parse -/
theorem parseFields_append (a b : List Bytes) (fa fb : List (Bytes × Bytes))
    (ha : parseFields a = some fa) (hb : parseFields b = some fb) :
    parseFields (a ++ b) = some (fa ++ fb) := by
  induction a generalizing fa with
  | nil => simp only [parseFields] at ha; cases ha; simpa using hb
  | cons l ls ih =>
    simp only [List.cons_append, parseFields] at ha ⊢
    cases hl : parseField l with
    | none => rw [hl] at ha; simp at ha
    | some f =>
      cases hls : parseFields ls with
      | none => rw [hl, hls] at ha; simp at ha
      | some fs =>
        rw [hl, hls] at ha
        simp only [Option.some.injEq] at ha
        rw [ih fs hls]
        simp [← ha]

/-- the client fields as written: (key, sanitised value) in written order -/
def clientFields (S : List (Bytes × List Bytes)) : List (Bytes × Bytes) :=
  S.flatMap fun kv => kv.2.map fun v => (kv.1, sanitize v)

def clientLines (S : List (Bytes × List Bytes)) : List Bytes :=
  S.flatMap fun kv => kv.2.map (fieldLine kv.1)

theorem parseFields_values (k : Bytes) (vs : List Bytes) (hk : isToken k = true)
    (hv : ∀ v ∈ vs, (sanitize v).all isValueByte = true) :
    parseFields (vs.map (fieldLine k)) = some (vs.map fun v => (k, sanitize v)) := by
  induction vs with
  | nil => rfl
  | cons v vs ih =>
    simp only [List.map_cons, parseFields]
    have h1 : parseField (fieldLine k v) = some (k, sanitize v) := by
      unfold fieldLine
      rw [parseField_line k _ hk (hv v (List.mem_cons_self ..))]
      unfold sanitize
      rw [trimOWS_sp_trimWS]
    rw [h1, ih (fun x hx => hv x (List.mem_cons_of_mem _ hx))]

theorem parseFields_client (S : List (Bytes × List Bytes))
    (hS : ∀ kv ∈ S, isToken kv.1 = true ∧ ∀ v ∈ kv.2, (sanitize v).all isValueByte = true) :
    parseFields (clientLines S) = some (clientFields S) := by
  induction S with
  | nil => rfl
  | cons kv S ih =>
    unfold clientLines clientFields
    simp only [List.flatMap_cons]
    have h := hS kv (List.mem_cons_self ..)
    exact parseFields_append _ _ _ _ (parseFields_values kv.1 kv.2 h.1 h.2)
      (ih (fun x hx => hS x (List.mem_cons_of_mem _ hx)))

theorem subsetLines_eq (h : List (Bytes × List Bytes)) :
    subsetLines h = clientLines (sortKV (h.filter fun kv => !excluded kv.1)) := rfl

theorem mem_clientFields {S : List (Bytes × List Bytes)} {f : Bytes × Bytes} (hf : f ∈ clientFields S) :
    ∃ kv ∈ S, f.1 = kv.1 := by
  unfold clientFields at hf
  obtain ⟨kv, hkv, hin⟩ := List.mem_flatMap.mp hf
  obtain ⟨v, _, rfl⟩ := List.mem_map.mp hin
  exact ⟨kv, hkv, rfl⟩

/-! ## `sortKV` is a permutation -/
theorem perm_insertKV (x : Bytes × List Bytes) (l : List (Bytes × List Bytes)) : List.Perm (insertKV x l) (x :: l) := by
  induction l with
  | nil => exact List.Perm.refl _
  | cons y ys ih =>
    unfold insertKV
    split
    · exact (List.Perm.cons y ih).trans (List.Perm.swap x y ys)
    · exact List.Perm.refl _

theorem perm_sortKV (l : List (Bytes × List Bytes)) : List.Perm (sortKV l) l := by
  unfold sortKV
  induction l with
  | nil => exact List.Perm.refl _
  | cons x xs ih =>
    simp only [List.foldr_cons]
    exact (perm_insertKV x _).trans (List.Perm.cons x ih)

/-! ## chunked framing: print then parse -/
theorem hexDigit_noBreak (d : Nat) (hd : d < 16) : hexDigit d ≠ 13 ∧ hexDigit d ≠ 10 := by
  have : d = 0 ∨ d = 1 ∨ d = 2 ∨ d = 3 ∨ d = 4 ∨ d = 5 ∨ d = 6 ∨ d = 7 ∨ d = 8 ∨ d = 9 ∨
      d = 10 ∨ d = 11 ∨ d = 12 ∨ d = 13 ∨ d = 14 ∨ d = 15 := by omega
  rcases this with h|h|h|h|h|h|h|h|h|h|h|h|h|h|h|h <;> subst h <;> decide

theorem noBreak_hexFuel (f n : Nat) (acc : Bytes) (ha : NoBreak acc) : NoBreak (hexFuel f n acc) := by
  induction f generalizing n acc with
  | zero => exact ha
  | succ f ih =>
    unfold hexFuel
    split
    · intro b hb
      rcases List.mem_cons.mp hb with h | h
      · subst h; exact hexDigit_noBreak n (by assumption)
      · exact ha b h
    · apply ih
      intro b hb
      rcases List.mem_cons.mp hb with h | h
      · subst h; exact hexDigit_noBreak (n % 16) (Nat.mod_lt _ (by decide))
      · exact ha b h

theorem noBreak_toHex (n : Nat) : NoBreak (toHex n) :=
  noBreak_hexFuel _ _ _ (fun _ h => by cases h)

theorem probe_spec (ps : List Bytes) (hne : ∀ p ∈ ps, p ≠ []) :
    (probe ps = none ∧ ps = []) ∨
    (∃ ps', probe ps = some ps' ∧ ps'.flatten = ps.flatten ∧ ∀ p ∈ ps', p ≠ []) := by
  cases ps with
  | nil => exact Or.inl ⟨rfl, rfl⟩
  | cons p rest =>
    cases p with
    | nil => exact absurd rfl (hne [] (List.mem_cons_self ..))
    | cons b bs =>
      refine Or.inr ⟨_, rfl, ?_, ?_⟩
      · cases bs <;> simp
      · intro q hq
        rcases List.mem_cons.mp hq with h | h
        · subst h; simp
        · cases bs with
          | nil => exact hne q (List.mem_cons_of_mem _ (by simpa using h))
          | cons c cs =>
            simp only [List.isEmpty_cons, Bool.false_eq_true, if_false] at h
            rcases List.mem_cons.mp h with h | h
            · subst h; simp
            · exact hne q (List.mem_cons_of_mem _ h)

theorem chunkEnc_cons (p : Bytes) (ps : List Bytes) (hp : p ≠ []) :
    chunkEnc (p :: ps) = toHex p.length ++ crlf ++ p ++ crlf ++ chunkEnc ps := by
  unfold chunkEnc
  simp [hp]

theorem dechunk_last (f : Nat) : dechunk (f + 1) ([48, 13, 10] ++ crlf) = some ([], []) := by
  simp [dechunk, takeLine, crlf, hexVal, hexValOf]

theorem dechunk_chunkEnc (ps : List Bytes) (hne : ∀ p ∈ ps, p ≠ []) (f : Nat) (hf : ps.length < f) :
    dechunk f (chunkEnc ps ++ [48, 13, 10] ++ crlf) = some (ps.flatten, []) := by
  induction ps generalizing f with
  | nil =>
    cases f with
    | zero => omega
    | succ f => simpa [chunkEnc] using dechunk_last f
  | cons p ps ih =>
    cases f with
    | zero => omega
    | succ f =>
      have hp := hne p (List.mem_cons_self ..)
      have ih' := ih (fun q hq => hne q (List.mem_cons_of_mem _ hq)) f (by simp at hf; omega)
      rw [chunkEnc_cons p ps hp]
      have e : toHex p.length ++ crlf ++ p ++ crlf ++ chunkEnc ps ++ [48, 13, 10] ++ crlf =
          toHex p.length ++ crlf ++ (p ++ (crlf ++ (chunkEnc ps ++ [48, 13, 10] ++ crlf))) := by
        simp [List.append_assoc]
      rw [e]
      unfold dechunk
      rw [takeLine_append _ _ (noBreak_toHex _)]
      simp only [hexVal_toHex]
      obtain ⟨a, p', rfl⟩ : ∃ a p', p = a :: p' := by
        cases p with
        | nil => exact absurd rfl hp
        | cons a p' => exact ⟨a, p', rfl⟩
      have hlen : ¬ ((a :: p') ++ (crlf ++ (chunkEnc ps ++ [48, 13, 10] ++ crlf))).length < (a :: p').length + 2 := by
        simp [crlf]
      have hdrop : (((a :: p') ++ (crlf ++ (chunkEnc ps ++ [48, 13, 10] ++ crlf))).drop (a :: p').length) =
          crlf ++ (chunkEnc ps ++ [48, 13, 10] ++ crlf) := List.drop_left
      have hdrop2 : (((a :: p') ++ (crlf ++ (chunkEnc ps ++ [48, 13, 10] ++ crlf))).drop ((a :: p').length + 2)) =
          chunkEnc ps ++ [48, 13, 10] ++ crlf := by
        rw [← List.drop_drop, hdrop]; simp [crlf]
      have htake : (((a :: p') ++ (crlf ++ (chunkEnc ps ++ [48, 13, 10] ++ crlf))).take (a :: p').length) = a :: p' :=
        List.take_left
      simp only [List.length_cons] at hlen hdrop hdrop2 htake ⊢
      simp only [hlen, if_false, hdrop, hdrop2, htake, ih']
      simp [crlf]

/-! ## what `newTransferWriter` decides, under the frontend guarantee -/
theorem isChunked_chunked : isChunked [sChunked] = true := by decide

def TWCase (r : Req) (t : TW) : Prop :=
  (t.body = none ∧ t.chunked = false ∧ t.cl = 0 ∧ bodyOf r = []) ∨
  (∃ ps, t.body = some ps ∧ t.chunked = false ∧ 0 < t.cl ∧ ps.flatten = bodyOf r) ∨
  (∃ ps, t.body = some ps ∧ t.chunked = true ∧ ps.flatten = bodyOf r ∧ ∀ p ∈ ps, p ≠ [])

theorem newTW_cases (r : Req) (t : TW) (h11 : r.atLeast11 = true) (hte : r.te = [] ∨ r.te = [sChunked])
    (hne : ∀ p ∈ r.body.getD [], p ≠ []) (hn : newTW r = some t) :
    t.close = r.close ∧ TWCase r t := by
  cases hb : r.body with
  | none =>
    by_cases hc : r.contentLength = 0
    · simp [newTW, hb, hc, h11] at hn
      subst hn
      exact ⟨rfl, Or.inl ⟨rfl, rfl, rfl, by simp [bodyOf, hb]⟩⟩
    · simp [newTW, hb, hc] at hn
  | some ps =>
    have hne' : ∀ p ∈ ps, p ≠ [] := by simpa [hb] using hne
    have hbody : bodyOf r = ps.flatten := by simp [bodyOf, hb]
    rcases hte with hte | hte
    · by_cases hc : r.contentLength = 0
      · rcases probe_spec ps hne' with ⟨hp, hps⟩ | ⟨ps', hp, hfl, hne2⟩
        · simp [newTW, hb, hc, h11, hte, hp, isChunked] at hn
          subst hn
          exact ⟨rfl, Or.inl ⟨rfl, rfl, rfl, by rw [hbody, hps]; rfl⟩⟩
        · simp [newTW, hb, hc, h11, hte, hp, isChunked_chunked] at hn
          subst hn
          exact ⟨rfl, Or.inr (Or.inr ⟨ps', rfl, rfl, by rw [hbody, hfl], hne2⟩)⟩
      · by_cases hneg : r.contentLength < 0
        · simp [newTW, hb, hc, h11, hte, hneg, isChunked_chunked] at hn
          subst hn
          exact ⟨rfl, Or.inr (Or.inr ⟨ps, rfl, rfl, hbody.symm, hne'⟩)⟩
        · simp [newTW, hb, hc, h11, hte, hneg, isChunked] at hn
          subst hn
          exact ⟨rfl, Or.inr (Or.inl ⟨ps, rfl, rfl, by simp only []; omega, hbody.symm⟩)⟩
    · have hte2 : r.te.isEmpty = false := by rw [hte]; rfl
      by_cases hc : r.contentLength = 0
      · simp [newTW, hb, hc, h11, hte, isChunked_chunked] at hn
        subst hn
        exact ⟨rfl, Or.inr (Or.inr ⟨ps, rfl, rfl, hbody.symm, hne'⟩)⟩
      · simp [newTW, hb, hc, h11, hte, isChunked_chunked] at hn
        subst hn
        exact ⟨rfl, Or.inr (Or.inr ⟨ps, rfl, rfl, hbody.symm, hne'⟩)⟩

/-! ## assembling the head -/
theorem decFuel_all (P : UInt8 → Prop) (hP : ∀ d, d < 10 → P (digit d)) (f n : Nat) (acc : Bytes)
    (ha : ∀ b ∈ acc, P b) : ∀ b ∈ decFuel f n acc, P b := by
  induction f generalizing n acc with
  | zero => exact ha
  | succ f ih =>
    unfold decFuel
    split
    · intro b hb
      rcases List.mem_cons.mp hb with h | h
      · subst h; exact hP n (by assumption)
      · exact ha b h
    · apply ih
      intro b hb
      rcases List.mem_cons.mp hb with h | h
      · subst h; exact hP _ (Nat.mod_lt _ (by decide))
      · exact ha b h

theorem digit_value (d : Nat) (hd : d < 10) : isValueByte (digit d) = true ∧ isOWS (digit d) = false := by
  have : d = 0 ∨ d = 1 ∨ d = 2 ∨ d = 3 ∨ d = 4 ∨ d = 5 ∨ d = 6 ∨ d = 7 ∨ d = 8 ∨ d = 9 := by omega
  rcases this with h|h|h|h|h|h|h|h|h|h <;> subst h <;> decide

theorem toDec_value (n : Nat) : ∀ b ∈ toDec n, isValueByte b = true ∧ isOWS b = false :=
  decFuel_all _ digit_value _ _ _ (fun _ h => by cases h)

/-- the fields `transferWriter.WriteHeader` contributes (Close = false, no trailer), as the parser sees them -/
def ownFields (t : TW) (h : List (Bytes × List Bytes)) : List (Bytes × Bytes) :=
  if sendCL t h then [(kContentLength, toDec t.cl.toNat)]
  else if t.chunked then [(kTransferEncoding, sChunked)] else []

theorem parse_cl_line (n : Nat) : parseField (sCLPfx ++ toDec n) = some (kContentLength, toDec n) := by
  have e : sCLPfx ++ toDec n = kContentLength ++ [58, 32] ++ toDec n := by simp [sCLPfx, kContentLength]
  rw [e, parseField_line _ _ (by decide) (List.all_eq_true.mpr fun b hb => (toDec_value n b hb).1)]
  rw [trimOWS_sp, trimOWS_none (fun b hb => (toDec_value n b hb).2)]

theorem parse_tw (t : TW) (h : List (Bytes × List Bytes)) (hc : t.close = false) :
    parseFields (twHeaderLines t h) = some (ownFields t h) := by
  unfold twHeaderLines ownFields
  simp only [hc, Bool.false_eq_true, if_false, List.nil_append]
  split
  · simp [parseFields, parse_cl_line]
  · split
    · decide
    · rfl

theorem parse_host_line (host : Bytes) (hh : host.all isValueByte = true) :
    parseField (sHostPfx ++ host) = some (kHost, trimOWS host) := by
  have e : sHostPfx ++ host = kHost ++ [58, 32] ++ host := by simp [sHostPfx, kHost]
  rw [e, parseField_line _ _ (by decide) hh, trimOWS_sp]

theorem headLinesOf_noTrailer (r : Req) (t : TW) (ht : t.trailer = none) :
    headLinesOf r t = requestLine r :: (sHostPfx ++ effHost r) ::
      (twHeaderLines t r.header ++ subsetLines r.header) := by
  simp [headLinesOf, ht]

theorem splitOn_requestLine (r : Req) (hm : isToken (effMethod r) = true)
    (ht : (ruri r).all isTargetByte = true) :
    splitOn 32 (requestLine r) = [effMethod r, ruri r, sHTTP11] := by
  simp only [isToken, Bool.and_eq_true] at hm
  have h1 : ∀ b ∈ effMethod r, b ≠ 32 := fun b hb => tchar_ne_sp b (List.all_eq_true.mp hm.2 b hb)
  have h2 : ∀ b ∈ ruri r, b ≠ 32 := fun b hb => targetByte_ne_sp b (List.all_eq_true.mp ht b hb)
  unfold requestLine
  rw [show effMethod r ++ [32] ++ ruri r ++ [32] ++ sHTTP11 = effMethod r ++ [32] ++ (ruri r ++ [32] ++ sHTTP11) by simp]
  rw [splitOn_append 32 _ _ h1, splitOn_append 32 _ _ h2, splitOn_noSep 32 sHTTP11 (by decide)]

theorem reqLine_requestLine (r : Req) (hm : isToken (effMethod r) = true)
    (hne : (ruri r).isEmpty = false) (ht : (ruri r).all isTargetByte = true) :
    reqLine (requestLine r) = .ok (effMethod r, ruri r) := by
  unfold reqLine
  rw [splitOn_requestLine r hm ht]
  simp [hm, hne, ht]

/-! ## components of the hypothesis -/
structure Hyp (r : Req) : Prop where
  meth : isToken (effMethod r) = true
  tne : (ruri r).isEmpty = false
  targ : (ruri r).all isTargetByte = true
  host : (effHost r).all isValueByte = true
  keys : ∀ kv ∈ r.header, isToken kv.1 = true ∧ ∀ v ∈ kv.2, (sanitize v).all isValueByte = true
  shadow : ∀ kv ∈ r.header, excluded kv.1 = false →
    eqFold kv.1 kHost = false ∧ eqFold kv.1 kTransferEncoding = false ∧ eqFold kv.1 kContentLength = false
  close : r.close = false
  trailer : r.trailer = none
  p11 : r.atLeast11 = true
  te : r.te = [] ∨ r.te = [sChunked]
  pieces : ∀ p ∈ r.body.getD [], p ≠ []

theorem hyp_of (r : Req) (h : oneReqHyp r = true) : Hyp r := by
  simp only [oneReqHyp, Bool.and_eq_true] at h
  obtain ⟨⟨⟨⟨⟨⟨⟨⟨⟨⟨hm, htn⟩, htg⟩, hh⟩, hk⟩, hs⟩, hc⟩, htr⟩, h11⟩, hte⟩, hp⟩ := h
  refine ⟨hm, by simpa using htn, htg, hh, ?_, ?_, by simpa using hc, ?_, h11, ?_, ?_⟩
  · intro kv hkv
    have := List.all_eq_true.mp hk kv hkv
    simp only [Bool.and_eq_true] at this
    exact ⟨this.1, fun v hv => List.all_eq_true.mp this.2 v hv⟩
  · intro kv hkv hex
    have := List.all_eq_true.mp hs kv hkv
    simp only [hex, Bool.false_or, Bool.not_eq_true', Bool.or_eq_false_iff] at this
    exact ⟨this.1.1, this.1.2, this.2⟩
  · cases ht : r.trailer with
    | none => rfl
    | some _ => rw [ht] at htr; simp at htr
  · unfold teOK at hte
    simp only [Bool.or_eq_true, beq_iff_eq] at hte
    rcases hte with h | h
    · left; cases hr : r.te with
      | nil => rfl
      | cons _ _ => rw [hr] at h; simp at h
    · exact Or.inr h
  · intro p hp' e
    have := List.all_eq_true.mp hp p hp'
    rw [e] at this
    simp at this

/-! ## the parsed field list and its filters -/
def clientS (r : Req) : List (Bytes × List Bytes) := sortKV (r.header.filter fun kv => !excluded kv.1)

def allFields (r : Req) (t : TW) : List (Bytes × Bytes) :=
  (kHost, trimOWS (effHost r)) :: (ownFields t r.header ++ clientFields (clientS r))

theorem mem_clientS {r : Req} {kv : Bytes × List Bytes} (h : kv ∈ clientS r) :
    kv ∈ r.header ∧ excluded kv.1 = false := by
  have := List.mem_filter.mp (mem_sortKV' _ _ h)
  exact ⟨this.1, by simpa using this.2⟩

theorem parse_all (r : Req) (t : TW) (H : Hyp r) (hc : t.close = false) :
    parseFields ((sHostPfx ++ effHost r) :: (twHeaderLines t r.header ++ subsetLines r.header)) =
      some (allFields r t) := by
  have hcl : parseFields (subsetLines r.header) = some (clientFields (clientS r)) := by
    rw [subsetLines_eq]
    exact parseFields_client _ (fun kv hkv => H.keys kv (mem_clientS hkv).1)
  simp only [parseFields, parse_host_line _ H.host,
    parseFields_append _ _ _ _ (parse_tw t r.header hc) hcl]
  rfl

theorem client_filter_nil (r : Req) (q : Bytes → Bool)
    (hq : ∀ kv ∈ r.header, excluded kv.1 = false → q kv.1 = false) :
    (clientFields (clientS r)).filter (fun f => q f.1) = [] := by
  apply List.filter_eq_nil_iff.mpr
  intro f hf
  obtain ⟨kv, hkv, e⟩ := mem_clientFields hf
  have := mem_clientS hkv
  rw [e, hq kv this.1 this.2]
  simp

theorem eHH : eqFold kHost kHost = true := by decide
theorem eHT : eqFold kHost kTransferEncoding = false := by decide
theorem eHC : eqFold kHost kContentLength = false := by decide
theorem eCH : eqFold kContentLength kHost = false := by decide
theorem eCT : eqFold kContentLength kTransferEncoding = false := by decide
theorem eCC : eqFold kContentLength kContentLength = true := by decide
theorem eTH : eqFold kTransferEncoding kHost = false := by decide
theorem eTT : eqFold kTransferEncoding kTransferEncoding = true := by decide
theorem eTC : eqFold kTransferEncoding kContentLength = false := by decide

theorem chunkEnc_length (ps : List Bytes) (hne : ∀ p ∈ ps, p ≠ []) : ps.length ≤ (chunkEnc ps).length := by
  induction ps with
  | nil => simp
  | cons p ps ih =>
    have hp := hne p (List.mem_cons_self ..)
    rw [chunkEnc_cons p ps hp]
    have := ih (fun q hq => hne q (List.mem_cons_of_mem _ hq))
    have hpl : 0 < p.length := by cases p with | nil => exact absurd rfl hp | cons _ _ => simp
    simp only [List.length_append, List.length_cons]
    omega

/-- layer 3 on what bfe wrote: the framing fields select exactly the body bfe sent, nothing remains -/
theorem framing_all (r : Req) (t : TW) (H : Hyp r) (hcase : TWCase r t) (hok : (twBody t).2 = true) :
    framing (allFields r t) (twBody t).1 = .ok (bodyOf r) := by
  have hCt := client_filter_nil r (fun k => eqFold k kTransferEncoding) (fun kv h1 h2 => (H.shadow kv h1 h2).2.1)
  have hCc := client_filter_nil r (fun k => eqFold k kContentLength) (fun kv h1 h2 => (H.shadow kv h1 h2).2.2)
  unfold framing allFields
  simp only [List.filter_cons, List.filter_append, hCt, hCc, eHT, eHC, Bool.false_eq_true, if_false,
    List.append_nil]
  rcases hcase with ⟨hb, hch, hcl, hbody⟩ | ⟨ps, hb, hch, hcl, hbody⟩ | ⟨ps, hb, hch, hbody, hne⟩
  · -- no body
    have htw : twBody t = ([], true) := by unfold twBody; rw [hb]
    rw [htw, hbody]
    unfold ownFields sendCL
    simp only [hch, hcl, Bool.false_eq_true, if_false]
    by_cases hg : (getFirst r.header kContentLength).isEmpty = true
    · simp [hg]
    · simp [hg, eCT, eCC, decVal_toDec]
  · -- Content-Length framing
    have hsend : sendCL t r.header = true := by unfold sendCL; simp [hch, hcl]
    have hne1 : ¬ (t.cl = -1) := by omega
    have htw : twBody t = (ps.flatten.take t.cl.toNat, decide (t.cl = ps.flatten.length)) := by
      unfold twBody; rw [hb]; simp [hch, hne1]
    rw [htw] at hok ⊢
    simp only [decide_eq_true_eq] at hok
    have hlen : t.cl.toNat = ps.flatten.length := by omega
    unfold ownFields
    simp only [hsend, if_true, List.filter_cons, List.filter_nil, eCT, eCC, Bool.false_eq_true, if_false]
    simp [decVal_toDec, hlen, hbody]
  · -- chunked framing
    have hsend : sendCL t r.header = false := by unfold sendCL; simp [hch]
    have htw : twBody t = (chunkEnc ps ++ [48, 13, 10] ++ crlf, true) := by
      unfold twBody; rw [hb]; simp [hch]
    have hfuel : ps.length < (chunkEnc ps ++ [48, 13, 10] ++ crlf).length + 1 := by
      have := chunkEnc_length ps hne
      simp only [List.length_append]; omega
    have hd := dechunk_chunkEnc ps hne _ hfuel
    rw [htw]
    generalize chunkEnc ps ++ [48, 13, 10] ++ crlf = R at hd
    unfold ownFields
    simp only [hsend, hch, Bool.false_eq_true, if_false, if_true, List.filter_cons, List.filter_nil, eTT, eTC]
    simp [hd, hbody]

/-! ## the whole message -/
theorem noBreak_of_pred (p : UInt8 → Bool) (h13 : p 13 = false) (h10 : p 10 = false) (s : Bytes)
    (hs : s.all p = true) : NoBreak s := by
  intro b hb
  have hp := List.all_eq_true.mp hs b hb
  constructor
  · intro e; subst e; rw [h13] at hp; cases hp
  · intro e; subst e; rw [h10] at hp; cases hp

theorem excl_own (k v : Bytes) (h : excluded k = false) : isOwnField false (k, v) = false := by
  unfold isOwnField
  have h1 : (k == kHost) = false := by
    cases e : (k == kHost) with
    | false => rfl
    | true => have := eq_of_beq e; subst this; exact absurd h (by decide)
  have h2 : (k == kContentLength) = false := by
    cases e : (k == kContentLength) with
    | false => rfl
    | true => have := eq_of_beq e; subst this; exact absurd h (by decide)
  have h3 : (k == kTransferEncoding) = false := by
    cases e : (k == kTransferEncoding) with
    | false => rfl
    | true => have := eq_of_beq e; subst this; exact absurd h (by decide)
  have h4 : (k == kTrailer) = false := by
    cases e : (k == kTrailer) with
    | false => rfl
    | true => have := eq_of_beq e; subst this; exact absurd h (by decide)
  simp [h1, h2, h3, h4]

theorem own_isOwn (t : TW) (h : List (Bytes × List Bytes)) :
    ∀ f ∈ ownFields t h, isOwnField false f = true ∧ (f.1 == kHost) = false := by
  intro f hf
  unfold ownFields at hf
  split at hf
  · simp only [List.mem_cons, List.not_mem_nil, or_false] at hf; subst hf; exact ⟨by simp [isOwnField], by show (kContentLength == kHost) = false; decide⟩
  · split at hf
    · simp only [List.mem_cons, List.not_mem_nil, or_false] at hf; subst hf; exact ⟨by simp [isOwnField], by show (kTransferEncoding == kHost) = false; decide⟩
    · cases hf

theorem client_notOwn (r : Req) : ∀ f ∈ clientFields (clientS r),
    isOwnField false f = false ∧ (f.1 == kHost) = false := by
  intro f hf
  obtain ⟨kv, hkv, e⟩ := mem_clientFields hf
  have hex := (mem_clientS hkv).2
  rw [← e] at hex
  have := excl_own f.1 f.2 hex
  refine ⟨this, ?_⟩
  cases e2 : (f.1 == kHost) with
  | false => rfl
  | true => have := eq_of_beq e2; rw [this] at hex; exact absurd hex (by decide)

/-- what the parser returns is what the accepted request says (the oracle's comparison) -/
theorem compare_all (r : Req) (t : TW) (H : Hyp r) :
    compareParsed r ⟨effMethod r, ruri r, allFields r t, bodyOf r⟩ = none := by
  have hO := own_isOwn t r.header
  have hC := client_notOwn r
  have f1 : (allFields r t).filter (fun f => f.1 == kHost) = [(kHost, trimOWS (effHost r))] := by
    unfold allFields
    have a : (ownFields t r.header).filter (fun f => f.1 == kHost) = [] :=
      List.filter_eq_nil_iff.mpr (fun f hf => by simp [(hO f hf).2])
    have b : (clientFields (clientS r)).filter (fun f => f.1 == kHost) = [] :=
      List.filter_eq_nil_iff.mpr (fun f hf => by simp [(hC f hf).2])
    simp [List.filter_cons, List.filter_append, a, b]
  have f2 : (allFields r t).filter (fun f => !isOwnField r.close f) = clientFields (clientS r) := by
    unfold allFields
    rw [H.close]
    have a : (ownFields t r.header).filter (fun f => !isOwnField false f) = [] :=
      List.filter_eq_nil_iff.mpr (fun f hf => by simp [(hO f hf).1])
    have b : (clientFields (clientS r)).filter (fun f => !isOwnField false f) = clientFields (clientS r) :=
      List.filter_eq_self.mpr (fun f hf => by simp [(hC f hf).1])
    have c : isOwnField false (kHost, trimOWS (effHost r)) = true := by simp [isOwnField]
    simp [List.filter_cons, List.filter_append, a, b, c]
  have f3 : (clientFields (clientS r)).isPerm (expFields r) = true := by
    apply List.isPerm_iff.mpr
    exact List.Perm.flatMap_right _ (perm_sortKV _)
  unfold compareParsed
  simp [f1, f2, f3]

theorem host_count (r : Req) (t : TW) (H : Hyp r) :
    ((allFields r t).filter fun f => eqFold f.1 kHost).length = 1 := by
  have hCh := client_filter_nil r (fun k => eqFold k kHost) (fun kv h1 h2 => (H.shadow kv h1 h2).1)
  unfold allFields ownFields
  simp only [List.filter_cons, List.filter_append, hCh, eHH, if_true, List.append_nil]
  split
  · simp [eCH]
  · split <;> simp [eTH]

theorem one_request (r : Req) (bs : Bytes) (H : Hyp r) (hw : writeRequest r = (true, bs)) :
    ∃ t, newTW r = some t ∧
      rfcOne bs = .ok ⟨effMethod r, ruri r, allFields r t, bodyOf r⟩ := by
  obtain ⟨t, hn, hbs, hok⟩ := write_shape r bs hw
  obtain ⟨hclose, hcase⟩ := newTW_cases r t H.p11 H.te H.pieces hn
  have htc : t.close = false := hclose.trans H.close
  have htt : t.trailer = none := by
    rcases newTW_trailer r t hn with h | h
    · exact h
    · rw [h, H.trailer]
  refine ⟨t, hn, ?_⟩
  -- the head lines
  have hm := H.meth
  simp only [isToken, Bool.and_eq_true] at hm
  have nbM : NoBreak (effMethod r) := noBreak_of_pred isTchar (by decide) (by decide) _ hm.2
  have nbT : NoBreak (ruri r) := noBreak_of_pred isTargetByte (by decide) (by decide) _ H.targ
  have nbH : NoBreak (effHost r) := noBreak_of_pred isValueByte (by decide) (by decide) _ H.host
  have nbK : ∀ kv ∈ r.header, NoBreak kv.1 := by
    intro kv hkv
    have hk := (H.keys kv hkv).1
    simp only [isToken, Bool.and_eq_true] at hk
    exact noBreak_of_pred isTchar (by decide) (by decide) _ hk.2
  have hclean := lines_clean_core r t nbM nbT nbH nbK (by rw [H.trailer]) hn
  have hhead : headLines (bs.length + 1) bs = some (headLinesOf r t, (twBody t).1) := by
    rw [hbs]
    apply headLines_join _ _ hclean
    have := joinLines_length (headLinesOf r t)
    simp only [List.length_append]
    omega
  unfold rfcOne
  rw [hhead, headLinesOf_noTrailer r t htt]
  simp only [reqLine_requestLine r H.meth H.tne H.targ, parse_all r t H htc, host_count r t H,
    framing_all r t H hcase hok]
  simp

end BfeVerif.C25
