import BfeVerif.C25.Model
/-! Lemmas for C25 (core Lean only). -/
namespace BfeVerif.C25

/-- no CR and no LF -/
def NoBreak (l : Bytes) : Prop := ∀ b ∈ l, b ≠ 13 ∧ b ≠ 10

instance (l : Bytes) : Decidable (NoBreak l) := by unfold NoBreak; infer_instance

theorem mem_trimWS {b : UInt8} {v : Bytes} (h : b ∈ trimWS v) : b ∈ v := by
  unfold trimWS at h
  have h1 := List.mem_reverse.mp h
  have h2 := (List.dropWhile_sublist _).subset h1
  have h3 := List.mem_reverse.mp h2
  exact (List.dropWhile_sublist _).subset h3

theorem noBreak_nl2sp (v : Bytes) : NoBreak (nl2sp v) := by
  intro b hb
  unfold nl2sp at hb
  obtain ⟨a, _, rfl⟩ := List.mem_map.mp hb
  by_cases h : (a == 10 || a == 13) = true
  · simp only [h, if_true]; decide
  · simp only [h]
    simp only [Bool.or_eq_true, beq_iff_eq, not_or] at h
    simp [h.1, h.2]

theorem noBreak_sanitize (v : Bytes) : NoBreak (sanitize v) := by
  intro b hb
  exact noBreak_nl2sp v b (mem_trimWS hb)

end BfeVerif.C25

namespace BfeVerif.C25

theorem noBreak_append {a b : Bytes} (ha : NoBreak a) (hb : NoBreak b) : NoBreak (a ++ b) := by
  intro x hx
  rcases List.mem_append.mp hx with h | h
  · exact ha x h
  · exact hb x h

theorem noBreak_of_all {s : Bytes} (h : (s.all fun b => b != 13 && b != 10) = true) : NoBreak s := by
  intro b hb
  have := List.all_eq_true.mp h b hb
  simpa using this

/-! ### the strict line scanner on text bfe wrote -/
theorem takeLine_append (l rest : Bytes) (h : NoBreak l) : takeLine (l ++ crlf ++ rest) = some (l, rest) := by
  induction l with
  | nil => simp [takeLine, crlf]
  | cons b l ih =>
    have hb := h b (List.mem_cons_self ..)
    have ih' := ih (fun x hx => h x (List.mem_cons_of_mem _ hx))
    have : (b :: l) ++ crlf ++ rest = b :: (l ++ crlf ++ rest) := by simp
    rw [this]
    unfold takeLine
    simp only [hb.1, hb.2, if_false, ih']

theorem joinLines_cons (l : Bytes) (ls : List Bytes) : joinLines (l :: ls) = l ++ crlf ++ joinLines ls := by
  simp [joinLines]

theorem joinLines_append (a b : List Bytes) : joinLines (a ++ b) = joinLines a ++ joinLines b := by
  simp [joinLines]

theorem joinLines_length (ls : List Bytes) : ls.length ≤ (joinLines ls).length := by
  induction ls with
  | nil => simp [joinLines]
  | cons l ls ih =>
    rw [joinLines_cons]
    simp only [List.length_append, List.length_cons, crlf, List.length_nil]
    omega

theorem headLines_join (ls : List Bytes) (rest : Bytes) (h : ∀ l ∈ ls, NoBreak l ∧ l ≠ [])
    (f : Nat) (hf : ls.length < f) :
    headLines f (joinLines ls ++ crlf ++ rest) = some (ls, rest) := by
  induction ls generalizing f with
  | nil =>
    cases f with
    | zero => omega
    | succ f =>
      have : joinLines [] ++ crlf ++ rest = [] ++ crlf ++ rest := by simp [joinLines]
      rw [this]
      unfold headLines
      rw [takeLine_append [] rest (fun _ hx => by cases hx)]
      simp
  | cons l ls ih =>
    cases f with
    | zero => omega
    | succ f =>
      have hl := h l (List.mem_cons_self ..)
      have : joinLines (l :: ls) ++ crlf ++ rest = l ++ crlf ++ (joinLines ls ++ crlf ++ rest) := by
        rw [joinLines_cons]; simp [List.append_assoc]
      rw [this]
      unfold headLines
      rw [takeLine_append l _ hl.1]
      have hne : l.isEmpty = false := by
        cases l with
        | nil => exact absurd rfl hl.2
        | cons _ _ => rfl
      simp only [hne, Bool.false_eq_true, if_false]
      rw [ih (fun x hx => h x (List.mem_cons_of_mem _ hx)) f (by simp at hf; omega)]

/-! ### every line bfe writes is free of CR/LF when the verbatim components are -/
theorem digit_noBreak (d : Nat) (hd : d < 10) : digit d ≠ 13 ∧ digit d ≠ 10 := by
  have : d = 0 ∨ d = 1 ∨ d = 2 ∨ d = 3 ∨ d = 4 ∨ d = 5 ∨ d = 6 ∨ d = 7 ∨ d = 8 ∨ d = 9 := by omega
  rcases this with h|h|h|h|h|h|h|h|h|h <;> subst h <;> decide

theorem noBreak_decFuel (f n : Nat) (acc : Bytes) (ha : NoBreak acc) : NoBreak (decFuel f n acc) := by
  induction f generalizing n acc with
  | zero => exact ha
  | succ f ih =>
    unfold decFuel
    split
    · intro b hb
      rcases List.mem_cons.mp hb with h | h
      · subst h; exact digit_noBreak n (by assumption)
      · exact ha b h
    · apply ih
      intro b hb
      rcases List.mem_cons.mp hb with h | h
      · subst h; exact digit_noBreak (n % 10) (Nat.mod_lt _ (by decide))
      · exact ha b h

theorem noBreak_toDec (n : Nat) : NoBreak (toDec n) :=
  noBreak_decFuel _ _ _ (fun _ h => by cases h)

theorem noBreak_joinComma (ks : List Bytes) (h : ∀ k ∈ ks, NoBreak k) : NoBreak (joinComma ks) := by
  induction ks with
  | nil => intro _ hx; cases hx
  | cons k ks ih =>
    cases ks with
    | nil => exact h k (List.mem_cons_self ..)
    | cons k2 ks2 =>
      unfold joinComma
      refine noBreak_append (noBreak_append (h k (List.mem_cons_self ..)) (by decide)) ?_
      exact ih (fun x hx => h x (List.mem_cons_of_mem _ hx))

theorem mem_insertKV' (x y : Bytes × List Bytes) (l : List (Bytes × List Bytes)) :
    x ∈ insertKV y l → x = y ∨ x ∈ l := by
  induction l with
  | nil => intro h; simpa [insertKV] using h
  | cons z zs ih =>
    unfold insertKV
    split
    · intro h
      rcases List.mem_cons.mp h with h | h
      · exact Or.inr (h ▸ List.mem_cons_self ..)
      · rcases ih h with h | h
        · exact Or.inl h
        · exact Or.inr (List.mem_cons_of_mem _ h)
    · intro h
      rcases List.mem_cons.mp h with h | h
      · exact Or.inl h
      · exact Or.inr h

theorem mem_sortKV' (x : Bytes × List Bytes) (l : List (Bytes × List Bytes)) : x ∈ sortKV l → x ∈ l := by
  unfold sortKV
  induction l with
  | nil => intro h; exact h
  | cons y ys ih =>
    intro h
    rcases mem_insertKV' _ _ _ h with h | h
    · exact h ▸ List.mem_cons_self ..
    · exact List.mem_cons_of_mem _ (ih h)

theorem subsetLines_ok (h : List (Bytes × List Bytes)) (hk : ∀ kv ∈ h, NoBreak kv.1) :
    ∀ l ∈ subsetLines h, NoBreak l ∧ l ≠ [] := by
  intro l hl
  unfold subsetLines at hl
  obtain ⟨kv, hkv, hin⟩ := List.mem_flatMap.mp hl
  obtain ⟨v, _, rfl⟩ := List.mem_map.mp hin
  have hmem := (List.mem_filter.mp (mem_sortKV' _ _ hkv)).1
  unfold fieldLine
  constructor
  · exact noBreak_append (noBreak_append (hk kv hmem) (by decide)) (noBreak_sanitize v)
  · intro e
    have := congrArg List.length e
    simp at this

end BfeVerif.C25

namespace BfeVerif.C25

theorem ite_none_or {α : Type} (c : Bool) (x : Option α) :
    (if c = true then x else none) = none ∨ (if c = true then x else none) = x := by
  cases c <;> simp

theorem newTW_trailer (r : Req) (t : TW) (h : newTW r = some t) :
    t.trailer = none ∨ t.trailer = r.trailer := by
  unfold newTW at h
  split at h
  · cases h
  · simp only [Option.some.injEq] at h
    subst h
    exact ite_none_or _ _

theorem write_shape (r : Req) (bs : Bytes) (hw : writeRequest r = (true, bs)) :
    ∃ t, newTW r = some t ∧ bs = joinLines (headLinesOf r t) ++ crlf ++ (twBody t).1 ∧ (twBody t).2 = true := by
  unfold writeRequest at hw
  simp only [] at hw
  cases hn : newTW r with
  | none => rw [hn] at hw; simp at hw
  | some t =>
    rw [hn] at hw
    refine ⟨t, rfl, ?_⟩
    simp only [] at hw
    unfold headLinesOf
    cases ht : t.trailer with
    | none =>
      rw [ht] at hw
      simp only [Prod.mk.injEq] at hw
      refine ⟨?_, hw.1⟩
      rw [← hw.2]
      simp [joinLines, List.flatMap_append]
    | some ks =>
      rw [ht] at hw
      simp only [] at hw
      cases hl : trailerLine ks with
      | none => rw [hl] at hw; simp at hw
      | some l =>
        rw [hl] at hw
        simp only [Prod.mk.injEq] at hw
        refine ⟨?_, hw.1⟩
        rw [← hw.2]
        simp [joinLines, List.flatMap_append, hl]

end BfeVerif.C25

namespace BfeVerif.C25

theorem splitOn_noSep (sep : UInt8) (s : Bytes) (h : ∀ b ∈ s, b ≠ sep) : splitOn sep s = [s] := by
  induction s with
  | nil => rfl
  | cons b rest ih =>
    have hb := h b (List.mem_cons_self ..)
    have ih' := ih (fun x hx => h x (List.mem_cons_of_mem _ hx))
    simp only [splitOn, hb, if_false, ih']

theorem splitOn_append (sep : UInt8) (a rest : Bytes) (h : ∀ b ∈ a, b ≠ sep) :
    splitOn sep (a ++ [sep] ++ rest) = a :: splitOn sep rest := by
  induction a with
  | nil => simp [splitOn]
  | cons b as ih =>
    have hb := h b (List.mem_cons_self ..)
    have ih' := ih (fun x hx => h x (List.mem_cons_of_mem _ hx))
    have : (b :: as) ++ [sep] ++ rest = b :: (as ++ [sep] ++ rest) := by simp
    rw [this]
    simp only [splitOn, hb, if_false, ih']

theorem tchar_ne_sp (b : UInt8) (h : isTchar b = true) : b ≠ 32 := by
  intro e; subst e; revert h; decide

theorem targetByte_ne_sp (b : UInt8) (h : isTargetByte b = true) : b ≠ 32 := by
  intro e; subst e; revert h; decide

end BfeVerif.C25

namespace BfeVerif.C25

/-- every head line is free of CR/LF and non-empty when the components that are written verbatim are -/
theorem lines_clean_core (r : Req) (t : TW) (hmeth : NoBreak (effMethod r)) (hruri : NoBreak (ruri r))
    (heff : NoBreak (effHost r)) (hk' : ∀ kv ∈ r.header, NoBreak kv.1)
    (htr : (match r.trailer with
      | some ks => ks.all fun s => s.all fun b => b != 13 && b != 10
      | none => true) = true)
    (hn : newTW r = some t) :
    ∀ l ∈ headLinesOf r t, NoBreak l ∧ l ≠ [] := by
  have nonempty_of_len : ∀ (l : Bytes), 0 < l.length → l ≠ [] := by
    intro l h e; rw [e] at h; simp at h
  intro l hl
  unfold headLinesOf at hl
  simp only [List.mem_append, List.mem_cons, List.not_mem_nil, or_false] at hl
  rcases hl with ((hl | hl) | hl) | hl
  · rcases hl with hl | hl
    · subst hl
      unfold requestLine
      exact ⟨noBreak_append (noBreak_append (noBreak_append (noBreak_append hmeth (by decide)) hruri) (by decide)) (by decide),
        nonempty_of_len _ (by simp [sHTTP11]; omega)⟩
    · subst hl
      exact ⟨noBreak_append (by decide) heff, nonempty_of_len _ (by simp [sHostPfx])⟩
  · unfold twHeaderLines at hl
    rcases List.mem_append.mp hl with hl | hl
    · split at hl
      · simp only [List.mem_cons, List.not_mem_nil, or_false] at hl
        subst hl; exact ⟨by decide, by decide⟩
      · cases hl
    · split at hl
      · simp only [List.mem_cons, List.not_mem_nil, or_false] at hl
        subst hl
        exact ⟨noBreak_append (by decide) (noBreak_toDec _), nonempty_of_len _ (by simp [sCLPfx])⟩
      · split at hl
        · simp only [List.mem_cons, List.not_mem_nil, or_false] at hl
          subst hl; exact ⟨by decide, by decide⟩
        · cases hl
  · -- the Trailer line
    rcases newTW_trailer r t hn with ht | ht
    · rw [ht] at hl; cases hl
    · rw [ht] at hl
      cases hrt : r.trailer with
      | none => rw [hrt] at hl; cases hl
      | some ks =>
        rw [hrt] at hl htr
        simp only [] at hl
        cases htl : trailerLine ks with
        | none => rw [htl] at hl; cases hl
        | some tl =>
          rw [htl] at hl
          simp only [List.mem_cons, List.not_mem_nil, or_false] at hl
          subst hl
          unfold trailerLine at htl
          split at htl
          · cases htl
          · simp only [Option.some.injEq] at htl
            subst htl
            have hks : ∀ k ∈ ks, NoBreak k := fun k hk => noBreak_of_all (List.all_eq_true.mp htr k hk)
            exact ⟨noBreak_append (by decide) (noBreak_joinComma ks hks), nonempty_of_len _ (by simp [sTrailerPfx])⟩
  · exact subsetLines_ok r.header hk' l hl

end BfeVerif.C25
