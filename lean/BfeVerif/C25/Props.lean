import BfeVerif.C25.Roundtrip
/-!
  C25 — requests forwarded to backends cannot be split or injected.  Property theorems only.

  Full-strength statement (the executable oracle of the driver):
      `C25_full fe := ∀ r, guar fe r → writeRequest r = (true, bs) → ∃ p, rfcOne bs = .ok p ∧ compareParsed r p = none`
  It FAILS for every frontend (witnesses below, replayed in corpus/C25): token syntax of methods/names and CTLs in
  values are not enforced anywhere, HTTP/1 lets bare CR through, HTTP/2 lets SP through.  What is
  proved: values never carry a line break (all frontends); when no verbatim component contains CR/LF the
  strict line scanner sees exactly the lines bfe meant to write followed by the body (no injected field,
  no second message head) — and the HTTP/2 frontend and (after fix C25-spdy-validate) the SPDY frontend guarantee that hypothesis.
-/
namespace BfeVerif.C25

def guar (fe : Nat) (r : Req) : Bool :=
  match fe with | 0 => guarH1 r | 1 => guarH2 r | _ => guarSpdy r

/-- the property at full strength for frontend `fe` (0 = HTTP/1, 1 = HTTP/2, 2 = SPDY) -/
def C25_full (fe : Nat) : Prop :=
  ∀ r bs, guar fe r = true → writeRequest r = (true, bs) →
    ∃ p, rfcOne bs = .ok p ∧ compareParsed r p = none

/-- **Values are safe on every frontend**: whatever bytes a header value holds, what `WriteSubset`
    writes for it contains neither CR nor LF. -/
theorem C25_value_sanitised (v : Bytes) : ∀ b ∈ sanitize v, b ≠ 13 ∧ b ≠ 10 :=
  noBreak_sanitize v

/-- every line of the head is free of CR/LF and non-empty when the verbatim components are -/
theorem C25_lines_clean (r : Req) (t : TW) (hs : lineSafe r = true) (hn : newTW r = some t) :
    ∀ l ∈ headLinesOf r t, NoBreak l ∧ l ≠ [] := by
  simp only [lineSafe, Bool.and_eq_true] at hs
  obtain ⟨⟨⟨⟨⟨⟨hm, hu⟩, huu⟩, hh⟩, huh⟩, hk⟩, htr⟩ := hs
  have hm' := noBreak_of_all hm
  have hu' := noBreak_of_all hu
  have huu' := noBreak_of_all huu
  have hh' := noBreak_of_all hh
  have huh' := noBreak_of_all huh
  have hk' : ∀ kv ∈ r.header, NoBreak kv.1 := fun kv hkv => noBreak_of_all (List.all_eq_true.mp hk kv hkv)
  have heff : NoBreak (effHost r) := by unfold effHost; split <;> assumption
  have hmeth : NoBreak (effMethod r) := by
    unfold effMethod; split
    · decide
    · exact hm'
  have hruri : NoBreak (ruri r) := by
    unfold ruri
    split
    · exact heff
    · split
      · split <;> assumption
      · exact huu'
  exact lines_clean_core r t hmeth hruri heff hk' htr hn

/-- **No injected lines (partial: hypothesis `lineSafe`)**: if method, target candidates, host and header
    / trailer names contain no CR/LF, then a strict CRLF line scanner reads from the written bytes exactly
    the head lines bfe intended (request line, Host, framing fields, the client's fields) up to the empty
    line, and what follows is exactly the body encoding.  No header name or value adds a field or a
    second message head. -/
theorem C25_no_injected_lines_partial (r : Req) (bs : Bytes) (hs : lineSafe r = true)
    (hw : writeRequest r = (true, bs)) :
    ∃ t, newTW r = some t ∧
      headLines (bs.length + 1) bs = some (headLinesOf r t, (twBody t).1) := by
  obtain ⟨t, hn, hbs, _⟩ := write_shape r bs hw
  refine ⟨t, hn, ?_⟩
  rw [hbs]
  apply headLines_join _ _ (C25_lines_clean r t hs hn)
  have := joinLines_length (headLinesOf r t)
  simp only [List.length_append]
  omega

theorem C25_byte_ok_of (p : UInt8 → Bool) (h13 : p 13 = false) (h10 : p 10 = false) (b : UInt8) (hb : p b = true) :
    (b != 13 && b != 10) = true := by
  by_cases e : b = 13
  · subst e; rw [h13] at hb; cases hb
  · by_cases e2 : b = 10
    · subst e2; rw [h10] at hb; cases hb
    · simp [e, e2]

/-- **Request line (partial: token method, target without SP/CTL)**: the written request line splits at SP
    into exactly method, target, `HTTP/1.1` — what fails for HTTP/2's `:method = "GET /x"` / `:path = "/a b"`. -/
theorem C25_request_line_partial (r : Req) (hm : isToken (effMethod r) = true)
    (ht : (ruri r).all isTargetByte = true) :
    splitOn 32 (requestLine r) = [effMethod r, ruri r, sHTTP11] :=
  splitOn_requestLine r hm ht

/-- the HTTP/2 frontend guarantees the hypothesis: `validHeaderFieldValue` on every value including the
    pseudo headers, token names, and a parsable `:path` exclude CR and LF everywhere -/
theorem C25_h2_lineSafe (r : Req) (hg : guarH2 r = true) : lineSafe r = true := by
  simp only [guarH2, Bool.and_eq_true] at hg
  obtain ⟨⟨⟨⟨⟨⟨⟨⟨⟨⟨_, hm⟩, hu⟩, huu⟩, hh⟩, huh⟩, hk⟩, _⟩, _⟩, _⟩, htr⟩ := hg
  have v : ∀ s : Bytes, h2Value s = true → (s.all fun b => b != 13 && b != 10) = true := by
    intro s hs
    apply List.all_eq_true.mpr
    intro b hb
    exact C25_byte_ok_of (fun b => (b ≥ 32 || b == 9) && b != 127) (by decide) (by decide) b (List.all_eq_true.mp hs b hb)
  have c : ∀ s : Bytes, noCTL s = true → (s.all fun b => b != 13 && b != 10) = true := by
    intro s hs
    apply List.all_eq_true.mpr
    intro b hb
    exact C25_byte_ok_of (fun b => b ≥ 32 && b != 127) (by decide) (by decide) b (List.all_eq_true.mp hs b hb)
  have tk : ∀ s : Bytes, isToken s = true → (s.all fun b => b != 13 && b != 10) = true := by
    intro s hs
    simp only [isToken, Bool.and_eq_true] at hs
    apply List.all_eq_true.mpr
    intro b hb
    exact C25_byte_ok_of isTchar (by decide) (by decide) b (List.all_eq_true.mp hs.2 b hb)
  simp only [lineSafe, Bool.and_eq_true]
  refine ⟨⟨⟨⟨⟨⟨v _ hm, c _ hu⟩, c _ huu⟩, v _ hh⟩, c _ huh⟩, ?_⟩, ?_⟩
  · apply List.all_eq_true.mpr
    intro kv hkv
    have := List.all_eq_true.mp hk kv hkv
    simp only [Bool.and_eq_true] at this
    exact tk _ this.1
  · cases htrr : r.trailer with
    | none => rfl
    | some ks =>
      rw [htrr] at htr
      simp only [] at htr ⊢
      apply List.all_eq_true.mpr
      intro k hk
      exact v _ (List.all_eq_true.mp htr k hk)

/-- **HTTP/2: no field or message can be injected**, for every request the frontend can build. -/
theorem C25_h2_no_injected_lines (r : Req) (bs : Bytes) (hg : guarH2 r = true)
    (hw : writeRequest r = (true, bs)) :
    ∃ t, newTW r = some t ∧ headLines (bs.length + 1) bs = some (headLinesOf r t, (twBody t).1) :=
  C25_no_injected_lines_partial r bs (C25_h2_lineSafe r hg) hw

/-- the SPDY frontend (after fix C25-spdy-validate) guarantees the hypothesis as well -/
theorem C25_spdy_lineSafe (r : Req) (hg : guarSpdy r = true) : lineSafe r = true := by
  simp only [guarSpdy, Bool.and_eq_true] at hg
  obtain ⟨⟨⟨⟨⟨⟨⟨⟨⟨hm, hu⟩, huu⟩, hh⟩, huh⟩, hk⟩, _⟩, _⟩, _⟩, htr⟩ := hg
  have lp : ∀ s : Bytes, linePart s = true → (s.all fun b => b != 13 && b != 10) = true := by
    intro s hs
    simp only [linePart, Bool.and_eq_true] at hs
    apply List.all_eq_true.mpr
    intro b hb
    exact C25_byte_ok_of isTargetByte (by decide) (by decide) b (List.all_eq_true.mp hs.2 b hb)
  have c : ∀ s : Bytes, noCTL s = true → (s.all fun b => b != 13 && b != 10) = true := by
    intro s hs
    apply List.all_eq_true.mpr
    intro b hb
    exact C25_byte_ok_of (fun b => b ≥ 32 && b != 127) (by decide) (by decide) b (List.all_eq_true.mp hs b hb)
  have htr' : r.trailer = none := by
    cases h : r.trailer with
    | none => rfl
    | some _ => rw [h] at htr; simp at htr
  simp only [lineSafe, Bool.and_eq_true, htr']
  refine ⟨⟨⟨⟨⟨⟨lp _ hm, lp _ hu⟩, c _ huu⟩, lp _ hh⟩, c _ huh⟩, ?_⟩, trivial⟩
  · apply List.all_eq_true.mpr
    intro kv hkv
    have := List.all_eq_true.mp hk kv hkv
    simp only [Bool.and_eq_true] at this
    exact lp _ this.1

/-- **SPDY (after the fix): no field or message can be injected**, for every request the frontend can build. -/
theorem C25_spdy_no_injected_lines (r : Req) (bs : Bytes) (hg : guarSpdy r = true)
    (hw : writeRequest r = (true, bs)) :
    ∃ t, newTW r = some t ∧ headLines (bs.length + 1) bs = some (headLinesOf r t, (twBody t).1) :=
  C25_no_injected_lines_partial r bs (C25_spdy_lineSafe r hg) hw

/-! ### the round trip: print (model of bfe) then parse (strict RFC 9112 parser), layer by layer -/

/-- layer 1, request line: the strict request-line parser returns exactly (method, target) -/
theorem C25_layer1_request_line (r : Req) (hm : isToken (effMethod r) = true)
    (hne : (ruri r).isEmpty = false) (ht : (ruri r).all isTargetByte = true) :
    reqLine (requestLine r) = .ok (effMethod r, ruri r) :=
  reqLine_requestLine r hm hne ht

/-- layer 2, one field line: for a token name and ANY value whose sanitised form has no control byte but HT,
    the strict field parser returns (name, sanitised value) — name verbatim, value = the documented rewrite -/
theorem C25_layer2_field_line (k v : Bytes) (hk : isToken k = true) (hv : (sanitize v).all isValueByte = true) :
    parseField (fieldLine k v) = some (k, sanitize v) := by
  unfold fieldLine
  rw [parseField_line k _ hk hv]
  unfold sanitize
  rw [trimOWS_sp_trimWS]

/-- layer 2, the client's header block (after exclusion and sorting) parses to exactly its (name, value) list -/
theorem C25_layer2_header_block (h : List (Bytes × List Bytes))
    (hk : ∀ kv ∈ h, isToken kv.1 = true ∧ ∀ v ∈ kv.2, (sanitize v).all isValueByte = true) :
    parseFields (subsetLines h) = some (clientFields (sortKV (h.filter fun kv => !excluded kv.1))) := by
  rw [subsetLines_eq]
  apply parseFields_client
  intro kv hkv
  exact hk kv (List.mem_filter.mp (mem_sortKV' _ _ hkv)).1

/-- layer 3, Content-Length framing: the decimal bfe prints parses back to the same number -/
theorem C25_layer3_content_length (n : Nat) : decVal (toDec n) = some n := decVal_toDec n

/-- layer 3, chunked framing: the strict chunked decoder returns exactly the concatenated pieces and nothing
    remains, for every chunking of the body into non-empty pieces (hex sizes of any magnitude) -/
theorem C25_layer3_chunked (ps : List Bytes) (hne : ∀ p ∈ ps, p ≠ []) :
    dechunk ((chunkEnc ps ++ [48, 13, 10] ++ crlf).length + 1) (chunkEnc ps ++ [48, 13, 10] ++ crlf) =
      some (ps.flatten, []) := by
  apply dechunk_chunkEnc ps hne
  have := chunkEnc_length ps hne
  simp only [List.length_append]; omega

/-- **C25, round trip (partial: hypothesis `oneReqHyp`)**.  For every request whose method is a token, whose
    target has no SP/CTL, whose host has no CTL, whose header names are tokens (not re-spelling Host /
    Transfer-Encoding / Content-Length) and whose values are arbitrary up to control bytes other than
    CR/LF/HT — with any body split into any pieces, declared length or not —: the bytes `Request.write`
    produces are accepted by the strict single-request parser as EXACTLY ONE request, nothing remains, and
    that request has the same method, the same target, the Host bfe chose, exactly the client's non-excluded
    fields with sanitised values (as a multiset) and the same body. -/
theorem C25_one_request_partial (r : Req) (bs : Bytes) (hg : oneReqHyp r = true)
    (hw : writeRequest r = (true, bs)) :
    ∃ p, rfcOne bs = .ok p ∧ compareParsed r p = none ∧
      p.method = effMethod r ∧ p.target = ruri r ∧ p.body = bodyOf r := by
  obtain ⟨t, _, hp⟩ := one_request r bs (hyp_of r hg) hw
  exact ⟨_, hp, compare_all r t (hyp_of r hg), rfl, rfl, rfl⟩

/-- the full statement holds for each frontend on the requests that meet `oneReqHyp` -/
theorem C25_full_partial (fe : Nat) (r : Req) (bs : Bytes) (_hg : guar fe r = true) (hh : oneReqHyp r = true)
    (hw : writeRequest r = (true, bs)) : ∃ p, rfcOne bs = .ok p ∧ compareParsed r p = none := by
  obtain ⟨p, h1, h2, _⟩ := C25_one_request_partial r bs hh hw
  exact ⟨p, h1, h2⟩

/-! ### witnesses: the full statement fails for every frontend (syntax of method / names / values is not
    enforced); and what the SPDY frontend let through before fix C25-spdy-validate -/
def base : Req :=
  { method := sGET, requestURI := [47], urlRuri := [47], urlPathEmpty := false, reparse := some ([47], true),
    host := [97], urlHost := [], header := [], body := some [], contentLength := 0, te := [],
    close := false, atLeast11 := true, trailer := none }

/-- SPDY `:host = "a\r\nEvil: 1"` -/
def wSpdyHost : Req := { base with host := [97, 13, 10, 69, 118, 105, 108, 58, 32, 49] }
/-- SPDY header name `"x\r\nevil"` -/
def wSpdyName : Req := { base with header := [([120, 13, 10, 101, 118, 105, 108], [[49]])] }
/-- HTTP/2 `:method = "GET /x"` -/
def wH2Method : Req := { base with method := [71, 69, 84, 32, 47, 120] }
/-- HTTP/1 method `"GE\rT"` (bare CR survives ReadRequest) -/
def wH1Method : Req := { base with method := [71, 69, 13, 84] }

/-- the oracle's judgement of what `writeRequest` produced for `r` -/
def verdictOf (r : Req) : Option String :=
  match rfcOne (writeRequest r).2 with
  | .ok p => compareParsed r p
  | .error e => some e.name

/-- SPDY method `"G(T"`: visible non-token bytes are still accepted (as on HTTP/1) -/
def wSpdyMethod : Req := { base with method := [71, 40, 84] }

theorem C25_witness_spdy_method :
    guarSpdy wSpdyMethod = true ∧ (writeRequest wSpdyMethod).1 = true ∧ verdictOf wSpdyMethod = some "bad-method" := by
  decide

/-- SPDY before the fix: the Host value injected the field `Evil: 1` — the strict parser ACCEPTS the message,
    with a different Host and an extra field; the fixed frontend rejects the request -/
theorem C25_witness_spdy_host :
    guarSpdyOld wSpdyHost = true ∧ guarSpdy wSpdyHost = false ∧ (writeRequest wSpdyHost).1 = true ∧ verdictOf wSpdyHost = some "diff-host" := by
  decide

/-- SPDY before the fix: a header NAME injected a field line (`x` alone is then not a field: rejected; four head lines instead of three) -/
theorem C25_witness_spdy_name :
    guarSpdyOld wSpdyName = true ∧ guarSpdy wSpdyName = false ∧ (writeRequest wSpdyName).1 = true ∧ verdictOf wSpdyName = some "bad-field" ∧
    (headLines 100 (writeRequest wSpdyName).2).map (fun x => x.1.length) = some 4 := by
  decide

/-- HTTP/2: SP in `:method` gives a four-part request line -/
theorem C25_witness_h2_method :
    guarH2 wH2Method = true ∧ (writeRequest wH2Method).1 = true ∧ verdictOf wH2Method = some "reqline-parts" := by
  decide

/-- HTTP/1: a bare CR in the method reaches the backend's request line -/
theorem C25_witness_h1_method :
    guarH1 wH1Method = true ∧ (writeRequest wH1Method).1 = true ∧ verdictOf wH1Method = some "line-structure" := by
  decide

theorem C25_fails_of_witness (fe : Nat) (w : Req) (hg : guar fe w = true) (hw : (writeRequest w).1 = true)
    (hv : verdictOf w ≠ none) : ¬ C25_full fe := by
  intro h
  obtain ⟨p, hp, hc⟩ := h w (writeRequest w).2 hg (Prod.ext hw rfl)
  unfold verdictOf at hv
  rw [hp] at hv
  exact hv hc

/-- the full statement fails for each of the three frontends -/
theorem C25_full_fails : ¬ C25_full 0 ∧ ¬ C25_full 1 ∧ ¬ C25_full 2 :=
  ⟨C25_fails_of_witness 0 wH1Method C25_witness_h1_method.1 C25_witness_h1_method.2.1 (by rw [C25_witness_h1_method.2.2]; decide),
   C25_fails_of_witness 1 wH2Method C25_witness_h2_method.1 C25_witness_h2_method.2.1 (by rw [C25_witness_h2_method.2.2]; decide),
   C25_fails_of_witness 2 wSpdyMethod C25_witness_spdy_method.1 C25_witness_spdy_method.2.1 (by rw [C25_witness_spdy_method.2.2]; decide)⟩

/-! non-vacuity of the partial theorem and of the HTTP/2 corollary -/
def exOK : Req := { base with header := [([88, 45, 65], [[49, 32, 50]]), (kConnection, [sClose])],
                              body := some [[104, 105]], contentLength := 2 }
example : guarH2 exOK = true := by decide
example : lineSafe exOK = true := by decide
example : (writeRequest exOK).1 = true := by decide
example : verdictOf exOK = none := by decide
example : oneReqHyp exOK = true := by decide
/-- chunked body in two pieces, value with CRLF injection attempt, duplicate values -/
def exChunked : Req := { base with method := [80, 79, 83, 84], header := [([88], [[49, 13, 10, 69, 58, 50], [32, 51, 32]])],
                                   body := some [[104], [105, 33]], contentLength := -1 }
example : oneReqHyp exChunked = true ∧ (writeRequest exChunked).1 = true := by decide
/-- a value carrying CRLF does not break the lines (lineSafe says nothing about values) -/
def exVal : Req := { base with header := [([88], [[49, 13, 10, 69, 58, 50]])] }
example : lineSafe exVal = true ∧ verdictOf exVal = none := by decide

end BfeVerif.C25
