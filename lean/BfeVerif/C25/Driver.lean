import BfeVerif.Common.Proto
import BfeVerif.C25.Model
/-!
  C25 driver.
    op  `w <fe> <R>`      struct-level request, fe ∈ {h1,h2,spdy,any}; result `ok <hex>` | `err <hex>`
    op  `h2 <fields> <endStream> <pieces>` / `sp <fields> <fin> <pieces>`  header fields through the real HTTP/2 / SPDY frontend
    op  `rd <hex raw>`    raw HTTP/1 bytes through the real ReadRequest (+ httpProtoSet);
                          result `reject` | `<R> ok <hex>` | `<R> err <hex>` (R = the Request the frontend built)
  R = `;`-separated `key=value`, bytes in hex (`-` = empty), lists `,`-separated (`_` = empty list),
      header map `k:v,v|k:v`, `nil` for a nil body / trailer.
-/
namespace BfeVerif.C25
open BfeVerif.Proto

def hexB (s : String) : Option Bytes := bytesOfHex s

def listB (s : String) : Option (List Bytes) :=
  if s == "_" then some [] else (s.splitOn ",").mapM hexB

def hdrOf (s : String) : Option (List (Bytes × List Bytes)) :=
  if s == "_" then some []
  else (s.splitOn "|").mapM fun e =>
    match e.splitOn ":" with
    | [k, vs] => do
      let k' ← hexB k
      let vs' ← listB vs
      pure (k', vs')
    | _ => none

def kvOf (s : String) : List (String × String) :=
  (s.splitOn ";").filterMap fun f =>
    match f.splitOn "=" with
    | [a, b] => some (a, b)
    | _ => none

def look (m : List (String × String)) (k : String) : Option String :=
  (m.find? fun kv => kv.1 == k).map (·.2)

def boolOf (s : String) : Option Bool := if s == "1" then some true else if s == "0" then some false else none

def distinctKeys : List Bytes → Bool
  | [] => true
  | k :: ks => !ks.contains k && distinctKeys ks

def reqOf (s : String) : Option Req := do
  let m := kvOf s
  let method ← (← look m "m") |> hexB
  let u ← (← look m "u") |> hexB
  let uu ← (← look m "uu") |> hexB
  let pe ← (← look m "pe") |> boolOf
  let rps ← look m "rp"
  let rb ← (← look m "rb") |> boolOf
  let rp ← if rps == "nil" then some none else (hexB rps).map fun x => some (x, rb)
  let h ← (← look m "h") |> hexB
  let uh ← (← look m "uh") |> hexB
  let hd ← (← look m "hd") |> hdrOf
  let bs ← look m "b"
  let b ← if bs == "nil" then some none else (listB bs).map some
  let cl ← (← look m "cl").toInt?
  let te ← (← look m "te") |> listB
  let c ← (← look m "c") |> boolOf
  let p ← (← look m "p") |> boolOf
  let trs ← look m "tr"
  let tr ← if trs == "nil" then some none else (listB trs).map some
  if !distinctKeys (hd.map (·.1)) then none
  else if (b.getD []).any (·.isEmpty) then none
  else if (tr.getD []).length > 1 then none
  else pure { method := method, requestURI := u, urlRuri := uu, urlPathEmpty := pe, reparse := rp,
              host := h, urlHost := uh, header := hd, body := b, contentLength := cl, te := te,
              close := c, atLeast11 := p, trailer := tr }

def renderW (x : Bool × Bytes) : String := (if x.1 then "ok " else "err ") ++ hexField x.2

def hasBreak (s : Bytes) : Bool := s.any fun b => b == 13 || b == 10

/-- where the accepted request leaves what RFC 9112 allows: first offending component
    (line breaks first), `none` when `wellFormed`. -/
def cause (r : Req) : Option String :=
  let names := r.header.filter (fun kv => !excluded kv.1 && !kv.2.isEmpty) |>.map (·.1)
  let trs := r.trailer.getD []
  if hasBreak (effMethod r) then some "method-linebreak"
  else if hasBreak (effHost r) then some "host-linebreak"
  else if hasBreak (ruri r) then some "target-linebreak"
  else if names.any hasBreak then some "name-linebreak"
  else if trs.any hasBreak then some "trailer-linebreak"
  else if !isToken (effMethod r) then some "method-syntax"
  else if !(effHost r).all isValueByte then some "host-syntax"
  else if (ruri r).isEmpty || !(ruri r).all isTargetByte then some "target-syntax"
  else if !names.all isToken then some "name-syntax"
  else if !(r.header.all fun kv => excluded kv.1 || kv.2.all fun v => (sanitize v).all isValueByte) then some "value-syntax"
  else if !trs.all isToken then some "trailer-syntax"
  else none

def guarOf (fe : String) (r : Req) : Option Bool :=
  match fe with
  | "h1" => some (guarH1 r)
  | "h2" => some (guarH2 r)
  | "spdy" => some (guarSpdy r)
  | _ => none

def judge (fe : String) (r : Req) (implOut : String) : String × List String :=
  let shape :=
    (match newTW r with
     | none => ["tw-err"]
     | some t => [if t.chunked then "chunked" else if t.body.isSome then "cl-body" else "no-body"]) ++
    (if r.header.isEmpty then [] else ["hdr"]) ++
    (match cause r with | some c => ["c:" ++ c] | none => ["wf"]) ++
    (if oneReqHyp r then ["hyp"] else [])
  match guarOf fe r with
  | none => ("skip", "fe:any" :: shape)
  | some false => ("skip", ("fe:" ++ fe) :: "guar-miss" :: shape)
  | some true =>
    match implOut.splitOn " " with
    | ["ok", hx] =>
      (match bytesOfHex hx with
       | none => ("FAIL:" ++ fe ++ "-unreadable", ["fe:" ++ fe])
       | some bs =>
         let nt := if !r.header.isEmpty || r.body.isSome then ["nt"] else []
         let tags := ("fe:" ++ fe) :: shape ++ nt
         match rfcOne bs with
         | .error rej =>
           (match cause r with
            | some c => ("FAIL:" ++ fe ++ "-" ++ c, ("rej:" ++ rej.name) :: tags)
            | none => ("FAIL:" ++ fe ++ "-wf-" ++ rej.name, tags))
         | .ok p =>
           match compareParsed r p with
           | none => ("ok", tags)
           | some d =>
             (match cause r with
              | some c => ("FAIL:" ++ fe ++ "-" ++ c, ("diff:" ++ d) :: tags)
              | none => ("FAIL:" ++ fe ++ "-wf-" ++ d, tags)))
    | _ => ("skip", ("fe:" ++ fe) :: "write-err" :: shape)

/-- cases driven through a REAL frontend: the Request it built is part of the implementation's result;
    it must satisfy that frontend's guarantee predicate (else the predicate is wrong) and is then
    written by the model and judged like a struct-level case. -/
def viaFrontend (fe tag impl : String) : Ans :=
  if impl == "reject" then { model := "reject", verdict := "skip", tags := [tag ++ "-reject"] }
  else if impl == "bad-op" then { model := "bad-op", verdict := "skip", tags := ["bad-op"] }
  else
    match impl.splitOn " " with
    | [rs, st, hx] =>
      (match reqOf rs with
       | none => { model := "unreadable-R", verdict := "FAIL:" ++ fe ++ "-harness-R" }
       | some r =>
         if guarOf fe r != some true then
           { model := rs ++ " " ++ renderW (writeRequest r), verdict := "FAIL:" ++ fe ++ "-guarantee", tags := [tag] }
         else
           let (v, tags) := judge fe r (st ++ " " ++ hx)
           { model := rs ++ " " ++ renderW (writeRequest r), verdict := v, tags := tag :: tags })
    | _ => { model := "unreadable", verdict := "FAIL:" ++ fe ++ "-harness-R" }

/-- one HTTP/2 connection: the results of its HEADERS frames, `/`-separated; each accepted request is judged
    exactly like a single-frame case (guarantee predicate on what the real frontend accepted — whatever HPACK
    representation carried the field —, model bytes, oracle).  The first failing frame decides the verdict. -/
def viaConn (impl : String) : Ans :=
  let parts := impl.splitOn "/"
  let answers := parts.map fun p =>
    if p == "dead" then ({ model := "dead", verdict := "skip", tags := ["h2c-dead"] } : Ans)
    else viaFrontend "h2" "h2c" p
  let model := "/".intercalate (answers.map (·.model))
  let fails := answers.filter fun a => a.verdict.startsWith "FAIL"
  let oks := answers.filter fun a => a.verdict == "ok"
  let verdict := match fails with
    | a :: _ => a.verdict
    | [] => if oks.isEmpty then "skip" else "ok"
  let tags := (answers.flatMap (·.tags)).eraseDups
  let accepted := (answers.filter fun a => a.verdict != "skip").length
  { model := model, verdict := verdict,
    tags := tags ++ (if accepted ≥ 2 then ["h2c-multi"] else []) ++ (if parts.length ≥ 2 && parts.head? == some "reject" && accepted ≥ 1 then ["h2c-after-reject"] else []) }

def run (op impl : String) : Ans :=
  match op.splitOn " " with
  | ["w", fe, rs] =>
    (match reqOf rs with
     | none => { model := "bad-op", verdict := "skip" }
     | some r =>
       if impl == "bad-op" then { model := "bad-op", verdict := "skip", tags := ["bad-op"] }
       else
         let (v, tags) := judge fe r impl
         { model := renderW (writeRequest r), verdict := v, tags := tags })
  | ["rd", _] => viaFrontend "h1" "rd" impl
  | ["rd", _, seg] =>
    -- the same bytes delivered in segments: nothing in the model depends on the segmentation
    let a := viaFrontend "h1" "rd" impl
    { a with tags := a.tags ++ (if seg != "-" then ["segmented"] else []) }
  | ["h2", _, _, _] => viaFrontend "h2" "h2f" impl
  | ["sp", _, _, _] => viaFrontend "spdy" "spf" impl
  | ["h2c", _] => viaConn impl
  | _ => { model := "bad-op", verdict := "skip" }

end BfeVerif.C25
