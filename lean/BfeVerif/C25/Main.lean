import BfeVerif.C25.Driver
def main : IO Unit := BfeVerif.Proto.driverMain BfeVerif.C25.run
