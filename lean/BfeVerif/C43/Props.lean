import BfeVerif.C43.Proofs
/-!
  C43 — CBC padding removal accepts exactly valid padding.
  Property theorems only (helper lemmas are in `Proofs.lean`).
-/
namespace BfeVerif.C43

/-- What the loop computes, for every payload shorter than 2^31 bytes (TLS records are < 2^15). -/
theorem C43_good_iff (l : List (BitVec 8)) (hlen : l.length < 2 ^ 31) :
    (removePadding l).2 = 255#8 ↔ ValidPad l := by
  unfold removePadding ValidPad
  by_cases h0 : l.length < 1
  · simp [h0]; omega
  · simp only [h0, if_false]
    rw [foldBits_eq]
    have hp := (l.getD (l.length - 1) 0).isLt
    generalize hpdef : l.getD (l.length - 1) 0 = p at *
    have hgood0 : msbMask (BitVec.ofNat 64 (l.length - 1) - p.zeroExtend 64) =
        if l.length - 1 < p.toNat then 0#8 else 255#8 := by
      rw [msbMask_eq, zext_eq, sub_bit31 _ _ (by omega) (by omega)]; simp
    constructor
    · intro h
      have h1 : (List.range (toCheck l)).foldl (fun g i => g &&& ~~~(diffAt l p i))
          (msbMask (BitVec.ofNat 64 (l.length - 1) - p.zeroExtend 64)) = 255#8 := by
        revert h; split
        · intro _; assumption
        · intro h; exact absurd h (by decide)
      rw [foldl_andnot, hgood0] at h1
      obtain ⟨hg, hall⟩ := h1
      have hle : ¬ (l.length - 1 < p.toNat) := by
        intro hc; simp [hc] at hg
      refine ⟨by omega, by omega, fun i hi => ?_⟩
      have hic : i < toCheck l := by unfold toCheck; split <;> omega
      have := (diffAt_zero l p i (by omega)).mp (hall i hic)
      rcases this with h | h
      · omega
      · exact h
    · rintro ⟨hpos, hle, hall⟩
      have h1 : (List.range (toCheck l)).foldl (fun g i => g &&& ~~~(diffAt l p i))
          (msbMask (BitVec.ofNat 64 (l.length - 1) - p.zeroExtend 64)) = 255#8 := by
        rw [foldl_andnot, hgood0]
        refine ⟨by simp; omega, fun i hi => ?_⟩
        have hi31 : i < 2 ^ 31 := by unfold toCheck at hi; split at hi <;> omega
        rw [diffAt_zero l p i hi31]
        by_cases hip : i ≤ p.toNat
        · exact Or.inr (hall i hip)
        · exact Or.inl (by omega)
      simp [h1]

/-- The verdict byte is always 255 or 0 (nothing in between leaks). -/
theorem C43_good_two_valued (l : List (BitVec 8)) :
    (removePadding l).2 = 255#8 ∨ (removePadding l).2 = 0#8 := by
  unfold removePadding
  split
  · right; rfl
  · simp only []; rw [foldBits_eq]; split <;> simp

/-- Valid padding: exactly `p+1` bytes are removed (including `p = 255`, no byte wrap-around). -/
theorem C43_removes_exactly (l : List (BitVec 8)) (hlen : l.length < 2 ^ 31) (hv : ValidPad l) :
    (removePadding l).1 = l.take (l.length - ((l.getD (l.length - 1) 0).toNat + 1)) := by
  have hg := (C43_good_iff l hlen).mpr hv
  unfold removePadding at hg ⊢
  have h0 : ¬ l.length < 1 := by have := hv.1; omega
  simp only [h0, if_false] at hg ⊢
  rw [hg]
  have : ∀ x : BitVec 8, 255#8 &&& x = x := by decide
  rw [this]

/-- Invalid padding: only the length byte is dropped, so every other byte stays under the MAC. -/
theorem C43_invalid_keeps (l : List (BitVec 8)) (hlen : l.length < 2 ^ 31) (hv : ¬ ValidPad l) :
    (removePadding l).1 = l.take (l.length - 1) := by
  have hg : (removePadding l).2 = 0#8 := by
    rcases C43_good_two_valued l with h | h
    · exact absurd ((C43_good_iff l hlen).mp h) hv
    · exact h
  unfold removePadding at hg ⊢
  by_cases h0 : l.length < 1
  · simp only [h0, if_true]
    have : l = [] := List.eq_nil_of_length_eq_zero (by omega)
    subst this; rfl
  · simp only [h0, if_false] at hg ⊢
    rw [hg]
    have : ∀ x : BitVec 8, 0#8 &&& x = 0#8 := by decide
    rw [this]; rfl

theorem validPadB_iff (l : List (BitVec 8)) : validPadB l = true ↔ ValidPad l := by
  unfold validPadB ValidPad
  simp only [Bool.and_eq_true, decide_eq_true_eq, List.all_eq_true, List.mem_range, beq_iff_eq]
  constructor
  · rintro ⟨⟨h1, h2⟩, h3⟩; exact ⟨h1, h2, fun i hi => h3 i (by omega)⟩
  · rintro ⟨h1, h2, h3⟩; exact ⟨⟨h1, h2⟩, fun i hi => h3 i (by omega)⟩

/-- **C43 (full strength)**: the model of the code equals the executable specification that the
    driver uses as oracle on the implementation's output. -/
theorem C43_exact (l : List (BitVec 8)) (hlen : l.length < 2 ^ 31) :
    removePadding l = specResult l := by
  unfold specResult
  by_cases h0 : l.length < 1
  · simp [h0, removePadding]
  · simp only [h0, if_false]
    by_cases hv : validPadB l = true
    · simp only [hv, if_true]
      have hV := (validPadB_iff l).mp hv
      exact Prod.ext (C43_removes_exactly l hlen hV) ((C43_good_iff l hlen).mpr hV)
    · simp only [hv]
      have hV : ¬ ValidPad l := fun h => hv ((validPadB_iff l).mpr h)
      refine Prod.ext (C43_invalid_keeps l hlen hV) ?_
      rcases C43_good_two_valued l with h | h
      · exact absurd ((C43_good_iff l hlen).mp h) hV
      · exact h

/-- SSL 3.0 variant: the verdict is 255 exactly when the announced padding fits; then exactly
    `p+1` bytes are removed (no byte wrap-around for `p = 255`), otherwise nothing is removed. -/
theorem C43_ssl30_exact (l : List (BitVec 8)) :
    removePaddingSSL30 l = specResultSSL30 l ∧
    ((removePaddingSSL30 l).2 = 255#8 ↔ ValidPadSSL30 l) := by
  unfold removePaddingSSL30 specResultSSL30 ValidPadSSL30
  generalize (l.getD (l.length - 1) 0).toNat = p
  by_cases h0 : l.length < 1
  · have h1 : ¬ (0 < l.length) := by omega
    simp [h0, h1]
  · have hpos : 0 < l.length := by omega
    by_cases hp : p + 1 > l.length
    · have h2 : ¬ (p + 1 ≤ l.length) := by omega
      simp [h0, hp, hpos, h2]
    · have h2 : p + 1 ≤ l.length := by omega
      simp [h0, hp, hpos, h2]

/-- The dispatch in `halfConn.decrypt`: for every protocol version the record verdict computed from the
    code's unpadder equals the one computed from the specification's. -/
theorem C43_dispatch_exact (vers n : Nat) (P : List (BitVec 8)) (hlen : P.length < 2 ^ 31) :
    decryptVerdict vers n P = specDecrypt vers n P := by
  unfold decryptVerdict specDecrypt unpadFor specUnpadFor
  by_cases h : vers = 0x0300
  · simp only [h, if_true, (C43_ssl30_exact P).1]
  · simp only [h, if_false, C43_exact P hlen]

theorem verdictOf_true (r : List (BitVec 8) × BitVec 8) (n : Nat) :
    (verdictOf r n).1 = true ↔ macSize ≤ r.1.length ∧ r.1.length - macSize = n ∧ r.2 = 255#8 := by
  unfold verdictOf macSize
  by_cases h1 : r.1.length < 20
  · simp only [h1, if_true]; constructor
    · intro h; simp at h
    · rintro ⟨h, _⟩; omega
  · simp only [h1, if_false]
    by_cases h2 : r.1.length - 20 = n ∧ r.2 = 255#8
    · rw [if_pos h2]; exact ⟨fun _ => ⟨by omega, h2⟩, fun _ => rfl⟩
    · rw [if_neg h2]; constructor
      · intro h; simp at h
      · rintro ⟨_, h⟩; exact absurd h h2

/-- For TLS 1.0 and later (every version other than SSL 3.0) a CBC record is accepted only if its padding
    is valid in the TLS sense — every padding byte is checked — and then exactly the data is delivered. -/
theorem C43_tls_record_accept_iff (vers n : Nat) (P : List (BitVec 8)) (hlen : P.length < 2 ^ 31)
    (hv : vers ≠ 0x0300) :
    (decryptVerdict vers n P).1 = true ↔
      ValidPad P ∧ n + macSize + ((P.getD (P.length - 1) 0).toNat + 1) = P.length := by
  rw [C43_dispatch_exact vers n P hlen]
  unfold specDecrypt specUnpadFor
  simp only [hv, if_false]
  rw [verdictOf_true]
  unfold specResult macSize
  by_cases h0 : P.length < 1
  · have hnv : ¬ ValidPad P := fun h => by have := h.1; omega
    simp only [h0, if_true]
    constructor
    · rintro ⟨_, _, h⟩; simp at h
    · intro h; exact absurd h.1 hnv
  · simp only [h0, if_false]
    by_cases hb : validPadB P = true
    · have hV := (validPadB_iff P).mp hb
      have hfit := hV.2.1
      simp only [hb, if_true, List.length_take]
      constructor
      · rintro ⟨h1, h2, _⟩; exact ⟨hV, by omega⟩
      · rintro ⟨_, he⟩; exact ⟨by omega, by omega, rfl⟩
    · have hV : ¬ ValidPad P := fun h => hb ((validPadB_iff P).mpr h)
      simp only [hb]
      constructor
      · rintro ⟨_, _, h⟩; simp at h
      · intro h; exact absurd h.1 hV

/-- SSL 3.0 records: accepted exactly when the announced padding fits and leaves data + MAC. -/
theorem C43_ssl30_record_accept_iff (n : Nat) (P : List (BitVec 8)) (hlen : P.length < 2 ^ 31) :
    (decryptVerdict 0x0300 n P).1 = true ↔
      ValidPadSSL30 P ∧ n + macSize + ((P.getD (P.length - 1) 0).toNat + 1) = P.length := by
  rw [C43_dispatch_exact 0x0300 n P hlen]
  unfold specDecrypt specUnpadFor
  simp only [if_true]
  rw [verdictOf_true]
  unfold specResultSSL30 ValidPadSSL30 macSize
  generalize (P.getD (P.length - 1) 0).toNat = p
  by_cases h : 0 < P.length ∧ p + 1 ≤ P.length
  · have hc : (decide (0 < P.length) && decide (p + 1 ≤ P.length)) = true := by
      rw [Bool.and_eq_true]; exact ⟨decide_eq_true h.1, decide_eq_true h.2⟩
    rw [if_pos hc]
    simp only [List.length_take]
    constructor
    · rintro ⟨h1, h2, _⟩; exact ⟨h, by omega⟩
    · rintro ⟨_, he⟩; exact ⟨by omega, by omega, rfl⟩
  · have hc : ¬ (decide (0 < P.length) && decide (p + 1 ≤ P.length)) = true := by
      rw [Bool.and_eq_true]; rintro ⟨a, b⟩; exact h ⟨of_decide_eq_true a, of_decide_eq_true b⟩
    rw [if_neg hc]
    constructor
    · rintro ⟨_, _, h2⟩; simp at h2
    · intro h2; exact absurd h2.1 h

example : removePaddingSSL30 [7#8, 8#8, 9#8, 1#8] = ([7#8, 8#8], 255#8) := by decide
example : (removePaddingSSL30 [7#8, 5#8]).2 = 0#8 := by decide

/-! Non-vacuity and the former witnesses (inputs the unfixed code accepted). -/
example : ValidPad [1#8, 2#8, 3#8, 2#8, 2#8, 2#8] := by
  refine ⟨by decide, by decide, ?_⟩
  intro i hi
  have : i = 0 ∨ i = 1 ∨ i = 2 := by simp at hi; omega
  rcases this with h | h | h <;> subst h <;> decide
example : (removePadding [9#8, 1#8]).2 = 0#8 := by decide
example : (removePadding [7#8, 2#8, 2#8]).2 = 0#8 := by decide
example : removePadding [1#8, 1#8] = ([], 255#8) := by decide

end BfeVerif.C43
