import BfeVerif.Common.Proto
import BfeVerif.C43.Model
/-! C43 driver.  op = `rp <hex payload>`; result = `<good> <hex of remaining payload>` -/
namespace BfeVerif.C43
open BfeVerif.Proto

def render (r : List (BitVec 8) × BitVec 8) : String :=
  toString r.2.toNat ++ " " ++ hexField (r.1.map fun b => UInt8.ofNat b.toNat)

def run (op impl : String) : Ans :=
  match op.splitOn " " with
  | ["rp", hx] =>
    match bytesOfHex hx with
    | none => { model := "bad-op", verdict := "skip" }
    | some bs =>
      let l := bs.map fun b => BitVec.ofNat 8 b.toNat
      let m := render (removePadding l)
      let s := render (specResult l)
      let p := (l.getD (l.length - 1) 0).toNat
      let cls :=
        if l.isEmpty then "empty"
        else if validPadB l then (if p + 1 = l.length then "valid-full" else if p = 255 then "valid-255" else "valid")
        else if p + 1 > l.length then "too-long"
        else if p + 1 = l.length then "bad-full" else if p = 255 then "bad-255" else "bad"
      { model := m
        verdict := if impl == s then "ok" else "FAIL:" ++ cls
        tags := [cls] ++ (if l.length ≥ 2 then ["nt"] else []) }
  | ["rp30", hx] =>
    match bytesOfHex hx with
    | none => { model := "bad-op", verdict := "skip" }
    | some bs =>
      let l := bs.map fun b => BitVec.ofNat 8 b.toNat
      let m := render (removePaddingSSL30 l)
      let s := render (specResultSSL30 l)
      let p := (l.getD (l.length - 1) 0).toNat
      let cls := if l.isEmpty then "ssl30-empty" else if p + 1 ≤ l.length then (if p = 255 then "ssl30-valid-255" else "ssl30-valid") else "ssl30-too-long"
      { model := m, verdict := if impl == s then "ok" else "FAIL:" ++ cls, tags := [cls] ++ (if l.length ≥ 2 then ["nt"] else []) }
  | ["dec", vh, ns, hx] =>
    match bytesOfHex vh, ns.toNat?, bytesOfHex hx with
    | some [v1, v0], some n, some bs =>
      let vers := v1.toNat * 256 + v0.toNat
      let l := bs.map fun b => BitVec.ofNat 8 b.toNat
      let m := decryptVerdict vers n l
      let s := specDecrypt vers n l
      let show_ (r : Bool × Nat) : String := if r.1 then "1 " ++ toString r.2 else "0"
      let vtag := if vers = 0x0300 then "ssl30" else if vers = 0x0301 then "tls10" else if vers = 0x0302 then "tls11" else "tls12"
      let cls := if s.1 then "dec-valid-" ++ vtag else
        (if (specUnpadFor vers l).2 = 255#8 then "dec-split-mismatch-" else "dec-badpad-") ++ vtag
      { model := show_ m
        verdict := if impl == show_ s then "ok" else if s.1 then "FAIL:dispatch-rejects-valid-" ++ vtag else "FAIL:dispatch-accepts-invalid-" ++ vtag
        tags := [cls, "nt"] }
    | _, _, _ => { model := "bad-op", verdict := "skip" }
  | _ => { model := "bad-op", verdict := "skip" }

end BfeVerif.C43
