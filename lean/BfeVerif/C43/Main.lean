import BfeVerif.C43.Driver
def main : IO Unit := BfeVerif.Proto.driverMain BfeVerif.C43.run
