/-
  C43 — model of `removePadding` (bfe_tls/conn.go), the constant-time CBC padding check.
  Core-only.  Mirrors the Go code line by line (after fix dfe2297):

    paddingLen := payload[len-1]
    t := uint(len-1) - uint(paddingLen);  good := byte(int32(^t) >> 31)
    toCheck := 256; if toCheck > len { toCheck = len }
    for i := 0; i < toCheck; i++ {
        t := uint(paddingLen) - uint(i);  mask := byte(int32(^t) >> 31)
        b := payload[len-1-i];            good &^= mask&paddingLen ^ mask&b }
    good &= good<<4; good &= good<<2; good &= good<<1; good = uint8(int8(good) >> 7)
    toRemove := int(good&paddingLen) + 1
    return payload[:len-toRemove], good
-/
namespace BfeVerif.C43

/-- `byte(int32(^t) >> 31)` for a Go `uint` (64 bit) `t`. -/
def msbMask (t : BitVec 64) : BitVec 8 :=
  (((~~~t).truncate 32).sshiftRight 31).truncate 8

/-- the and-fold of all eight bits followed by `uint8(int8(good) >> 7)`. -/
def foldBits (g : BitVec 8) : BitVec 8 :=
  let g := g &&& (g <<< 4)
  let g := g &&& (g <<< 2)
  let g := g &&& (g <<< 1)
  g.sshiftRight 7

/-- the expression and-not-ed out of `good` in iteration `i`. -/
def diffAt (l : List (BitVec 8)) (p : BitVec 8) (i : Nat) : BitVec 8 :=
  let t : BitVec 64 := p.zeroExtend 64 - BitVec.ofNat 64 i
  let mask := msbMask t
  let b := l.getD (l.length - 1 - i) 0
  (mask &&& p) ^^^ (mask &&& b)

def toCheck (l : List (BitVec 8)) : Nat := if 256 > l.length then l.length else 256

def removePadding (l : List (BitVec 8)) : List (BitVec 8) × BitVec 8 :=
  if l.length < 1 then (l, 0)
  else
    let n := l.length
    let p := l.getD (n - 1) 0
    let t : BitVec 64 := BitVec.ofNat 64 (n - 1) - p.zeroExtend 64
    let good0 := msbMask t
    let good1 := (List.range (toCheck l)).foldl (fun g i => g &&& ~~~(diffAt l p i)) good0
    let good := foldBits good1
    let toRemove := (good &&& p).toNat + 1
    (l.take (n - toRemove), good)

/-- Specification: the payload ends in `p+1` bytes all equal to `p` (TLS 1.x CBC padding). -/
def ValidPad (l : List (BitVec 8)) : Prop :=
  0 < l.length ∧
  (l.getD (l.length - 1) 0).toNat + 1 ≤ l.length ∧
  ∀ i, i ≤ (l.getD (l.length - 1) 0).toNat → l.getD (l.length - 1 - i) 0 = l.getD (l.length - 1) 0

/-- executable version of the specification, used by the driver as oracle -/
def validPadB (l : List (BitVec 8)) : Bool :=
  decide (0 < l.length) &&
  decide ((l.getD (l.length - 1) 0).toNat + 1 ≤ l.length) &&
  (List.range ((l.getD (l.length - 1) 0).toNat + 1)).all
    (fun i => l.getD (l.length - 1 - i) 0 == l.getD (l.length - 1) 0)

/-- what the specification says the result must be -/
def specResult (l : List (BitVec 8)) : List (BitVec 8) × BitVec 8 :=
  if l.length < 1 then (l, 0)
  else if validPadB l then (l.take (l.length - ((l.getD (l.length - 1) 0).toNat + 1)), 255)
  else (l.take (l.length - 1), 0)

/-- `removePaddingSSL30` (SSL 3.0: the padding bytes are random, only the length byte counts):
      paddingLen := int(payload[len-1]) + 1;  if paddingLen > len { return payload, 0 }
      return payload[:len-paddingLen], 255 -/
def removePaddingSSL30 (l : List (BitVec 8)) : List (BitVec 8) × BitVec 8 :=
  if l.length < 1 then (l, 0)
  else
    let paddingLen := (l.getD (l.length - 1) 0).toNat + 1
    if paddingLen > l.length then (l, 0)
    else (l.take (l.length - paddingLen), 255)

/-- SSL 3.0 specification: the last byte p announces p+1 bytes of padding (length byte included);
    valid iff they fit. -/
def ValidPadSSL30 (l : List (BitVec 8)) : Prop :=
  0 < l.length ∧ (l.getD (l.length - 1) 0).toNat + 1 ≤ l.length

def specResultSSL30 (l : List (BitVec 8)) : List (BitVec 8) × BitVec 8 :=
  if decide (0 < l.length) && decide ((l.getD (l.length - 1) 0).toNat + 1 ≤ l.length)
  then (l.take (l.length - ((l.getD (l.length - 1) 0).toNat + 1)), 255)
  else (l, 0)

/-- The caller, `halfConn.decrypt` (CBC arm), after `CryptBlocks`:
      if hc.version == VersionSSL30 { payload, paddingGood = removePaddingSSL30(payload) }
      else                          { payload, paddingGood = removePadding(payload) }
      …  if len(payload) < macSize { return false }
      n := len(payload) - macSize;  localMAC := MAC(seq, header(n), payload[:n])
      if localMAC ≠ payload[n:] || paddingGood != 255 { return false }
    The harness hook places the genuine MAC of `P[:n]` (header length `n`) at `P[n:n+20]`, so the MAC
    comparison succeeds exactly when the unpadder leaves `n + 20` bytes (assumption: HMAC-SHA1 does not
    collide on the other splits).  Result: (accepted, application payload length). -/
def macSize : Nat := 20

def unpadFor (vers : Nat) (P : List (BitVec 8)) : List (BitVec 8) × BitVec 8 :=
  if vers = 0x0300 then removePaddingSSL30 P else removePadding P

def verdictOf (r : List (BitVec 8) × BitVec 8) (n : Nat) : Bool × Nat :=
  if r.1.length < macSize then (false, 0)
  else if r.1.length - macSize = n ∧ r.2 = 255#8 then (true, n) else (false, 0)

def decryptVerdict (vers n : Nat) (P : List (BitVec 8)) : Bool × Nat := verdictOf (unpadFor vers P) n

def specUnpadFor (vers : Nat) (P : List (BitVec 8)) : List (BitVec 8) × BitVec 8 :=
  if vers = 0x0300 then specResultSSL30 P else specResult P

def specDecrypt (vers n : Nat) (P : List (BitVec 8)) : Bool × Nat := verdictOf (specUnpadFor vers P) n

end BfeVerif.C43
