import BfeVerif.C43.Model
/-! Lemmas for C43 (core Lean only). -/
namespace BfeVerif.C43

theorem ones8 (i : Nat) (hi : i < 8) : (255#8)[i] = true := by
  have : i = 0 ∨ i = 1 ∨ i = 2 ∨ i = 3 ∨ i = 4 ∨ i = 5 ∨ i = 6 ∨ i = 7 := by omega
  rcases this with h|h|h|h|h|h|h|h <;> subst h <;> decide +revert

/-- the `^t >> 31` idiom is the test of bit 31 -/
theorem msbMask_eq (t : BitVec 64) :
    msbMask t = if t.getLsbD 31 then 0#8 else 255#8 := by
  unfold msbMask
  ext i hi
  by_cases h : t.getLsbD 31
  · simp [BitVec.getLsbD_sshiftRight, BitVec.msb_eq_getLsbD_last, h]
    intro _ h2
    have : i = 0 := by omega
    subst this; simpa using h
  · have h' : t.getLsbD 31 = false := by simpa using h
    have h31 : t[31] = false := by rw [← BitVec.getLsbD_eq_getElem]; exact h'
    have hi32 : ¬ (32 ≤ i) := by omega
    by_cases h0 : i = 0
    · subst h0; simp [BitVec.getLsbD_sshiftRight, h31]
    · have : ¬ (31 + i < 32) := by omega
      simp [BitVec.getLsbD_sshiftRight, BitVec.msb_eq_getLsbD_last, h31, this, hi32, ones8 i hi]

theorem foldBits_eq (g : BitVec 8) : foldBits g = if g = 255#8 then 255#8 else 0#8 := by
  revert g; decide

theorem testBit31_small (x : Nat) (h : x < 2 ^ 31) : x.testBit 31 = false := by
  rw [Nat.testBit_eq_decide_div_mod_eq]
  simp; omega

theorem testBit31_neg (d : Nat) (h0 : 0 < d) (h : d ≤ 2 ^ 31) : (2 ^ 64 - d).testBit 31 = true := by
  rw [Nat.testBit_eq_decide_div_mod_eq]
  simp; omega

/-- `uint(a) - uint(b)` has bit 31 clear iff `b ≤ a`, when both are below 2^31 -/
theorem sub_bit31 (a b : Nat) (ha : a < 2 ^ 31) (hb : b < 2 ^ 31) :
    (BitVec.ofNat 64 a - BitVec.ofNat 64 b).getLsbD 31 = decide (a < b) := by
  rw [BitVec.getLsbD, BitVec.toNat_sub, BitVec.toNat_ofNat, BitVec.toNat_ofNat]
  have ha' : a % 2 ^ 64 = a := Nat.mod_eq_of_lt (by omega)
  have hb' : b % 2 ^ 64 = b := Nat.mod_eq_of_lt (by omega)
  rw [ha', hb']
  by_cases hab : a < b
  · have : (2 ^ 64 - b + a) % 2 ^ 64 = 2 ^ 64 - (b - a) := by omega
    rw [this, testBit31_neg (b - a) (by omega) (by omega)]; simp [hab]
  · have : (2 ^ 64 - b + a) % 2 ^ 64 = a - b := by omega
    rw [this, testBit31_small (a - b) (by omega)]; simp [hab]

theorem zext_eq (p : BitVec 8) : p.zeroExtend 64 = BitVec.ofNat 64 p.toNat := by
  apply BitVec.eq_of_toNat_eq
  simp [BitVec.toNat_setWidth]

theorem and_not_eq_ones (a b : BitVec 8) : a &&& ~~~b = 255#8 ↔ a = 255#8 ∧ b = 0#8 := by
  constructor
  · intro h
    have ha : a = 255#8 := by
      ext i hi
      have := congrArg (fun v => v.getLsbD i) h
      simp only [BitVec.getLsbD_and] at this
      have h1 : (255#8).getLsbD i = true := by
        rw [BitVec.getLsbD_eq_getElem hi]; exact ones8 i hi
      rw [h1] at this
      rw [ones8 i hi]
      rw [← BitVec.getLsbD_eq_getElem hi]
      revert this; cases a.getLsbD i <;> simp
    have hb : b = 0#8 := by
      ext i hi
      have := congrArg (fun v => v.getLsbD i) h
      simp only [BitVec.getLsbD_and, BitVec.getLsbD_not] at this
      have h1 : (255#8).getLsbD i = true := by
        rw [BitVec.getLsbD_eq_getElem hi]; exact ones8 i hi
      rw [h1] at this
      rw [← BitVec.getLsbD_eq_getElem hi]
      simp at this ⊢
      exact this.2.2
    exact ⟨ha, hb⟩
  · rintro ⟨rfl, rfl⟩; decide

theorem foldl_andnot (f : Nat → BitVec 8) (g0 : BitVec 8) (k : Nat) :
    (List.range k).foldl (fun g i => g &&& ~~~(f i)) g0 = 255#8 ↔
      g0 = 255#8 ∧ ∀ i, i < k → f i = 0#8 := by
  induction k with
  | zero => simp
  | succ k ih =>
    rw [List.range_succ, List.foldl_append]
    simp only [List.foldl_cons, List.foldl_nil]
    rw [and_not_eq_ones, ih]
    constructor
    · rintro ⟨⟨h0, hall⟩, hk⟩
      refine ⟨h0, fun i hi => ?_⟩
      by_cases h : i = k
      · subst h; exact hk
      · exact hall i (by omega)
    · rintro ⟨h0, hall⟩
      exact ⟨⟨h0, fun i hi => hall i (by omega)⟩, hall k (by omega)⟩

theorem mask_xor_zero (m p b : BitVec 8) (hm : m = 0#8 ∨ m = 255#8) :
    (m &&& p) ^^^ (m &&& b) = 0#8 ↔ (m = 0#8 ∨ p = b) := by
  rcases hm with rfl | rfl
  · simp
  · have h1 : ∀ x : BitVec 8, 255#8 &&& x = x := by decide
    rw [h1, h1]
    constructor
    · intro h; right; exact BitVec.xor_eq_zero_iff.mp h
    · rintro (h | h)
      · exact absurd h (by decide)
      · subst h; simp

/-- iteration `i` contributes nothing iff `i` is beyond the padding or the byte equals `p` -/
theorem diffAt_zero (l : List (BitVec 8)) (p : BitVec 8) (i : Nat) (hi : i < 2 ^ 31) :
    diffAt l p i = 0#8 ↔ (p.toNat < i ∨ l.getD (l.length - 1 - i) 0 = p) := by
  unfold diffAt
  simp only []
  have hp := p.isLt
  have hbit := sub_bit31 p.toNat i (by omega) hi
  rw [← zext_eq] at hbit
  have hm : msbMask (p.zeroExtend 64 - BitVec.ofNat 64 i) = if p.toNat < i then 0#8 else 255#8 := by
    rw [msbMask_eq, hbit]; simp
  rw [hm]
  by_cases hlt : p.toNat < i
  · simp [hlt]
  · simp only [hlt, if_false]
    rw [mask_xor_zero _ _ _ (Or.inr rfl)]
    constructor
    · rintro (h | h)
      · exact absurd h (by decide)
      · exact Or.inr h.symm
    · rintro (h | h)
      · exact h.elim
      · exact Or.inr h.symm

end BfeVerif.C43
