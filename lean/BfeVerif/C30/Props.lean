import BfeVerif.C30.Sync
/-!
  C30 — HPACK encoding round-trips and respects table limits.  Property theorems only.
-/
namespace BfeVerif.C30

/-- integers: what `appendVarInt` writes with an `n`-bit prefix, `readVarInt` reads back, leaving the rest
    (every value below 2^63; from 2^63 + 2^n - 1 on the decoder reports an overflow instead). -/
theorem C30_varint_roundtrip (n i : Nat) (rest : List Nat) (hi : i < 2 ^ 63) :
    readVarInt n (appendVarInt n i ++ rest) = .ok (i, rest) :=
  readVarInt_append n i rest hi

/-- dynamic table: after `add` the size is the sum of the entries and within `maxSize` -/
theorem C30_table_bound_add (t : DynTab) (f : HF) (h : t.WF) :
    (t.add f).WF ∧ (t.add f).size ≤ (t.add f).maxSize ∧ (t.add f).maxSize = t.maxSize := by
  have hw : DynTab.WF { t with ents := t.ents ++ [f], size := t.size + f.size } := by
    unfold DynTab.WF at *; simp [sumSizes_append, sumSizes, h]
  have := evict_WF _ hw
  exact ⟨this.1, this.2, rfl⟩

/-- dynamic table: after `setMaxSize v` (SETTINGS change or size update) likewise, with `maxSize = v` -/
theorem C30_table_bound_setMaxSize (t : DynTab) (v : Nat) (h : t.WF) :
    (t.setMaxSize v).WF ∧ (t.setMaxSize v).size ≤ v ∧ (t.setMaxSize v).maxSize = v := by
  have hw : DynTab.WF { t with maxSize := v } := h
  have := evict_WF _ hw
  exact ⟨this.1, this.2, rfl⟩

/-! Facts about the tables extracted from tables.go / huffman.go on this run (finite, checked by the kernel). -/

/-- the 256 codes and EOS are pairwise prefix-free (none is a prefix of another) -/
theorem C30_table_prefix_free : pfCheck 31 (allCodes T) = true := by decide +kernel

/-- from the root of the decoding trie, ≤ 7 one-bits (zero filled) never reach a nil child or a complete code -/
theorem C30_table_pad_ok : padOk T = true := by decide +kernel

/-- 256 codes; the EOS constant of AppendHuffmanString is thirty one-bits; the static table has 61 entries -/
theorem C30_table_shape : T.eos = List.replicate 30 true ∧ T.static.length = 61 := by decide +kernel

theorem C30_table_codes_length : T.codes.length = 256 := by
  show (BfeVerif.Generated.C30.huffCodes.map _).length = 256
  rw [List.length_map]; decide +kernel

theorem C30_tables_ok : TablesOk T := ⟨C30_table_prefix_free, C30_table_pad_ok, C30_table_shape.1⟩

/-- pairwise prefix-freeness as a statement about bit strings (what the finite check means) -/
theorem C30_codes_prefix_free : (allCodes T).Pairwise NoPre := pfCheck_pairwise 31 _ C30_table_prefix_free

/-- **Huffman round trip**: the decoder (byte-wise trie walk + tail loop, as coded) inverts the encoder
    on every octet string. -/
theorem C30_huffman_roundtrip (s : List Nat) (hs : ∀ c ∈ s, c < 256) :
    huffmanDecode T 0 (huffEncode T s) = .ok s :=
  huffman_roundtrip C30_tables_ok s (by rw [C30_table_codes_length]; exact hs)

/-- `HuffmanEncodeLength` is the length of what `AppendHuffmanString` writes (the announced string length) -/
theorem C30_huffman_length (s : List Nat) : (huffEncode T s).length = huffEncodeLength T s :=
  huffEncode_length C30_tables_ok s

/-- **string literals round-trip**: `readString (appendHpackString s ++ rest) = (s, rest)`, whichever of the
    raw / Huffman forms the encoder picks. -/
theorem C30_string_roundtrip (s rest : List Nat) (hs : ∀ c ∈ s, c < 256) (hlen : s.length < 2 ^ 63) :
    readString T 0 (appendHpackString T s ++ rest) = .ok (s, rest) :=
  readString_append C30_tables_ok s rest (by rw [C30_table_codes_length]; exact hs) hlen

/-- **C30, encoder/decoder synchronisation over whole histories.**  Encoder = NewEncoder, decoder =
    NewDecoder(4096) with SetAllowedMaxDynamicTableSize(a).  For EVERY sequence of WriteField /
    SetMaxDynamicTableSize / SetMaxDynamicTableSizeLimit / end-of-block operations (fields with byte octets,
    limit never above `a`, a < 2^32), every block decodes without error to exactly the fields written into it
    (names, values, never-index flags, in order), both tables stay within their maximum, the decoder's maximum
    within `a`, and whenever the encoder owes no size update the two dynamic tables are equal.
    The invariant behind it (`Sync`) is the size-update bookkeeping: not pending ⇒ minSize is reset and the tables
    are equal; pending ⇒ the encoder's table is the decoder's evicted down to minSize ≤ maxSize, which is what the
    next WriteField announces (after the C30 fix of SetMaxDynamicTableSizeLimit; emit never fails). -/
theorem C30_sync (a : Nat) (ops : List Op) (ha0 : BfeVerif.Generated.C30.initialHeaderTableSize ≤ a)
    (ha : a < 2 ^ 32) (hops : ∀ op ∈ ops, OpValid a op) :
    AllGood a (runHist T a ops).obs (expected ops []) := by
  have hau : a ≤ uint32Max := by unfold uint32Max; omega
  have hst : T.static.length < 2 ^ 62 := by rw [C30_table_shape.2]; decide
  have hops' : ∀ op ∈ ops, OpOk T a op := by
    intro op hop
    have := hops op hop
    cases op with
    | field f =>
      obtain ⟨⟨h1, h2⟩, ⟨h3, h4⟩⟩ := this
      exact ⟨⟨by rw [C30_table_codes_length]; exact h1, by omega⟩, ⟨by rw [C30_table_codes_length]; exact h3, by omega⟩⟩
    | setLimit v => exact this
    | setMax v => trivial
    | endBlock => trivial
  have g := setMaxSize_good ({} : DynTab) BfeVerif.Generated.C30.initialHeaderTableSize rfl
  have pr := setMaxSize_pair ({} : DynTab) BfeVerif.Generated.C30.initialHeaderTableSize
  have hinit : Inv T a (Hist.init a) [] := by
    refine ⟨rfl, rfl, _, Chain.nil _, ?_⟩
    exact { dwf := g.1, dle := g.2, dmaxa := by show (DynTab.setMaxSize {} _).maxSize ≤ a; rw [pr.2]; exact ha0,
            dallowed := rfl, dstr := rfl,
            elim := ha0, emax := by show (DynTab.setMaxSize {} _).maxSize ≤ _; rw [pr.2]; exact Nat.le_refl _,
            np := fun _ => ⟨rfl, rfl⟩, p := (fun hc => by cases hc) }
  obtain ⟨obs', h1, h2⟩ := sync_history C30_tables_ok hst hau ops (Hist.init a) [] hinit hops'
  unfold runHist
  rw [h1]
  simpa [Hist.init] using h2

/-! ### RFC 7541 §4.2 on the encoder's side: size updates only in front of the first field written after a change -/

/-- what `WriteField` writes is the pending size update(s) followed by ONE field representation, whose first octet
    is never that of a size update (001xxxxx) … -/
theorem C30_field_repr_not_update (e : Enc) (f : HF) :
    (e.writeField T f).2 = e.flush.2 ++ (e.flush.1.encodeField T f).2 ∧
    ∃ b r, (e.flush.1.encodeField T f).2 = b :: r ∧ ¬ (32 ≤ b ∧ b < 64) := by
  refine ⟨rfl, ?_⟩
  generalize e.flush.1 = e1
  unfold Enc.encodeField
  simp only []
  by_cases hm : (searchTable T e1.tab.ents f).2 = true
  · simp only [hm, if_true]
    obtain ⟨b, r, hbr, hb⟩ := appendVarInt_head 7 (searchTable T e1.tab.ents f).1
    exact ⟨b + 128, r, by simp [hbr, orFirst], by omega⟩
  · have hm' : (searchTable T e1.tab.ents f).2 = false := by simpa using hm
    simp only [hm', Bool.false_eq_true, if_false]
    generalize hidx : (!f.sensitive && decide (f.size ≤ e1.tab.maxSize)) = indexing
    have hind : indexing = true → f.sensitive = false := by
      intro hi; rw [← hidx] at hi; simp at hi; exact hi.1
    obtain ⟨tb, n, it, hk, htb, hn, _, _⟩ := litKind_of indexing f.sensitive hind
    rw [htb, hn]
    by_cases h0 : (searchTable T e1.tab.ents f).1 = 0
    · simp only [h0, if_true]
      refine ⟨tb, appendHpackString T f.name ++ appendHpackString T f.value, by simp, ?_⟩
      rcases hk with ⟨rfl, _, _⟩ | ⟨rfl, _, _⟩ | ⟨rfl, _, _⟩ <;> omega
    · simp only [h0, if_false]
      obtain ⟨b, r, hbr, hb⟩ := appendVarInt_head n (searchTable T e1.tab.ents f).1
      refine ⟨b + tb, r ++ appendHpackString T f.value, by simp [hbr, orFirst], ?_⟩
      rcases hk with ⟨rfl, rfl, _⟩ | ⟨rfl, rfl, _⟩ | ⟨rfl, rfl, _⟩ <;> omega

/-- … and afterwards nothing is pending, so the next `WriteField` (no Set… call in between) writes no size update:
    updates can only stand in front of the first field written after a size change. -/
theorem C30_no_update_unless_pending (e : Enc) (f : HF) :
    (e.writeField T f).1.pending = false ∧ (e.pending = false → e.flush.2 = []) := by
  constructor
  · have hfl : e.flush.1.pending = false := by
      unfold Enc.flush; split
      · rfl
      · rename_i h; simpa using h
    show (e.flush.1.encodeField T f).1.pending = false
    generalize e.flush.1 = e1 at hfl
    unfold Enc.encodeField
    simp only []
    split
    · exact hfl
    · split <;> exact hfl
  · intro h; simp [Enc.flush, h]

/-- non-vacuity / the history that desynchronised the tables before the fix of SetMaxDynamicTableSizeLimit
    (limit 50 evicts, limit 8192, max 4096: only "4096" was announced): now one record per block, all good -/
example : (runHist T 8192 [.field ⟨[120, 45, 97], List.replicate 20 97, false⟩, .endBlock, .setLimit 50, .setLimit 8192,
    .setMax 4096, .field ⟨[120, 45, 98], [98], false⟩, .endBlock]).obs.map (fun o => (o.enc == o.dec, o.fields.length)) =
    [(true, 1), (true, 1)] := by decide +kernel

example : ({ ents := [{ name := [1], value := [2] }], size := 34, maxSize := 40 } : DynTab).WF := rfl
example : huffEncode T [119, 119, 119, 46, 101, 120, 97, 109, 112, 108, 101, 46, 99, 111, 109] =
    [0xf1, 0xe3, 0xc2, 0xe5, 0xf2, 0x3a, 0x6b, 0xa0, 0xab, 0x90, 0xf4, 0xff] := by decide +kernel
example : appendVarInt 5 1337 = [31, 154, 10] := by decide +kernel

end BfeVerif.C30
