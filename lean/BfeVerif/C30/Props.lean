import BfeVerif.C30.Proofs
/-!
  C30 — HPACK encoding round-trips and respects table limits.  Property theorems only.
-/
namespace BfeVerif.C30

/-- integers: what `appendVarInt` writes with an `n`-bit prefix, `readVarInt` reads back, leaving the rest
    (every value below 2^63; from 2^63 + 2^n - 1 on the decoder reports an overflow instead). -/
theorem C30_varint_roundtrip (n i : Nat) (rest : List Nat) (hi : i < 2 ^ 63) :
    readVarInt n (appendVarInt n i ++ rest) = .ok (i, rest) :=
  readVarInt_append n i rest hi

/-- dynamic table: after `add` the size is the sum of the entries and within `maxSize` -/
theorem C30_table_bound_add (t : DynTab) (f : HF) (h : t.WF) :
    (t.add f).WF ∧ (t.add f).size ≤ (t.add f).maxSize ∧ (t.add f).maxSize = t.maxSize := by
  have hw : DynTab.WF { t with ents := t.ents ++ [f], size := t.size + f.size } := by
    unfold DynTab.WF at *; simp [sumSizes_append, sumSizes, h]
  have := evict_WF _ hw
  exact ⟨this.1, this.2, rfl⟩

/-- dynamic table: after `setMaxSize v` (SETTINGS change or size update) likewise, with `maxSize = v` -/
theorem C30_table_bound_setMaxSize (t : DynTab) (v : Nat) (h : t.WF) :
    (t.setMaxSize v).WF ∧ (t.setMaxSize v).size ≤ v ∧ (t.setMaxSize v).maxSize = v := by
  have hw : DynTab.WF { t with maxSize := v } := h
  have := evict_WF _ hw
  exact ⟨this.1, this.2, rfl⟩

/-! Facts about the tables extracted from tables.go / huffman.go on this run (finite, checked by the kernel). -/

/-- the 256 codes and EOS are pairwise prefix-free (none is a prefix of another) -/
theorem C30_table_prefix_free : pfCheck 31 (allCodes T) = true := by decide +kernel

/-- from the root of the decoding trie, ≤ 7 one-bits (zero filled) never reach a nil child or a complete code -/
theorem C30_table_pad_ok : padOk T = true := by decide +kernel

/-- 256 codes; the EOS constant of AppendHuffmanString is thirty one-bits; the static table has 61 entries -/
theorem C30_table_shape : T.eos = List.replicate 30 true ∧ T.static.length = 61 := by decide +kernel

theorem C30_table_codes_length : T.codes.length = 256 := by
  show (BfeVerif.Generated.C30.huffCodes.map _).length = 256
  rw [List.length_map]; decide +kernel

theorem C30_tables_ok : TablesOk T := ⟨C30_table_prefix_free, C30_table_pad_ok, C30_table_shape.1⟩

/-- pairwise prefix-freeness as a statement about bit strings (what the finite check means) -/
theorem C30_codes_prefix_free : (allCodes T).Pairwise NoPre := pfCheck_pairwise 31 _ C30_table_prefix_free

/-- **Huffman round trip**: the decoder (byte-wise trie walk + tail loop, as coded) inverts the encoder
    on every octet string. -/
theorem C30_huffman_roundtrip (s : List Nat) (hs : ∀ c ∈ s, c < 256) :
    huffmanDecode T 0 (huffEncode T s) = .ok s :=
  huffman_roundtrip C30_tables_ok s (by rw [C30_table_codes_length]; exact hs)

/-- `HuffmanEncodeLength` is the length of what `AppendHuffmanString` writes (the announced string length) -/
theorem C30_huffman_length (s : List Nat) : (huffEncode T s).length = huffEncodeLength T s :=
  huffEncode_length C30_tables_ok s

/-- **string literals round-trip**: `readString (appendHpackString s ++ rest) = (s, rest)`, whichever of the
    raw / Huffman forms the encoder picks. -/
theorem C30_string_roundtrip (s rest : List Nat) (hs : ∀ c ∈ s, c < 256) (hlen : s.length < 2 ^ 63) :
    readString T 0 (appendHpackString T s ++ rest) = .ok (s, rest) :=
  readString_append C30_tables_ok s rest (by rw [C30_table_codes_length]; exact hs) hlen

example : ({ ents := [{ name := [1], value := [2] }], size := 34, maxSize := 40 } : DynTab).WF := rfl
example : huffEncode T [119, 119, 119, 46, 101, 120, 97, 109, 112, 108, 101, 46, 99, 111, 109] =
    [0xf1, 0xe3, 0xc2, 0xe5, 0xf2, 0x3a, 0x6b, 0xa0, 0xab, 0x90, 0xf4, 0xff] := by decide +kernel
example : appendVarInt 5 1337 = [31, 154, 10] := by decide +kernel

end BfeVerif.C30
