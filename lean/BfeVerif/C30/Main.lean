import BfeVerif.C30.Driver
def main : IO Unit := BfeVerif.Proto.driverMain BfeVerif.C30.run
