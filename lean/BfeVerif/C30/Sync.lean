import BfeVerif.C30.Proofs
/-!
  Encoder/decoder synchronisation lemmas (core Lean only): eviction algebra, the index space,
  searchTable, one representation at a time, then chains of representations inside `Decoder.Write`.
-/
namespace BfeVerif.C30

/-! ### eviction -/

theorem evictLoop_id (ents : List HF) (size m : Nat) (h : size ≤ m) : evictLoop ents size m = (ents, size) := by
  cases ents with
  | nil => rfl
  | cons e es => simp [evictLoop]; omega

theorem evictLoop_comp (ents : List HF) : ∀ (size a b : Nat),
    evictLoop (evictLoop ents size a).1 (evictLoop ents size a).2 b = evictLoop ents size (min a b) := by
  induction ents with
  | nil => intro size a b; rfl
  | cons e es ih =>
    intro size a b
    by_cases h : size > a
    · have h2 : size > min a b := by omega
      simp only [evictLoop, h, h2, if_true]
      exact ih _ a b
    · have h1 : evictLoop (e :: es) size a = (e :: es, size) := evictLoop_id _ _ _ (by omega)
      rw [h1]
      by_cases hb : b ≤ a
      · rw [Nat.min_eq_right hb]
      · rw [Nat.min_eq_left (by omega), h1]
        exact evictLoop_id _ _ _ (by omega)

theorem sumSizes_ge (l : List HF) : 32 * l.length ≤ sumSizes l := by
  induction l with
  | nil => simp [sumSizes]
  | cons e es ih => simp [sumSizes, HF.size]; omega

/-! ### the index space -/

def allPairs (T : Tables) (ents : List HF) : List (List Nat × List Nat) := T.static ++ dynPairs ents

theorem dynPairs_length (ents : List HF) : (dynPairs ents).length = ents.length := by simp [dynPairs]

theorem at_eq (T : Tables) (d : Dec) (i : Nat) (hi : 1 ≤ i) : d.at T i = (allPairs T d.tab.ents)[i - 1]? := by
  unfold Dec.at allPairs
  have h1 : ¬ i < 1 := by omega
  simp only [h1, if_false]
  by_cases h2 : i > d.tab.ents.length + T.static.length
  · simp only [h2, if_true]
    symm; apply List.getElem?_eq_none
    simp [dynPairs_length]; omega
  · simp only [h2, if_false]
    by_cases h3 : i ≤ T.static.length
    · simp only [h3, if_true]
      rw [List.getElem?_append_left (by omega)]
    · simp only [h3, if_false]
      rw [List.getElem?_append_right (by omega)]
      unfold dynPairs
      rw [List.getElem?_map, List.getElem?_reverse (by omega)]
      congr 2; omega

/-! ### searchTable -/

theorem searchAux_spec (f : HF) : ∀ (l : List (List Nat × List Nat)) (pos i0 : Nat),
    ((searchAux f l pos i0).2 = true → f.sensitive = false ∧
        ∃ j, l[j]? = some (f.name, f.value) ∧ (searchAux f l pos i0).1 = pos + j) ∧
    ((searchAux f l pos i0).2 = false → (searchAux f l pos i0).1 = i0 ∨
        ∃ j v, l[j]? = some (f.name, v) ∧ (searchAux f l pos i0).1 = pos + j) := by
  intro l
  induction l with
  | nil => intro pos i0; simp [searchAux]
  | cons p rest ih =>
    intro pos i0
    obtain ⟨n, v⟩ := p
    have hunf : searchAux f ((n, v) :: rest) pos i0 =
        if n ≠ f.name then searchAux f rest (pos + 1) i0
        else if f.sensitive then searchAux f rest (pos + 1) (if i0 = 0 then pos else i0)
        else if v ≠ f.value then searchAux f rest (pos + 1) (if i0 = 0 then pos else i0)
        else (pos, true) := by rw [searchAux]
    rw [hunf]
    by_cases hn : n ≠ f.name
    · rw [if_pos hn]
      have := ih (pos + 1) i0
      refine ⟨fun h => ?_, fun h => ?_⟩
      · obtain ⟨hs, j, hj, hr⟩ := this.1 h
        exact ⟨hs, j + 1, by simpa using hj, by omega⟩
      · rcases this.2 h with h1 | ⟨j, w, hj, hr⟩
        · exact Or.inl h1
        · exact Or.inr ⟨j + 1, w, by simpa using hj, by omega⟩
    · have hn' : n = f.name := by simpa using hn
      rw [if_neg hn]
      by_cases hs : f.sensitive = true
      · rw [if_pos hs]
        have hi' : (if i0 = 0 then pos else i0) = pos ∧ i0 = 0 ∨ (if i0 = 0 then pos else i0) = i0 := by
          by_cases h0 : i0 = 0
          · exact Or.inl ⟨by rw [if_pos h0], h0⟩
          · exact Or.inr (by rw [if_neg h0])
        generalize (if i0 = 0 then pos else i0) = i' at hi' ⊢
        have := ih (pos + 1) i'
        refine ⟨fun h => ?_, fun h => ?_⟩
        · obtain ⟨hs', _⟩ := this.1 h
          rw [hs] at hs'; cases hs'
        · rcases this.2 h with h1 | ⟨j, w, hj, hr⟩
          · rcases hi' with ⟨h0, _⟩ | h0
            · exact Or.inr ⟨0, v, by simp [hn'], by omega⟩
            · exact Or.inl (by omega)
          · exact Or.inr ⟨j + 1, w, by simpa using hj, by omega⟩
      · have hs' : f.sensitive = false := by simpa using hs
        rw [if_neg hs]
        by_cases hv : v ≠ f.value
        · rw [if_pos hv]
          have hi' : (if i0 = 0 then pos else i0) = pos ∧ i0 = 0 ∨ (if i0 = 0 then pos else i0) = i0 := by
            by_cases h0 : i0 = 0
            · exact Or.inl ⟨by rw [if_pos h0], h0⟩
            · exact Or.inr (by rw [if_neg h0])
          generalize (if i0 = 0 then pos else i0) = i' at hi' ⊢
          have := ih (pos + 1) i'
          refine ⟨fun h => ?_, fun h => ?_⟩
          · obtain ⟨_, j, hj, hr⟩ := this.1 h
            exact ⟨hs', j + 1, by simpa using hj, by omega⟩
          · rcases this.2 h with h1 | ⟨j, w, hj, hr⟩
            · rcases hi' with ⟨h0, _⟩ | h0
              · exact Or.inr ⟨0, v, by simp [hn'], by omega⟩
              · exact Or.inl (by omega)
            · exact Or.inr ⟨j + 1, w, by simpa using hj, by omega⟩
        · have hv' : v = f.value := by simpa using hv
          rw [if_neg hv]
          exact ⟨fun _ => ⟨hs', 0, by simp [hn', hv'], by omega⟩, fun h => by simp at h⟩

theorem searchTable_spec (T : Tables) (ents : List HF) (f : HF) :
    ((searchTable T ents f).2 = true → f.sensitive = false ∧ 1 ≤ (searchTable T ents f).1 ∧
        (allPairs T ents)[(searchTable T ents f).1 - 1]? = some (f.name, f.value)) ∧
    ((searchTable T ents f).2 = false → (searchTable T ents f).1 = 0 ∨
        (1 ≤ (searchTable T ents f).1 ∧ ∃ v, (allPairs T ents)[(searchTable T ents f).1 - 1]? = some (f.name, v))) := by
  have hS := searchAux_spec f T.static 1 0
  have hD := searchAux_spec f (dynPairs ents) 1 0
  unfold searchTable allPairs
  simp only []
  by_cases hs : (searchAux f T.static 1 0).2 = true
  · simp only [hs, if_true]
    obtain ⟨hsens, j, hj, hr⟩ := hS.1 hs
    have hjl : j < T.static.length := by
      rcases Nat.lt_or_ge j T.static.length with h | h
      · exact h
      · rw [List.getElem?_eq_none h] at hj; cases hj
    refine ⟨fun _ => ⟨hsens, by omega, ?_⟩, fun h => by first | cases h | (rw [hs] at h; cases h)⟩
    rw [hr, List.getElem?_append_left (by omega)]
    have : 1 + j - 1 = j := by omega
    rw [this]; exact hj
  · have hs' : (searchAux f T.static 1 0).2 = false := by simpa using hs
    simp only [hs', Bool.false_eq_true, if_false]
    by_cases hc : ((searchAux f (dynPairs ents) 1 0).2 || ((searchAux f T.static 1 0).1 == 0 && (searchAux f (dynPairs ents) 1 0).1 != 0)) = true
    · simp only [hc, if_true]
      refine ⟨fun h => ?_, fun h => ?_⟩
      · obtain ⟨hsens, j, hj, hr⟩ := hD.1 h
        refine ⟨hsens, by omega, ?_⟩
        rw [hr, List.getElem?_append_right (by omega)]
        have : 1 + j + T.static.length - 1 - T.static.length = j := by omega
        rw [this]; exact hj
      · simp only [h, Bool.false_or, Bool.and_eq_true, beq_iff_eq, bne_iff_ne, ne_eq] at hc
        rcases hD.2 h with h1 | ⟨j, v, hj, hr⟩
        · exact absurd h1 hc.2
        · refine Or.inr ⟨by omega, v, ?_⟩
          rw [hr, List.getElem?_append_right (by omega)]
          have : 1 + j + T.static.length - 1 - T.static.length = j := by omega
          rw [this]; exact hj
    · simp only [hc, Bool.false_eq_true, if_false]
      have hd2 : (searchAux f (dynPairs ents) 1 0).2 = false := by
        cases h : (searchAux f (dynPairs ents) 1 0).2 with
        | false => rfl
        | true => simp [h] at hc
      refine ⟨fun h => by first | cases h | (rw [hd2] at h; cases h), fun _ => ?_⟩
      rcases hS.2 hs' with h1 | ⟨j, v, hj, hr⟩
      · exact Or.inl h1
      · have hjl : j < T.static.length := by
          rcases Nat.lt_or_ge j T.static.length with h | h
          · exact h
          · rw [List.getElem?_eq_none h] at hj; cases hj
        refine Or.inr ⟨by omega, v, ?_⟩
        rw [hr, List.getElem?_append_left (by omega)]
        have : 1 + j - 1 = j := by omega
        rw [this]; exact hj

/-! ### one representation at a time -/

theorem parseRepr_cons (T : Tables) (d : Dec) (b : Nat) (rest : List Nat) :
    parseRepr T d (b :: rest) =
      if b ≥ 128 then parseFieldIndexed T d (b :: rest)
      else if b ≥ 64 then parseFieldLiteral T d (b :: rest) 6 0
      else if b < 16 then parseFieldLiteral T d (b :: rest) 4 1
      else if b < 32 then parseFieldLiteral T d (b :: rest) 4 2
      else parseDynamicTableSizeUpdate d (b :: rest) := by rw [parseRepr]

theorem parse_tableSize (T : Tables) (d : Dec) (v : Nat) (more : List Nat) (hv : v ≤ d.allowed) (hv63 : v < 2 ^ 63) :
    parseRepr T d (appendTableSize v ++ more) = .ok ({ d with tab := d.tab.setMaxSize v }, more, none) := by
  obtain ⟨b, r, hbr, hb⟩ := appendVarInt_head 5 v
  have hrd := readVarInt_orFirst 5 v 32 more hv63 (by decide)
  unfold appendTableSize
  rw [hbr] at hrd ⊢
  simp only [orFirst, List.cons_append] at hrd ⊢
  rw [parseRepr_cons]
  have h1 : ¬ (b + 32 ≥ 128) := by omega
  have h2 : ¬ (b + 32 ≥ 64) := by omega
  have h3 : ¬ (b + 32 < 16) := by omega
  have h4 : ¬ (b + 32 < 32) := by omega
  simp only [h1, h2, h3, h4, if_false]
  unfold parseDynamicTableSizeUpdate
  simp only [hrd]
  have : ¬ (v > d.allowed) := by omega
  simp only [this, if_false]

theorem parse_indexed (T : Tables) (d : Dec) (idx : Nat) (more n v : List Nat) (hidx : idx < 2 ^ 63)
    (hat : d.at T idx = some (n, v)) (hstr : d.maxStrLen = 0) :
    parseRepr T d (orFirst 128 (appendVarInt 7 idx) ++ more) = .ok (d, more, some { name := n, value := v }) := by
  obtain ⟨b, r, hbr, hb⟩ := appendVarInt_head 7 idx
  have hrd := readVarInt_orFirst 7 idx 128 more hidx (by decide)
  rw [hbr] at hrd ⊢
  simp only [orFirst, List.cons_append] at hrd ⊢
  rw [parseRepr_cons]
  have h1 : b + 128 ≥ 128 := by omega
  simp only [h1, if_true]
  unfold parseFieldIndexed
  simp only [hrd, hat]
  unfold callEmit
  simp [hstr]

/-- the three literal representations: (type byte, prefix bits, indexType) -/
def LitKind (tb n it : Nat) : Prop := (tb = 16 ∧ n = 4 ∧ it = 2) ∨ (tb = 64 ∧ n = 6 ∧ it = 0) ∨ (tb = 0 ∧ n = 4 ∧ it = 1)

theorem litKind_dispatch (T : Tables) (d : Dec) {tb n it : Nat} (hk : LitKind tb n it) (b : Nat) (rest : List Nat)
    (hb : b < 2 ^ n) : parseRepr T d ((b + tb) :: rest) = parseFieldLiteral T d ((b + tb) :: rest) n it := by
  rw [parseRepr_cons]
  rcases hk with ⟨rfl, rfl, rfl⟩ | ⟨rfl, rfl, rfl⟩ | ⟨rfl, rfl, rfl⟩
  · have h1 : ¬ (b + 16 ≥ 128) := by omega
    have h2 : ¬ (b + 16 ≥ 64) := by omega
    have h3 : ¬ (b + 16 < 16) := by omega
    have h4 : b + 16 < 32 := by omega
    simp only [h1, h2, h3, h4, if_false, if_true]
  · have h1 : ¬ (b + 64 ≥ 128) := by omega
    have h2 : b + 64 ≥ 64 := by omega
    simp only [h1, h2, if_false, if_true]
  · have h1 : ¬ (b + 0 ≥ 128) := by omega
    have h2 : ¬ (b + 0 ≥ 64) := by omega
    have h3 : b + 0 < 16 := by omega
    simp only [h1, h2, h3, if_false, if_true]

theorem litKind_mod {tb n it : Nat} (hk : LitKind tb n it) : tb % 2 ^ n = 0 := by
  rcases hk with ⟨rfl, rfl, rfl⟩ | ⟨rfl, rfl, rfl⟩ | ⟨rfl, rfl, rfl⟩ <;> decide

/-- octets of a header string: real bytes, of a length the integer coding can carry -/
def StrOk (T : Tables) (s : List Nat) : Prop := (∀ c ∈ s, c < T.codes.length) ∧ s.length < 2 ^ 63

theorem parse_literal_tail {T : Tables} (ok : TablesOk T) (d : Dec) (it : Nat) (nm val more : List Nat)
    (hval : StrOk T val) (hstr : d.maxStrLen = 0) :
    (match readString T d.maxStrLen (appendHpackString T val ++ more) with
      | .error e => (.error e : Parsed)
      | .ok (val, rest) =>
        let d' : Dec := if it = 0 then { d with tab := d.tab.add { name := nm, value := val } } else d
        callEmit d' rest { name := nm, value := val, sensitive := it = 2 }) =
    .ok (if it = 0 then { d with tab := d.tab.add { name := nm, value := val } } else d, more,
         some { name := nm, value := val, sensitive := it = 2 }) := by
  rw [hstr, readString_append ok val more hval.1 hval.2]
  simp only []
  unfold callEmit
  split <;> simp [hstr]

theorem parse_literal_newname {T : Tables} (ok : TablesOk T) (d : Dec) {tb n it : Nat} (hk : LitKind tb n it)
    (nm val more : List Nat) (hnm : StrOk T nm) (hval : StrOk T val) (hstr : d.maxStrLen = 0) :
    parseRepr T d ([tb] ++ appendHpackString T nm ++ appendHpackString T val ++ more) =
      .ok (if it = 0 then { d with tab := d.tab.add { name := nm, value := val } } else d, more,
           some { name := nm, value := val, sensitive := it = 2 }) := by
  have hpos : 0 < 2 ^ n := Nat.two_pow_pos n
  have hd := litKind_dispatch T d hk 0 (appendHpackString T nm ++ appendHpackString T val ++ more) hpos
  simp only [Nat.zero_add] at hd
  simp only [List.cons_append, List.nil_append, List.append_assoc] at hd ⊢
  rw [hd]
  unfold parseFieldLiteral
  have hm := litKind_mod hk
  have hn1 : 1 < 2 ^ n := by
    rcases hk with ⟨_, rfl, _⟩ | ⟨_, rfl, _⟩ | ⟨_, rfl, _⟩ <;> decide
  have hrv : readVarInt n (tb :: (appendHpackString T nm ++ (appendHpackString T val ++ more))) =
      .ok (0, appendHpackString T nm ++ (appendHpackString T val ++ more)) := by
    unfold readVarInt
    simp only [hm]
    have : 0 < 2 ^ n - 1 := by omega
    simp [this]
  simp only [hrv, Nat.lt_irrefl, if_false]
  rw [hstr, readString_append ok nm _ hnm.1 hnm.2]
  simp only []
  have := parse_literal_tail ok d it nm val more hval hstr
  rw [hstr] at this
  exact this

theorem parse_literal_idxname {T : Tables} (ok : TablesOk T) (d : Dec) {tb n it : Nat} (hk : LitKind tb n it)
    (idx : Nat) (nm v0 val more : List Nat) (hidx0 : 0 < idx) (hidx : idx < 2 ^ 63)
    (hat : d.at T idx = some (nm, v0)) (hval : StrOk T val) (hstr : d.maxStrLen = 0) :
    parseRepr T d (orFirst tb (appendVarInt n idx) ++ appendHpackString T val ++ more) =
      .ok (if it = 0 then { d with tab := d.tab.add { name := nm, value := val } } else d, more,
           some { name := nm, value := val, sensitive := it = 2 }) := by
  obtain ⟨b, r, hbr, hb⟩ := appendVarInt_head n idx
  have hrd := readVarInt_orFirst n idx tb (appendHpackString T val ++ more) hidx (litKind_mod hk)
  rw [hbr] at hrd ⊢
  simp only [orFirst, List.cons_append, List.append_assoc] at hrd ⊢
  rw [litKind_dispatch T d hk b _ hb]
  unfold parseFieldLiteral
  simp only [hrd, hidx0, if_true, hat]
  have := parse_literal_tail ok d it nm val more hval hstr
  exact this

/-! ### chains of representations inside `Decoder.Write` -/

/-- `bytes` is a sequence of complete representations taking the decoder from `d` to `d'`, emitting `fs` -/
inductive Chain (T : Tables) : Dec → List Nat → Dec → List HF → Prop where
  | nil (d : Dec) : Chain T d [] d []
  | cons {d d' d'' : Dec} {r bytes : List Nat} {em : Option HF} {fs : List HF} :
      r ≠ [] → (∀ more, parseRepr T d (r ++ more) = .ok (d', more, em)) → Chain T d' bytes d'' fs →
      Chain T d (r ++ bytes) d'' (em.toList ++ fs)

theorem Chain.single {T : Tables} {d d' : Dec} {r : List Nat} {em : Option HF} (hr : r ≠ [])
    (h : ∀ more, parseRepr T d (r ++ more) = .ok (d', more, em)) : Chain T d r d' em.toList := by
  have := Chain.cons hr h (Chain.nil d')
  simpa using this

theorem Chain.append {T : Tables} {d d' d'' : Dec} {b1 b2 : List Nat} {f1 f2 : List HF}
    (h1 : Chain T d b1 d' f1) (h2 : Chain T d' b2 d'' f2) : Chain T d (b1 ++ b2) d'' (f1 ++ f2) := by
  induction h1 with
  | nil d => simpa using h2
  | cons hr hp _ ih =>
    rw [List.append_assoc, List.append_assoc]
    exact Chain.cons hr hp (ih h2)

theorem Chain.of_nil {T : Tables} {d d' : Dec} {fs : List HF} (h : Chain T d [] d' fs) : d' = d ∧ fs = [] := by
  generalize hb : ([] : List Nat) = b at h
  cases h with
  | nil => exact ⟨rfl, rfl⟩
  | cons hr _ _ =>
    exfalso
    have := congrArg List.length hb
    simp at this
    exact hr (List.eq_nil_of_length_eq_zero (by omega))

/-- what `writeLoop` does with a chain followed by `more` -/
theorem Chain.writeLoop {T : Tables} {d d' : Dec} {bytes : List Nat} {fs : List HF} (h : Chain T d bytes d' fs) :
    ∀ (f : Nat) (more : List Nat) (out : List HF), ∃ f', f ≤ f' ∧
      writeLoop T (bytes.length + f) d (bytes ++ more) out = writeLoop T f' d' more (out ++ fs) := by
  induction h with
  | nil d => intro f more out; exact ⟨f, Nat.le_refl _, by simp⟩
  | @cons d d1 d2 r bytes em fs hr hp _ ih =>
    intro f more out
    have hrpos : 0 < r.length := List.length_pos_iff.mpr hr
    have hfuel : (r ++ bytes).length + f = (bytes.length + (f + (r.length - 1))) + 1 := by
      rw [List.length_append]; omega
    have hne : ¬ ((r ++ bytes ++ more).length = 0) := by
      rw [List.length_append, List.length_append]; omega
    have hstep : ∀ o, BfeVerif.C30.writeLoop T ((r ++ bytes).length + f) d (r ++ bytes ++ more) o =
        BfeVerif.C30.writeLoop T (bytes.length + (f + (r.length - 1))) d1 (bytes ++ more)
          (o ++ em.toList) := by
      intro o
      rw [hfuel, BfeVerif.C30.writeLoop]
      simp only [hne, if_false]
      rw [List.append_assoc, hp (bytes ++ more)]
      cases em <;> simp
    rw [hstep]
    obtain ⟨f', hf', heq⟩ := ih (f + (r.length - 1)) more (out ++ em.toList)
    exact ⟨f', by omega, by simpa using heq⟩

/-! ### the synchronisation invariant -/

theorem DynTab.ext' {t1 t2 : DynTab} (h1 : t1.ents = t2.ents) (h2 : t1.size = t2.size) (h3 : t1.maxSize = t2.maxSize) :
    t1 = t2 := by
  cases t1; cases t2; simp_all

theorem setMaxSize_pair (t : DynTab) (v : Nat) :
    ((t.setMaxSize v).ents, (t.setMaxSize v).size) = evictLoop t.ents t.size v ∧ (t.setMaxSize v).maxSize = v := by
  simp [DynTab.setMaxSize, DynTab.evict]

theorem setMaxSize_good (t : DynTab) (v : Nat) (h : t.WF) :
    (t.setMaxSize v).WF ∧ (t.setMaxSize v).size ≤ (t.setMaxSize v).maxSize := by
  have hw : DynTab.WF { t with maxSize := v } := h
  exact evict_WF _ hw

theorem add_good (t : DynTab) (f : HF) (h : t.WF) :
    (t.add f).WF ∧ (t.add f).size ≤ (t.add f).maxSize ∧ (t.add f).maxSize = t.maxSize := by
  have hw : DynTab.WF { t with ents := t.ents ++ [f], size := t.size + f.size } := by
    unfold DynTab.WF at *; simp [sumSizes_append, sumSizes, h]
  have := evict_WF _ hw
  exact ⟨this.1, this.2, rfl⟩

/-- `a` = the decoder's allowed maximum.  Not pending: the tables are equal and `minSize` is reset.
    Pending: the encoder's table is the decoder's table evicted down to `minSize`, the smallest size set since
    the last update was sent, and that is what `WriteField` will announce first. -/
structure Sync (a : Nat) (e : Enc) (d : Dec) : Prop where
  dwf : d.tab.WF
  dle : d.tab.size ≤ d.tab.maxSize
  dmaxa : d.tab.maxSize ≤ a
  dallowed : d.allowed = a
  dstr : d.maxStrLen = 0
  elim : e.limit ≤ a
  emax : e.tab.maxSize ≤ e.limit
  np : e.pending = false → e.minSize = uint32Max ∧ e.tab = d.tab
  p : e.pending = true → e.minSize ≤ e.tab.maxSize ∧
        (e.tab.ents, e.tab.size) = evictLoop d.tab.ents d.tab.size e.minSize

/-- any shrink/grow of the encoder's maximum to `v' ≤ L ≤ a` (both Set… methods) keeps the invariant -/
theorem sync_resize {a : Nat} (ha : a ≤ uint32Max) {e : Enc} {d : Dec} (h : Sync a e d) (v' L : Nat)
    (hv : v' ≤ L) (hL : L ≤ a) :
    Sync a { e with limit := L, minSize := if v' < e.minSize then v' else e.minSize, pending := true,
                    tab := e.tab.setMaxSize v' } d := by
  have hp := setMaxSize_pair e.tab v'
  refine { dwf := h.dwf, dle := h.dle, dmaxa := h.dmaxa, dallowed := h.dallowed, dstr := h.dstr,
           elim := hL, emax := by simp only [hp.2]; exact hv, np := (fun hc => by cases hc), p := fun _ => ?_ }
  simp only [hp.2]
  refine ⟨by split <;> omega, ?_⟩
  rw [hp.1]
  by_cases hpend : e.pending = true
  · obtain ⟨hm, heq⟩ := h.p hpend
    have := evictLoop_comp d.tab.ents d.tab.size e.minSize v'
    rw [← heq] at this
    rw [this]
    congr 1
    split <;> omega
  · have hpend' : e.pending = false := by simpa using hpend
    obtain ⟨hm, heq⟩ := h.np hpend'
    rw [heq, hm]
    congr 1
    split <;> omega

theorem sync_setMax {a : Nat} (ha : a ≤ uint32Max) {e : Enc} {d : Dec} (h : Sync a e d) (v : Nat) :
    Sync a (e.setMaxDynamicTableSize v) d := by
  unfold Enc.setMaxDynamicTableSize
  have := sync_resize ha h (if v > e.limit then e.limit else v) e.limit (by split <;> omega) h.elim
  exact this

theorem sync_setLimit {a : Nat} (ha : a ≤ uint32Max) {e : Enc} {d : Dec} (h : Sync a e d) (v : Nat) (hv : v ≤ a) :
    Sync a (e.setMaxDynamicTableSizeLimit v) d := by
  unfold Enc.setMaxDynamicTableSizeLimit
  by_cases hc : e.tab.maxSize > v
  · simp only [hc, if_true]
    exact sync_resize ha h v v (Nat.le_refl _) hv
  · simp only [hc, if_false]
    exact { dwf := h.dwf, dle := h.dle, dmaxa := h.dmaxa, dallowed := h.dallowed, dstr := h.dstr,
            elim := hv, emax := by simp; omega, np := h.np, p := h.p }

theorem appendTableSize_ne_nil (v : Nat) : appendTableSize v ≠ [] := by
  obtain ⟨b, r, hbr, _⟩ := appendVarInt_head 5 v
  simp [appendTableSize, hbr, orFirst]

/-- the size update(s) `WriteField` sends first bring the decoder's table to the encoder's -/
theorem sync_flush (T : Tables) {a : Nat} (ha : a ≤ uint32Max) {e : Enc} {d : Dec} (h : Sync a e d) :
    ∃ d1, Chain T d e.flush.2 d1 [] ∧ Sync a e.flush.1 d1 ∧ e.flush.1.pending = false := by
  unfold Enc.flush
  by_cases hpend : e.pending = true
  · simp only [hpend, if_true]
    obtain ⟨hm, heq⟩ := h.p hpend
    have hMa : e.tab.maxSize ≤ a := Nat.le_trans h.emax h.elim
    have h63 : ∀ x, x ≤ a → x < 2 ^ 63 := fun x hx => by unfold uint32Max at ha; omega
    -- the decoder after the update(s)
    have hfin : ∀ d1 : Dec, d1.allowed = a → d1.maxStrLen = 0 →
        (d1.tab.ents, d1.tab.size) = evictLoop d.tab.ents d.tab.size e.minSize → d1.tab.maxSize = e.tab.maxSize →
        d1.tab.WF → d1.tab.size ≤ d1.tab.maxSize →
        Sync a { e with pending := false, minSize := uint32Max } d1 := by
      intro d1 h1 h2 h3 h4 h5 h6
      refine { dwf := h5, dle := h6, dmaxa := by rw [h4]; exact hMa, dallowed := h1, dstr := h2,
               elim := h.elim, emax := h.emax, np := fun _ => ⟨rfl, ?_⟩, p := (fun hc => by cases hc) }
      have := heq.trans h3.symm
      simp only [Prod.mk.injEq] at this
      exact DynTab.ext' this.1 this.2 h4.symm
    by_cases hlt : e.minSize < e.tab.maxSize
    · simp only [hlt, if_true]
      let da : Dec := { d with tab := d.tab.setMaxSize e.minSize }
      let d1 : Dec := { da with tab := da.tab.setMaxSize e.tab.maxSize }
      have c1 : Chain T d (appendTableSize e.minSize) da [] :=
        Chain.single (em := none) (appendTableSize_ne_nil _)
          (fun more => parse_tableSize T d e.minSize more (by rw [h.dallowed]; omega) (h63 _ (by omega)))
      have c2 : Chain T da (appendTableSize e.tab.maxSize) d1 [] :=
        Chain.single (em := none) (appendTableSize_ne_nil _)
          (fun more => parse_tableSize T da e.tab.maxSize more (by show e.tab.maxSize ≤ d.allowed; rw [h.dallowed]; exact hMa) (h63 _ hMa))
      have ga := setMaxSize_good d.tab e.minSize h.dwf
      have g1 := setMaxSize_good da.tab e.tab.maxSize ga.1
      have p1 := setMaxSize_pair da.tab e.tab.maxSize
      have pa := setMaxSize_pair d.tab e.minSize
      refine ⟨d1, by simpa using c1.append c2, hfin d1 h.dallowed h.dstr ?_ p1.2 g1.1 g1.2, by first | rfl | trivial⟩
      show ((da.tab.setMaxSize e.tab.maxSize).ents, (da.tab.setMaxSize e.tab.maxSize).size) = _
      rw [p1.1]
      show evictLoop (d.tab.setMaxSize e.minSize).ents (d.tab.setMaxSize e.minSize).size e.tab.maxSize = _
      have := evictLoop_comp d.tab.ents d.tab.size e.minSize e.tab.maxSize
      rw [← pa.1] at this
      rw [this, Nat.min_eq_left (by omega)]
    · simp only [hlt, if_false, List.nil_append]
      have hmM : e.minSize = e.tab.maxSize := by omega
      let d1 : Dec := { d with tab := d.tab.setMaxSize e.tab.maxSize }
      have c1 : Chain T d (appendTableSize e.tab.maxSize) d1 [] :=
        Chain.single (em := none) (appendTableSize_ne_nil _)
          (fun more => parse_tableSize T d e.tab.maxSize more (by rw [h.dallowed]; exact hMa) (h63 _ hMa))
      have g1 := setMaxSize_good d.tab e.tab.maxSize h.dwf
      have p1 := setMaxSize_pair d.tab e.tab.maxSize
      refine ⟨d1, c1, hfin d1 h.dallowed h.dstr ?_ p1.2 g1.1 g1.2, by first | rfl | trivial⟩
      show ((d.tab.setMaxSize e.tab.maxSize).ents, (d.tab.setMaxSize e.tab.maxSize).size) = _
      rw [p1.1, hmM]
  · have hpend' : e.pending = false := by simpa using hpend
    simp only [hpend', Bool.false_eq_true, if_false]
    exact ⟨d, Chain.nil d, h, by first | exact hpend' | trivial⟩

/-- a header field the encoder can be given: octets, lengths the integer coding can carry -/
def FieldOk (T : Tables) (f : HF) : Prop := StrOk T f.name ∧ StrOk T f.value

theorem getElem?_some_lt {α : Type} {l : List α} {i : Nat} {x : α} (h : l[i]? = some x) : i < l.length := by
  rcases Nat.lt_or_ge i l.length with h1 | h1
  · exact h1
  · rw [List.getElem?_eq_none h1] at h; cases h

theorem litKind_of (indexing sensitive : Bool) (h : indexing = true → sensitive = false) :
    ∃ tb n it, LitKind tb n it ∧ encodeTypeByte indexing sensitive = tb ∧ (if indexing then 6 else 4) = n ∧
      (it = 0 ↔ indexing = true) ∧ decide (it = 2) = sensitive := by
  cases sensitive with
  | true =>
    have : indexing = false := by cases indexing <;> simp_all
    subst this
    exact ⟨16, 4, 2, Or.inl ⟨rfl, rfl, rfl⟩, rfl, rfl, by simp, rfl⟩
  | false =>
    cases indexing with
    | true => exact ⟨64, 6, 0, Or.inr (Or.inl ⟨rfl, rfl, rfl⟩), rfl, rfl, by simp, rfl⟩
    | false => exact ⟨0, 4, 1, Or.inr (Or.inr ⟨rfl, rfl, rfl⟩), rfl, rfl, by simp, rfl⟩

/-- one field through `encodeField` and `parseHeaderFieldRepr`, tables equal before and after -/
theorem sync_encodeField {T : Tables} (ok : TablesOk T) (hst : T.static.length < 2 ^ 62) {a : Nat} (ha : a ≤ uint32Max)
    {e : Enc} {d : Dec} (h : Sync a e d) (hnp : e.pending = false) (f : HF) (hf : FieldOk T f) :
    ∃ d2, (∀ more, parseRepr T d ((e.encodeField T f).2 ++ more) = .ok (d2, more, some f)) ∧
      (e.encodeField T f).2 ≠ [] ∧ Sync a (e.encodeField T f).1 d2 ∧ (e.encodeField T f).1.pending = false := by
  obtain ⟨hmin, htab⟩ := h.np hnp
  have hspec := searchTable_spec T e.tab.ents f
  have hents : e.tab.ents = d.tab.ents := by rw [htab]
  -- every index the search returns fits the integer coding
  have hbound : ∀ i x, (allPairs T e.tab.ents)[i - 1]? = some x → i < 2 ^ 63 := by
    intro i x hx
    have hl := getElem?_some_lt hx
    simp only [allPairs, List.length_append, dynPairs_length] at hl
    have h1 := sumSizes_ge d.tab.ents
    have h2 : d.tab.size = sumSizes d.tab.ents := h.dwf
    have h3 := h.dle
    have h4 := h.dmaxa
    rw [hents] at hl
    unfold uint32Max at ha
    omega
  unfold Enc.encodeField
  simp only []
  by_cases hm : (searchTable T e.tab.ents f).2 = true
  · -- indexed representation
    simp only [hm, if_true]
    obtain ⟨hsens, h1, hget⟩ := hspec.1 hm
    have hat : d.at T (searchTable T e.tab.ents f).1 = some (f.name, f.value) := by
      rw [at_eq T d _ h1, ← hents]; exact hget
    have hfe : ({ name := f.name, value := f.value } : HF) = f := by
      cases f; simp_all
    refine ⟨d, fun more => ?_, ?_, h, hnp⟩
    · rw [parse_indexed T d _ more f.name f.value (hbound _ _ hget) hat h.dstr, hfe]
    · obtain ⟨b, r, hbr, _⟩ := appendVarInt_head 7 (searchTable T e.tab.ents f).1
      simp [hbr, orFirst]
  · have hm' : (searchTable T e.tab.ents f).2 = false := by simpa using hm
    simp only [hm', Bool.false_eq_true, if_false]
    generalize hidx : (!f.sensitive && decide (f.size ≤ e.tab.maxSize)) = indexing
    have hind : indexing = true → f.sensitive = false := by
      intro hi; rw [← hidx] at hi; simp at hi; exact hi.1
    obtain ⟨tb, n, it, hk, htb, hn, hit, hsn⟩ := litKind_of indexing f.sensitive hind
    rw [htb, hn]
    -- the decoder after the literal
    let d2 : Dec := if it = 0 then { d with tab := d.tab.add { name := f.name, value := f.value } } else d
    have hfe : ({ name := f.name, value := f.value, sensitive := decide (it = 2) } : HF) = f := by
      rw [hsn]
    have hsync : Sync a (if indexing = true then { e with tab := e.tab.add f } else e) d2 ∧
        (if indexing = true then { e with tab := e.tab.add f } else e).pending = false := by
      by_cases hi : indexing = true
      · have hit0 : it = 0 := hit.mpr hi
        have hfs := hind hi
        have hfe' : ({ name := f.name, value := f.value } : HF) = f := by cases f; simp_all
        simp only [hi, if_true, d2, hit0, hfe']
        have g := add_good d.tab f h.dwf
        refine ⟨{ dwf := g.1, dle := g.2.1, dmaxa := by rw [g.2.2]; exact h.dmaxa, dallowed := h.dallowed,
                  dstr := h.dstr, elim := h.elim, emax := ?_, np := fun _ => ⟨hmin, by show e.tab.add f = d.tab.add f; rw [htab]⟩,
                  p := (fun hc => by rw [hnp] at hc; cases hc) }, hnp⟩
        show (e.tab.add f).maxSize ≤ e.limit
        rw [(add_good e.tab f (by rw [htab]; exact h.dwf)).2.2]; exact h.emax
      · have hit0 : ¬ it = 0 := fun h0 => hi (hit.mp h0)
        simp only [hi, Bool.false_eq_true, if_false, d2, hit0]
        exact ⟨h, hnp⟩
    by_cases h0 : (searchTable T e.tab.ents f).1 = 0
    · simp only [h0, if_true]
      refine ⟨d2, fun more => ?_, by simp, hsync.1, hsync.2⟩
      have := parse_literal_newname ok d hk f.name f.value more hf.1 hf.2 h.dstr
      rw [hfe] at this
      exact this
    · simp only [h0, if_false]
      rcases hspec.2 hm' with hz | ⟨h1, v, hget⟩
      · exact absurd hz h0
      · have hat : d.at T (searchTable T e.tab.ents f).1 = some (f.name, v) := by
          rw [at_eq T d _ h1, ← hents]; exact hget
        refine ⟨d2, fun more => ?_, ?_, hsync.1, hsync.2⟩
        · have := parse_literal_idxname ok d hk _ f.name v f.value more (by omega) (hbound _ _ hget) hat hf.2 h.dstr
          rw [hfe] at this
          exact this
        · obtain ⟨b, r, hbr, _⟩ := appendVarInt_head n (searchTable T e.tab.ents f).1
          simp [hbr, orFirst]

/-! ### whole histories -/

def OpOk (T : Tables) (a : Nat) : Op → Prop
  | .field f => FieldOk T f
  | .setLimit v => v ≤ a
  | _ => True

/-- invariant between operations: the bytes written since the last `endBlock` are a chain of complete
    representations taking the real decoder state to a virtual state `vd` that is in sync with the encoder -/
def Inv (T : Tables) (a : Nat) (h : Hist) (fs : List HF) : Prop :=
  h.dead = false ∧ h.dec.save = [] ∧ ∃ vd, Chain T h.dec.dec h.cur vd fs ∧ Sync a h.enc vd

theorem sync_enc_le {a : Nat} {e : Enc} {d : Dec} (h : Sync a e d) : e.tab.size ≤ e.tab.maxSize := by
  by_cases hp : e.pending = true
  · obtain ⟨hm, heq⟩ := h.p hp
    have := (evictLoop_spec d.tab.ents d.tab.size e.minSize h.dwf).2.1
    rw [← heq] at this
    simp only [] at this
    omega
  · have hp' : e.pending = false := by simpa using hp
    rw [(h.np hp').2]; exact h.dle

theorem inv_field {T : Tables} (ok : TablesOk T) (hst : T.static.length < 2 ^ 62) {a : Nat} (ha : a ≤ uint32Max)
    {h : Hist} {fs : List HF} (hi : Inv T a h fs) (f : HF) (hf : FieldOk T f) :
    Inv T a (h.step T (.field f)) (fs ++ [f]) ∧ (h.step T (.field f)).obs = h.obs := by
  obtain ⟨hd, hs, vd, hc, hsy⟩ := hi
  obtain ⟨d1, c1, s1, np1⟩ := sync_flush T ha hsy
  obtain ⟨d2, hp, hne, s2, np2⟩ := sync_encodeField ok hst ha s1 np1 f hf
  have c2 : Chain T d1 (h.enc.flush.1.encodeField T f).2 d2 [f] := Chain.single (em := some f) hne hp
  simp only [Hist.step, hd, Bool.false_eq_true, if_false, Enc.writeField]
  refine ⟨⟨by first | exact hd | rfl, hs, d2, ?_, s2⟩, by first | rfl | trivial⟩
  have := hc.append (c1.append c2)
  simpa using this

theorem inv_endBlock {T : Tables} {a : Nat} {h : Hist} {fs : List HF} (hi : Inv T a h fs) :
    ∃ o, (h.step T .endBlock).obs = h.obs ++ [o] ∧ GoodObs a o fs ∧ Inv T a (h.step T .endBlock) [] := by
  obtain ⟨hd, hs, vd, hc, hsy⟩ := hi
  -- what Write returns
  have hw : (DState.write T { h.dec with out := [] } h.cur) = ({ dec := vd, save := [], out := fs }, none) := by
    unfold DState.write
    by_cases h0 : h.cur.length = 0
    · have hnil : h.cur = [] := List.eq_nil_of_length_eq_zero h0
      rw [hnil] at hc
      obtain ⟨rfl, rfl⟩ := hc.of_nil
      simp only [h0, if_true]
      congr 1
      cases hdec : h.dec
      rw [hdec] at hs
      simp_all
    · simp only [h0, if_false, hs, List.nil_append]
      obtain ⟨f', hf', heq⟩ := hc.writeLoop 1 [] []
      simp only [List.append_nil, List.nil_append] at heq
      rw [heq]
      obtain ⟨g, rfl⟩ : ∃ g, f' = g + 1 := ⟨f' - 1, by omega⟩
      simp [writeLoop]
  have hgood : GoodObs a { bytes := h.cur, fields := fs, err := none, truncated := false, enc := h.enc.tab,
                           dec := vd.tab, pending := h.enc.pending } fs :=
    { noerr := rfl, notrunc := rfl, fields := rfl, decle := hsy.dle, encle := sync_enc_le hsy, maxa := hsy.dmaxa,
      eq := fun hp => (hsy.np hp).2 }
  refine ⟨_, ?_, hgood, ?_⟩
  · simp only [Hist.step, hd, Bool.false_eq_true, if_false, hw, DState.close]
    simp
  · simp only [Hist.step, hd, Bool.false_eq_true, if_false, hw, DState.close]
    simp only [List.length_nil, Nat.lt_irrefl, if_false, Option.isSome_none, Bool.or_self]
    exact ⟨rfl, rfl, vd, Chain.nil vd, hsy⟩

theorem sync_history {T : Tables} (ok : TablesOk T) (hst : T.static.length < 2 ^ 62) {a : Nat} (ha : a ≤ uint32Max) :
    ∀ (ops : List Op) (h : Hist) (fs : List HF), Inv T a h fs → (∀ op ∈ ops, OpOk T a op) →
    ∃ obs', (ops.foldl (Hist.step T) h).obs = h.obs ++ obs' ∧ AllGood a obs' (expected ops fs) := by
  intro ops
  induction ops with
  | nil => intro h fs _ _; exact ⟨[], by simp, by simp [expected, AllGood]⟩
  | cons op ops ih =>
    intro h fs hi hok
    have hok' : ∀ op ∈ ops, OpOk T a op := fun o ho => hok o (by simp [ho])
    have hop := hok op (by simp)
    simp only [List.foldl_cons]
    cases op with
    | field f =>
      obtain ⟨hi', hobs⟩ := inv_field ok hst ha hi f hop
      obtain ⟨obs', h1, h2⟩ := ih _ _ hi' hok'
      exact ⟨obs', by rw [h1, hobs], by simpa [expected] using h2⟩
    | setMax v =>
      obtain ⟨hd, hs, vd, hc, hsy⟩ := hi
      have hi' : Inv T a (h.step T (.setMax v)) fs := by
        simp only [Hist.step, hd, Bool.false_eq_true, if_false]
        exact ⟨by first | exact hd | rfl, hs, vd, hc, sync_setMax ha hsy v⟩
      obtain ⟨obs', h1, h2⟩ := ih _ _ hi' hok'
      refine ⟨obs', ?_, by simpa [expected] using h2⟩
      rw [h1]; simp [Hist.step, hd]
    | setLimit v =>
      obtain ⟨hd, hs, vd, hc, hsy⟩ := hi
      have hi' : Inv T a (h.step T (.setLimit v)) fs := by
        simp only [Hist.step, hd, Bool.false_eq_true, if_false]
        exact ⟨by first | exact hd | rfl, hs, vd, hc, sync_setLimit ha hsy v hop⟩
      obtain ⟨obs', h1, h2⟩ := ih _ _ hi' hok'
      refine ⟨obs', ?_, by simpa [expected] using h2⟩
      rw [h1]; simp [Hist.step, hd]
    | endBlock =>
      obtain ⟨o, ho, hg, hi'⟩ := inv_endBlock hi
      obtain ⟨obs', h1, h2⟩ := ih _ _ hi' hok'
      refine ⟨o :: obs', by rw [h1, ho]; simp, ?_⟩
      simp only [expected]
      exact ⟨hg, h2⟩

end BfeVerif.C30
