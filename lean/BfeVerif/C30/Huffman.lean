import BfeVerif.C30.Core
/-!
  Huffman lemmas shared by C30 and C31, for ANY tables `T` that satisfy the decidable facts
  `pfCheck 31 (allCodes T)` (prefix-freeness incl. EOS) and `padOk T`.  Core Lean only.
-/
namespace BfeVerif.C30

/-- neither is a prefix of the other -/
def NoPre (a b : List Bool) : Prop := ¬ a <+: b ∧ ¬ b <+: a

theorem heads_eq (b : Bool) (x : Bool) (r : List Bool) :
    (match (x :: r : List Bool) with | x :: r => if x == b then some r else none | [] => none) =
      if x == b then some r else none := rfl

/-- the finite check implies pairwise prefix-freeness -/
theorem pfCheck_pairwise : ∀ (f : Nat) (cs : List (List Bool)), pfCheck f cs = true → cs.Pairwise NoPre := by
  intro f
  induction f with
  | zero =>
    intro cs h
    match cs, h with
    | [], _ => exact List.Pairwise.nil
    | [a], _ => exact List.pairwise_singleton _ _
    | a :: b :: r, h => simp [pfCheck] at h
  | succ f ih =>
    intro cs h
    match cs, h with
    | [], _ => exact List.Pairwise.nil
    | [a], _ => exact List.pairwise_singleton _ _
    | a :: b :: r, h =>
      simp only [pfCheck, Bool.and_eq_true] at h
      obtain ⟨⟨hne, h0⟩, h1⟩ := h
      have p0 := List.pairwise_filterMap.mp (ih _ h0)
      have p1 := List.pairwise_filterMap.mp (ih _ h1)
      refine List.Pairwise.imp_of_mem ?_ (p0.and p1)
      intro u v hu hv huv
      have hune : u ≠ [] := by
        have := List.all_eq_true.mp hne u hu; intro e; subst e; simp at this
      have hvne : v ≠ [] := by
        have := List.all_eq_true.mp hne v hv; intro e; subst e; simp at this
      obtain ⟨x, ru, rfl⟩ := List.exists_cons_of_ne_nil hune
      obtain ⟨y, rv, rfl⟩ := List.exists_cons_of_ne_nil hvne
      by_cases hxy : x = y
      · subst hxy
        have hR : NoPre ru rv := by
          cases x with
          | false => exact huv.1 ru (by simp) rv (by simp)
          | true => exact huv.2 ru (by simp) rv (by simp)
        exact ⟨fun hp => hR.1 (List.cons_prefix_cons.mp hp).2, fun hp => hR.2 (List.cons_prefix_cons.mp hp).2⟩
      · exact ⟨fun hp => hxy (List.cons_prefix_cons.mp hp).1, fun hp => hxy (List.cons_prefix_cons.mp hp).1.symm⟩

/-- hypotheses on the tables, all decidable and checked on the generated tables -/
structure TablesOk (T : Tables) : Prop where
  pf : pfCheck 31 (allCodes T) = true
  pad : padOk T = true
  eos : T.eos = List.replicate 30 true

theorem codes_noPre {T : Tables} (ok : TablesOk T) (i j : Nat) (hi : i < T.codes.length) (hj : j < T.codes.length)
    (hij : i ≠ j) : NoPre T.codes[i] T.codes[j] := by
  have hp := pfCheck_pairwise 31 _ ok.pf
  unfold allCodes at hp
  have hc := (List.pairwise_append.mp hp).1
  have := List.pairwise_iff_getElem.mp hc
  by_cases h : i < j
  · exact this i j hi hj h
  · have := this j i hj hi (by omega)
    exact ⟨this.2, this.1⟩

theorem codes_ne_nil {T : Tables} (ok : TablesOk T) (i : Nat) (hi : i < T.codes.length) : T.codes[i] ≠ [] := by
  intro h
  have hp := pfCheck_pairwise 31 _ ok.pf
  have hall := List.pairwise_iff_getElem.mp hp
  have hlen : (allCodes T).length = T.codes.length + 1 := by simp [allCodes]
  have hi' : (allCodes T)[i]'(by omega) = T.codes[i] := by
    simp only [allCodes]; exact List.getElem_append_left hi
  by_cases hlast : i + 1 < (allCodes T).length
  · have := hall i (i + 1) (by omega) hlast (by omega)
    rw [hi', h] at this
    exact this.1 (List.nil_prefix)
  · -- i is the last real code; compare with EOS at position codes.length
    have := hall i T.codes.length (by omega) (by omega) (by omega)
    rw [hi', h] at this
    exact this.1 (List.nil_prefix)

/-! ### the trie lookup on a position inside the code of symbol `s` -/

theorem findLeaf_hit (n : Nat) (path : List Bool) : ∀ (cs : List (List Bool)) (i s : Nat) (hs : s < cs.length),
    isLeafFor n path cs[s] = true →
    (∀ j (hj : j < cs.length), j ≠ s → isLeafFor n path cs[j] = false) →
    findLeaf n path cs i = some (i + s, cs[s].length - n) := by
  intro cs
  induction cs with
  | nil => intro i s hs; simp at hs
  | cons c cs ih =>
    intro i s hs hleaf hothers
    cases s with
    | zero => simp only [List.getElem_cons_zero] at hleaf; simp [findLeaf, hleaf]
    | succ s =>
      have h0 := hothers 0 (by simp) (by omega)
      simp only [List.getElem_cons_zero] at h0
      simp only [findLeaf, h0, Bool.false_eq_true, if_false, List.getElem_cons_succ]
      simp only [List.getElem_cons_succ] at hleaf
      rw [ih (i + 1) s (by simpa using hs) hleaf (fun j hj hjs => by
        have := hothers (j + 1) (by simpa using hj) (by omega)
        simpa using this)]
      congr 2; omega

theorem findLeaf_none (n : Nat) (path : List Bool) : ∀ (cs : List (List Bool)) (i : Nat),
    (∀ c ∈ cs, isLeafFor n path c = false) → findLeaf n path cs i = none := by
  intro cs
  induction cs with
  | nil => intro i _; rfl
  | cons c cs ih =>
    intro i h
    simp only [findLeaf, h c (by simp), Bool.false_eq_true, if_false]
    exact ih (i + 1) (fun d hd => h d (by simp [hd]))

theorem isLeafFor_iff (n : Nat) (path c : List Bool) :
    isLeafFor n path c = true ↔ c <+: path ∧ n < c.length ∧ c.length ≤ n + 8 := by
  simp [isLeafFor, List.isPrefixOf_iff_prefix, and_assoc]

theorem isInternalFor_iff (n : Nat) (path c : List Bool) :
    isInternalFor n path c = true ↔ path <+: c ∧ n + 8 < c.length := by
  simp [isInternalFor, List.isPrefixOf_iff_prefix]

/-- the rest `r` of the code of `s` ends inside the index byte: the child is the leaf of `s` -/
theorem look_leaf {T : Tables} (ok : TablesOk T) (s : Nat) (hs : s < T.codes.length) (acc r idx : List Bool)
    (hc : acc ++ r = T.codes[s]) (hr0 : r ≠ []) (hr8 : r.length ≤ 8) (hpre : r <+: idx) :
    look T acc idx = .leaf s r.length := by
  have hlen : T.codes[s].length = acc.length + r.length := by rw [← hc]; simp
  have hrpos : 0 < r.length := List.length_pos_iff.mpr hr0
  have hcp : T.codes[s] <+: acc ++ idx := by rw [← hc]; exact (List.prefix_append_right_inj acc).mpr hpre
  have hleaf : isLeafFor acc.length (acc ++ idx) T.codes[s] = true :=
    (isLeafFor_iff _ _ _).mpr ⟨hcp, by omega, by omega⟩
  have hothers : ∀ j (hj : j < T.codes.length), j ≠ s → isLeafFor acc.length (acc ++ idx) T.codes[j] = false := by
    intro j hj hjs
    cases h : isLeafFor acc.length (acc ++ idx) T.codes[j] with
    | false => rfl
    | true =>
      have hjp := ((isLeafFor_iff _ _ _).mp h).1
      have np := codes_noPre ok j s hj hs hjs
      rcases List.prefix_or_prefix_of_prefix hjp hcp with h1 | h1
      · exact absurd h1 np.1
      · exact absurd h1 np.2
  unfold look
  rw [findLeaf_hit _ _ T.codes 0 s hs hleaf hothers]
  simp only [Nat.zero_add]
  congr 1; omega

/-- the rest of the code is longer than the index byte, which equals its next 8 bits: internal node -/
theorem look_internal {T : Tables} (ok : TablesOk T) (s : Nat) (hs : s < T.codes.length) (acc r : List Bool)
    (hc : acc ++ r = T.codes[s]) (hr8 : 8 < r.length) :
    look T acc (r.take 8) = .internal := by
  have hlen : T.codes[s].length = acc.length + r.length := by rw [← hc]; simp
  have hpc : acc ++ r.take 8 <+: T.codes[s] := by
    rw [← hc]; exact (List.prefix_append_right_inj acc).mpr (List.take_prefix 8 r)
  have hplen : (acc ++ r.take 8).length = acc.length + 8 := by simp; omega
  have hnone : ∀ c ∈ T.codes, isLeafFor acc.length (acc ++ r.take 8) c = false := by
    intro c hcm
    cases h : isLeafFor acc.length (acc ++ r.take 8) c with
    | false => rfl
    | true =>
      obtain ⟨hcp, h1, h2⟩ := (isLeafFor_iff _ _ _).mp h
      obtain ⟨j, hj, rfl⟩ := List.getElem_of_mem hcm
      by_cases hjs : j = s
      · subst hjs; omega
      · have np := codes_noPre ok j s hj hs hjs
        exact absurd (hcp.trans hpc) np.1
  unfold look
  rw [findLeaf_none _ _ T.codes 0 hnone]
  have hany : T.codes.any (isInternalFor acc.length (acc ++ r.take 8)) = true :=
    List.any_eq_true.mpr ⟨T.codes[s], List.getElem_mem hs, (isInternalFor_iff _ _ _).mpr ⟨hpc, by omega⟩⟩
  simp [hany]

/-! ### decoding a canonical bit stream: codes of `syms`, then `k < 8` one-bits -/

def ones (k : Nat) : List Bool := List.replicate k true

theorem length_ones (k : Nat) : (ones k).length = k := by simp [ones]

/-- arithmetic on list lengths -/
macro "len_omega" : tactic =>
  `(tactic| (simp only [List.length_append, List.length_cons, List.length_nil, List.length_take, List.length_drop,
      length_ones, encBits] at *; omega))
macro "len_omega_with" h:term : tactic =>
  `(tactic| (simp only [List.length_append, List.length_cons, List.length_nil, List.length_take, List.length_drop,
      length_ones, encBits, $h:term] at *; omega))

theorem lt8_iff (bs : List Bool) : lt8 bs = true ↔ bs.length < 8 := by
  simp [lt8, List.drop_eq_nil_iff]; omega

/-- at a symbol boundary with only padding left, the tail loop emits nothing more -/
theorem tailLoop_pad {T : Tables} (ok : TablesOk T) (f k : Nat) (hk : k < 8) (out : List Nat) :
    tailLoop T f [] (ones k) out = .ok ([], ones k, out) := by
  cases f with
  | zero => rfl
  | succ f =>
    unfold tailLoop
    by_cases h0 : k = 0
    · subst h0; simp [ones]
    · have hlen : (ones k).length = k := by simp [ones]
      simp only [hlen, h0, if_false]
      have hp := ok.pad
      unfold padOk at hp
      have := List.all_eq_true.mp hp k (by simp; omega)
      simp only [ones]
      revert this
      cases look T [] (List.replicate k true ++ List.replicate (8 - k) false) with
      | nil => simp
      | internal => simp
      | leaf s l =>
        intro h
        have : l > k := by simpa using h
        simp [this]

theorem all_lt_tail {n : Nat} {c : Nat} {s : List Nat} (h : ∀ x ∈ c :: s, x < n) : ∀ x ∈ s, x < n :=
  fun x hx => h x (by simp [hx])

theorem symCode_eq (T : Tables) (c : Nat) (h : c < T.codes.length) : symCode T c = T.codes[c] := by
  simp [symCode, List.getD_eq_getElem?_getD, h]

/-- tail loop inside the code of `s`: the rest `r`, the codes of `syms` and the padding all fit in < 8 bits -/
theorem tailLoop_canon {T : Tables} (ok : TablesOk T) (k : Nat) (hk : k < 8) :
    ∀ (syms : List Nat) (f s : Nat) (acc r : List Bool) (out : List Nat),
    (∀ x ∈ syms, x < T.codes.length) → (hs : s < T.codes.length) → acc ++ r = T.codes[s] → r ≠ [] →
    (r ++ encBits T syms ++ ones k).length < 8 → (r ++ encBits T syms ++ ones k).length < f →
    tailLoop T f acc (r ++ encBits T syms ++ ones k) out = .ok ([], ones k, out ++ s :: syms) := by
  intro syms
  induction syms with
  | nil =>
    intro f s acc r out _ hs hc hr hl8 hf
    cases f with
    | zero => omega
    | succ f =>
      have hrpos : 0 < r.length := List.length_pos_iff.mpr hr
      simp only [encBits, List.append_nil] at *
      unfold tailLoop
      have hne : (r ++ ones k).length ≠ 0 := by len_omega
      simp only [hne, if_false]
      rw [look_leaf ok s hs acc r _ hc hr (by len_omega)
        (by rw [List.append_assoc]; exact List.prefix_append _ _)]
      have hle : ¬ (r.length > (r ++ ones k).length) := by len_omega
      simp only [hle, if_false, List.drop_left]
      rw [tailLoop_pad ok f k hk]
  | cons c syms ih =>
    intro f s acc r out hall hs hc hr hl8 hf
    cases f with
    | zero => omega
    | succ f =>
      have hrpos : 0 < r.length := List.length_pos_iff.mpr hr
      have hcl : c < T.codes.length := hall c (by simp)
      unfold tailLoop
      have hne : (r ++ encBits T (c :: syms) ++ ones k).length ≠ 0 := by len_omega
      simp only [hne, if_false]
      rw [look_leaf ok s hs acc r _ hc hr (by len_omega)
        (by rw [List.append_assoc, List.append_assoc]; exact List.prefix_append _ _)]
      have hle : ¬ (r.length > (r ++ encBits T (c :: syms) ++ ones k).length) := by len_omega
      simp only [hle, if_false]
      have hdrop : List.drop r.length (r ++ encBits T (c :: syms) ++ ones k) = symCode T c ++ encBits T syms ++ ones k := by
        rw [List.append_assoc, List.drop_left]; simp [encBits]
      rw [hdrop, symCode_eq T c hcl]
      have hsc := symCode_eq T c hcl
      have hlen2 : (T.codes[c] ++ encBits T syms ++ ones k).length + r.length = (r ++ encBits T (c :: syms) ++ ones k).length := by
        len_omega_with hsc
      refine (ih f c [] T.codes[c] (out ++ [s]) (all_lt_tail hall) hcl (by simp) (codes_ne_nil ok c hcl) (by omega) (by omega)).trans ?_
      simp

/-- main loop followed by the tail loop -/
def finish (T : Tables) (f : Nat) (acc bs : List Bool) (out : List Nat) : Except HErr (List Nat) :=
  match mainLoop T 0 f acc bs out with
  | .error e => .error e
  | .ok (a, p, o) => finalize (tailLoop T 8 a p o)

theorem finalize_pad (k : Nat) (hk : k < 8) (o : List Nat) : finalize (.ok ([], ones k, o)) = .ok o := by
  have h1 : ¬ (([] : List Bool).length + (ones k).length > 7) := by rw [length_ones]; simp; omega
  have h2 : (ones k).all id = true := by simp [ones]
  simp only [finalize, h1, if_false, h2, if_true]

theorem finish_pad {T : Tables} (ok : TablesOk T) (f k : Nat) (hk : k < 8) (out : List Nat) :
    finish T f [] (ones k) out = .ok out := by
  have hl : lt8 (ones k) = true := (lt8_iff _).mpr (by rw [length_ones]; omega)
  cases f with
  | zero => simp [finish, mainLoop, tailLoop_pad ok 8 k hk, finalize_pad k hk]
  | succ f => simp [finish, mainLoop, hl, tailLoop_pad ok 8 k hk, finalize_pad k hk]

theorem finish_canon {T : Tables} (ok : TablesOk T) (k : Nat) (hk : k < 8) :
    ∀ (f : Nat) (syms : List Nat) (s : Nat) (acc r : List Bool) (out : List Nat),
    (∀ x ∈ syms, x < T.codes.length) → (hs : s < T.codes.length) → acc ++ r = T.codes[s] → r ≠ [] →
    (r ++ encBits T syms ++ ones k).length < f →
    finish T f acc (r ++ encBits T syms ++ ones k) out = .ok (out ++ s :: syms) := by
  intro f
  induction f with
  | zero => intro syms s acc r out _ _ _ _ hf; omega
  | succ f ih =>
    intro syms s acc r out hall hs hc hr hf
    have hrpos : 0 < r.length := List.length_pos_iff.mpr hr
    by_cases hl : lt8 (r ++ encBits T syms ++ ones k) = true
    · have hl' := (lt8_iff _).mp hl
      simp only [finish, mainLoop, hl, if_true]
      rw [tailLoop_canon ok k hk syms 8 s acc r out hall hs hc hr hl' (by omega), finalize_pad k hk]
    · have hl' : ¬ (r ++ encBits T syms ++ ones k).length < 8 := fun h => hl ((lt8_iff _).mpr h)
      simp only [finish, mainLoop, hl, Bool.false_eq_true, if_false]
      by_cases hr8 : r.length ≤ 8
      · -- the code ends inside this byte
        have hpre : r <+: List.take 8 (r ++ encBits T syms ++ ones k) :=
          List.prefix_take_iff.mpr ⟨by rw [List.append_assoc]; exact List.prefix_append _ _, hr8⟩
        rw [look_leaf ok s hs acc r _ hc hr hr8 hpre]
        simp only [ne_eq, not_true_eq_false, false_and, if_false]
        have hdrop : List.drop r.length (r ++ encBits T syms ++ ones k) = encBits T syms ++ ones k := by
          rw [List.append_assoc, List.drop_left]
        rw [hdrop]
        cases syms with
        | nil =>
          simp only [encBits, List.nil_append]
          have := finish_pad ok f k hk (out ++ [s])
          simp only [finish] at this
          exact this
        | cons c syms =>
          have hcl : c < T.codes.length := hall c (by simp)
          have hsc := symCode_eq T c hcl
          have := ih syms c [] T.codes[c] (out ++ [s]) (all_lt_tail hall) hcl (by simp) (codes_ne_nil ok c hcl)
            (by len_omega_with hsc)
          simp only [finish] at this
          simp only [encBits, hsc, ← List.append_assoc] at this ⊢
          refine this.trans ?_; simp
      · -- the code continues: internal node
        have hr8' : 8 < r.length := by omega
        have htake : List.take 8 (r ++ encBits T syms ++ ones k) = r.take 8 := by
          rw [List.append_assoc, List.take_append_of_le_length (by omega)]
        have hdrop : List.drop 8 (r ++ encBits T syms ++ ones k) = r.drop 8 ++ encBits T syms ++ ones k := by
          rw [List.append_assoc, List.drop_append_of_le_length (by omega), List.append_assoc]
        rw [htake, look_internal ok s hs acc r hc hr8', hdrop]
        have := ih syms s (acc ++ r.take 8) (r.drop 8) out hall hs
          (by rw [List.append_assoc, List.take_append_drop]; exact hc)
          (by intro h; have := congrArg List.length h; len_omega)
          (by len_omega)
        simp only [finish] at this
        exact this

/-- **decoding a canonical bit stream** -/
theorem huffman_canon {T : Tables} (ok : TablesOk T) (syms : List Nat) (k : Nat) (hk : k < 8)
    (hall : ∀ x ∈ syms, x < T.codes.length) (v : List Nat) (hv : bytesBits v = encBits T syms ++ ones k) :
    huffmanDecode T 0 v = .ok syms := by
  unfold huffmanDecode
  simp only [hv]
  cases syms with
  | nil =>
    have := finish_pad ok ((encBits T [] ++ ones k).length + 1) k hk []
    simp only [finish, encBits, List.nil_append] at this ⊢
    exact this
  | cons c syms =>
    have hcl : c < T.codes.length := hall c (by simp)
    have hsc := symCode_eq T c hcl
    have := finish_canon ok k hk ((encBits T (c :: syms) ++ ones k).length + 1) syms c [] T.codes[c] []
      (all_lt_tail hall) hcl (by simp) (codes_ne_nil ok c hcl)
      (by len_omega_with hsc)
    simp only [finish, List.nil_append] at this
    simp only [encBits, hsc, ← List.append_assoc] at this ⊢
    exact this

/-! ### the encoder produces a canonical stream -/

theorem bits8 : ∀ b7 b6 b5 b4 b3 b2 b1 b0 : Bool,
    bitsOf (bitsToNat [b7, b6, b5, b4, b3, b2, b1, b0]) 8 = [b7, b6, b5, b4, b3, b2, b1, b0] := by decide

theorem bytesBits_packBytes : ∀ (n : Nat) (bs : List Bool), bs.length = 8 * n → bytesBits (packBytes bs) = bs := by
  intro n
  induction n with
  | zero =>
    intro bs h
    have : bs = [] := List.eq_nil_of_length_eq_zero (by omega)
    subst this; rfl
  | succ n ih =>
    intro bs h
    rcases bs with _ | ⟨b7, _ | ⟨b6, _ | ⟨b5, _ | ⟨b4, _ | ⟨b3, _ | ⟨b2, _ | ⟨b1, _ | ⟨b0, rest⟩⟩⟩⟩⟩⟩⟩⟩ <;>
      simp only [List.length_cons, List.length_nil] at h <;> try omega
    simp only [packBytes, bytesBits, bits8]
    rw [ih rest (by omega)]
    rfl

theorem padBits_eq {T : Tables} (ok : TablesOk T) (n : Nat) : padBits T n = ones ((8 - n % 8) % 8) := by
  unfold padBits ones
  rw [ok.eos, List.take_replicate]
  congr 1; omega

theorem bytesBits_huffEncode {T : Tables} (ok : TablesOk T) (s : List Nat) :
    bytesBits (huffEncode T s) = encBits T s ++ ones ((8 - (encBits T s).length % 8) % 8) := by
  unfold huffEncode
  rw [padBits_eq ok]
  apply bytesBits_packBytes (((encBits T s).length + (8 - (encBits T s).length % 8) % 8) / 8)
  rw [List.length_append, length_ones]
  omega

/-- **Huffman round trip** for tables satisfying the checked facts -/
theorem huffman_roundtrip {T : Tables} (ok : TablesOk T) (s : List Nat) (hs : ∀ c ∈ s, c < T.codes.length) :
    huffmanDecode T 0 (huffEncode T s) = .ok s :=
  huffman_canon ok s _ (by omega) hs _ (bytesBits_huffEncode ok s)

theorem huffEncode_length {T : Tables} (ok : TablesOk T) (s : List Nat) :
    (huffEncode T s).length = huffEncodeLength T s := by
  have h := congrArg List.length (bytesBits_huffEncode ok s)
  have hb : ∀ v : List Nat, (bytesBits v).length = 8 * v.length := by
    intro v; induction v with
    | nil => rfl
    | cons b r ih => simp [bytesBits, bitsOf, ih]; omega
  have hl : ∀ s : List Nat, (encBits T s).length = huffBitLen T s := by
    intro s; induction s with
    | nil => rfl
    | cons c r ih => simp [encBits, huffBitLen, ih]
  rw [hb, List.length_append, length_ones, hl] at h
  unfold huffEncodeLength
  omega

/-! ### soundness of the (fixed) decoder: whatever it accepts is a canonical stream -/

theorem findLeaf_some (n : Nat) (path : List Bool) : ∀ (cs : List (List Bool)) (i j l : Nat),
    findLeaf n path cs i = some (j, l) →
    ∃ s, ∃ (hs : s < cs.length), j = i + s ∧ isLeafFor n path cs[s] = true ∧ l = cs[s].length - n := by
  intro cs
  induction cs with
  | nil => intro i j l h; simp [findLeaf] at h
  | cons c cs ih =>
    intro i j l h
    unfold findLeaf at h
    by_cases hc : isLeafFor n path c = true
    · simp only [hc, if_true, Option.some.injEq, Prod.mk.injEq] at h
      exact ⟨0, by simp, by omega, by simpa using hc, by simp [h.2]⟩
    · simp only [hc] at h
      obtain ⟨s, hs, h1, h2, h3⟩ := ih (i + 1) j l h
      exact ⟨s + 1, by simpa using hs, by omega, by simpa using h2, by simpa using h3⟩

theorem look_leaf_sound (T : Tables) (acc idx : List Bool) (s l : Nat) (h : look T acc idx = .leaf s l) :
    ∃ (hs : s < T.codes.length), ∃ r, acc ++ r = T.codes[s] ∧ r.length = l ∧ r <+: idx ∧ 0 < l := by
  unfold look at h
  cases hf : findLeaf acc.length (acc ++ idx) T.codes 0 with
  | none => rw [hf] at h; simp only [] at h; split at h <;> cases h
  | some p =>
    obtain ⟨j, l'⟩ := p
    rw [hf] at h
    simp only [Look.leaf.injEq] at h
    obtain ⟨rfl, rfl⟩ := h
    obtain ⟨s, hs, hj, hleaf, hl⟩ := findLeaf_some _ _ _ _ _ _ hf
    have hjs : j = s := by omega
    subst hjs
    obtain ⟨hpre, h1, h2⟩ := (isLeafFor_iff _ _ _).mp hleaf
    have hacc : acc <+: T.codes[j] :=
      List.prefix_of_prefix_length_le (List.prefix_append acc idx) hpre (by omega)
    obtain ⟨r, hr⟩ := hacc
    refine ⟨hs, r, hr, ?_, ?_, by omega⟩
    · have := congrArg List.length hr
      rw [List.length_append] at this; omega
    · rw [← hr] at hpre
      exact (List.prefix_append_right_inj acc).mp hpre

theorem encBits_append (T : Tables) (a b : List Nat) : encBits T (a ++ b) = encBits T a ++ encBits T b := by
  induction a with
  | nil => rfl
  | cons c a ih => simp [encBits, ih]

/-- state invariant of the walk: the bits handled so far are the codes of the output followed by the
    path of the current node, which is empty or at least one whole byte long -/
theorem mainLoop_sound (T : Tables) (m : Nat) : ∀ (f : Nat) (acc bs : List Bool) (out : List Nat)
    (acc' bs' : List Bool) (out' : List Nat),
    mainLoop T m f acc bs out = .ok (acc', bs', out') → (acc = [] ∨ 8 ≤ acc.length) →
    ∃ syms, out' = out ++ syms ∧ acc ++ bs = encBits T syms ++ acc' ++ bs' ∧
      (∀ x ∈ syms, x < T.codes.length) ∧ (acc' = [] ∨ 8 ≤ acc'.length) := by
  intro f
  induction f with
  | zero =>
    intro acc bs out acc' bs' out' h hacc
    simp only [mainLoop, Except.ok.injEq, Prod.mk.injEq] at h
    obtain ⟨rfl, rfl, rfl⟩ := h
    exact ⟨[], by simp, by simp [encBits], by simp, hacc⟩
  | succ f ih =>
    intro acc bs out acc' bs' out' h hacc
    rw [mainLoop] at h
    by_cases hl : lt8 bs = true
    · simp only [hl, if_true, Except.ok.injEq, Prod.mk.injEq] at h
      obtain ⟨rfl, rfl, rfl⟩ := h
      exact ⟨[], by simp, by simp [encBits], by simp, hacc⟩
    · have hl8 : ¬ bs.length < 8 := fun hh => hl ((lt8_iff _).mpr hh)
      simp only [hl, Bool.false_eq_true, if_false] at h
      cases hk : look T acc (bs.take 8) with
      | nil => rw [hk] at h; cases h
      | leaf s l =>
        rw [hk] at h
        simp only [] at h
        split at h
        · cases h
        · obtain ⟨hs, r, hr, hrl, hpre, hlpos⟩ := look_leaf_sound T _ _ _ _ hk
          obtain ⟨syms, h1, h2, h3, h4⟩ := ih [] (bs.drop l) (out ++ [s]) acc' bs' out' h (Or.inl rfl)
          have hrbs : r <+: bs := hpre.trans (List.take_prefix 8 bs)
          obtain ⟨t, ht⟩ := hrbs
          have hdrop : bs.drop l = t := by rw [← ht, ← hrl, List.drop_left]
          refine ⟨s :: syms, by simp [h1], ?_, ?_, h4⟩
          · rw [← ht, ← List.append_assoc, hr]
            simp only [encBits, symCode_eq T s hs, List.append_assoc]
            rw [← hdrop]
            simpa using h2
          · intro x hx
            rcases List.mem_cons.mp hx with rfl | hx
            · exact hs
            · exact h3 x hx
      | internal =>
        rw [hk] at h
        simp only [] at h
        have hlen : 8 ≤ (acc ++ bs.take 8).length := by
          rw [List.length_append, List.length_take]; omega
        obtain ⟨syms, h1, h2, h3, h4⟩ := ih _ _ _ _ _ _ h (Or.inr hlen)
        refine ⟨syms, h1, ?_, h3, h4⟩
        rw [← h2, List.append_assoc, List.take_append_drop]

theorem tailLoop_sound (T : Tables) : ∀ (f : Nat) (acc pend : List Bool) (out : List Nat)
    (acc' pend' : List Bool) (out' : List Nat),
    tailLoop T f acc pend out = .ok (acc', pend', out') →
    ∃ syms, out' = out ++ syms ∧ acc ++ pend = encBits T syms ++ acc' ++ pend' ∧
      (∀ x ∈ syms, x < T.codes.length) ∧ (acc' = acc ∨ acc' = []) := by
  intro f
  induction f with
  | zero =>
    intro acc pend out acc' pend' out' h
    simp only [tailLoop, Except.ok.injEq, Prod.mk.injEq] at h
    obtain ⟨rfl, rfl, rfl⟩ := h
    exact ⟨[], by simp, by simp [encBits], by simp, Or.inl rfl⟩
  | succ f ih =>
    intro acc pend out acc' pend' out' h
    rw [tailLoop] at h
    have triv : ∀ (hh : (Except.ok (acc, pend, out) : Except HErr _) = .ok (acc', pend', out')),
        ∃ syms, out' = out ++ syms ∧ acc ++ pend = encBits T syms ++ acc' ++ pend' ∧
          (∀ x ∈ syms, x < T.codes.length) ∧ (acc' = acc ∨ acc' = []) := by
      intro hh
      simp only [Except.ok.injEq, Prod.mk.injEq] at hh
      obtain ⟨rfl, rfl, rfl⟩ := hh
      exact ⟨[], by simp, by simp [encBits], by simp, Or.inl rfl⟩
    by_cases h0 : pend.length = 0
    · simp only [if_pos h0] at h; exact triv h
    · simp only [if_neg h0] at h
      cases hk : look T acc (pend ++ List.replicate (8 - pend.length) false) with
      | nil => rw [hk] at h; cases h
      | internal => rw [hk] at h; exact triv h
      | leaf s l =>
        rw [hk] at h
        simp only [] at h
        by_cases hgt : l > pend.length
        · simp only [if_pos hgt] at h; exact triv h
        · simp only [if_neg hgt] at h
          obtain ⟨hs, r, hr, hrl, hpre, hlpos⟩ := look_leaf_sound T _ _ _ _ hk
          obtain ⟨syms, h1, h2, h3, h4⟩ := ih [] (pend.drop l) (out ++ [s]) acc' pend' out' h
          have hrp : r <+: pend :=
            List.prefix_of_prefix_length_le hpre (List.prefix_append pend _) (by omega)
          obtain ⟨t, ht⟩ := hrp
          have hdrop : pend.drop l = t := by rw [← ht, ← hrl, List.drop_left]
          refine ⟨s :: syms, by simp [h1], ?_, ?_, ?_⟩
          · rw [← ht, ← List.append_assoc, hr]
            simp only [encBits, symCode_eq T s hs, List.append_assoc]
            rw [← hdrop]
            simpa using h2
          · intro x hx
            rcases List.mem_cons.mp hx with rfl | hx
            · exact hs
            · exact h3 x hx
          · rcases h4 with h4 | h4 <;> exact Or.inr h4

/-- **soundness**: what the fixed `huffmanDecode` accepts is canonical (codes of the result, < 8 one-bits) -/
theorem huffman_sound (T : Tables) (m : Nat) (v res : List Nat) (h : huffmanDecode T m v = .ok res) :
    ∃ k, k < 8 ∧ bytesBits v = encBits T res ++ ones k ∧ ∀ x ∈ res, x < T.codes.length := by
  unfold huffmanDecode at h
  simp only [] at h
  cases hm : mainLoop T m ((bytesBits v).length + 1) [] (bytesBits v) [] with
  | error e => rw [hm] at h; cases h
  | ok p1 =>
    obtain ⟨a1, p1, o1⟩ := p1
    rw [hm] at h
    simp only [] at h
    obtain ⟨s1, ho1, hb1, hv1, ha1⟩ := mainLoop_sound T m _ _ _ _ _ _ _ hm (Or.inl rfl)
    cases ht : tailLoop T 8 a1 p1 o1 with
    | error e => rw [ht] at h; cases h
    | ok p2 =>
      obtain ⟨a2, p2, o2⟩ := p2
      rw [ht] at h
      obtain ⟨s2, ho2, hb2, hv2, ha2⟩ := tailLoop_sound T _ _ _ _ _ _ _ ht
      simp only [finalize] at h
      split at h
      · cases h
      · rename_i hlen
        split at h
        · rename_i hall
          simp only [Except.ok.injEq] at h
          have ha2nil : a2 = [] := by
            rcases ha2 with e | e
            · rcases ha1 with e1 | e1
              · rw [e, e1]
              · rw [e] at hlen; omega
            · exact e
          subst ha2nil
          have hp2 : p2 = ones p2.length := by
            unfold ones
            apply List.eq_replicate_iff.mpr
            exact ⟨rfl, fun b hb => by simpa using List.all_eq_true.mp hall b hb⟩
          refine ⟨p2.length, by simp at hlen; omega, ?_, ?_⟩
          · simp only [List.nil_append, List.append_nil] at hb1 hb2
            rw [hb1, List.append_assoc, hb2, ← h, ho2, ho1]
            simp only [List.nil_append, encBits_append, List.append_assoc]
            rw [← hp2]
          · rw [← h, ho2, ho1]
            intro x hx
            simp only [List.nil_append, List.mem_append] at hx
            rcases hx with hx | hx
            · exact hv1 x hx
            · exact hv2 x hx
        · cases h

/-- with no string-length limit the only Huffman error is ErrInvalidHuffman -/
theorem mainLoop_err0 (T : Tables) : ∀ (f : Nat) (acc bs : List Bool) (out : List Nat) (e : HErr),
    mainLoop T 0 f acc bs out = .error e → e = .invalid := by
  intro f
  induction f with
  | zero => intro acc bs out e h; simp [mainLoop] at h
  | succ f ih =>
    intro acc bs out e h
    rw [mainLoop] at h
    split at h
    · cases h
    · split at h
      · cases h; rfl
      · simp only [ne_eq, not_true_eq_false, false_and, if_false] at h
        exact ih _ _ _ _ h
      · exact ih _ _ _ _ h

theorem tailLoop_err (T : Tables) : ∀ (f : Nat) (acc pend : List Bool) (out : List Nat) (e : HErr),
    tailLoop T f acc pend out = .error e → e = .invalid := by
  intro f
  induction f with
  | zero => intro acc pend out e h; simp [tailLoop] at h
  | succ f ih =>
    intro acc pend out e h
    rw [tailLoop] at h
    split at h
    · cases h
    · split at h
      · cases h; rfl
      · cases h
      · split at h
        · cases h
        · exact ih _ _ _ _ h

theorem huffman_err0 (T : Tables) (v : List Nat) (e : HErr) (h : huffmanDecode T 0 v = .error e) : e = .invalid := by
  unfold huffmanDecode at h
  simp only [] at h
  cases hm : mainLoop T 0 ((bytesBits v).length + 1) [] (bytesBits v) [] with
  | error e' => rw [hm] at h; cases h; exact mainLoop_err0 T _ _ _ _ _ hm
  | ok p1 =>
    obtain ⟨a1, p1, o1⟩ := p1
    rw [hm] at h
    simp only [] at h
    cases ht : tailLoop T 8 a1 p1 o1 with
    | error e' => rw [ht] at h; simp only [finalize] at h; cases h; exact tailLoop_err T _ _ _ _ _ ht
    | ok p2 =>
      obtain ⟨a2, p2, o2⟩ := p2
      rw [ht] at h
      simp only [finalize] at h
      split at h
      · cases h; rfl
      · split at h
        · cases h
        · cases h; rfl

end BfeVerif.C30
