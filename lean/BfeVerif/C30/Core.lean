/-
  C30/C31 — executable model of bfe_http2/hpack (encode.go, hpack.go, huffman.go), core-only.
  Parametric in the tables (`Tables`), which each property instantiates with ITS OWN generated
  module (`Generated.C30` / `Generated.C31`, both extracted from tables.go on every check run).

  Conventions.  Wire bytes and header octets are `Nat`s (< 256 on every input the driver builds).
  Bit strings are `List Bool`, most significant bit first.

  What is mirrored literally: control flow of readVarInt/appendVarInt, readString/appendHpackString,
  parseHeaderFieldRepr and its four callees, Decoder.Write/Close (saveBuf), dynamicTable.add/evict/
  setMaxSize/search, Encoder.WriteField/searchTable/SetMaxDynamicTableSize(/Limit), and huffmanDecode's
  two loops and, after the C31 fix (upstream's checks), the nil test in the tail loop and the final
  `sbits > 7` / "padding is all ones" tests.
  What is abstracted (exercised by the correspondence run, not proved): the uint shift/mask
  arithmetic that packs bits into bytes (`cur`/`nbits` window, `rembits`), modelled as operations on
  bit lists; and the 256-ary decoding trie built by `init()/addDecoderNode`, modelled by its lookup
  function `look` (the child reached from the node with bit-path `acc` under index byte `idx`).
-/
namespace BfeVerif.C30

deriving instance DecidableEq for Except

/-! ### bits -/

/-- the `l` low bits of `c`, most significant first -/
def bitsOf (c : Nat) : Nat → List Bool
  | 0 => []
  | l + 1 => (c / 2 ^ l % 2 == 1) :: bitsOf c l

def bitsToNat (bs : List Bool) : Nat := bs.foldl (fun a b => 2 * a + (if b then 1 else 0)) 0

/-- all bits of a byte string -/
def bytesBits : List Nat → List Bool
  | [] => []
  | b :: r => bitsOf b 8 ++ bytesBits r

/-- pack bits (length a multiple of 8) into bytes -/
def packBytes : List Bool → List Nat
  | b7 :: b6 :: b5 :: b4 :: b3 :: b2 :: b1 :: b0 :: rest =>
      bitsToNat [b7, b6, b5, b4, b3, b2, b1, b0] :: packBytes rest
  | _ => []

structure Tables where
  /-- static table, HPACK index i+1 at position i -/
  static : List (List Nat × List Nat)
  /-- Huffman code of symbol i at position i -/
  codes : List (List Bool)
  /-- EOS code used for padding -/
  eos : List Bool

def mkTables (static : List (List Nat × List Nat)) (codes : List (Nat × Nat)) (eos : Nat × Nat) : Tables :=
  { static := static, codes := codes.map (fun p => bitsOf p.1 p.2), eos := bitsOf eos.1 eos.2 }

/-! ### Huffman encoding (huffman.go: AppendHuffmanString, HuffmanEncodeLength) -/

def symCode (T : Tables) (c : Nat) : List Bool := T.codes.getD c []

def encBits (T : Tables) : List Nat → List Bool
  | [] => []
  | c :: s => symCode T c ++ encBits T s

/-- `if rembits < 8 { dst[last] |= uint8(eos >> (30 - rembits)) }` : the top `rembits` bits of EOS -/
def padBits (T : Tables) (n : Nat) : List Bool := T.eos.take ((8 - n % 8) % 8)

def huffEncode (T : Tables) (s : List Nat) : List Nat :=
  packBytes (encBits T s ++ padBits T (encBits T s).length)

def huffBitLen (T : Tables) : List Nat → Nat
  | [] => 0
  | c :: s => (symCode T c).length + huffBitLen T s

def huffEncodeLength (T : Tables) (s : List Nat) : Nat := (huffBitLen T s + 7) / 8

/-! ### Huffman decoding (huffman.go: huffmanDecode) -/

inductive Look where
  | nil
  | leaf (sym len : Nat)
  | internal
  deriving Repr, DecidableEq

/-- `c` ends inside the byte `idx` that follows the path of `n` bits: entry is a leaf for `c` -/
def isLeafFor (n : Nat) (path c : List Bool) : Bool :=
  c.isPrefixOf path && decide (n < c.length) && decide (c.length ≤ n + 8)

/-- `c` continues beyond that byte: entry is an internal node -/
def isInternalFor (n : Nat) (path c : List Bool) : Bool :=
  path.isPrefixOf c && decide (n + 8 < c.length)

def findLeaf (n : Nat) (path : List Bool) : List (List Bool) → Nat → Option (Nat × Nat)
  | [], _ => none
  | c :: cs, i => if isLeafFor n path c then some (i, c.length - n) else findLeaf n path cs (i + 1)

/-- `node(acc).children[idx]` of the trie built by `addDecoderNode` over `huffmanCodes` (EOS is not in it) -/
def look (T : Tables) (acc idx : List Bool) : Look :=
  match findLeaf acc.length (acc ++ idx) T.codes 0 with
  | some (s, l) => .leaf s l
  | none => if T.codes.any (isInternalFor acc.length (acc ++ idx)) then .internal else .nil

/-! table facts (checked by `decide` on the generated tables, used as hypotheses of the general lemmas) -/

def heads (b : Bool) (cs : List (List Bool)) : List (List Bool) :=
  cs.filterMap fun c => match c with | x :: r => if x == b then some r else none | [] => none

/-- trie-shaped prefix-freeness check: ≥ 2 codes ⇒ none is empty, and both halves (by first bit) are prefix-free -/
def pfCheck : Nat → List (List Bool) → Bool
  | _, [] => true
  | _, [_] => true
  | 0, _ => false
  | f + 1, cs => cs.all (fun c => !c.isEmpty) && pfCheck f (heads false cs) && pfCheck f (heads true cs)

/-- all codes incl. EOS (last) -/
def allCodes (T : Tables) : List (List Bool) := T.codes ++ [T.eos]

/-- at the root, up to 7 one-bits followed by zero fill never select a nil child nor a code that fits -/
def padOk (T : Tables) : Bool :=
  (List.range 8).all fun k =>
    match look T [] (List.replicate k true ++ List.replicate (8 - k) false) with
    | .nil => false
    | .internal => true
    | .leaf _ l => decide (l > k)

inductive HErr where
  | invalid   -- ErrInvalidHuffman
  | strlen    -- ErrStringLength
  deriving Repr, DecidableEq

/-- `bs.length < 8` without walking the whole list -/
def lt8 (bs : List Bool) : Bool := (bs.drop 7).isEmpty

/-- the `for _, b := range v { … for nbits >= 8 { … } }` loop, as steps over the remaining bit stream
    (`acc` = bits consumed since the last emitted symbol, i.e. the current trie node). -/
def mainLoop (T : Tables) (maxLen : Nat) : Nat → List Bool → List Bool → List Nat →
    Except HErr (List Bool × List Bool × List Nat)
  | 0, acc, bs, out => .ok (acc, bs, out)
  | f + 1, acc, bs, out =>
    if lt8 bs then .ok (acc, bs, out)
    else
      match look T acc (bs.take 8) with
      | .nil => .error .invalid
      | .leaf s l =>
        if maxLen ≠ 0 ∧ out.length = maxLen then .error .strlen
        else mainLoop T maxLen f [] (bs.drop l) (out ++ [s])
      | .internal => mainLoop T maxLen f (acc ++ bs.take 8) (bs.drop 8) out

/-- the `for nbits > 0 { … }` tail loop (after the C31 fix: a nil child is an error); returns the state at
    `break` / loop exit: current node path, unconsumed bits, output -/
def tailLoop (T : Tables) : Nat → List Bool → List Bool → List Nat →
    Except HErr (List Bool × List Bool × List Nat)
  | 0, acc, pend, out => .ok (acc, pend, out)
  | f + 1, acc, pend, out =>
    if pend.length = 0 then .ok (acc, pend, out)
    else
      match look T acc (pend ++ List.replicate (8 - pend.length) false) with
      | .nil => .error .invalid                  -- `if n == nil { return ErrInvalidHuffman }`
      | .internal => .ok (acc, pend, out)        -- break
      | .leaf s l =>
        if l > pend.length then .ok (acc, pend, out)  -- break
        else tailLoop T f [] (pend.drop l) (out ++ [s])

/-- the two final checks of the fixed huffmanDecode: `sbits > 7` (bits since the last complete symbol =
    path of the current node + unconsumed bits) and "trailing bits are all ones" -/
def finalize : Except HErr (List Bool × List Bool × List Nat) → Except HErr (List Nat)
  | .error e => .error e
  | .ok (acc, pend, out) =>
    if acc.length + pend.length > 7 then .error .invalid
    else if pend.all id then .ok out
    else .error .invalid

def huffmanDecode (T : Tables) (maxLen : Nat) (v : List Nat) : Except HErr (List Nat) :=
  let bs := bytesBits v
  match mainLoop T maxLen (bs.length + 1) [] bs [] with
  | .error e => .error e
  | .ok (acc, pend, out) => finalize (tailLoop T 8 acc pend out)

/-! ### integers (hpack.go readVarInt, encode.go appendVarInt) -/

def appendVarIntTail (i : Nat) : List Nat :=
  if i < 128 then [i] else (128 + i % 128) :: appendVarIntTail (i / 128)
termination_by i
decreasing_by omega

def appendVarInt (n i : Nat) : List Nat :=
  let k := 2 ^ n - 1
  if i < k then [i] else k :: appendVarIntTail (i - k)

inductive DErr where
  | needMore      -- errNeedMore (internal)
  | overflow      -- errVarintOverflow
  | invalidIndex  -- InvalidIndexError
  | sizeTooLarge  -- "dynamic table size update too large"
  | huffman       -- ErrInvalidHuffman
  | strLen        -- ErrStringLength
  | crash         -- panic
  deriving Repr, DecidableEq

def readVarIntTail : List Nat → Nat → Nat → Except DErr (Nat × List Nat)
  | [], _, _ => .error .needMore
  | b :: p, i, m =>
    let i := i + (b % 128) * 2 ^ m
    if b < 128 then .ok (i, p)
    else if m + 7 ≥ 63 then .error .overflow
    else readVarIntTail p i (m + 7)

def readVarInt (n : Nat) : List Nat → Except DErr (Nat × List Nat)
  | [] => .error .needMore
  | b :: p =>
    let i := b % 2 ^ n
    if i < 2 ^ n - 1 then .ok (i, p) else readVarIntTail p i 0

/-! ### header fields and the dynamic table -/

structure HF where
  name : List Nat
  value : List Nat
  sensitive : Bool := false
  deriving Repr, DecidableEq

def HF.size (f : HF) : Nat := f.name.length + f.value.length + 32

/-- `ents` oldest first (Go appends at the end and evicts from the front) -/
structure DynTab where
  ents : List HF := []
  size : Nat := 0
  maxSize : Nat := 0
  deriving Repr, DecidableEq

/-- `for dt.size > dt.maxSize { dt.size -= dt.ents[0].Size(); dt.ents = dt.ents[1:] }`
    (with `ents = []` and `size > maxSize` Go would panic; excluded by `size = Σ sizes`). -/
def evictLoop : List HF → Nat → Nat → List HF × Nat
  | [], size, _ => ([], size)
  | e :: es, size, max => if size > max then evictLoop es (size - e.size) max else (e :: es, size)

def DynTab.evict (t : DynTab) : DynTab :=
  let r := evictLoop t.ents t.size t.maxSize
  { t with ents := r.1, size := r.2 }

def DynTab.setMaxSize (t : DynTab) (v : Nat) : DynTab := ({ t with maxSize := v }).evict

def DynTab.add (t : DynTab) (f : HF) : DynTab :=
  ({ t with ents := t.ents ++ [f], size := t.size + f.size }).evict

/-- the common loop of `Encoder.searchTable` (static part) and `dynamicTable.search`:
    entries in visiting order, `pos` = 1-based index of the head, `i` = index found so far. -/
def searchAux (f : HF) : List (List Nat × List Nat) → Nat → Nat → Nat × Bool
  | [], _, i => (i, false)
  | (n, v) :: rest, pos, i =>
    if n ≠ f.name then searchAux f rest (pos + 1) i
    else
      let i' := if i = 0 then pos else i
      if f.sensitive then searchAux f rest (pos + 1) i'
      else if v ≠ f.value then searchAux f rest (pos + 1) i'
      else (pos, true)

def dynPairs (ents : List HF) : List (List Nat × List Nat) := ents.reverse.map fun e => (e.name, e.value)

def searchTable (T : Tables) (ents : List HF) (f : HF) : Nat × Bool :=
  let r := searchAux f T.static 1 0
  if r.2 then r
  else
    let d := searchAux f (dynPairs ents) 1 0
    if d.2 || (r.1 == 0 && d.1 != 0) then (d.1 + T.static.length, d.2) else (r.1, d.2)

/-! ### encoder (encode.go) -/

def uint32Max : Nat := 2 ^ 32 - 1

structure Enc where
  tab : DynTab
  minSize : Nat := uint32Max
  limit : Nat
  pending : Bool := false       -- tableSizeUpdate
  deriving Repr, DecidableEq

def Enc.new (initial : Nat) : Enc :=
  { tab := ({} : DynTab).setMaxSize initial, limit := initial }

/-- `dst[first] |= flag` for a flag whose bits are above the integer prefix -/
def orFirst (flag : Nat) : List Nat → List Nat
  | [] => []
  | b :: r => (b + flag) :: r

def appendHpackString (T : Tables) (s : List Nat) : List Nat :=
  let hl := huffEncodeLength T s
  if hl < s.length then orFirst 128 (appendVarInt 7 hl) ++ huffEncode T s
  else appendVarInt 7 s.length ++ s

def encodeTypeByte (indexing sensitive : Bool) : Nat :=
  if sensitive then 16 else if indexing then 64 else 0

def appendTableSize (v : Nat) : List Nat := orFirst 32 (appendVarInt 5 v)

def Enc.setMaxDynamicTableSize (e : Enc) (v : Nat) : Enc :=
  let v := if v > e.limit then e.limit else v
  { e with minSize := if v < e.minSize then v else e.minSize, pending := true, tab := e.tab.setMaxSize v }

/-- (after the C30 fix: the shrinking branch also lowers `minSize`, as SetMaxDynamicTableSize does) -/
def Enc.setMaxDynamicTableSizeLimit (e : Enc) (v : Nat) : Enc :=
  if e.tab.maxSize > v then
    { e with limit := v, minSize := if v < e.minSize then v else e.minSize, pending := true,
             tab := e.tab.setMaxSize v }
  else { e with limit := v }

/-- first part of `Encoder.WriteField`: the pending "Header Table Size Update"(s) -/
def Enc.flush (e : Enc) : Enc × List Nat :=
  if e.pending then
    ({ e with pending := false, minSize := uint32Max },
      (if e.minSize < e.tab.maxSize then appendTableSize e.minSize else []) ++ appendTableSize e.tab.maxSize)
  else (e, [])

/-- second part of `Encoder.WriteField`: search, maybe index, one representation -/
def Enc.encodeField (T : Tables) (e1 : Enc) (f : HF) : Enc × List Nat :=
  let r := searchTable T e1.tab.ents f
  if r.2 then (e1, orFirst 128 (appendVarInt 7 r.1))
  else
    let indexing := !f.sensitive && decide (f.size ≤ e1.tab.maxSize)
    let e2 : Enc := if indexing then { e1 with tab := e1.tab.add f } else e1
    let body :=
      if r.1 = 0 then
        [encodeTypeByte indexing f.sensitive] ++ appendHpackString T f.name ++ appendHpackString T f.value
      else
        orFirst (encodeTypeByte indexing f.sensitive) (appendVarInt (if indexing then 6 else 4) r.1)
          ++ appendHpackString T f.value
    (e2, body)

/-- `Encoder.WriteField`: new encoder state and the bytes of the single `Write` -/
def Enc.writeField (T : Tables) (e : Enc) (f : HF) : Enc × List Nat :=
  let p := e.flush
  let q := p.1.encodeField T f
  (q.1, p.2 ++ q.2)

/-! ### decoder (hpack.go) -/

structure Dec where
  tab : DynTab
  allowed : Nat          -- dynTab.allowedMaxSize
  maxStrLen : Nat := 0   -- 0 = unlimited
  deriving Repr, DecidableEq

def Dec.new (maxSize : Nat) : Dec := { tab := ({} : DynTab).setMaxSize maxSize, allowed := maxSize }

/-- `Decoder.at` -/
def Dec.at (T : Tables) (d : Dec) (i : Nat) : Option (List Nat × List Nat) :=
  if i < 1 then none
  else if i > d.tab.ents.length + T.static.length then none
  else if i ≤ T.static.length then T.static[i - 1]?
  else (d.tab.ents[d.tab.ents.length - (i - T.static.length)]?).map fun e => (e.name, e.value)

def liftH : Except HErr (List Nat) → Except DErr (List Nat)
  | .ok s => .ok s
  | .error .invalid => .error .huffman
  | .error .strlen => .error .strLen

/-- `Decoder.readString` (wantStr = true: emitEnabled is never switched off here) -/
def readString (T : Tables) (maxStrLen : Nat) (p : List Nat) : Except DErr (List Nat × List Nat) :=
  match p with
  | [] => .error .needMore
  | b :: _ =>
    let isHuff := b ≥ 128
    match readVarInt 7 p with
    | .error e => .error e
    | .ok (strLen, p) =>
      if maxStrLen ≠ 0 ∧ strLen > maxStrLen then .error .strLen
      else if p.length < strLen then .error .needMore
      else if !isHuff then .ok (p.take strLen, p.drop strLen)
      else
        match liftH (huffmanDecode T maxStrLen (p.take strLen)) with
        | .error e => .error e
        | .ok s => .ok (s, p.drop strLen)

/-- result of parsing one representation: new decoder, rest of the buffer, emitted field (if any);
    `.error` carries, for errors raised by callEmit AFTER the table was changed, nothing more: the
    connection is dead after any error other than needMore. -/
abbrev Parsed := Except DErr (Dec × List Nat × Option HF)

/-- `callEmit` (emitEnabled, the emit function never fails) -/
def callEmit (d : Dec) (rest : List Nat) (hf : HF) : Parsed :=
  if d.maxStrLen ≠ 0 ∧ (hf.name.length > d.maxStrLen ∨ hf.value.length > d.maxStrLen) then .error .strLen
  else .ok (d, rest, some hf)

def parseFieldIndexed (T : Tables) (d : Dec) (buf : List Nat) : Parsed :=
  match readVarInt 7 buf with
  | .error e => .error e
  | .ok (idx, rest) =>
    match d.at T idx with
    | none => .error .invalidIndex
    | some (n, v) => callEmit d rest { name := n, value := v }

/-- `it`: 0 = indexedTrue, 1 = indexedFalse, 2 = indexedNever -/
def parseFieldLiteral (T : Tables) (d : Dec) (buf : List Nat) (n : Nat) (it : Nat) : Parsed :=
  match readVarInt n buf with
  | .error e => .error e
  | .ok (nameIdx, rest) =>
    let nameRes : Except DErr (List Nat × List Nat) :=
      if nameIdx > 0 then
        match d.at T nameIdx with
        | none => .error .invalidIndex
        | some (nm, _) => .ok (nm, rest)
      else readString T d.maxStrLen rest
    match nameRes with
    | .error e => .error e
    | .ok (nm, rest) =>
      match readString T d.maxStrLen rest with
      | .error e => .error e
      | .ok (val, rest) =>
        let d' : Dec := if it = 0 then { d with tab := d.tab.add { name := nm, value := val } } else d
        callEmit d' rest { name := nm, value := val, sensitive := it = 2 }

def parseDynamicTableSizeUpdate (d : Dec) (buf : List Nat) : Parsed :=
  match readVarInt 5 buf with
  | .error e => .error e
  | .ok (size, rest) =>
    if size > d.allowed then .error .sizeTooLarge
    else .ok ({ d with tab := d.tab.setMaxSize size }, rest, none)

/-- `parseHeaderFieldRepr` (the final "invalid encoding" return is unreachable: the five cases cover
    every first byte) -/
def parseRepr (T : Tables) (d : Dec) (buf : List Nat) : Parsed :=
  match buf with
  | [] => .error .needMore
  | b :: _ =>
    if b ≥ 128 then parseFieldIndexed T d buf
    else if b ≥ 64 then parseFieldLiteral T d buf 6 0
    else if b < 16 then parseFieldLiteral T d buf 4 1
    else if b < 32 then parseFieldLiteral T d buf 4 2
    else parseDynamicTableSizeUpdate d buf

/-- state of a `Decoder` between calls: tables/settings, saveBuf, fields emitted so far -/
structure DState where
  dec : Dec
  save : List Nat := []
  out : List HF := []
  deriving Repr, DecidableEq

/-- the `for len(d.buf) > 0` loop of `Write`; returns the state and the error (if any) -/
def writeLoop (T : Tables) : Nat → Dec → List Nat → List HF → DState × Option DErr
  | 0, d, buf, out => ({ dec := d, save := buf, out := out }, none)
  | f + 1, d, buf, out =>
    if buf.length = 0 then ({ dec := d, out := out }, none)
    else
      match parseRepr T d buf with
      | .error .needMore =>
        if d.maxStrLen ≠ 0 ∧ buf.length > 2 * (d.maxStrLen + 8) then ({ dec := d, out := out }, some .strLen)
        else ({ dec := d, save := buf, out := out }, none)
      | .error e => ({ dec := d, out := out }, some e)
      | .ok (d', rest, em) => writeLoop T f d' rest (match em with | some h => out ++ [h] | none => out)

/-- `Decoder.Write(p)` -/
def DState.write (T : Tables) (s : DState) (p : List Nat) : DState × Option DErr :=
  if p.length = 0 then (s, none)
  else
    let buf := s.save ++ p
    writeLoop T (buf.length + 1) s.dec buf s.out

/-- `Decoder.Close()` : true = "truncated headers" -/
def DState.close (s : DState) : DState × Bool :=
  if s.save.length > 0 then ({ s with save := [] }, true) else (s, false)

end BfeVerif.C30
