import BfeVerif.C30.Model
import BfeVerif.C30.Huffman
/-! Lemmas for C30 (core Lean only). -/
namespace BfeVerif.C30

/-! ### integers -/

theorem readVarIntTail_append (j : Nat) : ∀ (m acc : Nat) (rest : List Nat), m % 7 = 0 → m ≤ 56 →
    j < 2 ^ (63 - m) →
    readVarIntTail (appendVarIntTail j ++ rest) acc m = .ok (acc + j * 2 ^ m, rest) := by
  induction j using Nat.strongRecOn with
  | _ j ih =>
    intro m acc rest hm7 hm hj
    rw [appendVarIntTail]
    by_cases h : j < 128
    · simp only [h, if_true, List.cons_append, List.nil_append, readVarIntTail]
      rw [Nat.mod_eq_of_lt h]
    · simp only [h, if_false, List.cons_append, readVarIntTail]
      have hb : ¬ (128 + j % 128 < 128) := by omega
      have hmod : (128 + j % 128) % 128 = j % 128 := by omega
      have hm49 : m ≤ 49 := by
        by_cases h56 : m = 56
        · subst h56; simp at hj; omega
        · omega
      have hnov : ¬ (m + 7 ≥ 63) := by omega
      simp only [hb, if_false, hnov, hmod]
      have hq : j / 128 < 2 ^ (63 - (m + 7)) := by
        apply Nat.div_lt_of_lt_mul
        have : 2 ^ (63 - m) = 128 * 2 ^ (63 - (m + 7)) := by
          have : 63 - m = (63 - (m + 7)) + 7 := by omega
          rw [this, Nat.pow_add]; omega
        omega
      rw [ih (j / 128) (by omega) (m + 7) _ rest (by omega) (by omega) hq]
      congr 2
      have hp : 2 ^ (m + 7) = 2 ^ m * 128 := by rw [Nat.pow_add]
      rw [hp]
      have hj' : j = 128 * (j / 128) + j % 128 := (Nat.div_add_mod j 128).symm
      generalize j / 128 = q at *
      generalize j % 128 = r at *
      generalize 2 ^ m = P at *
      subst hj'
      rw [Nat.add_mul, Nat.add_assoc]
      congr 1
      rw [Nat.add_comm]
      congr 1
      rw [Nat.mul_comm P 128, ← Nat.mul_assoc, Nat.mul_comm q 128]

theorem readVarInt_append (n i : Nat) (rest : List Nat) (hi : i < 2 ^ 63) :
    readVarInt n (appendVarInt n i ++ rest) = .ok (i, rest) := by
  unfold appendVarInt
  have hpos : 0 < 2 ^ n := Nat.two_pow_pos n
  by_cases h : i < 2 ^ n - 1
  · simp only [h, if_true, List.cons_append, List.nil_append, readVarInt]
    have : i % 2 ^ n = i := Nat.mod_eq_of_lt (by omega)
    simp [this, h]
  · simp only [h, if_false, List.cons_append, readVarInt]
    have : (2 ^ n - 1) % 2 ^ n = 2 ^ n - 1 := Nat.mod_eq_of_lt (by omega)
    simp only [this, Nat.lt_irrefl, if_false]
    rw [readVarIntTail_append (i - (2 ^ n - 1)) 0 _ rest (by omega) (by omega) (by simp; omega)]
    simp; omega

/-- the same with a representation flag or-ed into the first octet (`dst[first] |= flag`) -/
theorem readVarInt_orFirst (n i flag : Nat) (rest : List Nat) (hi : i < 2 ^ 63) (hf : flag % 2 ^ n = 0) :
    readVarInt n (orFirst flag (appendVarInt n i) ++ rest) = .ok (i, rest) := by
  have h0 := readVarInt_append n i rest hi
  unfold appendVarInt at *
  by_cases h : i < 2 ^ n - 1
  · simp only [h, if_true, orFirst, List.cons_append, List.nil_append, readVarInt] at h0 ⊢
    have : (i + flag) % 2 ^ n = i % 2 ^ n := by
      rw [Nat.add_mod, hf, Nat.add_zero, Nat.mod_mod]
    rw [this]; exact h0
  · simp only [h, if_false, orFirst, List.cons_append, readVarInt] at h0 ⊢
    have : (2 ^ n - 1 + flag) % 2 ^ n = (2 ^ n - 1) % 2 ^ n := by
      rw [Nat.add_mod, hf, Nat.add_zero, Nat.mod_mod]
    rw [this]; exact h0

/-! ### string literals -/

theorem appendVarInt_head (n i : Nat) : ∃ b r, appendVarInt n i = b :: r ∧ b < 2 ^ n := by
  unfold appendVarInt
  have hpos : 0 < 2 ^ n := Nat.two_pow_pos n
  by_cases h : i < 2 ^ n - 1
  · exact ⟨i, [], by simp [h], by omega⟩
  · exact ⟨2 ^ n - 1, appendVarIntTail (i - (2 ^ n - 1)), by simp [h], by omega⟩

theorem readString_append {T : Tables} (ok : TablesOk T) (s rest : List Nat)
    (hs : ∀ c ∈ s, c < T.codes.length) (hlen : s.length < 2 ^ 63) :
    readString T 0 (appendHpackString T s ++ rest) = .ok (s, rest) := by
  unfold appendHpackString
  have hhl : huffEncodeLength T s ≤ huffBitLen T s + 7 := by unfold huffEncodeLength; omega
  by_cases hh : huffEncodeLength T s < s.length
  · simp only [hh, if_true]
    obtain ⟨b, r, hbr, hb⟩ := appendVarInt_head 7 (huffEncodeLength T s)
    have hrd := readVarInt_orFirst 7 (huffEncodeLength T s) 128 (huffEncode T s ++ rest) (by omega) (by decide)
    rw [← List.append_assoc] at hrd
    rw [hbr] at hrd ⊢
    simp only [orFirst, List.cons_append, List.append_assoc] at hrd ⊢
    unfold readString
    simp only [hrd]
    have hge : b + 128 ≥ 128 := by omega
    have hl := huffEncode_length ok s
    simp only [ne_eq, not_true_eq_false, false_and, if_false, hge, decide_true, Bool.not_true, Bool.false_eq_true]
    have hnl : ¬ ((huffEncode T s ++ rest).length < huffEncodeLength T s) := by
      rw [List.length_append, hl]; omega
    simp only [hnl, if_false]
    rw [← hl, List.take_left, List.drop_left, huffman_roundtrip ok s hs]
    rfl
  · simp only [hh, if_false]
    obtain ⟨b, r, hbr, hb⟩ := appendVarInt_head 7 s.length
    have hrd := readVarInt_append 7 s.length (s ++ rest) hlen
    rw [List.append_assoc]
    rw [hbr] at hrd ⊢
    simp only [List.cons_append] at hrd ⊢
    unfold readString
    simp only [hrd]
    have hlt : ¬ (b ≥ 128) := by omega
    simp only [ne_eq, not_true_eq_false, false_and, if_false, hlt, decide_false, Bool.not_false]
    have hnl : ¬ ((s ++ rest).length < s.length) := by rw [List.length_append]; omega
    simp only [hnl, if_false, if_true, List.take_left, List.drop_left]

/-! ### dynamic table -/

def sumSizes : List HF → Nat
  | [] => 0
  | e :: es => e.size + sumSizes es

/-- well-formedness of a table: `size` is the sum of the entry sizes -/
def DynTab.WF (t : DynTab) : Prop := t.size = sumSizes t.ents

theorem sumSizes_append (a b : List HF) : sumSizes (a ++ b) = sumSizes a + sumSizes b := by
  induction a with
  | nil => simp [sumSizes]
  | cons x xs ih => simp [sumSizes, ih]; omega

theorem evictLoop_spec (ents : List HF) : ∀ (size max : Nat), size = sumSizes ents →
    (evictLoop ents size max).2 = sumSizes (evictLoop ents size max).1 ∧
    (evictLoop ents size max).2 ≤ max ∧
    ∃ k, (evictLoop ents size max).1 = ents.drop k := by
  induction ents with
  | nil => intro size max h; simp [evictLoop, sumSizes] at *; omega
  | cons e es ih =>
    intro size max h
    unfold evictLoop
    by_cases hgt : size > max
    · simp only [hgt, if_true]
      have := ih (size - e.size) max (by simp [sumSizes] at h; omega)
      refine ⟨this.1, this.2.1, ?_⟩
      obtain ⟨k, hk⟩ := this.2.2
      exact ⟨k + 1, by simpa using hk⟩
    · simp only [hgt, if_false]
      exact ⟨h, by omega, 0, by simp⟩

theorem evict_WF (t : DynTab) (h : t.WF) : t.evict.WF ∧ t.evict.size ≤ t.evict.maxSize := by
  have := evictLoop_spec t.ents t.size t.maxSize h
  exact ⟨this.1, this.2.1⟩

end BfeVerif.C30
