import BfeVerif.C30.Core
import BfeVerif.Generated.C30
/-
  C30 — the model instantiated with the tables extracted from tables.go, and the history semantics
  the driver runs: an Encoder (NewEncoder) feeding a Decoder (NewDecoder(4096) +
  SetAllowedMaxDynamicTableSize(A)) block by block.
-/
namespace BfeVerif.C30
open BfeVerif.Generated.C30 (staticTable huffCodes eosCode initialHeaderTableSize)

/-- the tables of the current source tree -/
def T : Tables := mkTables staticTable huffCodes eosCode

/-- operations of a history -/
inductive Op where
  | field (f : HF)          -- Encoder.WriteField
  | setMax (v : Nat)        -- Encoder.SetMaxDynamicTableSize
  | setLimit (v : Nat)      -- Encoder.SetMaxDynamicTableSizeLimit
  | endBlock                -- hand the bytes written so far to Decoder.Write, then Close
  deriving Repr, DecidableEq

/-- what is observed at the end of one header block -/
structure BlockObs where
  bytes : List Nat
  fields : List HF
  err : Option DErr
  truncated : Bool
  enc : DynTab
  dec : DynTab
  pending : Bool        -- the encoder still owes the decoder a size update at this point
  deriving Repr, DecidableEq

structure Hist where
  enc : Enc
  dec : DState
  cur : List Nat := []
  obs : List BlockObs := []
  dead : Bool := false
  deriving Repr

def Hist.init (allowed : Nat) : Hist :=
  { enc := Enc.new initialHeaderTableSize,
    dec := { dec := { (Dec.new initialHeaderTableSize) with allowed := allowed } } }

def Hist.step (T : Tables) (h : Hist) : Op → Hist
  | .field f => if h.dead then h else
      let r := h.enc.writeField T f
      { h with enc := r.1, cur := h.cur ++ r.2 }
  | .setMax v => if h.dead then h else { h with enc := h.enc.setMaxDynamicTableSize v }
  | .setLimit v => if h.dead then h else { h with enc := h.enc.setMaxDynamicTableSizeLimit v }
  | .endBlock => if h.dead then h else
      let s0 : DState := { h.dec with out := [] }
      let (s1, e) := s0.write T h.cur
      let (s2, tr) := match e with | none => s1.close | some _ => (s1, false)
      { h with dec := s2, cur := [],
               obs := h.obs ++ [{ bytes := h.cur, fields := s1.out, err := e, truncated := tr,
                                  enc := h.enc.tab, dec := s2.dec.tab, pending := h.enc.pending }],
               dead := e.isSome || tr }

/-- the field lists the property expects the decoder to emit, block by block (`cur` = fields written since
    the last `endBlock`) -/
def expected : List Op → List HF → List (List HF)
  | [], _ => []
  | .field f :: r, cur => expected r (cur ++ [f])
  | .endBlock :: r, cur => cur :: expected r []
  | _ :: r, cur => expected r cur

/-- what C30 demands of the record of one header block (`a` = the decoder's allowed maximum, `exp` = the
    fields written into the block) -/
structure GoodObs (a : Nat) (o : BlockObs) (exp : List HF) : Prop where
  noerr : o.err = none
  notrunc : o.truncated = false
  fields : o.fields = exp                       -- names, values and never-index flags, in order
  decle : o.dec.size ≤ o.dec.maxSize
  encle : o.enc.size ≤ o.enc.maxSize
  maxa : o.dec.maxSize ≤ a
  eq : o.pending = false → o.enc = o.dec        -- whole tables (entries, size, maxSize)

/-- block records and expected field lists correspond one to one, and every record is good -/
def AllGood (a : Nat) : List BlockObs → List (List HF) → Prop
  | [], [] => True
  | o :: os, e :: es => GoodObs a o e ∧ AllGood a os es
  | _, _ => False

/-- the histories C30 quantifies over: header octets are bytes, strings shorter than 2^31, and the encoder's
    limit is never set above what the decoder allows (so every announced size is allowed) -/
def OpValid (a : Nat) : Op → Prop
  | .field f => ((∀ c ∈ f.name, c < 256) ∧ f.name.length < 2 ^ 31) ∧ ((∀ c ∈ f.value, c < 256) ∧ f.value.length < 2 ^ 31)
  | .setLimit v => v ≤ a
  | _ => True

def runHist (T : Tables) (allowed : Nat) (ops : List Op) : Hist := ops.foldl (Hist.step T) (Hist.init allowed)

end BfeVerif.C30
