import BfeVerif.C30.Core
import BfeVerif.Generated.C30
/-
  C30 — the model instantiated with the tables extracted from tables.go, and the history semantics
  the driver runs: an Encoder (NewEncoder) feeding a Decoder (NewDecoder(4096) +
  SetAllowedMaxDynamicTableSize(A)) block by block.
-/
namespace BfeVerif.C30
open BfeVerif.Generated.C30 (staticTable huffCodes eosCode initialHeaderTableSize)

/-- the tables of the current source tree -/
def T : Tables := mkTables staticTable huffCodes eosCode

/-- operations of a history -/
inductive Op where
  | field (f : HF)          -- Encoder.WriteField
  | setMax (v : Nat)        -- Encoder.SetMaxDynamicTableSize
  | setLimit (v : Nat)      -- Encoder.SetMaxDynamicTableSizeLimit
  | endBlock                -- hand the bytes written so far to Decoder.Write, then Close
  deriving Repr, DecidableEq

/-- what is observed at the end of one header block -/
structure BlockObs where
  bytes : List Nat
  fields : List HF
  err : Option DErr
  truncated : Bool
  enc : DynTab
  dec : DynTab
  deriving Repr, DecidableEq

structure Hist where
  enc : Enc
  dec : DState
  cur : List Nat := []
  obs : List BlockObs := []
  dead : Bool := false
  deriving Repr

def Hist.init (allowed : Nat) : Hist :=
  { enc := Enc.new initialHeaderTableSize,
    dec := { dec := { (Dec.new initialHeaderTableSize) with allowed := allowed } } }

def Hist.step (T : Tables) (h : Hist) : Op → Hist
  | .field f => if h.dead then h else
      let r := h.enc.writeField T f
      { h with enc := r.1, cur := h.cur ++ r.2 }
  | .setMax v => if h.dead then h else { h with enc := h.enc.setMaxDynamicTableSize v }
  | .setLimit v => if h.dead then h else { h with enc := h.enc.setMaxDynamicTableSizeLimit v }
  | .endBlock => if h.dead then h else
      let s0 : DState := { h.dec with out := [] }
      let (s1, e) := s0.write T h.cur
      let (s2, tr) := match e with | none => s1.close | some _ => (s1, false)
      { h with dec := s2, cur := [],
               obs := h.obs ++ [{ bytes := h.cur, fields := s1.out, err := e, truncated := tr,
                                  enc := h.enc.tab, dec := s2.dec.tab }],
               dead := e.isSome || tr }

def runHist (T : Tables) (allowed : Nat) (ops : List Op) : Hist := ops.foldl (Hist.step T) (Hist.init allowed)

end BfeVerif.C30
