import BfeVerif.Common.Proto
import BfeVerif.C30.Model
/-!
  C30 driver.
  op     = `A=<allowed>;<op>;<op>…`   with  `f:<name hex>:<value hex>:<0|1>` | `m:<v>` | `l:<v>` | `e`
  result = one record per `e`, joined by `;`:
           `B<block hex>|F<name:value:s,…>|E<err>|T<n>,<size>,<max>,<hash>/<n>,<size>,<max>,<hash>|W<k>|X<Y|N-…>`
           (T = encoder/decoder table; W = Write calls the encoder made for the block; X = a second decoder fed the same
           blocks one octet per Write agrees in error, fields and table, and every Write returned len(p).  The harness
           overwrites each buffer after the Write that consumed it and renders all fields after the last block.)
-/
namespace BfeVerif.C30
open BfeVerif.Proto

def hexN (l : List Nat) : String := hexField (l.map fun b => UInt8.ofNat b)

def unhexN (s : String) : Option (List Nat) := (bytesOfHex s).map fun l => l.map fun b => b.toNat

def renderHF (f : HF) : String := hexN f.name ++ ":" ++ hexN f.value ++ ":" ++ (if f.sensitive then "1" else "0")

def renderFields (fs : List HF) : String := if fs.isEmpty then "-" else ",".intercalate (fs.map renderHF)

def renderErr : Option DErr → Bool → String
  | none, false => "none"
  | none, true => "err:truncated"
  | some .needMore, _ => "err:needmore"
  | some .overflow, _ => "err:varint"
  | some .invalidIndex, _ => "err:index"
  | some .sizeTooLarge, _ => "err:size"
  | some .huffman, _ => "err:huffman"
  | some .strLen, _ => "err:strlen"
  | some .crash, _ => "PANIC"

def tabHash (t : DynTab) : Nat :=
  t.ents.foldl (fun h e =>
    let h := e.name.foldl (fun h b => (h * 131 + b + 1) % 4294967296) h
    let h := (h * 131) % 4294967296
    let h := e.value.foldl (fun h b => (h * 131 + b + 1) % 4294967296) h
    (h * 131) % 4294967296) 0

def renderTab (t : DynTab) : String :=
  s!"{t.ents.length},{t.size},{t.maxSize},{tabHash t}"

def renderObs (o : BlockObs) (writes : Nat) : String :=
  "B" ++ hexN o.bytes ++ "|F" ++ renderFields o.fields ++ "|E" ++ renderErr o.err o.truncated ++
    "|T" ++ renderTab o.enc ++ "/" ++ renderTab o.dec ++ "|W" ++ toString writes ++ "|XY"

/-- kinds of the representations of a block, scanned without tables: true = dynamic table size update -/
def scanKinds : Nat → List Nat → List Bool
  | 0, _ => []
  | f + 1, buf =>
    match buf with
    | [] => []
    | b :: _ =>
      if b ≥ 128 then
        match readVarInt 7 buf with
        | .ok (_, rest) => false :: scanKinds f rest
        | .error _ => []
      else if 32 ≤ b ∧ b < 64 then
        match readVarInt 5 buf with
        | .ok (_, rest) => true :: scanKinds f rest
        | .error _ => []
      else
        match readVarInt (if b ≥ 64 then 6 else 4) buf with
        | .error _ => []
        | .ok (idx, rest) =>
          let skip := fun (p : List Nat) =>
            match p with
            | [] => none
            | _ :: _ => match readVarInt 7 p with
              | .ok (n, r) => if r.length < n then none else some (r.drop n)
              | .error _ => none
          match (if idx = 0 then skip rest else some rest) with
          | none => []
          | some r1 => match skip r1 with
            | none => []
            | some r2 => false :: scanKinds f r2

/-- RFC 7541 §4.2 on the encoder's output: no size update after a field representation -/
def updatesFirst (bytes : List Nat) : Bool :=
  let ks := scanKinds (bytes.length + 1) bytes
  !((ks.dropWhile id).any id)

def parseOp (s : String) : Option Op :=
  match s.splitOn ":" with
  | ["e"] => some .endBlock
  | ["m", v] => v.toNat?.map .setMax
  | ["l", v] => v.toNat?.map .setLimit
  | ["f", n, v, sf] =>
    match unhexN n, unhexN v with
    | some n, some v => some (.field { name := n, value := v, sensitive := sf == "1" })
    | _, _ => none
  | _ => none

def parseHist (op : String) : Option (Nat × List Op) :=
  match op.splitOn ";" with
  | hd :: rest =>
    match hd.splitOn "=" with
    | ["A", a] =>
      match a.toNat? with
      | none => none
      | some a =>
        let ops := rest.map parseOp
        if ops.all Option.isSome then some (a, ops.filterMap id) else none
    | _ => none
  | [] => none

/-- the field lists the property expects the decoder to emit, per block: the fields, "no size op since the last field" (tables must be equal), and "a size op came after
    the block's first field" (then a size update in the middle of the block is the caller's doing) -/
def expectedBlocks : List Op → List HF → Bool → Bool → List (List HF × Bool × Bool)
  | [], _, _, _ => []
  | .field f :: r, cur, _, mid => expectedBlocks r (cur ++ [f]) true mid
  | .endBlock :: r, cur, sync, mid => (cur, sync, mid) :: expectedBlocks r [] sync false
  | _ :: r, cur, _, mid => expectedBlocks r cur false (mid || !cur.isEmpty)

def parseTab (s : String) : Option (Nat × Nat × Nat × Nat) :=
  match (s.splitOn ",").map String.toNat? with
  | [some n, some sz, some mx, some h] => some (n, sz, mx, h)
  | _ => none

/-- spec oracle for one block record of the implementation -/
def judgeBlock (allowed : Nat) (expected : List HF) (sync mid : Bool) (rec : String) : Option String :=
  match rec.splitOn "|" with
  | [b, f, e, t, w, x] =>
    if e != "Enone" then some "decode-error"
    else if w != "W" ++ toString expected.length then some "write-calls"
    else if x != "XY" then some ("bytewise-" ++ (x.drop 3).toString)
    else if !mid ∧ !(match unhexN (b.drop 1).toString with | some bs => updatesFirst bs | none => false) then
      some "size-update-not-first"
    else if f != "F" ++ renderFields expected then some "fields-differ"
    else
      match (t.drop 1).toString.splitOn "/" with
      | [et, dt] =>
        match parseTab et, parseTab dt with
        | some (en, es, em, eh), some (dn, ds, dm, dh) =>
          if es > em ∨ ds > dm then some "table-over-max"
          else if dm > allowed then some "max-over-allowed"
          else if sync ∧ (en, es, em, eh) ≠ (dn, ds, dm, dh) then some "table-desync"
          else none
        | _, _ => some "bad-record"
      | _ => some "bad-record"
  | _ => some "bad-record"

def judge (allowed : Nat) : List (List HF × Bool × Bool) → List String → Option String
  | [], [] => none
  | e :: es, r :: rs => match judgeBlock allowed e.1 e.2.1 e.2.2 r with | some c => some c | none => judge allowed es rs
  | _, _ => some "block-count"

def run (op impl : String) : Ans :=
  match parseHist op with
  | none => { model := "bad-op", verdict := "skip" }
  | some (allowed, ops) =>
    let h := runHist T allowed ops
    let exp := expectedBlocks ops [] true false
    let m := ";".intercalate ((h.obs.zip exp).map fun p => renderObs p.1 p.2.1.length)
    let m := if m.isEmpty then "-" else m
    let recs := if impl == "-" then [] else impl.splitOn ";"
    let verdict := match judge allowed exp recs with | none => "ok" | some c => "FAIL:" ++ c
    let nf := (ops.filter fun o => match o with | .field _ => true | _ => false).length
    let dynref := h.obs.any fun o => o.bytes.any fun b => b ≥ 190   -- indexed repr with index ≥ 62
    let upd := h.obs.any fun o => o.bytes.head?.any fun b => 32 ≤ b ∧ b < 64
    let huff := ops.any fun o => match o with
      | .field f => decide (huffEncodeLength T f.value < f.value.length) | _ => false
    let evict := h.obs.any fun o => o.enc.ents.length > 0 ∧ o.enc.size + 32 > o.enc.maxSize
    let tags := (if dynref then ["dynref"] else []) ++ (if upd then ["sizeupd"] else []) ++
      (if huff then ["huff"] else []) ++ (if evict then ["nearfull"] else []) ++
      (if ops.any fun o => match o with | .field f => f.sensitive | _ => false then ["sens"] else []) ++
      (if h.obs.length ≥ 8 then ["long"] else []) ++
      (if nf ≥ 2 ∧ (dynref ∨ upd) then ["nt"] else [])
    { model := m, verdict := verdict, tags := tags }

end BfeVerif.C30
