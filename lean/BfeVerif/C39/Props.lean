import BfeVerif.C39.Proofs
/-!
  C39 — SPDY frames round-trip and parsing is robust.  Property theorems only.

  Full statement (round trip): every frame the framer writes, with any header names and values, is read back with
  the same fields and headers.  What is proved here is the name/value-block core of it for the FIXED writer
  (`C39_block_roundtrip`), plus the robustness clauses that hold and concrete witnesses for those that do not.
-/
namespace BfeVerif.C39

/-- **Round trip of the name/value block** (the part of every SYN_STREAM / SYN_REPLY / HEADERS frame that carries
    the headers), for ANY header names and values: parsing what `writeHeaderValueBlock` wrote, followed by arbitrary
    further bytes, consumes exactly the block, raises no flag, and yields the entries in order with lower-cased
    names and NUL-joined values.  Hypotheses: at most 1024 headers (the reader's limit), lengths fit 32 bits,
    `ToLower` idempotent on the names, and no lower-cased name equals the canonical key of an earlier entry (the
    reader's duplicate check).  No hypothesis on the byte length of the lower-cased name: after the fix the length
    written is the length of the text written. -/
theorem C39_block_roundtrip (E : Env) (hs : Hdrs) (rest : Bytes)
    (hn : hs.length ≤ 1024) (hsm : Small E hs) (hc : Clean E hs) :
    ∃ s, parseBlock E (writeBlock E hs ++ rest) = .ok (s, rest) ∧ s.flag = none ∧
      s.raw = hs.map fun p => (E.lower (E.lower p.1), joinNul p.2) := by
  refine ⟨hs.foldl (stepEntry E) {}, parseBlock_write E hs hsm hn rest, ?_, ?_⟩
  · exact flag_fold E hs {} hc rfl (fun q _ => rfl)
  · simpa using raw_fold E hs {}

/-- the header map built while parsing contains exactly the canonical keys of the written names. -/
theorem C39_block_keys (E : Env) (hs : Hdrs) (k : Bytes) :
    hHas (hs.foldl (stepEntry E) {}).hdrs k = hs.any fun p => decide (E.canon (E.lower (E.lower p.1)) = k) := by
  simpa [hHas] using hHas_fold E hs {} k

/-- **After a per-frame header error the reader still stands at the end of the block**: upper-case or duplicate
    names only set a flag (`UnlowercasedHeaderName`, `DuplicateHeaders`), the loop parses on — so whether and where
    the parse of a block ends does not depend on `ToLower` / the canonical keys at all; in particular a block with an
    offending name is consumed exactly like the same block without the offence, and the next frame of the shared
    decompression stream starts where it should. -/
theorem C39_block_end_independent_of_name_errors (E E' : Env) (inp : Bytes) :
    restOf (parseBlock E inp) = restOf (parseBlock E' inp) := by
  unfold parseBlock
  cases h : rd32 inp with
  | none => rfl
  | some p =>
    obtain ⟨n, r⟩ := p
    simp only []
    split
    · rfl
    · exact parseEntries_rest_indep E E' n r {} {}

/-- the writer of the UNFIXED code (length of the name taken before `ToLower`), kept to state the old defect. -/
def writeBlockOld (E : Env) (hs : Hdrs) : Bytes :=
  be32 hs.length ++
    hs.flatMap fun (n, vs) => be32 n.length ++ E.lower n ++ be32 (joinNul vs).length ++ joinNul vs

/-- a `ToLower` that maps the Kelvin sign (E2 84 AA) to `k`, as Go does -/
def kelvinEnv : Env :=
  { lower := fun l => if l = [0xE2, 0x84, 0xAA] then [0x6B] else l, canon := id }

set_option maxRecDepth 8000 in
/-- **Witness of the fixed defect**: with the old writer a header named U+212A cannot be read back (the block
    announces 3 name bytes but carries 1); the fixed writer round-trips it by `C39_block_roundtrip`. -/
theorem C39_witness_name_length_old :
    (match parseBlock kelvinEnv (writeBlockOld kelvinEnv [([0xE2, 0x84, 0xAA], [[0x76]])]) with
      | .error .blk => true
      | _ => false) = true := by
  decide

def idEnv : Env := { lower := id, canon := id }

/-- bytes a `ReadFrame` takes from the connection -/
def used (E : Env) (rd : Rd) : Nat := rd.inp.length - (readFrame E rd).rd.inp.length

/-- Full statement (frame boundaries): a successful read consumes exactly `8 + length` bytes. -/
def BoundaryOK (E : Env) (rd : Rd) : Prop :=
  ∀ f l, (readFrame E rd).res = .ok f → declaredLen rd.inp = some l → used E rd = 8 + l

/-- **Witness (known finding `ctl-length-unchecked`)**: a PING announcing 8 payload bytes is accepted after 4 of
    them were read: the next frame is read from the wrong offset. -/
theorem C39_witness_ping_boundary :
    ¬ BoundaryOK idEnv { inp := [0x80, 3, 0, 6, 0, 0, 0, 8, 0, 0, 0, 1, 0, 0, 0, 0] } := by
  intro h
  have := h (.ping 1 8) 8 (by rfl) (by rfl)
  revert this
  decide

/-- the same for RST_STREAM (length 12 announced, 8 bytes read) and SETTINGS (length 4 announced, 12 read). -/
theorem C39_witness_rst_settings_boundary :
    ¬ BoundaryOK idEnv { inp := [0x80, 3, 0, 3, 0, 0, 0, 12, 0, 0, 0, 1, 0, 0, 0, 5, 9, 9, 9, 9] } ∧
    ¬ BoundaryOK idEnv { inp := [0x80, 3, 0, 4, 0, 0, 0, 4, 0, 0, 0, 1, 0, 0, 0, 7, 0, 0, 0, 9] } := by
  constructor
  · intro h
    have := h (.rst 1 5 12) 12 (by rfl) (by rfl)
    revert this; decide
  · intro h
    have := h (.settings 0 4 [(0, 7, 9)]) 4 (by rfl) (by rfl)
    revert this; decide

/-- **Boundaries, data frames**: a data frame that is returned consumed exactly `8 + length` bytes. -/
theorem C39_boundary_data_partial (E : Env) (rd : Rd) (first : Nat) (r1 : Bytes) (w2 : Nat) (r2 : Bytes)
    (h1 : take32 rd.inp = .ok (first, r1)) (hd : first < 2147483648) (h2 : take32 r1 = .ok (w2, r2))
    (f : Frame) (hok : (readFrame E rd).res = .ok f) :
    (readFrame E rd).rd.inp = r2.drop (w2 % 16777216) ∧ w2 % 16777216 ≤ r2.length := by
  unfold readFrame at hok ⊢
  simp only [h1, h2] at hok ⊢
  have hn : ¬ first ≥ 2147483648 := by omega
  simp only [hn, if_false] at hok ⊢
  by_cases hs : r2.length < w2 % 16777216
  · simp [hs] at hok
  · simp only [hs, if_false] at hok ⊢
    by_cases hz : first = 0
    · simp [hz] at hok
    · simp only [hz, if_false]
      constructor <;> first | rfl | trivial | omega

theorem lor_flags (fl len : Nat) (hl : len < 16777216) : fl * 16777216 ||| len = fl * 16777216 + len := by
  have h := Nat.shiftLeft_add_eq_or_of_lt (a := fl) (i := 24) (b := len) (by omega)
  rw [Nat.shiftLeft_eq] at h
  simpa using h.symm

/-- **Reading is a pure function of the bytes, results are values**: the DATA frame the framer wrote is read back
    with its own payload, the reader then stands at the next frame — whatever follows and whatever was read before
    (the result does not mention the reader's state).  Iterated over a concatenation of written frames this gives
    the list of the frames, each with its own bytes; the correspondence run compares all frames of a sequence only
    after the last one was read and the input was overwritten, so that an implementation returning views into a
    reused buffer disagrees with this theorem's model. -/
theorem C39_data_roundtrip (E : Env) (sid flags : Nat) (d rest carry : Bytes)
    (hs : 0 < sid ∧ sid < 2147483648) (hf : flags < 256) (hd : d.length ≤ 16777215) :
    ∃ bs, writeFrame E (.data sid flags d) = .ok bs ∧
      (readFrame E { inp := bs ++ rest, carry := carry }).res = .ok (.data sid flags d) ∧
      (readFrame E { inp := bs ++ rest, carry := carry }).rd = { inp := rest, carry := carry } := by
  have h0 : ¬ sid = 0 := by omega
  have h1 : ¬ (sid ≥ 2147483648 ∨ d.length > 16777215) := by omega
  refine ⟨be32 sid ++ be32 ((flags * 16777216 ||| d.length) % 4294967296) ++ d,
    by simp only [writeFrame, h0, h1, if_false], ?_⟩
  have hw : (flags * 16777216 ||| d.length) % 4294967296 = flags * 16777216 + d.length := by
    rw [lor_flags flags d.length (by omega)]; omega
  have hge : ¬ sid ≥ 2147483648 := by omega
  have hfl : (flags * 16777216 + d.length) / 16777216 = flags := by omega
  have hln : (flags * 16777216 + d.length) % 16777216 = d.length := by omega
  have hlt : ¬ (d ++ rest).length < d.length := by simp
  simp only [readFrame, List.append_assoc, take32_be32 sid (by omega), hw,
    take32_be32 (flags * 16777216 + d.length) (by omega), hge, if_false, hfl, hln, hlt, h0,
    List.take_left, List.drop_left]
  constructor <;> first | rfl | trivial

/-- **Segmentation**: every fixed-size read of the framer is an `io.ReadFull` on the connection.  On a source that
    delivers its bytes in arbitrary chunks (one byte at a time, with empty reads, …) `ReadFull` obtains exactly the
    first `n` bytes of the concatenation and leaves a source whose concatenation is the rest.  `readFrame` is defined
    on that concatenation (`take32`, `take8`, `take`/`drop`), so what it returns does not depend on the chunking; the
    one dependence of the real reader — `bufio`'s read-ahead inside the header-block window, known finding
    `wide-window-chunking` — lies outside this list semantics and is exercised (every third case is also read one byte
    at a time and with random cuts / empty reads / data+EOF). -/
theorem C39_readfull_chunking (chunks : List Bytes) (n : Nat) :
    (readFullS chunks n).1 = chunks.flatten.take n ∧ (readFullS chunks n).2.flatten = chunks.flatten.drop n :=
  readFullS_spec chunks n

example : readFullS [[1, 2], [], [3], [4, 5, 6]] 4 = ([1, 2, 3, 4], [[5, 6]]) := by decide

/-- **No over-read after the fix**: a SYN_STREAM / SYN_REPLY / HEADERS frame whose declared length is smaller than
    its fixed part is rejected before a single payload byte is read (the unfixed code computed `length - 10` on
    `uint32` and let the inflater read ~4 GiB past the frame). -/
theorem C39_short_header_frame_reads_nothing (E : Env) (rd : Rd) (t flags len : Nat)
    (ht : (t = 1 ∧ len < 10) ∨ ((t = 2 ∨ t = 8) ∧ len < 4)) :
    (readControl E t flags len rd).res = .error .invctl ∧ (readControl E t flags len rd).rd = rd := by
  rcases ht with ⟨rfl, h⟩ | ⟨rfl | rfl, h⟩ <;> simp [readControl, h]

/-- Full statement (allocation): every `make` requested while reading a frame is bounded by the frame's size. -/
def AllocOK (E : Env) (rd : Rd) : Prop :=
  ∀ l, declaredLen rd.inp = some l → ∀ a ∈ (readFrame E rd).allocs, a ≤ 1032 * (8 + l)

/-- **Witness (known finding `alloc-unbounded`)**: a 24 byte SYN_REPLY frame makes the parser request 4 GiB. -/
theorem C39_witness_alloc :
    ¬ AllocOK idEnv { inp := [0x80, 3, 0, 2, 0, 0, 0, 16, 0, 0, 0, 1,  0, 0, 0, 1, 0xff, 0xff, 0xff, 0xff, 0, 0, 0, 0] } := by
  intro h
  have := h 16 (by rfl) 4294967295 (by decide)
  omega

/-- **Allocation, frames without header block**: whatever the bytes, a data frame requests exactly its declared
    length, SETTINGS at most 12 bytes per announced entry (≤ 1024 entries), the other control frames nothing. -/
theorem C39_alloc_partial (E : Env) (rd : Rd) (first : Nat) (r1 : Bytes) (w2 : Nat) (r2 : Bytes)
    (h1 : take32 rd.inp = .ok (first, r1)) (h2 : take32 r1 = .ok (w2, r2))
    (hnh : ¬ (first ≥ 2147483648 ∧ isHeaderType (first % 65536) = true)) :
    ∀ a ∈ (readFrame E rd).allocs, a ≤ max (w2 % 16777216) (12 * 1024) := by
  unfold readFrame
  simp only [h1, h2]
  by_cases hc : first ≥ 2147483648
  · simp only [hc, if_true]
    have ht : isHeaderType (first % 65536) = false := by
      cases h : isHeaderType (first % 65536) with
      | true => exact absurd ⟨hc, h⟩ hnh
      | false => rfl
    generalize first % 65536 = t at ht ⊢
    unfold readControl
    split <;> try (simp [isHeaderType] at ht)
    all_goals (repeat' split) <;> simp_all [failShort, maxNumSettings] <;> omega
  · simp only [hc, if_false]
    repeat' split
    all_goals simp <;> omega

example : Clean idEnv [([0x61], [[0x62]]), ([0x63], [[0x64], [0x65]])] := by
  refine ⟨rfl, ?_, rfl, ?_, trivial⟩ <;> simp [idEnv]
example : Small idEnv [([0x61], [[0x62]])] := by
  intro p hp; simp at hp; subst hp; decide

end BfeVerif.C39
