import BfeVerif.Common.Proto
import BfeVerif.C39.Model
/-!
  C39 driver.  ops: see harness/cmd/c39/main.go.
  model result : what the model predicts the harness prints;
  verdict      : spec oracle on the implementation's own result string.
-/
namespace BfeVerif.C39
open BfeVerif.Proto

/-! ### concrete `strings.ToLower` (on the harness alphabet) and `CanonicalMIMEHeaderKey` -/

def lowerTable : List (Bytes × Bytes) :=
  [ ([0xE2, 0x84, 0xAA], [0x6B]),              -- KELVIN SIGN -> k
    ([0xC4, 0xB0], [0x69]),                    -- I WITH DOT ABOVE -> i
    ([0xC3, 0x89], [0xC3, 0xA9]),              -- É -> é
    ([0xC3, 0xA9], [0xC3, 0xA9]),
    ([0xE4, 0xB8, 0xAD], [0xE4, 0xB8, 0xAD]),  -- 中
    ([0xE2, 0x84, 0xA6], [0xCF, 0x89]),        -- OHM SIGN -> ω
    ([0xCF, 0x89], [0xCF, 0x89]),
    ([0xC8, 0xBA], [0xE2, 0xB1, 0xA5]),        -- Ⱥ -> ⱥ
    ([0xE2, 0xB1, 0xA5], [0xE2, 0xB1, 0xA5]),
    ([0xEF, 0xBF, 0xBD], [0xEF, 0xBF, 0xBD]),  -- U+FFFD
    ([0xFF], [0xEF, 0xBF, 0xBD]) ]             -- invalid byte -> U+FFFD

def asciiLower (b : UInt8) : UInt8 := if 65 ≤ b.toNat ∧ b.toNat ≤ 90 then b + 32 else b

def matchTable (l : Bytes) : List (Bytes × Bytes) → Option (Bytes × Nat)
  | [] => none
  | (k, v) :: t => if k.isPrefixOf l then some (v, k.length) else matchTable l t

/-- non-ASCII path of ToLower on the alphabet; `none` = a byte sequence outside the alphabet. -/
def lowerNA : Nat → Bytes → Option Bytes
  | 0, _ => some []
  | _, [] => some []
  | fuel + 1, b :: r =>
    if b.toNat < 128 then (lowerNA fuel r).map (asciiLower b :: ·)
    else match matchTable (b :: r) lowerTable with
      | none => none
      | some (v, n) => (lowerNA fuel ((b :: r).drop n)).map (v ++ ·)

def lowerGo? (l : Bytes) : Option Bytes :=
  if l.all (fun b => b.toNat < 128) then some (l.map asciiLower) else lowerNA (l.length + 1) l

def lowerGo (l : Bytes) : Bytes := (lowerGo? l).getD l

def isTokenByte (b : UInt8) : Bool :=
  let n := b.toNat
  (48 ≤ n && n ≤ 57) || (65 ≤ n && n ≤ 90) || (97 ≤ n && n ≤ 122) ||
    [33, 35, 36, 37, 38, 39, 42, 43, 45, 46, 94, 95, 96, 124, 126].contains n

def canonLoop : Bool → Bytes → Bytes
  | _, [] => []
  | upper, c :: r =>
    let n := c.toNat
    let c' := if upper && 97 ≤ n && n ≤ 122 then c - 32 else if !upper && 65 ≤ n && n ≤ 90 then c + 32 else c
    c' :: canonLoop (c' == 45) r

def canonGo (l : Bytes) : Bytes := if l.all isTokenByte then canonLoop true l else l

def envGo : Env := { lower := lowerGo, canon := canonGo }

/-! ### rendering (must match harness/cmd/c39/main.go) -/

def bytesLt : Bytes → Bytes → Bool
  | [], [] => false
  | [], _ :: _ => true
  | _ :: _, [] => false
  | a :: x, b :: y => if a < b then true else if b < a then false else bytesLt x y

def insertSorted (p : Bytes × List Bytes) : Hdrs → Hdrs
  | [] => [p]
  | q :: t => if bytesLt p.1 q.1 then p :: q :: t else q :: insertSorted p t

def sortHdrs (h : Hdrs) : Hdrs := h.foldl (fun acc p => insertSorted p acc) []

def renderHdrs (h : Hdrs) : String :=
  if h.isEmpty then "_" else
  "|".intercalate ((sortHdrs h).map fun (k, vs) => hexField k ++ "=" ++ ",".intercalate (vs.map hexField))

def renderFrame : Frame → String
  | .syn sid assoc prio slot flags len hs => s!"S:{sid}:{assoc}:{prio}:{slot}:{flags}:{len}:{renderHdrs hs}"
  | .reply sid flags len hs => s!"R:{sid}:{flags}:{len}:{renderHdrs hs}"
  | .headers sid flags len hs => s!"H:{sid}:{flags}:{len}:{renderHdrs hs}"
  | .rst sid status len => s!"T:{sid}:{status}:{len}"
  | .settings flags len l =>
    let body := if l.isEmpty then "_" else ",".intercalate (l.map fun (a, b, c) => s!"{a}.{b}.{c}")
    s!"G:{flags}:{len}:{body}"
  | .ping id len => s!"P:{id}:{len}"
  | .goaway last status => s!"A:{last}:{status}"
  | .wu sid delta => s!"W:{sid}:{delta}"
  | .data sid flags d => s!"D:{sid}:{flags}:{hexField d}"

def bigAlloc : Nat := 1048576
def maxFrames : Nat := 12

/-- reads frames like `readAll` of the harness.  `stops` = wire offsets after which an accepted frame ends the run. -/
def readAll (total : Nat) (stops : List Nat) (bounds : Option (List Nat)) (hdrRanges : List (Nat × Nat))
    (cont : List Nat) (seg : Bool := false) : Nat → Rd → List String → List String
  | 0, _, acc => acc.reverse
  | fuel + 1, rd, acc =>
    let pos := total - rd.inp.length
    let r := readFrame envGo rd
    let used := rd.inp.length - r.rd.inp.length
    let consumed := total - r.rd.inp.length
    -- `~segwide`: this frame's window reaches past its block; read in pieces the real reader refuses it (see `segOp`)
    let wideMark := if seg && stops.contains pos then ["~segwide"] else []
    if hdrRanges.any (fun (a, b) => pos != a && pos < b && consumed > a) then ("span" :: acc).reverse ++ wideMark else
    let big := if r.allocs.any (· ≥ bigAlloc) then "!big" else ""
    -- a name outside the ToLower alphabet of this driver: the prediction is void (marker token)
    let acc := if r.names.all (fun nm => (lowerGo? nm).isSome) then acc else "?alphabet" :: acc
    match r.res with
    | .error e =>
      if e == .eof && used == 0 then ("EOF" :: acc).reverse else
      let ftype : Int := match rd32 rd.inp with
        | some (w, _) => if w ≥ 2147483648 then ((w % 65536 : Nat) : Int) else -1
        | none => -1
      let over := match declaredLen rd.inp with
        | some l => if used > 8 + l then s!"!over{ftype}" else ""
        | none => ""
      if e == .blk then (s!"E:blk{big}{over}" :: acc).reverse
      else
        let tok := s!"E:{e.str}+{used}{big}{over}"
        -- per-frame errors of a frame parsed to its end: reading goes on (as `readAll` of the harness)
        let recoverable := e == .zero || e == .invhdr || e == .toolong ||
          ((e == .unlower || e == .dup) && cont.contains pos)
        if !recoverable || big != "" || over != "" || stops.contains pos ||
            (match bounds with | some bs => !bs.contains consumed | none => false) then
          (tok :: acc).reverse ++ (if e == .invctl then [] else wideMark)
        else readAll total stops bounds hdrRanges cont seg fuel r.rd (tok :: acc)
    | .ok f =>
      let l := (declaredLen rd.inp).getD 0
      let delta : Int := (used : Int) - ((8 + l : Nat) : Int)
      let tok := s!"{renderFrame f}@{delta}{big}"
      if stops.contains pos then ("stop" :: tok :: acc).reverse ++ wideMark
      else if (match bounds with | some bs => !bs.contains (total - r.rd.inp.length) | none => false) then
        ("desync" :: tok :: acc).reverse
      else readAll total stops bounds hdrRanges cont seg fuel r.rd (tok :: acc)

/-! ### op parsing -/

def num? (s : String) (bound : Nat) : Option Nat :=
  match s.toNat? with
  | some n => if n < bound then some n else none
  | none => none

def parseVals (s : String) : Option (List Bytes) :=
  if s == "" then some [] else (s.splitOn ",").mapM bytesOfHex

def parseHdrs (s : String) : Option Hdrs :=
  if s == "_" then some [] else
  (s.splitOn "|").mapM fun e =>
    match e.splitOn "=" with
    | [k, v] => do
      let kb ← bytesOfHex k
      let vs ← parseVals v
      pure (kb, vs)
    | _ => none

def u32 : Nat := 4294967296

def parseSettingItem (e : String) : Option (Nat × Nat × Nat) :=
  match e.splitOn "." with
  | [x, y, z] => do pure ((← num? x 256), (← num? y u32), (← num? z u32))
  | _ => none

def parseSettingItems (l : String) : Option (List (Nat × Nat × Nat)) :=
  if l == "_" then some [] else (l.splitOn ",").mapM parseSettingItem

def parseRtFrame (tok : String) : Option Frame :=
  match tok.splitOn ":" with
  | ["S", a, b, c, d, e, h] => do
    pure (.syn (← num? a u32) (← num? b u32) (← num? c 256) (← num? d 256) (← num? e 256) 0 (← parseHdrs h))
  | ["R", a, b, h] => do pure (.reply (← num? a u32) (← num? b 256) 0 (← parseHdrs h))
  | ["H", a, b, h] => do pure (.headers (← num? a u32) (← num? b 256) 0 (← parseHdrs h))
  | ["T", a, b] => do pure (.rst (← num? a u32) (← num? b u32) 0)
  | ["G", a, l] => do
    let fl ← num? a 256
    let items ← parseSettingItems l
    pure (.settings fl 0 items)
  | ["P", a] => do pure (.ping (← num? a u32) 0)
  | ["A", a, b] => do pure (.goaway (← num? a u32) (← num? b u32))
  | ["W", a, b] => do pure (.wu (← num? a u32) (← num? b u32))
  | ["D", a, b, d] => do pure (.data (← num? a u32) (← num? b 256) (← bytesOfHex d))
  | _ => none

def frameHdrs : Frame → Option Hdrs
  | .syn _ _ _ _ _ _ hs | .reply _ _ _ hs | .headers _ _ _ hs => some hs
  | _ => none

/-- number of leading bytes of a written header-bearing frame that the harness prints. -/
def fixedPrefix : Frame → Option Nat
  | .syn .. => some 18
  | .reply .. | .headers .. => some 12
  | _ => none

/-- `execRt` of the harness on the model. -/
def runRt (frames : List Frame) : String :=
  let rec go : List Frame → Bytes → List String → Bytes × List String
    | [], wire, acc => (wire, acc.reverse)
    | f :: rest, wire, acc =>
      match writeFrame envGo f with
      | .error (e, part) => (wire ++ part, (s!"w:{e.str}:{hexField part}" :: acc).reverse)
      | .ok bs =>
        let shown := match fixedPrefix f with
          | some k => bs.take k
          | none => bs
        go rest (wire ++ bs) (s!"w:ok:{hexField shown}" :: acc)
  let (wire, ws) := go frames [] []
  " ".intercalate ws ++ " / " ++ " ".intercalate (readAll wire.length [] none [] [] false maxFrames { inp := wire } [])

/-! wire items of `st` -/

def lenSpec (spec : String) (truth : Nat) : Option (Nat × Bool) :=
  match spec.toList with
  | c :: rest =>
    match (String.ofList rest).toNat? with
    | none => none
    | some n =>
      if n ≥ u32 then none
      else if c == '+' then some ((truth + n) % u32, n > 0)
      else if c == '-' then some ((truth + u32 - n) % u32, false)
      else if c == '=' then some (n, true)
      else none
  | [] => none

/-- strict parse of a name/value block into (name, value) pairs: exact count, nothing left over -/
def strictEntries : Nat → Bytes → Option (List (Bytes × Bytes))
  | 0, inp => if inp.isEmpty then some [] else none
  | n + 1, inp =>
    match rd32 inp with
    | none => none
    | some (nl, r1) =>
      if r1.length < nl then none else
      match rd32 (r1.drop nl) with
      | none => none
      | some (vl, r3) =>
        if r3.length < vl then none else
        (strictEntries n (r3.drop vl)).map ((r1.take nl, r3.take vl) :: ·)

def strictBlock (b : Bytes) : Option (List (Bytes × Bytes)) :=
  match rd32 b with
  | none => none
  | some (n, r) => if n > maxNumHeaders then none else strictEntries n r

def goLower (nm : Bytes) : Bytes := lowerGo nm

/-- `lastOnly` of the harness: only the last entry of the block can carry a name error, and its value is empty -/
def lastOnly (b : Bytes) : Bool :=
  match strictBlock b with
  | none => false
  | some es =>
    match es.reverse with
    | [] => false
    | (_, lv) :: initRev =>
      let init := initRev.reverse
      lv.isEmpty && init.all (fun p => p.1 == goLower p.1) && (init.map (·.1)).eraseDups.length == init.length

/-- the wire image under construction, the offsets after which an accepted header frame stops the run, … -/
structure StAcc where
  wire : Bytes := []
  stops : List Nat := []
  bounds : List Nat := []
  ranges : List (Nat × Nat) := []
  lastStart : Nat := 0
  lastHdr : Bool := false
  cont : List Nat := []

def buildSt : List String → StAcc → Option StAcc
  | [], a => some { a with bounds := a.wire.length :: a.bounds }
  | tok :: rest, a =>
    let wire := a.wire
    let stops := a.stops
    let a := { a with bounds := wire.length :: a.bounds }
    match tok.splitOn ":" with
    | ["cut", k] => do
      let k ← num? k 4294967296
      if !rest.isEmpty || a.lastHdr || k > wire.length - a.lastStart then none else
      let w := wire.take (wire.length - k)
      pure { a with wire := w, bounds := w.length :: a.bounds }
    | ["c", ver, typ, fl, spec, fixed, block] => do
      let ver ← num? ver 32768
      let typ ← num? typ 65536
      let fl ← num? fl 256
      let fixed ← bytesOfHex fixed
      let blockB ← if block == "_" then some [] else bytesOfHex block
      let isHdr := isHeaderType typ
      if block != "_" && !isHdr then none else
      let (l, wide) ← lenSpec spec (fixed.length + blockB.length)
      if l > 16777215 then none else
      if isHdr && spec.startsWith "-" && spec != "-0" then none else
      let img := be32 (2147483648 + ver * 65536 + typ) ++ be32 (fl * 16777216 + l) ++ fixed ++ blockB
      let stops' := if isHdr && wide then wire.length :: stops else stops
      buildSt rest { a with wire := wire ++ img, stops := stops', lastStart := wire.length, lastHdr := isHdr,
                            cont := if isHdr && lastOnly blockB then wire.length :: a.cont else a.cont,
                            ranges := if isHdr then (wire.length, wire.length + img.length) :: a.ranges else a.ranges }
    | ["d", sid, fl, spec, data] => do
      let sid ← num? sid 2147483648
      let fl ← num? fl 256
      let data ← bytesOfHex data
      let (l, _) ← lenSpec spec data.length
      if l > 16777215 then none else
      buildSt rest { a with wire := wire ++ be32 sid ++ be32 (fl * 16777216 + l) ++ data, lastStart := wire.length, lastHdr := false }
    | ["x", hx] => do
      let b ← bytesOfHex hx
      buildSt rest { a with wire := wire ++ b, lastStart := wire.length, lastHdr := false }
    | _ => none

def runSt (toks : List String) (seg : Bool := false) : Option String := do
  let a ← buildSt toks {}
  pure (" ".intercalate (readAll a.wire.length a.stops (some a.bounds) a.ranges a.cont seg maxFrames { inp := a.wire } []))

/-! ### spec oracle -/

def hasSub (s sub : String) : Bool := (s.splitOn sub).length > 1

def tokenDelta (tok : String) : Option Int :=
  match tok.splitOn "@" with
  | [_, d] => ((d.splitOn "!").headD "").toInt?
  | _ => none

/-- generic robustness clauses judged on the implementation's tokens. -/
def robustVerdict (implToks : List String) (bigJustified : Bool) : Option String :=
  if implToks.any (fun t => t.startsWith "PANIC") then some "FAIL:panic"
  else if implToks.any (fun t => t == "HANG") then some "FAIL:hang"
  else if implToks.any (fun t => hasSub t "!over1" || hasSub t "!over2" || hasSub t "!over8") then some "FAIL:overread"
  else if implToks.any (fun t => hasSub t "!over") then some "FAIL:ctl-length-unchecked"
  else match implToks.find? (fun t => !t.startsWith "E:" && (match tokenDelta t with | some d => d != 0 | none => false)) with
    | some t =>
      let letter := (t.take 1).toString
      if letter == "T" || letter == "G" || letter == "P" then some "FAIL:ctl-length-unchecked"
      else some ("FAIL:boundary-" ++ letter)
    | none =>
      if !bigJustified && implToks.any (fun t => hasSub t "!big") then some "FAIL:alloc-unbounded" else none

/-- what a well-formed frame must read back as (header names lower-cased then canonicalised, values split at NUL);
    `none` = the frame is outside the property's quantifier. -/
def expectedRt (f : Frame) : Option String :=
  let hdrs (hs : Hdrs) (tbl : List Bytes) (pathLimit : Bool) : Option String :=
    let norm := hs.map fun (n, vs) => (canonGo (lowerGo n), splitNul (joinNul vs))
    let keys := norm.map (·.1)
    if !(hs.all fun p => (lowerGo? p.1).isSome) then none
    else if !(keys.eraseDups.length == keys.length) then none
    -- a later lower-cased name equal to an earlier canonical key is the reader's duplicate check
    else if (hs.map fun p => lowerGo p.1).eraseDups.length != hs.length then none
    else if norm.any (fun p => tbl.contains p.1) then none
    else if pathLimit && (hGetFirst norm pathKey).length > maxUri then none
    else if hs.length > maxNumHeaders then none
    else some (renderHdrs norm)
  match f with
  | .syn sid assoc prio slot flags _ hs =>
    if sid = 0 ∨ sid ≥ 2147483648 ∨ assoc ≥ 2147483648 ∨ prio ≥ 8 then none
    else (hdrs hs invalidReq true).map fun h => s!"S:{sid}:{assoc}:{prio}:{slot}:{flags}:*:{h}"
  | .reply sid flags _ hs =>
    if sid = 0 ∨ sid ≥ 2147483648 then none
    else (hdrs hs invalidResp false).map fun h => s!"R:{sid}:{flags}:*:{h}"
  | .headers sid flags _ hs =>
    if sid = 0 ∨ sid ≥ 2147483648 then none
    else (hdrs hs (if sid % 2 = 0 then invalidReq else invalidResp) true).map fun h => s!"H:{sid}:{flags}:*:{h}"
  | .rst sid status _ => if sid = 0 ∨ sid ≥ 2147483648 ∨ status = 0 then none else some s!"T:{sid}:{status}:*"
  | .settings flags _ l =>
    if l.length > maxNumSettings ∨ l.any (fun (_, id, _) => id ≥ 16777216) then none
    else some (renderFrame (.settings flags 0 l) |>.replace ":0:" ":*:")
  | .ping id _ => if id = 0 then none else some s!"P:{id}:*"
  | .goaway last status => if last ≥ 2147483648 then none else some s!"A:{last}:{status}"
  | .wu sid delta => if sid ≥ 2147483648 ∨ delta ≥ 2147483648 then none else some s!"W:{sid}:{delta}"
  | .data sid flags d => if sid = 0 ∨ sid ≥ 2147483648 then none else some s!"D:{sid}:{flags}:{hexField d}"

/-- replace the length field (position `i` when split at ':') of a rendered frame by `*` and drop `@…`. -/
def starLen (tok : String) : String :=
  let body := (tok.splitOn "@").headD ""
  let parts := body.splitOn ":"
  let idx : Option Nat := match parts.headD "" with
    | "S" => some 6 | "R" => some 3 | "H" => some 3 | "T" => some 3 | "G" => some 2 | "P" => some 2
    | _ => none
  match idx with
  | none => body
  | some i => ":".intercalate (parts.mapIdx fun j p => if j == i then "*" else p)

def settingsStar (flags : Nat) (l : List (Nat × Nat × Nat)) : String :=
  let body := if l.isEmpty then "_" else ",".intercalate (l.map fun (a, b, c) => s!"{a}.{b}.{c}")
  s!"G:{flags}:*:{body}"

def expectedRt' (f : Frame) : Option String :=
  match f with
  | .settings flags _ l =>
    if l.length > maxNumSettings ∨ l.any (fun (_, id, _) => id ≥ 16777216) then none else some (settingsStar flags l)
  | _ => expectedRt f

/-! ### reference reading of well-formed items (what a SPDY reader must return for them) -/

def lowerSafe (nm : Bytes) : Bool :=
  !nm.isEmpty && nm.all fun b => 33 ≤ b.toNat && b.toNat ≤ 126 && !(65 ≤ b.toNat && b.toNat ≤ 90)

def forbiddenResp : List Bytes :=
  ["connection", "keep-alive", "proxy-connection", "transfer-encoding"].map bytesOfString

/-- the rendering (without `@…`) every correct reader yields for a well-formed item; `none` = no demand -/
def refItem (tok : String) : Option String :=
  match tok.splitOn ":" with
  | ["c", _, typ, fl, "+0", fixed, block] => do
    let typ ← typ.toNat?
    let fl ← fl.toNat?
    let fx ← bytesOfHex fixed
    if typ = 6 ∧ block == "_" then
      match rd32 fx with
      | some (id, []) => if id ≠ 0 ∧ fl = 0 then some s!"P:{id}:4" else none
      | _ => none
    else if typ = 3 ∧ block == "_" then
      match rd32 fx with
      | some (sid, r) => match rd32 r with
        | some (status, []) => if mask31 sid ≠ 0 ∧ status ≠ 0 then some s!"T:{mask31 sid}:{status}:8" else none
        | _ => none
      | none => none
    else if typ = 2 ∧ block != "_" then
      let b ← bytesOfHex block
      let es ← strictBlock b
      match rd32 fx with
      | some (sid, []) =>
        if mask31 sid = 0 ∨ fl ≥ 256 then none
        else if !(es.all fun p => lowerSafe p.1) then none
        else if (es.map (·.1)).eraseDups.length != es.length then none
        else if es.any (fun p => forbiddenResp.contains p.1) then none
        else some s!"R:{mask31 sid}:{fl}:{4 + b.length}:{renderHdrs (es.map fun p => (canonGo p.1, splitNul p.2))}"
      | _ => none
    else none
  | ["d", sid, fl, "+0", data] => do
    let sid ← sid.toNat?
    let fl ← fl.toNat?
    let dt ← bytesOfHex data
    if sid = 0 ∨ sid ≥ 2147483648 ∨ fl ≥ 256 then none else some s!"D:{sid}:{fl}:{hexField dt}"
  | _ => none

/-- a header-bearing item whose block is not exactly one well-formed block (or whose window is not exact) may leave
    bytes behind in the shared decompression stream: nothing is demanded of the frames after it -/
def pollutes (tok : String) : Bool :=
  match tok.splitOn ":" with
  | ["c", _, typ, _, spec, _, block] =>
    (typ == "1" || typ == "2" || typ == "8") &&
      (spec != "+0" || (match bytesOfHex block with
        | some b => block == "_" || (strictBlock b).isNone
        | none => true))
  | _ => false

def recoverableTok (t : String) : Bool :=
  t.startsWith "E:zero" || t.startsWith "E:invhdr" || t.startsWith "E:toolong" || t.startsWith "E:unlower" ||
    t.startsWith "E:dup"

/-- walk items and the implementation's tokens in step; a well-formed item must be read as `refItem` says — before
    and, above all, AFTER a per-frame error (the reader has to stand exactly at the next frame boundary, in the wire
    and in the shared decompression stream). -/
def refVerdict : List String → List String → Bool → Option String
  | [], _, _ => none
  | _, [], _ => none
  | item :: items, tok :: toks, afterErr =>
    if pollutes item then none
    else if tok == "EOF" || tok == "stop" || tok == "desync" || tok == "span" then none
    else if tok.startsWith "E:" then
      match refItem item with
      | some _ => some (if afterErr then "FAIL:boundary-lost-after-error" else "FAIL:misparsed-frame")
      | none => if recoverableTok tok ∧ !hasSub tok "!" then refVerdict items toks true else none
    else
      match tokenDelta tok with
      | some 0 =>
        let got := (tok.splitOn "@").headD ""
        match refItem item with
        | some want =>
          if got == want then refVerdict items toks afterErr
          else some (if afterErr then "FAIL:boundary-lost-after-error" else "FAIL:misparsed-frame")
        | none => refVerdict items toks afterErr
      | _ => none

/-- the harness also reads one op in three through segmenting readers (1 byte at a time; random cuts with empty reads
    and data+EOF) and demands the same tokens; the model, a function of the byte LIST, is chunking-independent by
    construction — except for the one modelled dependence on `bufio`'s read-ahead: a header frame accepted although its
    declared length reaches past its block (`stop`) is refused when the extra bytes arrive later (`~segwide`). -/
def segOp (op : String) : Bool := (op.toList.foldl (fun a c => a + c.toNat) 0) % 3 == 0

def run' (op impl : String) : Ans :=
  let toks := op.splitOn " "
  let seg := segOp op
  let implGuard := impl.startsWith "guard:" || impl == "bad-op"
  match toks with
  | "rt" :: fs =>
    match fs.mapM parseRtFrame with
    | none => { model := "bad-op", verdict := "skip", tags := ["bad-op"] }
    | some frames =>
      let model := runRt frames
      let supported := frames.all fun f => match frameHdrs f with
        | some hs => hs.all fun p => (lowerGo? p.1).isSome
        | none => true
      let dupKey := frames.any fun f => match frameHdrs f with
        | some hs => (hs.map fun p => canonGo (lowerGo p.1)).eraseDups.length != hs.length
        | none => false
      if implGuard || !supported || hasSub model "?alphabet" then { model, verdict := "skip", tags := ["rt", "guard"] }
      else if dupKey then { model, verdict := "skip", tags := ["rt", "dupkey"] } else
      let implRead := ((impl.splitOn " / ").getD 1 "").splitOn " "
      let lenChange := frames.any fun f => match frameHdrs f with
        | some hs => hs.any fun p => (lowerGo p.1).length != p.1.length
        | none => false
      let nonAscii := frames.any fun f => match frameHdrs f with
        | some hs => hs.any fun p => p.1.any (fun b => b.toNat ≥ 128)
        | none => false
      let exps := frames.map expectedRt'
      let exp := frames.mapM expectedRt'
      let got := implRead.map starLen
      -- frame by frame: every in-quantifier frame must read back as written, also after a frame that was refused
      let perFrame : Option String :=
        if got.length == frames.length + 1 ∧ got.getLast? == some "EOF" then
          let rec go : List (Option String) → List String → Bool → Option String
            | [], _, _ => none
            | _, [], _ => none
            | e :: es, g :: gs, afterErr =>
              match e with
              | some w =>
                if g == w then go es gs afterErr
                else some (if afterErr then "FAIL:boundary-lost-after-error"
                           else if lenChange then "FAIL:roundtrip-name-length" else "FAIL:roundtrip")
              | none => go es gs (afterErr || g.startsWith "E:")
          go exps got false
        else match exp with
          | none => none
          | some es =>
            if got == es ++ ["EOF"] then none
            else some (if lenChange then "FAIL:roundtrip-name-length" else "FAIL:roundtrip")
      let verdict :=
        match robustVerdict implRead true with
        | some v => v
        | none => perFrame.getD "ok"
      let hasHdr := frames.any fun f => match frameHdrs f with
        | some hs => !hs.isEmpty
        | none => false
      { model, verdict,
        tags := ["rt"] ++ (if exp.isSome then ["inq"] else ["outq"]) ++ (if nonAscii then ["nonascii"] else [])
          ++ (if lenChange then ["lenchange"] else []) ++ (if hasHdr then ["nt"] else []) }
  | "st" :: items =>
    match runSt items seg with
    | none => { model := "bad-op", verdict := "skip", tags := ["bad-op"] }
    | some model =>
      let blocksOk := !hasSub model "?alphabet"
      if implGuard then { model, verdict := "skip", tags := ["st", "guard"] }
      else if !blocksOk then { model, verdict := "skip", tags := ["st", "alphabet"] } else
      let implToks := impl.splitOn " "
      let bigJustified := items.any fun t => t.startsWith "d:" && hasSub t ":="
      let frameItems := items.filter fun t => t.startsWith "c:" || t.startsWith "d:"
      let verdict := match robustVerdict implToks bigJustified with
        | some v => v
        | none =>
          -- a truncated image (`cut:`): the last item is not whole
          let refItems := if items.any (·.startsWith "cut:") then frameItems.dropLast else frameItems
          (refVerdict refItems implToks false).getD "ok"
      let afterErrTag := match implToks with
        | _ => if implToks.any recoverableTok ∧ (implToks.dropWhile (fun t => !recoverableTok t)).length ≥ 2 then ["aftererr"] else []
      let errTag := match implToks.find? (·.startsWith "E:") with
        | some t => [((t.splitOn "+").headD "" |>.splitOn "!").headD ""]
        | none => []
      let okFrames := implToks.filter fun t => !t.startsWith "E:" && t != "EOF" && t != "stop" && t != "desync" && t != "span"
      { model, verdict,
        tags := ["st"] ++ errTag ++ (if okFrames.length ≥ 1 then ["nt"] else [])
          ++ (if implToks.contains "stop" then ["stop"] else []) ++ (if implToks.contains "desync" then ["desync"] else [])
          ++ afterErrTag }
  | _ => { model := "bad-op", verdict := "skip", tags := ["bad-op"] }

def run (op impl : String) : Ans :=
  let a := run' op impl
  let model := a.model
  -- chunking dependence is judged first, on the implementation's own line
  let verdict :=
    if a.verdict == "skip" then a.verdict
    else if hasSub impl " ~seg:" then "FAIL:chunking-dependent"
    else if hasSub impl "!frame" then "FAIL:frame-returned-with-error"
    else if hasSub impl " ~segwide" ∧ !a.verdict.startsWith "FAIL" then "FAIL:wide-window-chunking"
    else a.verdict
  { a with model := model, verdict := verdict, tags := a.tags ++ (if segOp op then ["seg"] else []) }

end BfeVerif.C39
