/-
  C39 — model of the SPDY framer of bfe (bfe_spdy/frame_write.go, frame_read.go, frame_types.go).  Core-only.

  * `writeFrame`  mirrors `Framer.WriteFrame` (per frame type, including what a failing write leaves on the wire).
  * `readFrame`   mirrors `Framer.ReadFrame` on the production path (header compression on), with zlib abstracted
    as the IDENTITY codec with these observable properties of `compress/zlib` + `io.LimitedReader` + `bufio`:
      - the decompressed text of all header blocks of a connection is ONE continuous stream (shared context):
        bytes the parser did not read stay buffered (`carry`) and are the first bytes of the next block;
      - the inflater takes compressed input only when the parser asks for a byte that is not buffered, and then
        takes the whole window `N = length - 10 | length - 4` (one `bufio` fill, frames < 4096 bytes);
      - a short stream is reported as an error (never as `io.EOF`); all block-phase I/O errors are one class `blk`.
  * `lower` (strings.ToLower) and `canon` (textproto.CanonicalMIMEHeaderKey) are parameters (`Env`).
  The model is of the code AFTER the fixes recorded in fixes/C39-*.md (length written after ToLower; `length <
  10|4` rejected before anything is read).
-/
namespace BfeVerif.C39

abbrev Bytes := List UInt8

inductive Err
  | eof | ueof | zero | invctl | invdata | unlower | dup | invhdr | toolong | count | blk
  deriving DecidableEq, Repr, Inhabited

def Err.str : Err → String
  | .eof => "eof" | .ueof => "ueof" | .zero => "zero" | .invctl => "invctl" | .invdata => "invdata"
  | .unlower => "unlower" | .dup => "dup" | .invhdr => "invhdr" | .toolong => "toolong" | .count => "count"
  | .blk => "blk"

structure Env where
  lower : Bytes → Bytes
  canon : Bytes → Bytes

/-! ### integers on the wire -/

def be16 (n : Nat) : Bytes := [UInt8.ofNat (n / 256 % 256), UInt8.ofNat (n % 256)]

def be32 (n : Nat) : Bytes :=
  [UInt8.ofNat (n / 16777216 % 256), UInt8.ofNat (n / 65536 % 256), UInt8.ofNat (n / 256 % 256), UInt8.ofNat (n % 256)]

/-- four bytes big endian, as `binary.Read(r, BigEndian, &uint32)` on an in-memory block. -/
def rd32 : Bytes → Option (Nat × Bytes)
  | a :: b :: c :: d :: r => some (a.toNat * 16777216 + b.toNat * 65536 + c.toNat * 256 + d.toNat, r)
  | _ => none

/-- `binary.Read` of a uint32 from the connection: `io.EOF` if nothing is left, `io.ErrUnexpectedEOF` if 1..3 bytes. -/
def take32 (inp : Bytes) : Except Err (Nat × Bytes) :=
  match rd32 inp with
  | some x => .ok x
  | none => if inp.isEmpty then .error .eof else .error .ueof

def take8 : Bytes → Except Err (Nat × Bytes)
  | a :: r => .ok (a.toNat, r)
  | [] => .error .eof

def mask31 (n : Nat) : Nat := n % 2147483648

/-! ### header maps (`http.Header`): insertion-ordered association list -/

abbrev Hdrs := List (Bytes × List Bytes)

def hAdd : Hdrs → Bytes → Bytes → Hdrs
  | [], k, v => [(k, [v])]
  | (k', vs) :: t, k, v => if k' = k then (k', vs ++ [v]) :: t else (k', vs) :: hAdd t k v

/-- `h[name] != nil` -/
def hHas (h : Hdrs) (k : Bytes) : Bool := h.any (fun p => p.1 = k)

def hGetFirst : Hdrs → Bytes → Bytes
  | [], _ => []
  | (k', vs) :: t, k => if k' = k then vs.headD [] else hGetFirst t k

/-- `strings.Split(s, "\x00")` (always at least one element) -/
def splitNul : Bytes → List Bytes
  | [] => [[]]
  | b :: r =>
    match splitNul r with
    | [] => [[b]]
    | x :: xs => if b = 0 then [] :: x :: xs else (b :: x) :: xs

/-- `strings.Join(values, "\x00")` -/
def joinNul : List Bytes → Bytes
  | [] => []
  | [v] => v
  | v :: w :: r => v ++ 0 :: joinNul (w :: r)

/-! ### name/value block -/

/-- `writeHeaderValueBlock` (after the fix: the length written is the length of the lower-cased name).
    `hs` is the header map in the order the Go map iteration happens to produce. -/
def writeBlock (E : Env) (hs : Hdrs) : Bytes :=
  be32 hs.length ++
    hs.flatMap fun (n, vs) =>
      be32 (E.lower n).length ++ E.lower n ++ be32 (joinNul vs).length ++ joinNul vs

structure PState where
  hdrs : Hdrs := []
  raw : List (Bytes × Bytes) := []
  flag : Option Err := none
  deriving Repr, DecidableEq

/-- the loop of `parseHeaderValueBlock` over the (decompressed) text. -/
def parseEntries (E : Env) : Nat → Bytes → PState → Except Err (PState × Bytes)
  | 0, inp, s => .ok (s, inp)
  | n + 1, inp, s =>
    match rd32 inp with
    | none => .error .blk
    | some (nl, r1) =>
      if r1.length < nl then .error .blk
      else
        let nameB := r1.take nl
        let lname := E.lower nameB
        let f1 := if nameB ≠ lname then some Err.unlower else s.flag
        let f2 := if hHas s.hdrs lname then some Err.dup else f1
        match rd32 (r1.drop nl) with
        | none => .error .blk
        | some (vl, r3) =>
          if r3.length < vl then .error .blk
          else
            let v := r3.take vl
            let hd := (splitNul v).foldl (fun h x => hAdd h (E.canon lname) x) s.hdrs
            parseEntries E n (r3.drop vl) { hdrs := hd, raw := s.raw ++ [(lname, v)], flag := f2 }

def maxNumHeaders : Nat := 1024
def maxNumSettings : Nat := 1024

/-- `parseHeaderValueBlock` without the final flag check (the caller looks at `flag`). -/
def parseBlock (E : Env) (inp : Bytes) : Except Err (PState × Bytes) :=
  match rd32 inp with
  | none => .error .blk
  | some (n, r) => if n > maxNumHeaders then .error .count else parseEntries E n r {}

/-- the sizes `make([]byte, length)` is called with while parsing (including the one whose read then fails). -/
def entryAllocs : Nat → Bytes → List Nat
  | 0, _ => []
  | n + 1, inp =>
    match rd32 inp with
    | none => []
    | some (nl, r1) =>
      if r1.length < nl then [nl]
      else
        match rd32 (r1.drop nl) with
        | none => [nl]
        | some (vl, r3) => if r3.length < vl then [nl, vl] else nl :: vl :: entryAllocs n (r3.drop vl)

def blockAllocs (inp : Bytes) : List Nat :=
  match rd32 inp with
  | none => []
  | some (n, r) => if n > maxNumHeaders then [] else entryAllocs n r

/-- the raw names (before ToLower) the parser reads, in order. -/
def entryNames : Nat → Bytes → List Bytes
  | 0, _ => []
  | n + 1, inp =>
    match rd32 inp with
    | none => []
    | some (nl, r1) =>
      if r1.length < nl then []
      else match rd32 (r1.drop nl) with
        | none => [r1.take nl]
        | some (vl, r3) => if r3.length < vl then [r1.take nl] else r1.take nl :: entryNames n (r3.drop vl)

def blockNames (inp : Bytes) : List Bytes :=
  match rd32 inp with
  | none => []
  | some (n, r) => if n > maxNumHeaders then [] else entryNames n r

/-! ### reader state -/

structure Rd where
  inp : Bytes          -- bytes not yet taken from the connection
  carry : Bytes := []  -- decompressed header text not yet read by the parser
  deriving Repr

/-- result of reading the compressed block of one frame: parse result, new state, sizes requested from `make`. -/
structure BlockRes where
  res : Except Err PState
  rd : Rd
  allocs : List Nat
  names : List Bytes := []

/-- `uncorkHeaderDecompressor(N)` + `parseHeaderValueBlock` + the `headerReader.N` check. -/
def readBlock (E : Env) (N : Nat) (rd : Rd) : BlockRes :=
  -- does the parser need a byte that is not buffered?  (then the inflater takes the whole window)
  let pulled := match parseBlock E rd.carry with
    | .error .blk => true
    | _ => false
  let window := if pulled then rd.inp.take N else []
  let inp' := if pulled then rd.inp.drop N else rd.inp
  let nAfter := if pulled then N - window.length else N
  let stream := rd.carry ++ window
  let allocs := blockAllocs stream
  let names := blockNames stream
  match parseBlock E stream with
  | .error e => { res := .error (if nAfter ≠ 0 then .blk else e), rd := { inp := inp', carry := [] }, allocs, names }
  | .ok (s, rest) =>
    if nAfter ≠ 0 then { res := .error .blk, rd := { inp := inp', carry := rest }, allocs, names }
    else match s.flag with
      | some e => { res := .error e, rd := { inp := inp', carry := rest }, allocs, names }
      | none => { res := .ok s, rd := { inp := inp', carry := rest }, allocs, names }

/-! ### frames -/

inductive Frame
  | syn (sid assoc prio slot flags len : Nat) (hs : Hdrs)
  | reply (sid flags len : Nat) (hs : Hdrs)
  | headers (sid flags len : Nat) (hs : Hdrs)
  | rst (sid status len : Nat)
  | settings (flags len : Nat) (l : List (Nat × Nat × Nat))
  | ping (id len : Nat)
  | goaway (last status : Nat)
  | wu (sid delta : Nat)
  | data (sid flags : Nat) (d : Bytes)
  deriving Repr, DecidableEq

def bytesOfString (s : String) : Bytes := s.toUTF8.toList

def invalidReq : List Bytes :=
  ["Connection", "Host", "Keep-Alive", "Proxy-Connection", "Transfer-Encoding"].map bytesOfString
def invalidResp : List Bytes :=
  ["Connection", "Keep-Alive", "Proxy-Connection", "Transfer-Encoding"].map bytesOfString
def pathKey : Bytes := bytesOfString ":path"
def maxUri : Nat := 8192

def hasInvalid (tbl : List Bytes) (h : Hdrs) : Bool := h.any fun p => tbl.contains p.1

/-- `writeControlFrameHeader`: 0x8000|version(3), type, flags<<24 | length -/
def ctlHeader (type flags len : Nat) : Bytes :=
  be16 (32768 + 3) ++ be16 type ++ be32 ((flags * 16777216 ||| len) % 4294967296)

/-- `Framer.WriteFrame`.  `.error (e, partial)`: the write failed with `e` after `partial` reached the wire. -/
def writeFrame (E : Env) : Frame → Except (Err × Bytes) Bytes
  | .syn sid assoc prio slot flags _ hs =>
    if sid = 0 then .error (.zero, []) else
    let blk := writeBlock E hs
    .ok (ctlHeader 1 flags ((blk.length + 10) % 4294967296) ++ be32 sid ++ be32 assoc ++
      [UInt8.ofNat (prio * 32 % 256), UInt8.ofNat slot] ++ blk)
  | .reply sid flags _ hs =>
    if sid = 0 then .error (.zero, []) else
    let blk := writeBlock E hs
    .ok (ctlHeader 2 flags ((blk.length + 4) % 4294967296) ++ be32 sid ++ blk)
  | .headers sid flags _ hs =>
    if sid = 0 then .error (.zero, []) else
    let blk := writeBlock E hs
    .ok (ctlHeader 8 flags ((blk.length + 4) % 4294967296) ++ be32 sid ++ blk)
  | .rst sid status _ =>
    if sid = 0 then .error (.zero, []) else
    if status = 0 then .error (.invctl, ctlHeader 3 0 8 ++ be32 sid) else
    .ok (ctlHeader 3 0 8 ++ be32 sid ++ be32 status)
  | .settings flags _ l =>
    .ok (ctlHeader 4 flags ((l.length * 8 + 4) % 4294967296) ++ be32 l.length ++
      l.flatMap fun (fl, id, v) => be32 ((fl * 16777216 ||| id) % 4294967296) ++ be32 v)
  | .ping id _ =>
    if id = 0 then .error (.zero, []) else .ok (ctlHeader 6 0 4 ++ be32 id)
  | .goaway last status => .ok (ctlHeader 7 0 8 ++ be32 last ++ be32 status)
  | .wu sid delta => .ok (ctlHeader 9 0 8 ++ be32 sid ++ be32 delta)
  | .data sid flags d =>
    if sid = 0 then .error (.zero, []) else
    if sid ≥ 2147483648 ∨ d.length > 16777215 then .error (.invdata, []) else
    .ok (be32 sid ++ be32 ((flags * 16777216 ||| d.length) % 4294967296) ++ d)

/-- result of one `ReadFrame`: frame or error, the new reader state, and the `make` sizes requested. -/
structure ReadRes where
  res : Except Err Frame
  rd : Rd
  allocs : List Nat := []
  names : List Bytes := []

def failShort (e : Err) (rd : Rd) : ReadRes := { res := .error e, rd := { rd with inp := [] } }

/-- in header-bearing frames a short read of the fixed fields is reported in the coarse class `blk`. -/
def failShortH (rd : Rd) : ReadRes := { res := .error .blk, rd := { rd with inp := [] } }

def readSettings : Nat → Bytes → List (Nat × Nat × Nat) → Except Err (List (Nat × Nat × Nat) × Bytes)
  | 0, inp, acc => .ok (acc.reverse, inp)
  | n + 1, inp, acc =>
    match take32 inp with
    | .error e => .error e
    | .ok (id, r1) =>
      match take32 r1 with
      | .error e => .error e
      | .ok (v, r2) => readSettings n r2 ((id / 16777216, id % 16777216, v) :: acc)

def afterBlock (_rd0 : Rd) (b : BlockRes) (k : PState → Except Err Frame) : ReadRes :=
  match b.res with
  | .error e => { res := .error e, rd := b.rd, allocs := b.allocs, names := b.names }
  | .ok s => { res := k s, rd := b.rd, allocs := b.allocs, names := b.names }

/-- control frame body, `rd.inp` = bytes after the 8 byte header. -/
def readControl (E : Env) (type flags len : Nat) (rd : Rd) : ReadRes :=
  match type with
  | 1 =>
    if len < 10 then { res := .error .invctl, rd } else
    match take32 rd.inp with
    | .error _ => failShortH rd
    | .ok (sid, r1) =>
    match take32 r1 with
    | .error _ => failShortH rd
    | .ok (assoc, r2) =>
    match take8 r2 with
    | .error _ => failShortH rd
    | .ok (prio, r3) =>
    match take8 r3 with
    | .error _ => failShortH rd
    | .ok (slot, r4) =>
      let sid := mask31 sid
      afterBlock rd (readBlock E (len - 10) { rd with inp := r4 }) fun s =>
        if hasInvalid invalidReq s.hdrs then .error .invhdr
        else if (hGetFirst s.hdrs pathKey).length > maxUri then .error .toolong
        else if sid = 0 then .error .zero
        else .ok (.syn sid (mask31 assoc) (prio / 32) slot flags len s.hdrs)
  | 2 =>
    if len < 4 then { res := .error .invctl, rd } else
    match take32 rd.inp with
    | .error _ => failShortH rd
    | .ok (sid, r1) =>
      let sid := mask31 sid
      afterBlock rd (readBlock E (len - 4) { rd with inp := r1 }) fun s =>
        if hasInvalid invalidResp s.hdrs then .error .invhdr
        else if sid = 0 then .error .zero
        else .ok (.reply sid flags len s.hdrs)
  | 8 =>
    if len < 4 then { res := .error .invctl, rd } else
    match take32 rd.inp with
    | .error _ => failShortH rd
    | .ok (sid, r1) =>
      let sid := mask31 sid
      afterBlock rd (readBlock E (len - 4) { rd with inp := r1 }) fun s =>
        if hasInvalid (if sid % 2 = 0 then invalidReq else invalidResp) s.hdrs then .error .invhdr
        else if (hGetFirst s.hdrs pathKey).length > maxUri then .error .toolong
        else if sid = 0 then .error .zero
        else .ok (.headers sid flags len s.hdrs)
  | 3 =>
    match take32 rd.inp with
    | .error e => failShort e rd
    | .ok (sid, r1) =>
    match take32 r1 with
    | .error e => failShort e rd
    | .ok (status, r2) =>
      let rd' := { rd with inp := r2 }
      if status = 0 then { res := .error .invctl, rd := rd' }
      else if mask31 sid = 0 then { res := .error .zero, rd := rd' }
      else { res := .ok (.rst (mask31 sid) status len), rd := rd' }
  | 4 =>
    match take32 rd.inp with
    | .error e => failShort e rd
    | .ok (n, r1) =>
      if n > maxNumSettings then { res := .error .count, rd := { rd with inp := r1 } }
      else match readSettings n r1 [] with
        | .error e => failShort e rd
        | .ok (l, r2) => { res := .ok (.settings flags len l), rd := { rd with inp := r2 }, allocs := [n * 12] }
  | 6 =>
    match take32 rd.inp with
    | .error e => failShort e rd
    | .ok (id, r1) =>
      let rd' := { rd with inp := r1 }
      if id = 0 then { res := .error .zero, rd := rd' }
      else if flags ≠ 0 then { res := .error .invctl, rd := rd' }
      else { res := .ok (.ping id len), rd := rd' }
  | 7 =>
    match take32 rd.inp with
    | .error e => failShort e rd
    | .ok (last, r1) =>
      let rd' := { rd with inp := r1 }
      if flags ≠ 0 then { res := .error .invctl, rd := rd' }
      else if len ≠ 8 then { res := .error .invctl, rd := rd' }
      else match take32 r1 with
        | .error e => failShort e rd
        | .ok (status, r2) => { res := .ok (.goaway (mask31 last) status), rd := { rd with inp := r2 } }
  | 9 =>
    match take32 rd.inp with
    | .error e => failShort e rd
    | .ok (sid, r1) =>
      let rd' := { rd with inp := r1 }
      if flags ≠ 0 then { res := .error .invctl, rd := rd' }
      else if len ≠ 8 then { res := .error .invctl, rd := rd' }
      else match take32 r1 with
        | .error e => failShort e rd
        | .ok (delta, r2) => { res := .ok (.wu (mask31 sid) (mask31 delta)), rd := { rd with inp := r2 } }
  | _ => { res := .error .invctl, rd }

def isHeaderType (t : Nat) : Bool := t = 1 || t = 2 || t = 8

/-- `Framer.ReadFrame` -/
def readFrame (E : Env) (rd : Rd) : ReadRes :=
  match take32 rd.inp with
  | .error e => failShort e rd
  | .ok (first, r1) =>
    match take32 r1 with
    | .error e => if first ≥ 2147483648 ∧ isHeaderType (first % 65536) then failShortH rd else failShort e rd
    | .ok (w2, r2) =>
      let flags := w2 / 16777216
      let len := w2 % 16777216
      if first ≥ 2147483648 then readControl E (first % 65536) flags len { rd with inp := r2 }
      else
        -- parseDataFrame: `make([]byte, length)` then io.ReadFull
        if r2.length < len then
          { res := .error (if r2.isEmpty then .eof else .ueof), rd := { rd with inp := [] }, allocs := [len] }
        else
          let rd' := { rd with inp := r2.drop len }
          if first = 0 then { res := .error .zero, rd := rd', allocs := [len] }
          else { res := .ok (.data first flags (r2.take len)), rd := rd', allocs := [len] }

/-- the declared length of the frame at the head of `inp` (second word, low 24 bits), if 8 bytes are present. -/
def declaredLen (inp : Bytes) : Option Nat :=
  match rd32 inp with
  | none => none
  | some (_, r) => match rd32 r with
    | none => none
    | some (w2, _) => some (w2 % 16777216)

end BfeVerif.C39
