import BfeVerif.C39.Driver
def main : IO Unit := BfeVerif.Proto.driverMain BfeVerif.C39.run
