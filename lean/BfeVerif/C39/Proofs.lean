import BfeVerif.C39.Model
/-! C39 helper lemmas. -/
namespace BfeVerif.C39

theorem rd32_be32 (n : Nat) (h : n < 4294967296) (r : Bytes) : rd32 (be32 n ++ r) = some (n, r) := by
  simp only [be32, rd32, List.cons_append, List.nil_append, UInt8.toNat_ofNat']
  congr 2
  omega

theorem be32_length (n : Nat) : (be32 n).length = 4 := rfl

theorem take32_be32 (n : Nat) (h : n < 4294967296) (r : Bytes) : take32 (be32 n ++ r) = .ok (n, r) := by
  simp [take32, rd32_be32 n h r]

/-- the semantic effect of one name/value entry on the parser state (no parsing involved). -/
def stepEntry (E : Env) (s : PState) (p : Bytes × List Bytes) : PState :=
  let nameB := E.lower p.1
  let lname := E.lower nameB
  let f1 := if nameB ≠ lname then some Err.unlower else s.flag
  let f2 := if hHas s.hdrs lname then some Err.dup else f1
  { hdrs := (splitNul (joinNul p.2)).foldl (fun h x => hAdd h (E.canon lname) x) s.hdrs,
    raw := s.raw ++ [(lname, joinNul p.2)], flag := f2 }

def encEntry (E : Env) (p : Bytes × List Bytes) : Bytes :=
  be32 (E.lower p.1).length ++ E.lower p.1 ++ be32 (joinNul p.2).length ++ joinNul p.2

theorem writeBlock_eq (E : Env) (hs : Hdrs) :
    writeBlock E hs = be32 hs.length ++ hs.flatMap (encEntry E) := by
  unfold writeBlock encEntry
  congr 1

def Small (E : Env) (hs : Hdrs) : Prop :=
  ∀ p ∈ hs, (E.lower p.1).length < 4294967296 ∧ (joinNul p.2).length < 4294967296

/-! #### flags -/

theorem splitNul_ne_nil (b : Bytes) : splitNul b ≠ [] := by
  induction b with
  | nil => simp [splitNul]
  | cons a r ih =>
    unfold splitNul
    split
    · simp
    · split <;> simp

theorem hHas_hAdd (h : Hdrs) (k v k' : Bytes) : hHas (hAdd h k v) k' = (hHas h k' || decide (k = k')) := by
  induction h with
  | nil => simp [hAdd, hHas]
  | cons q t ih =>
    obtain ⟨k0, vs⟩ := q
    unfold hAdd
    by_cases hk : k0 = k
    · subst hk
      simp only [if_true]
      simp only [hHas, List.any_cons]
      by_cases h2 : k0 = k' <;> simp [h2]
    · simp only [hk, if_false]
      simp only [hHas, List.any_cons] at ih ⊢
      rw [ih]
      simp [Bool.or_assoc]

theorem hHas_foldl (vs : List Bytes) (h : Hdrs) (k k' : Bytes) :
    hHas (vs.foldl (fun h x => hAdd h k x) h) k' = (hHas h k' || (!vs.isEmpty && decide (k = k'))) := by
  induction vs generalizing h with
  | nil => simp
  | cons v t ih =>
    simp only [List.foldl_cons, ih, hHas_hAdd]
    by_cases hk : k = k' <;> simp [hk]

/-- keys present after folding: the old ones and `canon (lower (lower name))` of every folded entry. -/
theorem hHas_fold (E : Env) (hs : Hdrs) (s : PState) (k : Bytes) :
    hHas (hs.foldl (stepEntry E) s).hdrs k =
      (hHas s.hdrs k || hs.any fun p => decide (E.canon (E.lower (E.lower p.1)) = k)) := by
  induction hs generalizing s with
  | nil => simp
  | cons p t ih =>
    simp only [List.foldl_cons, ih, List.any_cons]
    have : (stepEntry E s p).hdrs =
        (splitNul (joinNul p.2)).foldl (fun h x => hAdd h (E.canon (E.lower (E.lower p.1))) x) s.hdrs := rfl
    rw [this, hHas_foldl]
    have hne : (splitNul (joinNul p.2)).isEmpty = false := by
      cases h : splitNul (joinNul p.2) with
      | nil => exact absurd h (splitNul_ne_nil _)
      | cons _ _ => rfl
    simp [hne, Bool.or_assoc]

/-- no entry is flagged when ToLower is idempotent on the names and no lower-cased name equals the canonical key
    of an earlier entry (the reader's duplicate check). -/
def Clean (E : Env) : Hdrs → Prop
  | [] => True
  | p :: t => E.lower (E.lower p.1) = E.lower p.1 ∧
      (∀ q ∈ t, E.canon (E.lower p.1) ≠ E.lower q.1) ∧ Clean E t

theorem flag_fold (E : Env) (hs : Hdrs) (s : PState) (hc : Clean E hs) (hf : s.flag = none)
    (hold : ∀ q ∈ hs, hHas s.hdrs (E.lower q.1) = false) :
    (hs.foldl (stepEntry E) s).flag = none := by
  induction hs generalizing s with
  | nil => simpa using hf
  | cons p t ih =>
    obtain ⟨hid, hne, hct⟩ := hc
    simp only [List.foldl_cons]
    apply ih _ hct
    · show (stepEntry E s p).flag = none
      unfold stepEntry
      simp only [hid, ne_eq, not_true_eq_false, if_false]
      rw [hold p (List.mem_cons_self)]
      simpa using hf
    · intro q hq
      have : (stepEntry E s p).hdrs =
          (splitNul (joinNul p.2)).foldl (fun h x => hAdd h (E.canon (E.lower (E.lower p.1))) x) s.hdrs := rfl
      rw [this, hHas_foldl, hold q (List.mem_cons_of_mem _ hq), hid]
      have := hne q hq
      simp [this]

theorem raw_fold (E : Env) (hs : Hdrs) (s : PState) :
    (hs.foldl (stepEntry E) s).raw = s.raw ++ hs.map fun p => (E.lower (E.lower p.1), joinNul p.2) := by
  induction hs generalizing s with
  | nil => simp
  | cons p t ih =>
    simp only [List.foldl_cons, ih, List.map_cons]
    show (s.raw ++ [(E.lower (E.lower p.1), joinNul p.2)]) ++ _ = _
    simp

theorem parseEntries_succ (E : Env) (n : Nat) (name v rest : Bytes) (s : PState)
    (hnl : name.length < 4294967296) (hvl : v.length < 4294967296) :
    parseEntries E (n + 1) (be32 name.length ++ (name ++ (be32 v.length ++ (v ++ rest)))) s =
      parseEntries E n rest
        { hdrs := (splitNul v).foldl (fun h x => hAdd h (E.canon (E.lower name)) x) s.hdrs,
          raw := s.raw ++ [(E.lower name, v)],
          flag := if hHas s.hdrs (E.lower name) then some Err.dup
                  else if name ≠ E.lower name then some Err.unlower else s.flag } := by
  rw [parseEntries, rd32_be32 _ hnl]
  have h1 : ¬ ((name ++ (be32 v.length ++ (v ++ rest))).length < name.length) := by
    simp only [List.length_append]; omega
  simp only [h1, if_false, List.take_left, List.drop_left]
  rw [rd32_be32 _ hvl]
  have h2 : ¬ ((v ++ rest).length < v.length) := by
    simp only [List.length_append]; omega
  simp only [h2, if_false, List.take_left, List.drop_left]

theorem stepEntry_eq (E : Env) (s : PState) (p : Bytes × List Bytes) :
    stepEntry E s p =
      { hdrs := (splitNul (joinNul p.2)).foldl (fun h x => hAdd h (E.canon (E.lower (E.lower p.1))) x) s.hdrs,
        raw := s.raw ++ [(E.lower (E.lower p.1), joinNul p.2)],
        flag := if hHas s.hdrs (E.lower (E.lower p.1)) then some Err.dup
                else if E.lower p.1 ≠ E.lower (E.lower p.1) then some Err.unlower else s.flag } := rfl

/-- Parsing what `writeHeaderValueBlock` wrote is folding `stepEntry` over the entries, and it stops exactly at the
    end of the block. -/
theorem parseEntries_enc (E : Env) (hs : Hdrs) (hsm : Small E hs) (rest : Bytes) (s : PState) :
    parseEntries E hs.length (hs.flatMap (encEntry E) ++ rest) s = .ok (hs.foldl (stepEntry E) s, rest) := by
  induction hs generalizing s with
  | nil => simp [parseEntries]
  | cons p t ih =>
    have hp := hsm p (List.mem_cons_self)
    have ht : Small E t := fun q hq => hsm q (List.mem_cons_of_mem _ hq)
    have e1 : (p :: t).flatMap (encEntry E) ++ rest =
        be32 (E.lower p.1).length ++ (E.lower p.1 ++ (be32 (joinNul p.2).length ++ (joinNul p.2 ++
          (t.flatMap (encEntry E) ++ rest)))) := by
      simp only [List.flatMap_cons, encEntry, List.append_assoc]
    rw [e1, List.length_cons, parseEntries_succ E _ _ _ _ s hp.1 hp.2, ih ht, List.foldl_cons, stepEntry_eq]

theorem parseBlock_write (E : Env) (hs : Hdrs) (hsm : Small E hs) (hn : hs.length ≤ 1024) (rest : Bytes) :
    parseBlock E (writeBlock E hs ++ rest) = .ok (hs.foldl (stepEntry E) {}, rest) := by
  rw [writeBlock_eq, parseBlock, List.append_assoc, rd32_be32 _ (by omega)]
  have : ¬ hs.length > maxNumHeaders := by unfold maxNumHeaders; omega
  simp only [this, if_false]
  exact parseEntries_enc E hs hsm rest {}

end BfeVerif.C39

namespace BfeVerif.C39

/-- where the parser stands after a block (or that it fails) -/
def restOf (r : Except Err (PState × Bytes)) : Option Bytes :=
  match r with
  | .ok (_, rest) => some rest
  | .error _ => none

/-- the position reached does not depend on the names being lower-cased, duplicated, … (flags never stop the loop) -/
theorem parseEntries_rest_indep (E E' : Env) (n : Nat) (inp : Bytes) (s s' : PState) :
    restOf (parseEntries E n inp s) = restOf (parseEntries E' n inp s') := by
  induction n generalizing inp s s' with
  | zero => simp [parseEntries, restOf]
  | succ k ih =>
    rw [parseEntries, parseEntries]
    cases h1 : rd32 inp with
    | none => simp [restOf]
    | some p1 =>
      obtain ⟨nl, r1⟩ := p1
      simp only []
      by_cases hl : r1.length < nl
      · simp [hl, restOf]
      · simp only [hl, if_false]
        cases h2 : rd32 (r1.drop nl) with
        | none => simp [restOf]
        | some p2 =>
          obtain ⟨vl, r3⟩ := p2
          simp only []
          by_cases hv : r3.length < vl
          · simp [hv, restOf]
          · simp only [hv, if_false]
            exact ih _ _ _

end BfeVerif.C39

namespace BfeVerif.C39

/-- `io.ReadFull(src, buf[:n])` on a source that delivers its bytes in chunks (empty chunks = empty reads):
    the bytes obtained (fewer than n only at the end of the source) and the source that is left. -/
def readFullS : List Bytes → Nat → Bytes × List Bytes
  | [], _ => ([], [])
  | c :: cs, n =>
    if n = 0 then ([], c :: cs)
    else if c.length ≤ n then
      let r := readFullS cs (n - c.length)
      (c ++ r.1, r.2)
    else (c.take n, c.drop n :: cs)

theorem readFullS_spec (cs : List Bytes) (n : Nat) :
    (readFullS cs n).1 = cs.flatten.take n ∧ (readFullS cs n).2.flatten = cs.flatten.drop n := by
  induction cs generalizing n with
  | nil => simp [readFullS]
  | cons c cs ih =>
    unfold readFullS
    by_cases h0 : n = 0
    · subst h0; simp
    · simp only [h0, if_false]
      by_cases hle : c.length ≤ n
      · simp only [hle, if_true, List.flatten_cons]
        obtain ⟨h1, h2⟩ := ih (n - c.length)
        constructor
        · rw [h1, List.take_append]
          simp [List.take_of_length_le hle]
        · rw [h2, List.drop_append]
          simp [List.drop_of_length_le hle]
      · simp only [hle, if_false, List.flatten_cons]
        have hlt : n < c.length := by omega
        constructor
        · rw [List.take_append_of_le_length (by omega)]
        · rw [List.drop_append_of_le_length (by omega)]

end BfeVerif.C39
