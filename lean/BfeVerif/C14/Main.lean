import BfeVerif.C14.Driver
def main : IO Unit := BfeVerif.Proto.driverMain BfeVerif.C14.run
