import BfeVerif.C14.Model
import BfeVerif.C13.Proofs
/-! Lemmas for C14 (core Lean only). -/
namespace BfeVerif.C14
open BfeVerif.C13

theorem entryAt_mem : ∀ (es : Entries) (q : List String) (r : Route), entryAt es q = some r → (q, r) ∈ es
  | [], _, _, h => by simp [entryAt] at h
  | (p, r0) :: rest, q, r, h => by
    unfold entryAt at h
    split at h
    · rename_i r' hr'
      injection h with h; subst h
      exact List.mem_cons_of_mem _ (entryAt_mem rest q _ hr')
    · split at h
      · rename_i hpq
        injection h with h; subst h
        have : p = q := by simpa using hpq
        subst this; simp
      · simp at h

theorem entryAt_of_mem : ∀ (es : Entries) (q : List String) (r : Route),
    (es.map (·.1)).Nodup → (q, r) ∈ es → entryAt es q = some r
  | [], _, _, _, h => by simp at h
  | (p, r0) :: rest, q, r, hn, h => by
    simp only [List.map_cons, List.nodup_cons] at hn
    unfold entryAt
    simp only [List.mem_cons] at h
    rcases h with h | h
    · injection h with h1 h2; subst h1; subst h2
      cases hr : entryAt rest q with
      | some r' =>
        exfalso
        exact hn.1 (List.mem_map.mpr ⟨(q, r'), entryAt_mem rest q r' hr, rfl⟩)
      | none => simp
    · rw [entryAt_of_mem rest q r hn.2 h]

theorem entryAt_perm {es es' : Entries} (h : es.Perm es') (hn : (es.map (·.1)).Nodup) (q : List String) :
    entryAt es q = entryAt es' q := by
  have hn' : (es'.map (·.1)).Nodup := (h.map (·.1)).nodup_iff.mp hn
  cases h1 : entryAt es q with
  | some r =>
    exact (entryAt_of_mem es' q r hn' (h.mem_iff.mp (entryAt_mem es q r h1))).symm
  | none =>
    cases h2 : entryAt es' q with
    | none => rfl
    | some r =>
      have := entryAt_of_mem es q r hn (h.mem_iff.mpr (entryAt_mem es' q r h2))
      rw [h1] at this; exact absurd this (by simp)

theorem lookupFrom_congr {es es' : Entries} (h : ∀ q, entryAt es q = entryAt es' q) :
    ∀ (q pre : List String), lookupFrom es pre q = lookupFrom es' pre q
  | [], pre => by simp [lookupFrom, h]
  | k :: rest, pre => by
    unfold lookupFrom
    rw [lookupFrom_congr h rest (pre ++ [k]), h]

theorem keys_nodup_buildEntries (norm : String → List String) (hm tm : List (String × String))
    (hn : (hm.map fun ht => norm ht.1).Nodup) : ((buildEntries norm hm tm).map (·.1)).Nodup := by
  unfold buildEntries
  refine List.Nodup.sublist (List.Sublist.map _ (List.filter_sublist)) ?_
  simpa [List.map_map, Function.comp_def] using hn

end BfeVerif.C14

namespace BfeVerif.C14
open BfeVerif.C13

theorem mapGet_addTags (p : String) : ∀ (ts : List String) (m : List (String × String)) (t : String),
    mapGet (addTags p ts m) t = if t ∈ ts then some p else mapGet m t
  | [], m, t => by simp [addTags]
  | x :: xs, m, t => by
    unfold addTags
    rw [mapGet_addTags p xs (mapSet m x p) t, mapGet_mapSet]
    by_cases h1 : t ∈ xs
    · simp [h1]
    · by_cases h2 : x = t
      · subst h2; simp [h1]
      · have : ¬ t = x := fun e => h2 e.symm
        simp [h1, h2, this]

/-- owner of a tag in the finished tag→product map, when no tag is listed twice -/
theorem buildTagMap_spec :
    ∀ (l : List (String × Option (List String))) (m0 m : List (String × String)),
      (∀ kv ∈ l, kv.2.isSome = true) → (allValues l).Nodup → buildTagMap l m0 = .ok m →
      ∀ t p, mapGet m t = some p ↔
        ((∃ kv ∈ l, kv.1 = p ∧ t ∈ kv.2.getD []) ∨ (t ∉ allValues l ∧ mapGet m0 t = some p))
  | [], m0, m, _, _, h, t, p => by
    simp [buildTagMap] at h; subst h; simp [allValues]
  | (p0, o) :: rest, m0, m, hs, hn, h, t, p => by
    have ho := hs (p0, o) (by simp)
    cases o with
    | none => simp at ho
    | some ts =>
      have hav : allValues ((p0, some ts) :: rest) = ts ++ allValues rest := by simp [allValues]
      rw [hav] at hn ⊢
      rw [List.nodup_append] at hn
      unfold buildTagMap at h
      simp only [deref, Res.bind] at h
      have ih := buildTagMap_spec rest (addTags p0 ts m0) m (fun kv hkv => hs kv (by simp [hkv])) hn.2.1 h t p
      rw [ih, mapGet_addTags]
      constructor
      · rintro (⟨kv, hkv, h1, h2⟩ | ⟨h1, h2⟩)
        · exact Or.inl ⟨kv, by simp [hkv], h1, h2⟩
        · by_cases ht : t ∈ ts
          · simp only [ht, if_true] at h2
            injection h2 with h2
            exact Or.inl ⟨(p0, some ts), by simp, h2, by simpa using ht⟩
          · simp only [ht, if_false] at h2
            exact Or.inr ⟨by simp [ht, h1], h2⟩
      · rintro (⟨kv, hkv, h1, h2⟩ | ⟨h1, h2⟩)
        · simp only [List.mem_cons] at hkv
          rcases hkv with rfl | hkv
          · simp only [Option.getD_some] at h2
            right
            refine ⟨fun hin => hn.2.2 t h2 t hin rfl, ?_⟩
            simp only [h2, if_true]; exact congrArg some h1
          · exact Or.inl ⟨kv, hkv, h1, h2⟩
        · simp only [List.mem_append, not_or] at h1
          exact Or.inr ⟨h1.2, by simp [h1.1, h2]⟩

end BfeVerif.C14
