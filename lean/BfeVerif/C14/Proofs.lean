import BfeVerif.C14.Model
import BfeVerif.C13.Proofs
/-! Lemmas for C14 (core Lean only). -/
namespace BfeVerif.C14
open BfeVerif.C13

theorem entryAt_mem : ∀ (es : Entries) (q : List String) (r : Route), entryAt es q = some r → (q, r) ∈ es
  | [], _, _, h => by simp [entryAt] at h
  | (p, r0) :: rest, q, r, h => by
    unfold entryAt at h
    split at h
    · rename_i r' hr'
      injection h with h; subst h
      exact List.mem_cons_of_mem _ (entryAt_mem rest q _ hr')
    · split at h
      · rename_i hpq
        injection h with h; subst h
        have : p = q := by simpa using hpq
        subst this; simp
      · simp at h

theorem entryAt_of_mem : ∀ (es : Entries) (q : List String) (r : Route),
    (es.map (·.1)).Nodup → (q, r) ∈ es → entryAt es q = some r
  | [], _, _, _, h => by simp at h
  | (p, r0) :: rest, q, r, hn, h => by
    simp only [List.map_cons, List.nodup_cons] at hn
    unfold entryAt
    simp only [List.mem_cons] at h
    rcases h with h | h
    · injection h with h1 h2; subst h1; subst h2
      cases hr : entryAt rest q with
      | some r' =>
        exfalso
        exact hn.1 (List.mem_map.mpr ⟨(q, r'), entryAt_mem rest q r' hr, rfl⟩)
      | none => simp
    · rw [entryAt_of_mem rest q r hn.2 h]

theorem entryAt_perm {es es' : Entries} (h : es.Perm es') (hn : (es.map (·.1)).Nodup) (q : List String) :
    entryAt es q = entryAt es' q := by
  have hn' : (es'.map (·.1)).Nodup := (h.map (·.1)).nodup_iff.mp hn
  cases h1 : entryAt es q with
  | some r =>
    exact (entryAt_of_mem es' q r hn' (h.mem_iff.mp (entryAt_mem es q r h1))).symm
  | none =>
    cases h2 : entryAt es' q with
    | none => rfl
    | some r =>
      have := entryAt_of_mem es q r hn (h.mem_iff.mpr (entryAt_mem es' q r h2))
      rw [h1] at this; exact absurd this (by simp)

theorem lookupFrom_congr {es es' : Entries} (h : ∀ q, entryAt es q = entryAt es' q) :
    ∀ (q pre : List String), lookupFrom es pre q = lookupFrom es' pre q
  | [], pre => by simp [lookupFrom, h]
  | k :: rest, pre => by
    unfold lookupFrom
    rw [lookupFrom_congr h rest (pre ++ [k]), h]

theorem keys_nodup_buildEntries (norm : String → List String) (hm tm : List (String × String))
    (hn : (hm.map fun ht => norm ht.1).Nodup) : ((buildEntries norm hm tm).map (·.1)).Nodup := by
  unfold buildEntries
  refine List.Nodup.sublist (List.Sublist.map _ (List.filter_sublist)) ?_
  simpa [List.map_map, Function.comp_def] using hn

end BfeVerif.C14

namespace BfeVerif.C14
open BfeVerif.C13

theorem mapGet_addTags (p : String) : ∀ (ts : List String) (m : List (String × String)) (t : String),
    mapGet (addTags p ts m) t = if t ∈ ts then some p else mapGet m t
  | [], m, t => by simp [addTags]
  | x :: xs, m, t => by
    unfold addTags
    rw [mapGet_addTags p xs (mapSet m x p) t, mapGet_mapSet]
    by_cases h1 : t ∈ xs
    · simp [h1]
    · by_cases h2 : x = t
      · subst h2; simp [h1]
      · have : ¬ t = x := fun e => h2 e.symm
        simp [h1, h2, this]

/-- owner of a tag in the finished tag→product map, when no tag is listed twice -/
theorem buildTagMap_spec :
    ∀ (l : List (String × Option (List String))) (m0 m : List (String × String)),
      (∀ kv ∈ l, kv.2.isSome = true) → (allValues l).Nodup → buildTagMap l m0 = .ok m →
      ∀ t p, mapGet m t = some p ↔
        ((∃ kv ∈ l, kv.1 = p ∧ t ∈ kv.2.getD []) ∨ (t ∉ allValues l ∧ mapGet m0 t = some p))
  | [], m0, m, _, _, h, t, p => by
    simp [buildTagMap] at h; subst h; simp [allValues]
  | (p0, o) :: rest, m0, m, hs, hn, h, t, p => by
    have ho := hs (p0, o) (by simp)
    cases o with
    | none => simp at ho
    | some ts =>
      have hav : allValues ((p0, some ts) :: rest) = ts ++ allValues rest := by simp [allValues]
      rw [hav] at hn ⊢
      rw [List.nodup_append] at hn
      unfold buildTagMap at h
      simp only [deref, Res.bind] at h
      have ih := buildTagMap_spec rest (addTags p0 ts m0) m (fun kv hkv => hs kv (by simp [hkv])) hn.2.1 h t p
      rw [ih, mapGet_addTags]
      constructor
      · rintro (⟨kv, hkv, h1, h2⟩ | ⟨h1, h2⟩)
        · exact Or.inl ⟨kv, by simp [hkv], h1, h2⟩
        · by_cases ht : t ∈ ts
          · simp only [ht, if_true] at h2
            injection h2 with h2
            exact Or.inl ⟨(p0, some ts), by simp, h2, by simpa using ht⟩
          · simp only [ht, if_false] at h2
            exact Or.inr ⟨by simp [ht, h1], h2⟩
      · rintro (⟨kv, hkv, h1, h2⟩ | ⟨h1, h2⟩)
        · simp only [List.mem_cons] at hkv
          rcases hkv with rfl | hkv
          · simp only [Option.getD_some] at h2
            right
            refine ⟨fun hin => hn.2.2 t h2 t hin rfl, ?_⟩
            simp only [h2, if_true]; exact congrArg some h1
          · exact Or.inl ⟨kv, hkv, h1, h2⟩
        · simp only [List.mem_append, not_or] at h1
          exact Or.inr ⟨h1.2, by simp [h1.1, h2]⟩

end BfeVerif.C14

/-! ### GSLB: the sorted sub-cluster list does not depend on the order / history of additions -/
namespace BfeVerif.C14

theorem subLe_trans (a b c : Sub) (h1 : subLe a b = true) (h2 : subLe b c = true) : subLe a c = true := by
  simp only [subLe, decide_eq_true_eq] at *
  exact String.le_trans h1 h2

theorem subLe_total (a b : Sub) : (subLe a b || subLe b a) = true := by
  simp only [subLe, Bool.or_eq_true, decide_eq_true_eq]
  exact String.le_total a.name b.name

theorem sumPos_perm {l l' : List Sub} (h : l.Perm l') : sumPos l = sumPos l' := by
  induction h with
  | nil => rfl
  | cons x _ ih => simp [sumPos, ih]
  | swap x y l => simp only [sumPos]; omega
  | trans _ _ ih1 ih2 => exact ih1.trans ih2

theorem eq_of_name_eq {l : List Sub} (hn : (l.map (·.name)).Nodup) {a b : Sub} (ha : a ∈ l) (hb : b ∈ l)
    (h : a.name = b.name) : a = b := by
  induction l with
  | nil => simp at ha
  | cons x xs ih =>
    simp only [List.map_cons, List.nodup_cons, List.mem_map, not_exists, not_and] at hn
    simp only [List.mem_cons] at ha hb
    rcases ha with rfl | ha <;> rcases hb with rfl | hb
    · rfl
    · exact absurd h.symm (hn.1 b hb)
    · exact absurd h (hn.1 a ha)
    · exact ih hn.2 ha hb

/-- a sorted permutation of a list with pairwise distinct names is unique: any correct `sort.Sort` yields it -/
theorem sorted_perm_unique {l s1 s2 : List Sub} (hn : (l.map (·.name)).Nodup)
    (p1 : s1.Perm l) (p2 : s2.Perm l)
    (o1 : s1.Pairwise fun a b => subLe a b = true) (o2 : s2.Pairwise fun a b => subLe a b = true) : s1 = s2 := by
  refine List.Perm.eq_of_pairwise (le := fun a b => subLe a b = true) ?_ o1 o2 (p1.trans p2.symm)
  intro a b ha hb h1 h2
  have ha' : a ∈ l := p1.mem_iff.mp ha
  have hb' : b ∈ l := p2.mem_iff.mp hb
  simp only [subLe, decide_eq_true_eq] at h1 h2
  exact eq_of_name_eq hn ha' hb' (String.le_antisymm h1 h2)

theorem sort_eq_of_perm {l l' : List Sub} (hp : l.Perm l') (hn : (l.map (·.name)).Nodup) :
    l.mergeSort subLe = l'.mergeSort subLe :=
  sorted_perm_unique hn (List.mergeSort_perm l subLe) ((List.mergeSort_perm l' subLe).trans hp.symm)
    (List.pairwise_mergeSort subLe_trans subLe_total l) (List.pairwise_mergeSort subLe_trans subLe_total l')

theorem confWeight_iff {conf : List Sub} (hn : (conf.map (·.name)).Nodup) (n : String) (w : Int) :
    confWeight conf n = some w ↔ ({ name := n, weight := w } : Sub) ∈ conf := by
  induction conf with
  | nil => simp [confWeight]
  | cons c cs ih =>
    simp only [List.map_cons, List.nodup_cons, List.mem_map, not_exists, not_and] at hn
    by_cases hc : c.name = n
    · have : confWeight (c :: cs) n = some c.weight := by simp [confWeight, List.find?_cons, hc]
      rw [this]
      constructor
      · intro h; injection h with h; subst h; subst hc; simp
      · intro h
        simp only [List.mem_cons] at h
        rcases h with h | h
        · rw [← h]
        · exact absurd (by simp [hc]) (hn.1 _ h)
    · have : confWeight (c :: cs) n = confWeight cs n := by simp [confWeight, List.find?_cons, hc]
      rw [this, ih hn.2]
      simp only [List.mem_cons]
      constructor
      · exact Or.inr
      · rintro (h | h)
        · exact absurd (by rw [← h]) hc
        · exact h

def keptOf (g : Gslb) (conf : List Sub) : List Sub :=
  g.subs.filterMap fun s => (confWeight conf s.name).map fun w => { s with weight := w }

def freshOf (g : Gslb) (conf : List Sub) : List Sub :=
  conf.filter fun c => !(g.subs.any fun s => s.name == c.name)

theorem mem_keptOf {g : Gslb} {conf : List Sub} (hn : (conf.map (·.name)).Nodup) (x : Sub) :
    x ∈ keptOf g conf ↔ x ∈ conf ∧ ∃ s ∈ g.subs, s.name = x.name := by
  simp only [keptOf, List.mem_filterMap, Option.map_eq_some_iff]
  constructor
  · rintro ⟨s, hs, w, hw, rfl⟩
    exact ⟨(confWeight_iff hn s.name w).mp hw, s, hs, rfl⟩
  · rintro ⟨hx, s, hs, hsn⟩
    refine ⟨s, hs, x.weight, ?_, ?_⟩
    · rw [confWeight_iff hn, hsn]; exact hx
    · cases x; simp_all

theorem mem_freshOf {g : Gslb} {conf : List Sub} (x : Sub) :
    x ∈ freshOf g conf ↔ x ∈ conf ∧ ¬ ∃ s ∈ g.subs, s.name = x.name := by
  simp [freshOf, List.mem_filter]

theorem names_keptOf_sublist (conf : List Sub) : ∀ l : List Sub,
    ((l.filterMap fun s => (confWeight conf s.name).map fun w => ({ s with weight := w } : Sub)).map (·.name)).Sublist
      (l.map (·.name))
  | [] => by simp
  | s :: rest => by
    simp only [List.filterMap_cons, List.map_cons]
    cases h : confWeight conf s.name with
    | none => simp only [Option.map_none]; exact (names_keptOf_sublist conf rest).cons _
    | some w => simp only [Option.map_some, List.map_cons]; exact (names_keptOf_sublist conf rest).cons₂ _

theorem nodup_of_names : ∀ {l : List Sub}, (l.map (·.name)).Nodup → l.Nodup
  | [], _ => List.nodup_nil
  | x :: xs, h => by
    simp only [List.map_cons, List.nodup_cons, List.mem_map, not_exists, not_and] at h
    rw [List.nodup_cons]
    exact ⟨fun hx => h.1 x hx rfl, nodup_of_names h.2⟩

/-- the list `Reload` builds before sorting is a permutation of the new conf -/
theorem reload_list_perm (g : Gslb) (conf : List Sub) (hg : (g.subs.map (·.name)).Nodup)
    (hn : (conf.map (·.name)).Nodup) : (keptOf g conf ++ freshOf g conf).Perm conf := by
  have hconf : conf.Nodup := nodup_of_names hn
  have hk : (keptOf g conf).Nodup :=
    nodup_of_names (List.Nodup.sublist (names_keptOf_sublist conf g.subs) hg)
  have hf : (freshOf g conf).Nodup := List.Nodup.sublist List.filter_sublist hconf
  have hnd : (keptOf g conf ++ freshOf g conf).Nodup := by
    rw [List.nodup_append]
    refine ⟨hk, hf, fun a ha b hb hab => ?_⟩
    subst hab
    exact ((mem_freshOf a).mp hb).2 ((mem_keptOf hn a).mp ha).2
  refine (List.perm_ext_iff_of_nodup hnd hconf).mpr fun x => ?_
  simp only [List.mem_append, mem_keptOf hn, mem_freshOf]
  constructor
  · rintro (h | h) <;> exact h.1
  · intro hx
    by_cases he : ∃ s ∈ g.subs, s.name = x.name
    · exact Or.inl ⟨hx, he⟩
    · exact Or.inr ⟨hx, he⟩

theorem gslbReload_eq (g : Gslb) (conf : List Sub) (hv : ¬ sumPos conf ≤ 0) :
    gslbReload g conf =
      let sorted := (keptOf g conf ++ freshOf g conf).mergeSort subLe
      { subs := sorted, total := sumPos sorted, single := availNum sorted == 1,
        avail := if availNum sorted == 1 then lastAvail sorted else g.avail } := by
  simp only [gslbReload, hv, if_false, keptOf, freshOf]
  rfl

end BfeVerif.C14

namespace BfeVerif.C14

theorem names_nodup_of_perm {l l' : List Sub} (hp : l.Perm l') (hn : (l'.map (·.name)).Nodup) :
    (l.map (·.name)).Nodup := (hp.map (·.name)).nodup_iff.mpr hn

theorem reload_names_nodup (g : Gslb) (conf : List Sub) (hg : (g.subs.map (·.name)).Nodup)
    (hn : (conf.map (·.name)).Nodup) : ((gslbReload g conf).subs.map (·.name)).Nodup := by
  by_cases hv : sumPos conf ≤ 0
  · simp [gslbReload, hv, hg]
  · rw [gslbReload_eq g conf hv]
    exact names_nodup_of_perm ((List.mergeSort_perm _ subLe).trans (reload_list_perm g conf hg hn)) hn

theorem history_names_nodup : ∀ (hist : List (List Sub)) (g : Gslb), (g.subs.map (·.name)).Nodup →
    (∀ c ∈ hist, (c.map (·.name)).Nodup) → ((gslbHistory g hist).subs.map (·.name)).Nodup
  | [], g, hg, _ => hg
  | c :: rest, g, hg, hh => by
    simp only [gslbHistory, List.foldl_cons]
    exact history_names_nodup rest (gslbReload g c) (reload_names_nodup g c hg (hh c (by simp)))
      fun c' hc' => hh c' (by simp [hc'])

theorem init_names_nodup {conf : List Sub} {g : Gslb} (hn : (conf.map (·.name)).Nodup)
    (h : gslbInit conf = some g) : (g.subs.map (·.name)).Nodup := by
  unfold gslbInit at h
  simp only [] at h
  split at h
  · simp at h
  · injection h with h; subst h
    exact names_nodup_of_perm (List.mergeSort_perm conf subLe) hn

theorem select_norm (g : Gslb) (h : Int) : gslbSelect g.norm h = gslbSelect g h := by
  unfold gslbSelect Gslb.norm
  cases hs : g.single <;> simp [hs]

end BfeVerif.C14

namespace BfeVerif.C14

/-- the state a fresh `Init` of a valid conf produces -/
def initState (conf : List Sub) : Gslb :=
  { subs := conf.mergeSort subLe, total := sumPos conf,
    single := availNum (conf.mergeSort subLe) == 1, avail := lastAvail (conf.mergeSort subLe) }

theorem gslbInit_eq (conf : List Sub) (h : sumPos conf ≠ 0) : gslbInit conf = some (initState conf) := by
  unfold gslbInit initState
  simp [h]

theorem reload_norm_eq (g : Gslb) (hg : (g.subs.map (·.name)).Nodup) (conf conf' : List Sub)
    (hp : conf.Perm conf') (hn : (conf.map (·.name)).Nodup) (hv : ¬ sumPos conf ≤ 0) :
    (gslbReload g conf).norm = (initState conf').norm := by
  have hperm := reload_list_perm g conf hg hn
  have hsort : (keptOf g conf ++ freshOf g conf).mergeSort subLe = conf'.mergeSort subLe :=
    sort_eq_of_perm (hperm.trans hp) (names_nodup_of_perm hperm hn)
  have htot : sumPos (conf'.mergeSort subLe) = sumPos conf' := sumPos_perm (List.mergeSort_perm conf' subLe)
  rw [gslbReload_eq g conf hv]
  simp only [hsort, htot, Gslb.norm, initState]
  by_cases hb : (availNum (List.mergeSort conf' subLe) == 1) = true <;> simp [hb]

end BfeVerif.C14

/-! ### SLB -/
namespace BfeVerif.C14

def asG (s : Slb) : Gslb := { subs := s.backends, total := 0, single := false, avail := 0 }

theorem slbUpdate_eq (s : Slb) (conf : List Sub) :
    slbUpdate s conf = { backends := keptOf (asG s) conf ++ freshOf (asG s) conf, sorted := false } := rfl

theorem slbUpdate_perm (s : Slb) (conf : List Sub) (hs : (s.backends.map (·.name)).Nodup)
    (hn : (conf.map (·.name)).Nodup) : (slbUpdate s conf).backends.Perm conf := by
  rw [slbUpdate_eq]
  exact reload_list_perm (asG s) conf hs hn

theorem slbStep_nodup (s : Slb) (op : SlbOp) (hs : (s.backends.map (·.name)).Nodup)
    (hop : ∀ c, op = .update c → (c.map (·.name)).Nodup) : ((slbStep s op).backends.map (·.name)).Nodup := by
  cases op with
  | update c => exact names_nodup_of_perm (slbUpdate_perm s c hs (hop c rfl)) (hop c rfl)
  | sticky h =>
    simp only [slbStep, slbSticky, slbEnsureSorted]
    split
    · exact hs
    · exact names_nodup_of_perm (List.mergeSort_perm _ subLe) hs

theorem slbRun_nodup : ∀ (ops : List SlbOp) (s : Slb), (s.backends.map (·.name)).Nodup →
    (∀ c, SlbOp.update c ∈ ops → (c.map (·.name)).Nodup) → ((slbRun s ops).backends.map (·.name)).Nodup
  | [], _, hs, _ => hs
  | op :: rest, s, hs, hops => by
    simp only [slbRun, List.foldl_cons]
    exact slbRun_nodup rest (slbStep s op) (slbStep_nodup s op hs fun c hc => hops c (by simp [hc]))
      fun c hc => hops c (by simp [hc])

end BfeVerif.C14

/-! ### HostTableConfCheck is a ∀ over the two maps: its verdict does not depend on the enumeration order -/
namespace BfeVerif.C14
open BfeVerif.C13

/-- the conditions `HostTableConfCheck` establishes, written without any order -/
def HostCheckSpec (c : HostFile) : Prop :=
  ∃ v hosts tags, c.version = some v ∧ c.hosts = some hosts ∧ c.hostTags = some tags ∧
    (∀ kv ∈ tags, kv.2.isSome = true) ∧
    (∀ kv ∈ hosts, kv.2.isSome = true ∧ ∃ pt ∈ tags, kv.1 ∈ pt.2.getD []) ∧
    (∀ dp, c.defaultProduct = some dp → ∃ pt ∈ tags, pt.1 = dp)

theorem contains_allValues (tags : List (String × Option (List String))) (x : String) :
    (allValues tags).contains x = true ↔ ∃ pt ∈ tags, x ∈ pt.2.getD [] := by
  simp [allValues, List.mem_flatMap]

theorem mapHas_iff {β : Type} (m : List (String × β)) (k : String) : mapHas m k = true ↔ ∃ kv ∈ m, kv.1 = k := by
  simp [mapHas]

theorem hostCheck_ok_iff (c : HostFile) : hostCheck c = .ok () ↔ HostCheckSpec c := by
  constructor
  · intro h
    obtain ⟨v, hosts, tags, hv, hh, ht, h1, h2, h3⟩ := hostCheck_ok h
    refine ⟨v, hosts, tags, hv, hh, ht, h1, fun kv hkv => ⟨(h2 kv hkv).1, ?_⟩, fun dp hdp => (mapHas_iff tags dp).mp (h3 dp hdp)⟩
    have := (h2 kv hkv).2
    rw [tagListed_eq kv.1 tags h1] at this
    injection this with this
    exact (contains_allValues tags kv.1).mp this
  · rintro ⟨v, hosts, tags, hv, hh, ht, h1, h2, h3⟩
    unfold hostCheck
    simp only [hv, hh, ht]
    rw [Res.bind_ok_unit]
    refine ⟨(forAllM_ok_iff _).mpr fun kv hkv => ?_, ?_⟩
    · rw [failIf_ok_iff]; have := h1 kv hkv; cases hk : kv.2 <;> simp_all
    · rw [Res.bind_ok_unit]
      refine ⟨(forAllM_ok_iff _).mpr fun kv hkv => ?_, ?_⟩
      · rw [Res.bind_ok_unit]
        refine ⟨?_, ?_⟩
        · rw [failIf_ok_iff]; have := (h2 kv hkv).1; cases hk : kv.2 <;> simp_all
        · rw [tagListed_eq kv.1 tags h1]
          simp only [Res.bind, failIf_ok_iff, Bool.not_eq_false']
          exact (contains_allValues tags kv.1).mpr (h2 kv hkv).2
      · cases hd : c.defaultProduct with
        | none => rfl
        | some dp =>
          simp only [failIf_ok_iff, Bool.not_eq_false']
          exact (mapHas_iff tags dp).mpr (h3 dp hd)

theorem hostCheckSpec_perm (f : HostFile) (hosts hosts' tags tags' : List (String × Option (List String)))
    (hp : hosts.Perm hosts') (tp : tags.Perm tags')
    (h : HostCheckSpec { f with hosts := some hosts, hostTags := some tags }) :
    HostCheckSpec { f with hosts := some hosts', hostTags := some tags' } := by
  obtain ⟨v, hs, ts, hv, hh, ht, h1, h2, h3⟩ := h
  simp only [Option.some.injEq] at hh ht
  subst hh; subst ht
  refine ⟨v, hosts', tags', hv, rfl, rfl, fun kv hkv => h1 kv (tp.mem_iff.mpr hkv), fun kv hkv => ?_, fun dp hdp => ?_⟩
  · obtain ⟨a, pt, hpt, hin⟩ := h2 kv (hp.mem_iff.mpr hkv)
    exact ⟨a, pt, tp.mem_iff.mp hpt, hin⟩
  · obtain ⟨pt, hpt, e⟩ := h3 dp hdp
    exact ⟨pt, tp.mem_iff.mp hpt, e⟩

end BfeVerif.C14

/-! ### order independence of the other check functions (vip, route, cluster_conf, gslb, cluster_table, name_conf) -/
namespace BfeVerif.C14
open BfeVerif.C13

theorem forAllM_isOk_perm {α : Type} {f : α → Res Unit} {l l' : List α} (hp : l.Perm l') :
    (forAllM f l).isOk = (forAllM f l').isOk := by
  have key : ∀ m : List α, (forAllM f m).isOk = true ↔ ∀ x ∈ m, f x = .ok () := by
    intro m
    rw [← forAllM_ok_iff m]
    cases h : forAllM f m <;> simp [Res.isOk]
  have : (forAllM f l).isOk = true ↔ (forAllM f l').isOk = true := by
    rw [key, key]
    exact ⟨fun h x hx => h x (hp.mem_iff.mpr hx), fun h x hx => h x (hp.mem_iff.mp hx)⟩
  cases h1 : (forAllM f l).isOk <;> cases h2 : (forAllM f l').isOk <;> simp_all

theorem forAllM_eq_perm {α : Type} {f : α → Res Unit} (hf : ∀ x, f x ≠ .crash) {l l' : List α} (hp : l.Perm l') :
    forAllM f l = forAllM f l' := by
  have h := forAllM_isOk_perm (f := f) hp
  have c1 := forAllM_ne_crash (f := f) l fun x _ => hf x
  have c2 := forAllM_ne_crash (f := f) l' fun x _ => hf x
  cases h1 : forAllM f l <;> cases h2 : forAllM f l' <;> simp_all [Res.isOk]

/-- vip: every address of every product parses -/
theorem vipAddAll_ok_iff (parseIP : ParseIP) (p : String) : ∀ (l : List String) (m : List (String × String)),
    (vipAddAll parseIP p l m).isOk = l.all fun v => (parseIP v).isSome
  | [], m => by simp [vipAddAll, Res.isOk]
  | v :: vs, m => by
    unfold vipAddAll
    rw [List.all_cons]
    cases hp : parseIP v with
    | none => simp only [Option.isSome_none, Bool.false_and, Res.isOk]
    | some c =>
      simp only [Option.isSome_some, Bool.true_and]
      exact vipAddAll_ok_iff parseIP p vs _

theorem vipBuild_ok_iff (parseIP : ParseIP) : ∀ (l : List (String × List String)) (m : List (String × String)),
    (vipBuild parseIP l m).isOk = l.all fun kv => kv.2.all fun v => (parseIP v).isSome
  | [], m => by simp [vipBuild, Res.isOk]
  | (p, vs) :: rest, m => by
    unfold vipBuild
    rw [List.all_cons]
    have h := vipAddAll_ok_iff parseIP p vs m
    cases ha : vipAddAll parseIP p vs m with
    | ok m' =>
      rw [ha] at h
      simp only [Res.isOk] at h
      rw [← h, Bool.true_and]
      simp only [Res.bind]
      exact vipBuild_ok_iff parseIP rest m'
    | err =>
      rw [ha] at h
      simp only [Res.isOk] at h
      rw [← h, Bool.false_and]
      rfl
    | crash => exact absurd ha (vipAddAll_ne_crash parseIP p vs m)

theorem all_perm {α : Type} {p : α → Bool} {l l' : List α} (hp : l.Perm l') : l.all p = l'.all p := by
  have : l.all p = true ↔ l'.all p = true := by
    simp only [List.all_eq_true]
    exact ⟨fun h x hx => h x (hp.mem_iff.mpr hx), fun h x hx => h x (hp.mem_iff.mp hx)⟩
  cases h1 : l.all p <;> cases h2 : l'.all p <;> simp_all

/-- cluster_conf: the per-cluster checks are independent of each other -/
theorem clusterToConfCheck_isOk : ∀ l : List (String × ClusterConf),
    (clusterToConfCheck l).isOk = l.all fun kv => (clusterConfCheck kv.2).isOk
  | [] => by simp [clusterToConfCheck, Res.isOk]
  | (n, c) :: rest => by
    unfold clusterToConfCheck
    have ih := clusterToConfCheck_isOk rest
    cases hc : clusterConfCheck c with
    | ok c' =>
      cases hr : clusterToConfCheck rest with
      | ok r => rw [hr] at ih; simp [Res.bind, Res.isOk] at ih ⊢; simpa [hc, Res.isOk] using ih
      | err => rw [hr] at ih; simp [Res.bind, Res.isOk] at ih ⊢; simpa [hc, Res.isOk] using ih
      | crash => exact absurd hr (clusterToConfCheck_ne_crash rest)
    | err => simp [Res.bind, Res.isOk, hc]
    | crash => exact absurd hc (clusterConfCheck_ne_crash c)

/-- gslb: the wrapped sum of the positive weights does not depend on the order -/
def gslbSumPos : List (String × Int) → Int
  | [] => 0
  | (_, w) :: rest => (if w > 0 then w else 0) + gslbSumPos rest

theorem gslbSumPos_perm {l l' : List (String × Int)} (h : l.Perm l') : gslbSumPos l = gslbSumPos l' := by
  induction h with
  | nil => rfl
  | cons x _ ih => obtain ⟨a, w⟩ := x; simp [gslbSumPos, ih]
  | swap x y l => obtain ⟨a, w⟩ := x; obtain ⟨b, v⟩ := y; simp only [gslbSumPos]; omega
  | trans _ _ ih1 ih2 => exact ih1.trans ih2

theorem wrap64_add (a b : Int) : wrap64 (wrap64 a + b) = wrap64 (a + b) := by
  unfold wrap64; omega

theorem wrap64_idem (a : Int) : wrap64 (wrap64 a) = wrap64 a := by
  unfold wrap64; omega

theorem gslbTotal_eq : ∀ (l : List (String × Int)) (t : Int), wrap64 t = t →
    gslbTotal l t = wrap64 (t + gslbSumPos l)
  | [], t, ht => by simp [gslbTotal, gslbSumPos, ht]
  | (a, w) :: rest, t, ht => by
    unfold gslbTotal
    by_cases hw : w > 0
    · simp only [hw, if_true, gslbSumPos]
      rw [gslbTotal_eq rest _ (wrap64_idem _), wrap64_add]
      congr 1; omega
    · simp only [hw, if_false, gslbSumPos]
      rw [gslbTotal_eq rest t ht]
      congr 1; omega

theorem gslbTotal_perm {l l' : List (String × Int)} (h : l.Perm l') : gslbTotal l 0 = gslbTotal l' 0 := by
  rw [gslbTotal_eq l 0 (by decide), gslbTotal_eq l' 0 (by decide), gslbSumPos_perm h]

end BfeVerif.C14

namespace BfeVerif.C14
open BfeVerif.C13

theorem convertBasic_isOk : ∀ (l : List (String × List BasicRuleFile)) (acc : List (String × (RuleTree × List BasicRule))),
    (convertBasic l acc).isOk = l.all fun pr => (convertBasicRules pr.2 [] []).isOk
  | [], acc => by simp [convertBasic, Res.isOk]
  | (p, rules) :: rest, acc => by
    unfold convertBasic
    rw [List.all_cons]
    cases ha : convertBasicRules rules [] [] with
    | ok tr => simp only [Res.bind, Res.isOk, Bool.true_and]; exact convertBasic_isOk rest _
    | err => simp only [Res.bind, Res.isOk, Bool.false_and]
    | crash => exact absurd ha (convertBasicRules_ne_crash rules [] [])

theorem convertAdv_isOk (condOk : CondOk) : ∀ (l : List (String × List AdvRuleFile)) (acc : List (String × List (String × String))),
    (convertAdv condOk l acc).isOk = l.all fun pr => (convertAdvRules condOk pr.2 []).isOk
  | [], acc => by simp [convertAdv, Res.isOk]
  | (p, rules) :: rest, acc => by
    unfold convertAdv
    rw [List.all_cons]
    cases ha : convertAdvRules condOk rules [] with
    | ok rs => simp only [Res.bind, Res.isOk, Bool.true_and]; exact convertAdv_isOk condOk rest _
    | err => simp only [Res.bind, Res.isOk, Bool.false_and]
    | crash => exact absurd ha (convertAdvRules_ne_crash condOk rules [])

/-- acceptance of a route file as a boolean formula over its two maps -/
theorem routeLoad_isOk (condOk : CondOk) (f : RouteFile) :
    (routeLoad condOk f).isOk =
      (f.version.isSome && !(f.basic.isNone && f.adv.isNone) &&
       (f.basic.getD []).all (fun pr => (convertBasicRules pr.2 [] []).isOk) &&
       (f.adv.getD []).all (fun pr => (convertAdvRules condOk pr.2 []).isOk)) := by
  unfold routeLoad
  cases hv : f.version with
  | none => simp [Res.isOk]
  | some v =>
    cases hb : f.basic with
    | none =>
      cases ha : f.adv with
      | none => simp [Res.isOk]
      | some a =>
        have h := convertAdv_isOk condOk a []
        cases hc : convertAdv condOk a [] with
        | ok r => rw [hc] at h; simp only [Res.isOk] at h; simp [deref, Res.bind, Res.isOk, hc, ← h]
        | err => rw [hc] at h; simp only [Res.isOk] at h; simp [deref, Res.bind, Res.isOk, hc, ← h]
        | crash => exact absurd hc (convertAdv_ne_crash condOk a [])
    | some b =>
      have hB := convertBasic_isOk b []
      cases hcb : convertBasic b [] with
      | crash => exact absurd hcb (convertBasic_ne_crash b [])
      | err => rw [hcb] at hB; simp only [Res.isOk] at hB; simp [deref, Res.bind, Res.isOk, hcb, ← hB]
      | ok bm =>
        rw [hcb] at hB
        simp only [Res.isOk] at hB
        cases ha : f.adv with
        | none => simp [deref, Res.bind, Res.isOk, hcb, ← hB]
        | some a =>
          have h := convertAdv_isOk condOk a []
          cases hc : convertAdv condOk a [] with
          | ok r => rw [hc] at h; simp only [Res.isOk] at h; simp [deref, Res.bind, Res.isOk, hcb, hc, ← hB, ← h]
          | err => rw [hc] at h; simp only [Res.isOk] at h; simp [deref, Res.bind, Res.isOk, hcb, hc, ← hB, ← h]
          | crash => exact absurd hc (convertAdv_ne_crash condOk a [])

end BfeVerif.C14
