import BfeVerif.Common.Proto
import BfeVerif.C13.Driver
import BfeVerif.C14.Model
/-!
  C14 driver.  op = `gslb <hist>~<final>~<probes>`: see `runGslb` (fresh load vs. reload histories ending in the same gslb conf)
  op = `cfg <host_rule json>~<probe host>,<probe host>,…`
  impl result = the SET of outcomes observed over many in-process loads of the same file, sorted, joined by `|`;
  one outcome = `err` or `ok:<probe>=<product>/<tag>,…` (`-` for "no product").
  model result = the set of outcomes over ALL iteration orders of the three Go maps involved.
-/
namespace BfeVerif.C14
open BfeVerif.Proto BfeVerif.C13

def insertAll {α : Type} (x : α) : List α → List (List α)
  | [] => [[x]]
  | y :: ys => (x :: y :: ys) :: (insertAll x ys).map (y :: ·)

def perms {α : Type} : List α → List (List α)
  | [] => [[]]
  | x :: xs => (perms xs).flatMap (insertAll x)

def renderDecision (d : Option Route) : String :=
  match d with
  | some (p, t) => p ++ "/" ++ t
  | none => "-"

def outcomeOf (f : HostFile) (probes : List String) (hosts' tags' : List (String × Option (List String))) : List String :=
  match hostLoad { f with hosts := f.hosts.map fun _ => hosts', hostTags := f.hostTags.map fun _ => tags' } with
  | .err => ["err"]
  | .crash => ["PANIC"]
  | .ok c =>
    (perms c.hostMap).map fun hm =>
      let es := buildEntries normBuild hm c.hostTagMap
      "ok:" ++ ",".intercalate (probes.map fun q => q ++ "=" ++ renderDecision (decision es c.defaultProduct (normQuery q)))

def predicted (f : HostFile) (probes : List String) : List String :=
  let hs := perms (f.hosts.getD [])
  let ts := perms (f.hostTags.getD [])
  let all := hs.flatMap fun h => ts.flatMap fun t => outcomeOf f probes h t
  all.foldl (fun acc x => insertSorted x acc) []

/-- why a file can be ambiguous (first that applies) -/
def ambiguityClass (f : HostFile) : String :=
  let hosts := f.hosts.getD []
  let names := allValues hosts
  if hosts.any (fun kv => kv.1 == "") && !(nodupB names) then "empty-tag-dup"
  else if !(nodupB names) then "host-exact-dup"   -- never accepted by the unchanged code (duplicate check)
  else if !(nodupB (allValues (f.hostTags.getD []))) then "tag-multi-product"
  else if !(nodupB (names.map lowerAscii)) then "host-case-dup"
  else if !(nodupB (names.map fun h => ".".intercalate (normBuild h))) then "host-dot-dup"
  else "none"


/-! ### gslb op -/
def parseSub (kv : String) : Option Sub :=
  match (kv.splitOn "=").reverse with
  | w :: rest@(_ :: _) =>
    match w.toInt? with
    | some n => some { name := "=".intercalate rest.reverse, weight := n }
    | none => none
  | _ => none

def parseGConf (s : String) : Option (List Sub) := (s.splitOn ",").mapM parseSub

def parseProbe (p : String) : Option (String × Int) :=
  match (p.splitOn ":").reverse with
  | h :: rest@(_ :: _) => h.toInt?.map fun n => (":".intercalate rest.reverse, n)
  | _ => none

def decisions (g : Gslb) (probes : List (String × Int)) : String :=
  ",".intercalate (probes.map fun p => (gslbSelect g p.2).getD "-")

def runGslb (body impl : String) : Ans :=
  match body.splitOn "~" with
  | [hs, fs, ps] =>
    let hist := if hs == "-" then some [] else (hs.splitOn ";").mapM parseGConf
    match hist, parseGConf fs, (ps.splitOn ",").mapM parseProbe with
    | some hist, some final, some probes =>
      match gslbInit final with
      | none => { model := "bad-final", verdict := "skip", tags := ["gslb", "bad-final"] }
      | some fresh =>
        let viaHist : Option Gslb := match hist with
          | [] => some fresh
          | h0 :: rest => (gslbInit h0).map fun g0 => gslbReload (gslbHistory g0 rest) final
        match viaHist with
        | none => { model := "bad-first", verdict := "skip", tags := ["gslb", "bad-first"] }
        | some gh =>
          let model := "fresh=" ++ decisions fresh probes ++ ";hist=" ++ decisions gh probes
          -- spec oracle on the implementation's line: one decision vector per variant, and both variants agree
          let verdict :=
            match impl.splitOn ";hist=" with
            | [f, h] =>
              let f := (f.drop 6).toString
              if f.contains '|' || h.contains '|' then "FAIL:gslb-order-dependent"
              else if f != h then "FAIL:gslb-history-dependent"
              else "ok"
            | _ => "FAIL:gslb-bad-result"
          let added := match hist.getLast? with
            | some last => final.any fun s => !(last.any fun t => t.name == s.name)
            | none => false
          { model := model, verdict := verdict,
            tags := ["gslb", s!"hist{min hist.length 3}", if fresh.single then "single" else "multi"] ++
              (if added then ["reload-adds"] else []) ++ (if hist.isEmpty then [] else ["nt"]) }
    | _, _, _ => { model := "bad-op", verdict := "skip" }
  | _ => { model := "bad-op", verdict := "skip" }


/-! ### slb op -/
def slbDecisions (s : Slb) (keys : List (String × Int)) : String :=
  ",".intercalate (keys.map fun k => ((slbSticky s k.2).1).getD "-")

def runSlb (body impl : String) : Ans :=
  match body.splitOn "~" with
  | [hs, fs, ks] =>
    let steps : Option (List (Option (List Sub))) :=
      if hs == "-" then some [] else (hs.splitOn ";").mapM fun st => if st == "!" then some none else (parseGConf st).map some
    -- BackendRR.Init / UpdateWeight scale the configured weight by 100
    let scale := fun (l : List Sub) => l.map fun b => { b with weight := b.weight * 100 }
    match steps.map (·.map (·.map scale)), (parseGConf fs).map scale, (ks.splitOn ",").mapM parseProbe with
    | some steps, some final, some keys =>
      -- first conf = Init, later confs = Update, `!` = a sticky request (only once initialised)
      let st : Option Slb := steps.foldl (fun acc step =>
        match acc, step with
        | none, some conf => some (slbInit conf)
        | none, none => none
        | some s, some conf => some (slbUpdate s conf)
        | some s, none => some (slbSticky s 0).2) none
      let viaHist := match st with | some s => slbUpdate s final | none => slbInit final
      let model := "fresh=" ++ slbDecisions (slbInit final) keys ++ ";hist=" ++ slbDecisions viaHist keys
      let verdict :=
        match impl.splitOn ";hist=" with
        | [f, h] =>
          let f := (f.drop 6).toString
          if f.contains '|' || h.contains '|' then "FAIL:slb-order-dependent"
          else if f != h then "FAIL:slb-history-dependent"
          else "ok"
        | _ => "FAIL:slb-bad-result"
      let confs := steps.filterMap id
      let sameCount := match confs.getLast? with | some l => l.length == final.length && !(l.all fun b => final.any fun c => c.name == b.name) | none => false
      { model := model, verdict := verdict,
        tags := ["slb", s!"hist{min confs.length 3}"] ++ (if sameCount then ["replace-same-count"] else []) ++
          (if steps.contains none then ["sorted-before"] else []) ++ (if confs.isEmpty then [] else ["nt"]) }
    | _, _, _ => { model := "bad-op", verdict := "skip" }
  | _ => { model := "bad-op", verdict := "skip" }

def run (op impl : String) : Ans :=
  match op.splitOn " " with
  | "slb" :: rest => runSlb (" ".intercalate rest) impl
  | "gslb" :: rest => runGslb (" ".intercalate rest) impl
  | "cfg" :: rest =>
    match (" ".intercalate rest).splitOn "~" with
    | [js, ps] =>
      match parseJson js with
      | none => { model := "bad-json", verdict := "skip" }
      | some j =>
        if hasDupKeys j then { model := "dup-keys", verdict := "skip", tags := ["dup-keys"] }
        else
          let probes := if ps == "" then [] else ps.splitOn ","
          let observed := impl.splitOn "|"
          match decodeHost j with
          | none => { model := "err", verdict := if impl == "err" then "ok" else "FAIL:decode-order", tags := ["decode-err"] }
          | some f =>
            let tooBig := (f.hosts.getD []).length > 4 || (f.hostTags.getD []).length > 4 || (allValues (f.hosts.getD [])).length > 6
            if tooBig then { model := "too-big", verdict := "skip", tags := ["too-big"] }
            else
              let pred := predicted f probes
              let cls := ambiguityClass f
              -- Go's map iteration realises only some orders (random start, cyclic): the comparison is
              -- "observed ⊆ predicted, and nondeterminism predicted ⇒ nondeterminism observed"
              let consistent := observed.all (fun o => pred.contains o) &&
                (if pred.length == 1 then observed.length == 1 else observed.length ≥ 2)
              let model := if consistent then impl else "|".intercalate pred
              let accepted := observed.any fun o => o.startsWith "ok"
              -- an ORPHAN host tag (key of Hosts listed under no product) must be rejected on EVERY load
              let orphan := (f.hosts.getD []).any fun kv => !((allValues (f.hostTags.getD [])).contains kv.1)
              let verdict :=
                if observed.any (fun o => o.startsWith "PANIC") then "FAIL:panic"
                else if orphan && accepted then "FAIL:orphan-tag-accepted"
                else if observed.length > 1 && accepted then "FAIL:" ++ cls
                else "ok"
              { model := model, verdict := verdict,
                tags := [cls, if accepted then "accept" else "reject", s!"outcomes{pred.length}"] ++
                  (if orphan then ["orphan-tag"] else []) ++
                  (if accepted && !probes.isEmpty then ["nt"] else []) }
    | _ => { model := "bad-op", verdict := "skip" }
  | _ => { model := "bad-op", verdict := "skip" }

end BfeVerif.C14
