import BfeVerif.C14.Proofs
/-!
  C14 — configuration interpretation is deterministic.   Property theorems only.

  FULL STATEMENT (`C14_det_statement`): for every host_rule.data the loader accepts, every order in which Go may
  range over `Hosts`, `HostTags` and `HostMap` gives the same acceptance and the same (product, tag) for every
  request host.  The code VIOLATES it (`C14_witness_case`, `C14_witness_tag`; the former empty-tag witness is repaired, replayed on the real code by
  corpus/C14/known.ops).  Proved: the `_partial` theorems — the trie built by `buildHostRoute` does not depend on the
  iteration order whenever the normalised host names are pairwise distinct.
-/
namespace BfeVerif.C14
open BfeVerif.C13

/-- two load results mean the same: both rejected, or both accepted with the same decision for every host -/
def SameMeaning : Res (Entries × String) → Res (Entries × String) → Prop
  | .ok a, .ok b => ∀ q, decision a.1 a.2 q = decision b.1 b.2 q
  | .err, .err => True
  | .crash, .crash => True
  | _, _ => False

/-- the property at full strength (FALSE for the code as it is: see the witnesses) -/
def C14_det_statement : Prop :=
  ∀ (norm : String → List String) (f : HostFile) (hosts tags hosts1 hosts2 tags1 tags2 : List (String × Option (List String)))
    (σ1 σ2 : List (String × String) → List (String × String)),
    f.hosts = some hosts → f.hostTags = some tags →
    hosts1.Perm hosts → hosts2.Perm hosts → tags1.Perm tags → tags2.Perm tags →
    (∀ l, (σ1 l).Perm l) → (∀ l, (σ2 l).Perm l) →
    SameMeaning (interpret norm f hosts1 tags1 σ1) (interpret norm f hosts2 tags2 σ2)

/-- **partial, proved**: `buildHostRoute`'s trie answers every lookup identically for every iteration order of
    HostMap, provided the normalised host names (lower-cased, reversed, trailing dot dropped) are pairwise distinct. -/
theorem C14_build_det_partial (norm : String → List String) (hm hm' tm : List (String × String))
    (hp : hm.Perm hm') (hn : (hm.map fun ht => norm ht.1).Nodup) (dp : String) (q : List String) :
    decision (buildEntries norm hm tm) dp q = decision (buildEntries norm hm' tm) dp q := by
  have hperm : (buildEntries norm hm tm).Perm (buildEntries norm hm' tm) := by
    unfold buildEntries
    exact (hp.map _).filter _
  have hk := keys_nodup_buildEntries norm hm tm hn
  have : lookup (buildEntries norm hm tm) q = lookup (buildEntries norm hm' tm) q :=
    lookupFrom_congr (entryAt_perm hperm hk) q []
  unfold decision
  rw [this]

/-- same for any two write sequences that are permutations of each other with pairwise distinct paths -/
theorem C14_lookup_det_partial (es es' : Entries) (hp : es.Perm es') (hn : (es.map (·.1)).Nodup)
    (dp : String) (q : List String) : decision es dp q = decision es' dp q := by
  have : lookup es q = lookup es' q := lookupFrom_congr (entryAt_perm hp hn) q []
  unfold decision
  rw [this]

/-- **partial, proved**: the host-tag → product map does not depend on the order in which Go ranges over `HostTags`,
    provided no host tag is listed twice (under two products, or twice under one). -/
theorem C14_tagmap_det_partial (tags tags' : List (String × Option (List String))) (hp : tags.Perm tags')
    (hs : ∀ kv ∈ tags, kv.2.isSome = true) (hn : (allValues tags).Nodup)
    (m m' : List (String × String)) (h1 : buildTagMap tags [] = .ok m) (h2 : buildTagMap tags' [] = .ok m')
    (t : String) : mapGet m t = mapGet m' t := by
  have hs' : ∀ kv ∈ tags', kv.2.isSome = true := fun kv hkv => hs kv (hp.mem_iff.mpr hkv)
  have hn' : (allValues tags').Nodup := by
    unfold allValues at hn ⊢
    exact (hp.flatMap_right _).nodup_iff.mp hn
  have s1 := buildTagMap_spec tags [] m hs hn h1 t
  have s2 := buildTagMap_spec tags' [] m' hs' hn' h2 t
  have key : ∀ p, mapGet m t = some p ↔ mapGet m' t = some p := by
    intro p
    rw [s1 p, s2 p]
    simp only [mapGet, List.find?_nil, Option.map_none, and_false, or_false, reduceCtorEq]
    constructor
    · rintro ⟨kv, hkv, h⟩; exact ⟨kv, hp.mem_iff.mp hkv, h⟩
    · rintro ⟨kv, hkv, h⟩; exact ⟨kv, hp.mem_iff.mpr hkv, h⟩
  cases hm : mapGet m t with
  | some p => exact ((key p).mp hm).symm
  | none =>
    cases hm' : mapGet m' t with
    | none => rfl
    | some p => have := (key p).mpr hm'; rw [hm] at this; exact absurd this (by simp)

/-! ### the negation of the full statement: three independent witnesses -/

/-- (a) `B.COM` under tag t2 and `b.com` under tag t3 pass the exact-string duplicate check, normalise to the
    same trie path, and the last one written wins. -/
def exNorm (s : String) : List String := if s == "B.COM" then ["b.com"] else [s]

theorem C14_witness_case :
    ∃ (hm hm' : List (String × String)), hm.Perm hm' ∧
      decision (buildEntries exNorm hm [("t2", "p1"), ("t3", "p1")]) "" ["b.com"] ≠
      decision (buildEntries exNorm hm' [("t2", "p1"), ("t3", "p1")]) "" ["b.com"] := by
  refine ⟨[("B.COM", "t2"), ("b.com", "t3")], [("b.com", "t3"), ("B.COM", "t2")], ?_, ?_⟩
  · exact List.Perm.swap _ _ _
  · decide

def exTagFile (tags : List (String × Option (List String))) : HostFile :=
  { version := some "v1", defaultProduct := none, hosts := some [("t1", some ["a.org"])], hostTags := some tags }

/-- (b) a host tag listed under two products: `hostTag2Product[tag] = product` keeps whichever product the map
    iteration visited last. -/
theorem C14_witness_tag :
    (hostLoad (exTagFile [("p1", some ["t1"]), ("p2", some ["t1"])])).bind (fun c => .ok c.hostTagMap) = .ok [("t1", "p2")] ∧
    (hostLoad (exTagFile [("p2", some ["t1"]), ("p1", some ["t1"])])).bind (fun c => .ok c.hostTagMap) = .ok [("t1", "p1")] := by
  constructor <;> decide

def exEmptyTag (hosts : List (String × Option (List String))) : HostFile :=
  { version := some "v1", defaultProduct := none, hosts := some hosts, hostTags := some [("p1", some ["", "t2"])] }

/-- (c) FORMER witness, repaired by 73b0231: the duplicate test was `host2HostTag[h] != ""`, so with the empty host tag
    even ACCEPTANCE depended on the order; with `_, dup := host2HostTag[h]` both orders are rejected. -/
theorem C14_empty_tag_dup_rejected :
    hostLoad (exEmptyTag [("", some ["w.a.com"]), ("t2", some ["w.a.com"])]) = .err ∧
    hostLoad (exEmptyTag [("t2", some ["w.a.com"]), ("", some ["w.a.com"])]) = .err := by
  constructor <;> decide

/-- hence the full statement is false for the code as it is (witness (b): a tag under two products) -/
theorem C14_not_det : ¬ C14_det_statement := by
  intro h
  have := h (fun s => [s]) (exTagFile [("p1", some ["t1"]), ("p2", some ["t1"])])
    [("t1", some ["a.org"])] [("p1", some ["t1"]), ("p2", some ["t1"])]
    [("t1", some ["a.org"])] [("t1", some ["a.org"])]
    [("p1", some ["t1"]), ("p2", some ["t1"])] [("p2", some ["t1"]), ("p1", some ["t1"])] id id rfl rfl
    (List.Perm.refl _) (List.Perm.refl _) (List.Perm.refl _) (List.Perm.swap _ _ _)
    (fun _ => List.Perm.refl _) (fun _ => List.Perm.refl _)
  have h1 : interpret (fun s => [s]) (exTagFile [("p1", some ["t1"]), ("p2", some ["t1"])])
      [("t1", some ["a.org"])] [("p1", some ["t1"]), ("p2", some ["t1"])] id =
      .ok ([(["a.org"], ("p2", "t1"))], "") := by decide
  have h2 : interpret (fun s => [s]) (exTagFile [("p1", some ["t1"]), ("p2", some ["t1"])])
      [("t1", some ["a.org"])] [("p2", some ["t1"]), ("p1", some ["t1"])] id =
      .ok ([(["a.org"], ("p1", "t1"))], "") := by decide
  rw [h1, h2] at this
  have := this ["a.org"]
  revert this
  decide

/-! non-vacuity of the partial theorems: distinct normalised names, two orders, same answers -/
example : ([("a.com", "t1"), ("b.com", "t2")].map fun ht => exNorm ht.1).Nodup := by decide
example : decision (buildEntries exNorm [("a.com", "t1"), ("b.com", "t2")] [("t1", "p1")]) "" ["a.com"]
    = some ("p1", "t1") := by decide

/-! ### GSLB: the meaning of a gslb conf does not depend on map order or reload history -/

/-- **`C14_subcluster_sorted`**: whatever state the balancer of a cluster is in (any earlier history `g`), reloading the
    conf `conf` (a Go map, ranged over in any order) leaves exactly the state a FRESH `Init` of the same conf
    (ranged over in any other order `conf'`) produces — same sorted sub-cluster list, `totalWeight`, `single`,
    and `avail` where it is used — hence the same sub-cluster for every hash value.
    (Holds because `Reload` sorts BEFORE the weight pass; with the sort after it, `avail` indexes the unsorted list.) -/
theorem C14_subcluster_sorted (g : Gslb) (hg : (g.subs.map (·.name)).Nodup) (conf conf' : List Sub)
    (hp : conf.Perm conf') (hn : (conf.map (·.name)).Nodup) (hv : sumPos conf > 0) :
    ∃ g', gslbInit conf' = some g' ∧ (gslbReload g conf).norm = g'.norm ∧
      ∀ h, gslbSelect (gslbReload g conf) h = gslbSelect g' h := by
  have hv' : ¬ sumPos conf ≤ 0 := by omega
  have hne : sumPos conf' ≠ 0 := by rw [← sumPos_perm hp]; omega
  have hnorm := reload_norm_eq g hg conf conf' hp hn hv'
  refine ⟨initState conf', gslbInit_eq conf' hne, hnorm, fun h => ?_⟩
  rw [← select_norm (gslbReload g conf), hnorm, select_norm]

/-- **history independence**: start from a fresh load of ANY conf, apply ANY sequence of reloads (valid or rejected),
    then reload `final`: every selection equals the one after a fresh load of `final` (in any map order). -/
theorem C14_subcluster_history (first : List Sub) (g0 : Gslb) (h0 : gslbInit first = some g0)
    (hist : List (List Sub)) (final final' : List Sub)
    (hf : (first.map (·.name)).Nodup) (hh : ∀ c ∈ hist, (c.map (·.name)).Nodup)
    (hp : final.Perm final') (hn : (final.map (·.name)).Nodup) (hv : sumPos final > 0) :
    ∃ g', gslbInit final' = some g' ∧
      ∀ h, gslbSelect (gslbReload (gslbHistory g0 hist) final) h = gslbSelect g' h := by
  have hg := history_names_nodup hist g0 (init_names_nodup hf h0) hh
  obtain ⟨g', h1, _, h3⟩ := C14_subcluster_sorted (gslbHistory g0 hist) hg final final' hp hn hv
  exact ⟨g', h1, h3⟩

/-- any correct sort gives the list the model's `mergeSort` gives (so pdqsort's instability is irrelevant) -/
theorem C14_sort_unique (l s : List Sub) (hn : (l.map (·.name)).Nodup) (hp : s.Perm l)
    (ho : s.Pairwise fun a b => subLe a b = true) : s = l.mergeSort subLe :=
  sorted_perm_unique hn hp (List.mergeSort_perm l subLe) ho
    (List.pairwise_mergeSort subLe_trans subLe_total l)

/-- non-vacuity: the hypotheses are satisfiable, and the seeded scenario as an instance — running {sub-b:100}, reload to
    {sub-c:0, sub-a:0, sub-b:100}: every selection equals the one after a fresh load of {sub-a, sub-b, sub-c}. -/
example : (([⟨"sub-c", 0⟩, ⟨"sub-a", 0⟩, ⟨"sub-b", 100⟩] : List Sub).map (·.name)).Nodup ∧
    sumPos [⟨"sub-c", 0⟩, ⟨"sub-a", 0⟩, ⟨"sub-b", 100⟩] > 0 := by decide
example (g0 : Gslb) (h0 : gslbInit [⟨"sub-b", 100⟩] = some g0) :
    ∃ g', gslbInit [⟨"sub-a", 0⟩, ⟨"sub-b", 100⟩, ⟨"sub-c", 0⟩] = some g' ∧
      ∀ h, gslbSelect (gslbReload (gslbHistory g0 []) [⟨"sub-c", 0⟩, ⟨"sub-a", 0⟩, ⟨"sub-b", 100⟩]) h = gslbSelect g' h :=
  C14_subcluster_history [⟨"sub-b", 100⟩] g0 h0 [] _ _ (by decide) (by simp)
    (by decide) (by decide) (by decide)

/-! ### SLB: session-sticky selection is a function of the final backend set only -/

/-- **`C14_slb_history_independent`**: take ANY state of a sub-cluster's balancer (any earlier `Update`s and sticky
    requests, which may have sorted the list), update it to the backend set `conf` (new backends arriving in any
    Go-map order): every sticky selection equals the one of a balancer freshly initialised with the same set in any
    file order `conf'`.  (Holds because `Update` always clears `sorted`; if it is cleared only when the COUNT
    changes, a same-count replacement leaves new backends appended unsorted.) -/
theorem C14_slb_history_independent (s : Slb) (hs : (s.backends.map (·.name)).Nodup) (conf conf' : List Sub)
    (hp : conf.Perm conf') (hn : (conf.map (·.name)).Nodup) (h : Int) :
    (slbSticky (slbUpdate s conf) h).1 = (slbSticky (slbInit conf') h).1 := by
  have hperm := slbUpdate_perm s conf hs hn
  have hsort : (slbUpdate s conf).backends.mergeSort subLe = conf'.mergeSort subLe :=
    sort_eq_of_perm (hperm.trans hp) (names_nodup_of_perm hperm hn)
  have h1 : (slbUpdate s conf).sorted = false := rfl
  simp only [slbSticky, slbEnsureSorted, h1, slbInit, Bool.false_eq_true, if_false, hsort]

/-- the same after a whole history of updates and sticky requests starting from a fresh `Init` -/
theorem C14_slb_history (first : List Sub) (ops : List SlbOp) (final final' : List Sub)
    (hf : (first.map (·.name)).Nodup) (hops : ∀ c, SlbOp.update c ∈ ops → (c.map (·.name)).Nodup)
    (hp : final.Perm final') (hn : (final.map (·.name)).Nodup) (h : Int) :
    (slbSticky (slbUpdate (slbRun (slbInit first) ops) final) h).1 = (slbSticky (slbInit final') h).1 :=
  C14_slb_history_independent _ (slbRun_nodup ops (slbInit first) hf hops) final final' hp hn h

/-- why the flag matters: a state whose list is marked sorted but is not (what a same-count `Update` leaves behind when
    `sorted` is not cleared) selects differently from a fresh load of the same backends -/
theorem C14_witness_slb_stale_sorted :
    (slbSticky { backends := [⟨"10.0.0.3:80", 1⟩, ⟨"10.0.0.0:80", 1⟩], sorted := true } 0).1 = some "10.0.0.3:80" ∧
    stickyWalk [⟨"10.0.0.0:80", 1⟩, ⟨"10.0.0.3:80", 1⟩] 0 = some "10.0.0.0:80" := by
  constructor <;> decide

/-! ### acceptance by HostTableConfCheck does not depend on the order in which the two maps are enumerated -/

/-- **`C14_hostcheck_order_independent`**: `HostTableConfCheck` is a conjunction of ∀-conditions over `Hosts` and
    `HostTags`; whatever order Go ranges over the two maps in, the verdict (ok / error, never a crash) is the same.
    (With `find := false` hoisted out of the per-tag loop the check becomes "the FIRST tag visited is owned", which is
    order dependent: the model of the real code below checks every tag.) -/
theorem C14_hostcheck_order_independent (f : HostFile) (hosts hosts' tags tags' : List (String × Option (List String)))
    (hp : hosts.Perm hosts') (tp : tags.Perm tags') :
    hostCheck { f with hosts := some hosts, hostTags := some tags } =
    hostCheck { f with hosts := some hosts', hostTags := some tags' } := by
  have key : ∀ a b : HostFile, (hostCheck a = .ok () ↔ hostCheck b = .ok ()) → hostCheck a = hostCheck b := by
    intro a b hiff
    have ha := hostCheck_ne_crash a
    have hb := hostCheck_ne_crash b
    cases h1 : hostCheck a with
    | crash => exact absurd h1 ha
    | ok u =>
      cases u
      exact ((hiff.mp h1)).symm
    | err =>
      cases h2 : hostCheck b with
      | crash => exact absurd h2 hb
      | err => rfl
      | ok u => cases u; rw [hiff.mpr h2] at h1; exact absurd h1 (by simp)
  apply key
  rw [hostCheck_ok_iff, hostCheck_ok_iff]
  exact ⟨hostCheckSpec_perm f hosts hosts' tags tags' hp tp, hostCheckSpec_perm f hosts' hosts tags' tags hp.symm tp.symm⟩

/-- an ORPHAN host tag (a key of `Hosts` that no product lists) is always rejected, wherever it sits in the map -/
theorem C14_orphan_tag_rejected (f : HostFile) (hosts tags : List (String × Option (List String)))
    (hh : f.hosts = some hosts) (ht : f.hostTags = some tags)
    (orphan : ∃ kv ∈ hosts, ∀ pt ∈ tags, kv.1 ∉ pt.2.getD []) : hostCheck f ≠ .ok () := by
  intro h
  obtain ⟨_, hosts', tags', _, hh', ht', _, h2, _⟩ := (hostCheck_ok_iff f).mp h
  rw [hh] at hh'; rw [ht] at ht'
  injection hh' with e1; injection ht' with e2
  subst e1; subst e2
  obtain ⟨kv, hkv, hno⟩ := orphan
  obtain ⟨_, pt, hpt, hin⟩ := h2 kv hkv
  exact hno pt hpt hin

/-- non-vacuity: a valid tag and an orphan tag, in both orders → rejected both times -/
def exOrphan (hosts : List (String × Option (List String))) : HostFile :=
  { version := some "1", defaultProduct := none, hosts := some hosts, hostTags := some [("p", some ["good"])] }
example : hostCheck (exOrphan [("good", some ["a.com"]), ("orphan", some ["b.com"])]) = .err ∧
    hostCheck (exOrphan [("orphan", some ["b.com"]), ("good", some ["a.com"])]) = .err := by
  constructor <;> decide

/-! ### the other check functions: acceptance does not depend on the order in which Go ranges over their maps -/

/-- vip_rule.data (`Vips`: product → list) -/
theorem C14_vip_order_independent (parseIP : ParseIP) (f : VipFile) (vips' : List (String × List String))
    (hp : f.vips.Perm vips') : (vipLoad parseIP f).isOk = (vipLoad parseIP { f with vips := vips' }).isOk := by
  unfold vipLoad
  by_cases hv : f.version == ""
  · simp [hv]
  · simp only [hv, Bool.false_eq_true, if_false]
    rw [vipBuild_ok_iff, vipBuild_ok_iff]
    exact all_perm hp

/-- route_rule.data (`BasicRule`, `ProductRule`: product → rule list; the rules of one product stay in file order) -/
theorem C14_route_order_independent (condOk : CondOk) (f : RouteFile)
    (basic basic' : List (String × List BasicRuleFile)) (adv adv' : List (String × List AdvRuleFile))
    (hb : basic.Perm basic') (ha : adv.Perm adv') :
    (routeLoad condOk { f with basic := some basic, adv := some adv }).isOk =
    (routeLoad condOk { f with basic := some basic', adv := some adv' }).isOk := by
  rw [routeLoad_isOk, routeLoad_isOk]
  simp only [Option.getD_some, all_perm hb, all_perm ha]
  rfl

/-- cluster_conf.data (`Config`: cluster → conf) -/
theorem C14_cluster_conf_order_independent (v : Option String) (cfg cfg' : List (String × ClusterConf))
    (hp : cfg.Perm cfg') :
    (ccLoad (some { version := v, config := some cfg })).isOk = (ccLoad (some { version := v, config := some cfg' })).isOk := by
  have key : ∀ c : List (String × ClusterConf), (ccLoad (some { version := v, config := some c })).isOk =
      (v.isSome && (clusterToConfCheck c).isOk) := by
    intro c
    cases v with
    | none => simp [ccLoad, Res.isOk]
    | some ver =>
      have hchk := clusterToConfCheck_isOk c
      cases hk : clusterToConfCheck c with
      | crash => exact absurd hk (clusterToConfCheck_ne_crash c)
      | err => simp [ccLoad, deref, Res.bind, Res.isOk, hk]
      | ok c' =>
        have hb : forAllM (fun (kv : String × ClusterConf) => basicInit kv.2) c' = .ok () :=
          (forAllM_ok_iff c').mpr (clusterToConfCheck_basicInit c c' hk)
        simp [ccLoad, deref, Res.bind, Res.isOk, hk, hb]
  rw [key, key, clusterToConfCheck_isOk, clusterToConfCheck_isOk, all_perm hp]

/-- gslb.data: the clusters in any order, and the sub-cluster weights of one cluster in any order (Go's `int` sum wraps,
    but addition modulo 2^64 is still commutative) -/
theorem C14_gslb_order_independent (f : GslbFile) (cs cs' : List (String × List (String × Int))) (hp : cs.Perm cs') :
    gslbLoad { f with clusters := some cs } = gslbLoad { f with clusters := some cs' } := by
  unfold gslbLoad
  cases hh : f.hostname <;> cases ht : f.ts <;> simp only [deref_some, Res.bind]
  rw [forAllM_eq_perm (fun _ => failIf_ne_crash _) hp, hp.length_eq]

theorem C14_gslb_weights_order_independent (l l' : List (String × Int)) (hp : l.Perm l') :
    gslbTotal l 0 = gslbTotal l' 0 := gslbTotal_perm hp

/-- cluster_table.data (`Config`: cluster → sub-cluster → backend list; the backend lists stay in file order) -/
theorem C14_cluster_table_order_independent (f : CtFile)
    (cfg cfg' : List (String × List (String × List (Option Backend)))) (hp : cfg.Perm cfg') :
    ctLoad { f with config := some cfg } = ctLoad { f with config := some cfg' } := by
  unfold ctLoad
  cases hv : f.version <;> simp only [deref_some, Res.bind]
  rw [forAllM_eq_perm (fun kv => forAllM_ne_crash _ fun sv _ => by
        unfold subClusterCheck
        exact Res.bind_ne_crash (subClusterLoop_ne_crash _ _) fun _ _ => failIf_ne_crash _) hp, hp.length_eq]

/-- name_conf.data (`Config`: service → instance list) -/
theorem C14_name_conf_order_independent (c c' : List (String × List Instance)) (hp : c.Perm c') :
    nameLoad { config := c } = nameLoad { config := c' } := by
  unfold nameLoad
  exact forAllM_eq_perm (fun _ => forAllM_ne_crash _ fun _ _ => failIf_ne_crash _) hp

end BfeVerif.C14
