import BfeVerif.C13.Model
/-
  C14 — configuration interpretation is deterministic?   (core-only)

  The loaders of C13 (`hostLoad` = HostTableConfCheck + HostRuleConfLoad) take the Go maps `Hosts` and `HostTags`
  as association lists; here the lists are handed over in an ARBITRARY ORDER (Go randomises `range` over a map),
  and `buildHostRoute` (bfe_route/host_table.go) ranges over the resulting `HostMap` in yet another arbitrary order:

      for host, tag := range conf.HostMap {
          host = strings.ToLower(host); product := conf.HostTagMap[tag]
          hostTrie.Set(strings.Split(ReverseFqdnHost(host), "."), route{product, tag}) }

  `trie.Set` overwrites, so the trie is "last writer wins" per normalised path; `trie.Get` is modelled on the
  flattened trie (`lookup`).  `findHostRoute` = `lookup` of the normalised request host; on a miss
  `LookupHostTagAndProduct` falls back to the default product (no VIP in this model).
-/
namespace BfeVerif.C14
open BfeVerif.C13

/-- route{product, tag} -/
abbrev Route := String × String
/-- flattened trie: (path, route) writes in the order `buildHostRoute` performed them -/
abbrev Entries := List (List String × Route)

/-- `trie.Set` refuses a path with "*" before the last element (nothing is stored) -/
def validPath : List String → Bool
  | [] => true
  | [_] => true
  | x :: rest => x != "*" && validPath rest

/-- `buildHostRoute` over the HostMap in the given order -/
def buildEntries (norm : String → List String) (hm : List (String × String)) (tm : List (String × String)) : Entries :=
  (hm.map fun ht => (norm ht.1, ((mapGet tm ht.2).getD "", ht.2))).filter fun e => validPath e.1

/-- Entry stored at exactly this path: the LAST write wins -/
def entryAt : Entries → List String → Option Route
  | [], _ => none
  | (p, r) :: rest, q => match entryAt rest q with
    | some r' => some r'
    | none => if p == q then some r else none

/-- `Trie.Get` on the flattened trie: exact descent, falling back to the `*` child of each level on the way up -/
def lookupFrom (es : Entries) : List String → List String → Option Route
  | pre, [] => entryAt es pre
  | pre, k :: rest =>
    match lookupFrom es (pre ++ [k]) rest with
    | some r => some r
    | none => entryAt es (pre ++ ["*"])

def lookup (es : Entries) (q : List String) : Option Route := lookupFrom es [] q

/-- `LookupHostTagAndProduct` without VIP: host table, else default product -/
def decision (es : Entries) (defaultProduct : String) (q : List String) : Option Route :=
  match lookup es q with
  | some r => some r
  | none => if defaultProduct != "" then some (defaultProduct, "") else none

/-- one load + build with explicit iteration orders: `hosts'`/`tags'` = the file's maps in the order Go ranged
    over them, `reorder` = the order in which `buildHostRoute` ranged over HostMap -/
def interpret (norm : String → List String) (f : HostFile) (hosts' tags' : List (String × Option (List String)))
    (reorder : List (String × String) → List (String × String)) : Res (Entries × String) :=
  (hostLoad { f with hosts := f.hosts.map fun _ => hosts', hostTags := f.hostTags.map fun _ => tags' }).bind fun c =>
    .ok (buildEntries norm (reorder c.hostMap) c.hostTagMap, c.defaultProduct)

/-! ### concrete normalisation (driver) -/
def splitDots (s : String) : List String := s.splitOn "."

/-- key used when BUILDING: lower-case, reverse, drop a leading dot, split on "." -/
def normBuild (h : String) : List String := splitDots (reverseFqdn (lowerAscii h))

/-- key used when LOOKING UP: additionally strips ":port" -/
def normQuery (h : String) : List String :=
  splitDots (reverseFqdn (String.ofList ((lowerAscii h).toList.takeWhile (· != ':'))))

/-! ## GSLB: sub-cluster list of one cluster (bfe_balance/bal_gslb/bal_gslb.go)

  `Init` (fresh load) and `Reload` (hot reload) both end by SORTING the sub-cluster list by name and then computing
  `totalWeight`, `single`, `avail` ON THE SORTED LIST; `subClusterBalance` walks that list.  A gslb conf is a Go map
  (sub-cluster name → weight): here a list of `Sub` in the arbitrary order in which Go ranged over it.
  `sort.Sort` (pdqsort, not stable) is modelled by `mergeSort`; names in one list are pairwise distinct, so the sorted
  permutation is unique (`sorted_perm_unique` in Proofs) and any correct sort gives the same list. -/

structure Sub where
  name : String
  weight : Int
  deriving Repr, DecidableEq

/-- `SubClusterListSorter.Less`: by name -/
def subLe (a b : Sub) : Bool := decide (a.name ≤ b.name)

structure Gslb where
  subs : List Sub          -- bal.subClusters
  total : Int              -- bal.totalWeight
  single : Bool            -- bal.single
  avail : Nat              -- bal.avail (meaningful only when single)
  deriving Repr, DecidableEq

/-- sum of the positive weights -/
def sumPos : List Sub → Int
  | [] => 0
  | s :: rest => (if s.weight > 0 then s.weight else 0) + sumPos rest

def availNum (l : List Sub) : Nat := (l.filter fun s => s.weight > 0).length

/-- index of the LAST sub-cluster with weight > 0 (0 if none), as the `for index, sub := range` loops compute it -/
def lastAvailFrom : List Sub → Nat → Nat → Nat
  | [], _, acc => acc
  | s :: rest, i, acc => lastAvailFrom rest (i + 1) (if s.weight > 0 then i else acc)

def lastAvail (l : List Sub) : Nat := lastAvailFrom l 0 0

/-- `BalanceGslb.Init` on a conf in map-iteration order; `none` = "gslb total weight = 0" -/
def gslbInit (conf : List Sub) : Option Gslb :=
  let total := sumPos conf                       -- summed while ranging over the map, before the sort
  if total == 0 then none
  else
    let sorted := conf.mergeSort subLe
    some { subs := sorted, total := total, single := availNum sorted == 1, avail := lastAvail sorted }

def confWeight (conf : List Sub) (n : String) : Option Int := (conf.find? fun c => c.name == n).map (·.weight)

/-- `BalanceGslb.Reload`: existing sub-clusters that are still configured keep their position (with the new weight),
    new ones are appended in map-iteration order, THEN the list is sorted and the weight pass runs on the sorted list.
    A conf without available sub-cluster is rejected and nothing changes. -/
def gslbReload (g : Gslb) (conf : List Sub) : Gslb :=
  if sumPos conf ≤ 0 then g
  else
    let kept := g.subs.filterMap fun s => (confWeight conf s.name).map fun w => { s with weight := w }
    let fresh := conf.filter fun c => !(g.subs.any fun s => s.name == c.name)
    let sorted := (kept ++ fresh).mergeSort subLe
    let n := availNum sorted
    { subs := sorted, total := sumPos sorted, single := n == 1,
      avail := if n == 1 then lastAvail sorted else g.avail }

/-- the weighted walk of `subClusterBalance`: returns the last sub-cluster assigned to the loop variable -/
def walk : List Sub → Int → Option Sub → Option Sub
  | [], _, cur => cur
  | s :: rest, w, _ =>
    if s.weight ≤ 0 then walk rest w (some s)
    else if w - s.weight < 0 then some s else walk rest (w - s.weight) (some s)

/-- `subClusterBalance` with `GetHash(key, totalWeight) = h`; result = name of the selected sub-cluster -/
def gslbSelect (g : Gslb) (h : Int) : Option String :=
  if g.total == 0 then none
  else if g.single then (g.subs[g.avail]?).map (·.name)
  else (walk g.subs h none).map (·.name)

/-- `avail` is dead when `single` is false -/
def Gslb.norm (g : Gslb) : Gslb := { g with avail := if g.single then g.avail else 0 }

/-- a whole reload history applied to a state -/
def gslbHistory (g : Gslb) (hist : List (List Sub)) : Gslb := hist.foldl gslbReload g

/-! ## SLB: backend list of one sub-cluster, session-sticky selection (bfe_balance/bal_slb/bal_rr.go)

  `BalanceRR.Init` keeps the backends in file order, `Update` keeps the surviving backends in their CURRENT order
  (which a previous sticky request may have sorted), appends the new ones in Go-map order and sets `sorted = false`;
  `stickyBalance` sorts the list by "addr:port" when `sorted` is false, then walks the available backends with
  weight > 0 using `GetHash(key, totalWeight)`.  A backend is a `Sub` (name = "addr:port", weight = the internal weight,
  i.e. 100 × the configured one: BackendRR.Init / UpdateWeight); all backends are
  available in this model (no health checker runs in the harness). -/

structure Slb where
  backends : List Sub
  sorted : Bool
  deriving Repr, DecidableEq

def slbInit (conf : List Sub) : Slb := { backends := conf, sorted := false }

/-- `BalanceRR.Update`; `conf` in the order in which Go ranged over `confMap` (only the order of NEW backends matters) -/
def slbUpdate (s : Slb) (conf : List Sub) : Slb :=
  let kept := s.backends.filterMap fun b => (confWeight conf b.name).map fun w => { b with weight := w }
  let fresh := conf.filter fun c => !(s.backends.any fun b => b.name == c.name)
  { backends := kept ++ fresh, sorted := false }

/-- `ensureSortedUnlocked` -/
def slbEnsureSorted (s : Slb) : Slb :=
  if s.sorted then s else { backends := s.backends.mergeSort subLe, sorted := true }

def stickyWalk : List Sub → Int → Option String
  | [], _ => none
  | b :: rest, v => if v - b.weight < 0 then some b.name else stickyWalk rest (v - b.weight)

/-- `stickyBalance` with `GetHash(key, totalWeight) = h`: (selected backend, new state) -/
def slbSticky (s : Slb) (h : Int) : Option String × Slb :=
  let s' := slbEnsureSorted s
  (stickyWalk (s'.backends.filter fun b => b.weight > 0) h, s')

inductive SlbOp where
  | update (conf : List Sub)
  | sticky (h : Int)

def slbStep (s : Slb) : SlbOp → Slb
  | .update conf => slbUpdate s conf
  | .sticky h => (slbSticky s h).2

def slbRun (s : Slb) (ops : List SlbOp) : Slb := ops.foldl slbStep s

end BfeVerif.C14
