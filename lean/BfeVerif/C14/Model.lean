import BfeVerif.C13.Model
/-
  C14 — configuration interpretation is deterministic?   (core-only)

  The loaders of C13 (`hostLoad` = HostTableConfCheck + HostRuleConfLoad) take the Go maps `Hosts` and `HostTags`
  as association lists; here the lists are handed over in an ARBITRARY ORDER (Go randomises `range` over a map),
  and `buildHostRoute` (bfe_route/host_table.go) ranges over the resulting `HostMap` in yet another arbitrary order:

      for host, tag := range conf.HostMap {
          host = strings.ToLower(host); product := conf.HostTagMap[tag]
          hostTrie.Set(strings.Split(ReverseFqdnHost(host), "."), route{product, tag}) }

  `trie.Set` overwrites, so the trie is "last writer wins" per normalised path; `trie.Get` is modelled on the
  flattened trie (`lookup`).  `findHostRoute` = `lookup` of the normalised request host; on a miss
  `LookupHostTagAndProduct` falls back to the default product (no VIP in this model).
-/
namespace BfeVerif.C14
open BfeVerif.C13

/-- route{product, tag} -/
abbrev Route := String × String
/-- flattened trie: (path, route) writes in the order `buildHostRoute` performed them -/
abbrev Entries := List (List String × Route)

/-- `trie.Set` refuses a path with "*" before the last element (nothing is stored) -/
def validPath : List String → Bool
  | [] => true
  | [_] => true
  | x :: rest => x != "*" && validPath rest

/-- `buildHostRoute` over the HostMap in the given order -/
def buildEntries (norm : String → List String) (hm : List (String × String)) (tm : List (String × String)) : Entries :=
  (hm.map fun ht => (norm ht.1, ((mapGet tm ht.2).getD "", ht.2))).filter fun e => validPath e.1

/-- Entry stored at exactly this path: the LAST write wins -/
def entryAt : Entries → List String → Option Route
  | [], _ => none
  | (p, r) :: rest, q => match entryAt rest q with
    | some r' => some r'
    | none => if p == q then some r else none

/-- `Trie.Get` on the flattened trie: exact descent, falling back to the `*` child of each level on the way up -/
def lookupFrom (es : Entries) : List String → List String → Option Route
  | pre, [] => entryAt es pre
  | pre, k :: rest =>
    match lookupFrom es (pre ++ [k]) rest with
    | some r => some r
    | none => entryAt es (pre ++ ["*"])

def lookup (es : Entries) (q : List String) : Option Route := lookupFrom es [] q

/-- `LookupHostTagAndProduct` without VIP: host table, else default product -/
def decision (es : Entries) (defaultProduct : String) (q : List String) : Option Route :=
  match lookup es q with
  | some r => some r
  | none => if defaultProduct != "" then some (defaultProduct, "") else none

/-- one load + build with explicit iteration orders: `hosts'`/`tags'` = the file's maps in the order Go ranged
    over them, `reorder` = the order in which `buildHostRoute` ranged over HostMap -/
def interpret (norm : String → List String) (f : HostFile) (hosts' tags' : List (String × Option (List String)))
    (reorder : List (String × String) → List (String × String)) : Res (Entries × String) :=
  (hostLoad { f with hosts := f.hosts.map fun _ => hosts', hostTags := f.hostTags.map fun _ => tags' }).bind fun c =>
    .ok (buildEntries norm (reorder c.hostMap) c.hostTagMap, c.defaultProduct)

/-! ### concrete normalisation (driver) -/
def splitDots (s : String) : List String := s.splitOn "."

/-- key used when BUILDING: lower-case, reverse, drop a leading dot, split on "." -/
def normBuild (h : String) : List String := splitDots (reverseFqdn (lowerAscii h))

/-- key used when LOOKING UP: additionally strips ":port" -/
def normQuery (h : String) : List String :=
  splitDots (reverseFqdn (String.ofList ((lowerAscii h).toList.takeWhile (· != ':'))))

end BfeVerif.C14
