import BfeVerif.Common.Proto
import BfeVerif.C16.Model
/-!
  C16 driver.  op = `x <envmask>[:<missmask>] <expr>` (an atom whose missmask bit is set is a primitive whose
  attribute is missing on the request: it is false, so its negation is true); expr over `a`..`z` (atoms), `&` (&&), `|` (||), `!`, `(`, `)`,
  and `_ ~ ^` (blank, tab, newline — ignored by the scanner).  Atom `i` has truth value bit i of envmask.
  result = `<s-expression of the AST> <T|F>` or `err`.
-/
namespace BfeVerif.C16
open BfeVerif.Proto

def tokOfChar (c : Char) : Option (Option Tok) :=
  if 'a' ≤ c ∧ c ≤ 'z' then some (some (.atom (c.toNat - 97)))
  else if c == '&' then some (some .land)
  else if c == '|' then some (some .lor)
  else if c == '!' then some (some .not)
  else if c == '(' then some (some .lp)
  else if c == ')' then some (some .rp)
  else if c == '_' || c == '~' || c == '^' then some none
  else none

def tokenize : List Char → Option (List Tok)
  | [] => some []
  | c :: cs =>
    match tokOfChar c, tokenize cs with
    | some (some t), some ts => some (t :: ts)
    | some none, some ts => some ts
    | _, _ => none

/-! Independent oracle: the documented grammar as the classical stratified recursive descent
      or := and ('||' and)* ;  and := unary ('&&' unary)* ;  unary := '!' unary | '(' or ')' | atom
    evaluated on the fly. -/
mutual
def dOr (env : Nat → Bool) : Nat → List Tok → Option (Bool × List Tok)
  | 0, _ => none
  | n + 1, ts =>
    match dAnd env n ts with
    | none => none
    | some (v, rest) => dOrTail env n v rest
def dOrTail (env : Nat → Bool) : Nat → Bool → List Tok → Option (Bool × List Tok)
  | 0, _, _ => none
  | n + 1, acc, .lor :: rest =>
    match dAnd env n rest with
    | none => none
    | some (v, rest') => dOrTail env n (acc || v) rest'
  | _ + 1, acc, ts => some (acc, ts)
def dAnd (env : Nat → Bool) : Nat → List Tok → Option (Bool × List Tok)
  | 0, _ => none
  | n + 1, ts =>
    match dUnary env n ts with
    | none => none
    | some (v, rest) => dAndTail env n v rest
def dAndTail (env : Nat → Bool) : Nat → Bool → List Tok → Option (Bool × List Tok)
  | 0, _, _ => none
  | n + 1, acc, .land :: rest =>
    match dUnary env n rest with
    | none => none
    | some (v, rest') => dAndTail env n (acc && v) rest'
  | _ + 1, acc, ts => some (acc, ts)
def dUnary (env : Nat → Bool) : Nat → List Tok → Option (Bool × List Tok)
  | 0, _ => none
  | _ + 1, .atom a :: rest => some (env a, rest)
  | n + 1, .not :: rest =>
    match dUnary env n rest with
    | some (v, r) => some (!v, r)
    | none => none
  | n + 1, .lp :: rest =>
    match dOr env n rest with
    | some (v, .rp :: r) => some (v, r)
    | _ => none
  | _ + 1, _ => none
end

def docEval (env : Nat → Bool) (ts : List Tok) : Option Bool :=
  match dOr env (4 * ts.length + 4) ts with
  | some (v, []) => some v
  | _ => none

def depth : PE → Nat
  | .atom _ => 0
  | .not e => depth e + 1
  | .paren e => depth e + 1
  | .bin _ l r => max (depth l) (depth r) + 1

def run (op impl : String) : Ans :=
  match op.splitOn " " with
  | ["x", m, ex] =>
    let (ms, miss) : String × Nat := match m.splitOn ":" with
      | [a, b] => (a, b.toNat?.getD 0)
      | _ => (m, 0)
    match ms.toNat?, tokenize ex.toList with
    | some mask, some ts =>
      let env : Nat → Bool := fun i => (mask >>> i) % 2 == 1 && !((miss >>> i) % 2 == 1)
      let model :=
        match parseTop codeTable ts with
        | none => "err"
        | some pe => sexpr pe ++ " " ++ (if eval env pe then "T" else "F")
      let docTree := parseTop docTable ts
      let doc := docTree.map (eval env)
      let doc2 := docEval env ts
      let implVal : Option Bool :=
        if impl.endsWith " T" then some true else if impl.endsWith " F" then some false else none
      let mix := match docTree with | some pe => !(noMix pe) | none => false
      let verdict :=
        if doc != doc2 then "FAIL:oracle-disagree"
        else if impl.startsWith "PANIC" || impl == "HANG" then "FAIL:crash"
        else match doc with
          | none => if impl == "err" then "ok" else "FAIL:accepts-invalid"
          | some b =>
            if impl == "err" then "FAIL:rejects-valid"
            else if implVal == some b then "ok"
            else if mix then "FAIL:and-or-precedence"
            else if miss != 0 && ts.contains .not then "FAIL:negated-missing-attr" else "FAIL:precedence-other"
      let tags :=
        match docTree with
        | none => ["syntax-err"]
        | some pe =>
          (if mix then ["mix"] else ["nomix"]) ++
          (if ts.length ≥ 3 then ["nt"] else []) ++
          (if ts.contains .lp then ["paren"] else []) ++
          (if ts.contains .not then ["not"] else []) ++
          (if miss != 0 then (if ts.contains .not then ["missing-attr", "not-missing"] else ["missing-attr"]) else []) ++
          ["depth" ++ toString (min (depth pe) 6)]
      { model := model, verdict := verdict, tags := tags }
    | _, _ => { model := "bad-op", verdict := "skip" }
  | _ => { model := "bad-op", verdict := "skip" }

end BfeVerif.C16
