import BfeVerif.C16.Driver
def main : IO Unit := BfeVerif.Proto.driverMain BfeVerif.C16.run
