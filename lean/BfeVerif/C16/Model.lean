import BfeVerif.Generated.C16
/-!
  C16 — model of the condition-expression parser (`parser/cond.y` → `parser/y.go`) and of the
  evaluation in `composite.go`.  Core-only.

  The grammar of cond.y is the ambiguous
      expr : LPAREN expr RPAREN | expr LAND expr | expr LOR expr | NOT expr | callExpr | IDENT
  disambiguated by the yacc precedence declarations (`%left LAND` / `%left LOR` / `%right NOT`, in THAT order
  in the current source: a later line binds tighter).  yacc resolves the shift/reduce conflict
  "rule `… op1 expr .` against look-ahead `op2`" as: reduce iff prec(rule) > prec(op2), or the levels are equal
  and the level is left-associative.  `stop` below is exactly that decision, and the parser is the operator
  precedence parser that takes it at the same points as the LALR automaton.  The table `Table` is built from
  the lines extracted from cond.y on every check run (`Generated.C16.precLines`).
-/
namespace BfeVerif.C16

/-- tokens of an expression over atomic primitives (`atom n` = the n-th primitive call / identifier) -/
inductive Tok where
  | atom (n : Nat) | land | lor | not | lp | rp
  deriving DecidableEq, Repr

/-- the AST built by the semantic actions of cond.y (`ParenExpr` nodes are kept) -/
inductive PE where
  | atom (n : Nat)
  | not (e : PE)
  | bin (isAnd : Bool) (l r : PE)
  | paren (e : PE)
  deriving DecidableEq, Repr

/-- yacc precedence table: level (higher binds tighter) and left-associativity of each operator token -/
structure Table where
  land : Nat
  lor : Nat
  not : Nat
  landLeft : Bool
  lorLeft : Bool
  deriving DecidableEq, Repr

/-- the documented table: `!` over `&&` over `||`, binary operators left-associative -/
def docTable : Table := { land := 2, lor := 1, not := 3, landLeft := true, lorLeft := true }

def Table.lvl (t : Table) (isAnd : Bool) : Nat := if isAnd then t.land else t.lor
def Table.left (t : Table) (isAnd : Bool) : Bool := if isAnd then t.landLeft else t.lorLeft

/-- index of the first precedence line that lists `tok` (1-based level), with that line's directive -/
def findLine (tok : String) : List (String × List String) → Nat → Option (Nat × String)
  | [], _ => none
  | (d, toks) :: rest, i => if toks.contains tok then some (i, d) else findLine tok rest (i + 1)

/-- table denoted by the `%left/%right` lines of cond.y (`none` if a token has no precedence) -/
def tableOfLines (ls : List (String × List String)) : Option Table :=
  match findLine "LAND" ls 1, findLine "LOR" ls 1, findLine "NOT" ls 1 with
  | some (a, da), some (o, d), some (n, _) =>
    some { land := a, lor := o, not := n, landLeft := da == "left", lorLeft := d == "left" }
  | _, _, _ => none

/-- the table of the CURRENT source tree -/
def codeTable : Table := (tableOfLines BfeVerif.Generated.C16.precLines).getD docTable

/-- yacc's decision with a completed rule of level `ctx` on the stack and binary operator `op` as
    look-ahead: `true` = reduce (the pending rule ends here), `false` = shift `op`. -/
def stop (t : Table) (ctx : Option Nat) (isAnd : Bool) : Bool :=
  match ctx with
  | none => false
  | some rl => decide (rl > t.lvl isAnd) || (rl == t.lvl isAnd && t.left isAnd)

mutual
/-- `expr` in the context of a pending rule of level `ctx` (none: top level or inside parentheses) -/
def parseExpr (t : Table) : Nat → Option Nat → List Tok → Option (PE × List Tok)
  | 0, _, _ => none
  | n + 1, ctx, toks =>
    match parsePrimary t n toks with
    | none => none
    | some (lhs, rest) => loop t n ctx lhs rest
def parsePrimary (t : Table) : Nat → List Tok → Option (PE × List Tok)
  | 0, _ => none
  | _ + 1, .atom a :: rest => some (.atom a, rest)
  | n + 1, .not :: rest =>
    match parseExpr t n (some t.not) rest with
    | some (e, r) => some (.not e, r)
    | none => none
  | n + 1, .lp :: rest =>
    match parseExpr t n none rest with
    | some (e, .rp :: r) => some (.paren e, r)
    | _ => none
  | _ + 1, _ => none
def loop (t : Table) : Nat → Option Nat → PE → List Tok → Option (PE × List Tok)
  | 0, _, _, _ => none
  | n + 1, ctx, lhs, .land :: rest =>
    if stop t ctx true then some (lhs, .land :: rest)
    else match parseExpr t n (some t.land) rest with
      | none => none
      | some (rhs, rest') => loop t n ctx (.bin true lhs rhs) rest'
  | n + 1, ctx, lhs, .lor :: rest =>
    if stop t ctx false then some (lhs, .lor :: rest)
    else match parseExpr t n (some t.lor) rest with
      | none => none
      | some (rhs, rest') => loop t n ctx (.bin false lhs rhs) rest'
  | _ + 1, _, lhs, toks => some (lhs, toks)
end

/-- whole input: `top : expr` followed by end of input; anything else is a syntax error (`none`) -/
def parseTop (t : Table) (toks : List Tok) : Option PE :=
  match parseExpr t (3 * toks.length + 1) none toks with
  | some (e, []) => some e
  | _ => none

/-- `composite.go`: plain short-circuit evaluation; `build` drops `ParenExpr` -/
def eval (env : Nat → Bool) : PE → Bool
  | .atom n => env n
  | .not e => !(eval env e)
  | .bin true l r => eval env l && eval env r
  | .bin false l r => eval env l || eval env r
  | .paren e => eval env e

def evalTokens (t : Table) (env : Nat → Bool) (toks : List Tok) : Option Bool :=
  (parseTop t toks).map (eval env)

/-- printing an AST back to tokens (no parentheses are added: `paren` nodes carry them) -/
def print : PE → List Tok
  | .atom n => [.atom n]
  | .not e => .not :: print e
  | .bin true l r => print l ++ .land :: print r
  | .bin false l r => print l ++ .lor :: print r
  | .paren e => .lp :: print e ++ [.rp]

/-! ### The grammar a table denotes, as a predicate on trees ("which trees may be written without
    further parentheses").  For `docTable` this is the documented grammar. -/

/-- a tree whose left spine starts in context `ctx`: every binary operator on the left spine is shifted there -/
def fits (t : Table) (ctx : Option Nat) : PE → Bool
  | .bin op l _ => !(stop t ctx op) && fits t ctx l
  | _ => true

/-- every rule still open at the right edge of the tree ends when `op` is the next token -/
def endsAt (t : Table) (op : Bool) : PE → Bool
  | .atom _ => true
  | .paren _ => true
  | .not e => stop t (some t.not) op && endsAt t op e
  | .bin o _ r => stop t (some (t.lvl o)) op && endsAt t op r

/-- the tree is what the grammar with table `t` assigns to its own printing -/
def wellParen (t : Table) : PE → Bool
  | .atom _ => true
  | .paren e => wellParen t e
  | .not e => wellParen t e && fits t (some t.not) e
  | .bin op l r => wellParen t l && wellParen t r && endsAt t op l && fits t (some (t.lvl op)) r

/-- no `||` node has an unparenthesised `&&` operand, no `&&` node an unparenthesised `||` operand -/
def isBin (a : Bool) : PE → Bool
  | .bin o _ _ => o == a
  | _ => false

def noMix : PE → Bool
  | .atom _ => true
  | .paren e => noMix e
  | .not e => noMix e
  | .bin op l r => !(isBin (!op) l) && !(isBin (!op) r) && noMix l && noMix r

/-! ### s-expression rendering used on the line protocol -/
def sexpr : PE → String
  | .atom n => "p" ++ toString n
  | .not e => "(! " ++ sexpr e ++ ")"
  | .bin true l r => "(&& " ++ sexpr l ++ " " ++ sexpr r ++ ")"
  | .bin false l r => "(|| " ++ sexpr l ++ " " ++ sexpr r ++ ")"
  | .paren e => "(P " ++ sexpr e ++ ")"

end BfeVerif.C16
