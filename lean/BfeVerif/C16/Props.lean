import BfeVerif.C16.Proofs
/-!
  C16 — condition expressions evaluate with the documented precedence.
  Property theorems only (helper lemmas are in `Proofs.lean`).

  Objects: `PE` = the AST (with `paren` nodes), `print` = its token string, `wellParen t pe` = "pe is the tree
  the grammar with precedence table `t` assigns to `print pe`" (for `docTable`: the documented grammar
  `() > ! > && > ||`, binary operators left-associative).  Every way of writing an expression with or
  without redundant parentheses is `print pe` for a `pe` with `wellParen docTable pe`.
  `codeTable` is computed from the `%left/%right` lines extracted from cond.y on every run.

  FULL STATEMENT (C16), false on the current tree (see `C16_witness`):
      ∀ pe env, wellParen docTable pe → evalTokens codeTable env (print pe) = some (eval env pe)
-/
namespace BfeVerif.C16

/-- The statement of C16 for a precedence table `t`. -/
def DocumentedEvaluation (t : Table) : Prop :=
  ∀ (pe : PE) (env : Nat → Bool), wellParen docTable pe = true →
    evalTokens t env (print pe) = some (eval env pe)

/-- The parser parameterised by ANY table implements exactly the grammar that table denotes:
    parsing the printing of a tree that is well-parenthesised for `t` gives back that tree (with its
    parenthesis nodes), for every nesting depth and operator mix. -/
theorem C16_roundtrip (t : Table) (pe : PE) (hw : wellParen t pe = true) :
    parseTop t (print pe) = some pe := by
  have h := parse_spine t pe hw none [] 1 (pe, []) (fits_none t pe) rfl (loop_done t 0 _ _ _ rfl)
  rw [List.append_nil] at h
  have h' := parseExpr_mono t (m := 3 * (print pe).length + 1) (by have := cost_le pe; omega) h
  unfold parseTop
  rw [h']

/-- C16 holds for the documented table: if cond.y declared `||` below `&&` below `!`, every expression
    would evaluate as documented. -/
theorem C16_doc_table : DocumentedEvaluation docTable := by
  intro pe env hw
  simp [evalTokens, C16_roundtrip docTable pe hw]

/-- On any table where `!` binds tightest and `&&`, `||` are left-associative (whatever their mutual
    order), expressions that never put `&&` and `||` next to each other without parentheses are parsed
    into the documented tree. -/
theorem C16_partial_general (c : Table) (hc : NotTightLeftAssoc c) (pe : PE)
    (hw : wellParen docTable pe = true) (hm : noMix pe = true) :
    parseTop c (print pe) = some pe :=
  C16_roundtrip c pe (wellParen_transfer c hc pe hw hm)

theorem codeTable_ok : NotTightLeftAssoc codeTable := by
  constructor <;> intro op <;> cases op <;> decide

/-- **C16_partial** (current tree): with the precedence lines that cond.y has NOW, every expression
    without an unparenthesised `&&`/`||` mix evaluates as documented. -/
theorem C16_partial (pe : PE) (env : Nat → Bool)
    (hw : wellParen docTable pe = true) (hm : noMix pe = true) :
    evalTokens codeTable env (print pe) = some (eval env pe) := by
  simp [evalTokens, C16_partial_general codeTable codeTable_ok pe hw hm]

/-- the witness `p0 && p1 || p2` with p0 = p1 = false, p2 = true -/
def witness : PE := .bin false (.bin true (.atom 0) (.atom 1)) (.atom 2)
def witnessEnv : Nat → Bool := fun n => n == 2

/-- **C16_witness**: on the current tree the full statement is FALSE: `false && false || true` is
    parsed as `false && (false || true)` and evaluates to false; documented value: true. -/
theorem C16_witness : ¬ DocumentedEvaluation codeTable := by
  intro h
  have := h witness witnessEnv (by decide)
  revert this
  decide

/-- what the current parser builds for the witness -/
theorem C16_witness_tree :
    parseTop codeTable (print witness) = some (.bin true (.atom 0) (.bin false (.atom 1) (.atom 2))) := by
  decide

/-- `!` applies to the primary that follows it only (`!a && b` is `(!a) && b`), on the current tree. -/
theorem C16_not_binds_tightest (a b : PE) (op : Bool) (ha : isNB a = true) (hb : isNB b = true)
    (hwa : wellParen docTable a = true) (hwb : wellParen docTable b = true)
    (hma : noMix a = true) (hmb : noMix b = true) :
    parseTop codeTable (print (.bin op (.not a) b)) = some (.bin op (.not a) b) := by
  apply C16_partial_general codeTable codeTable_ok
  · simp only [wellParen, Bool.and_eq_true]
    refine ⟨⟨⟨⟨hwa, fits_of_isNB _ _ a ha⟩, hwb⟩, ?_⟩, fits_of_isNB _ _ b hb⟩
    simp only [endsAt, Bool.and_eq_true]
    refine ⟨by cases op <;> decide, ?_⟩
    exact endsAt_notChain docTable (by constructor <;> intro o <;> cases o <;> decide) op a hwa ha
  · cases a <;> cases b <;> simp_all [noMix, isBin, isNB]

/-! Non-vacuity: a deep mixed expression that satisfies the hypotheses of `C16_partial`, and one
    (`a || b && c`, `!(a && b) || c`) that is documented-well-parenthesised. -/
example : wellParen docTable (.bin false (.bin false (.not (.not (.atom 0))) (.paren (.bin true (.atom 1) (.atom 2)))) (.atom 3)) = true
    ∧ noMix (.bin false (.bin false (.not (.not (.atom 0))) (.paren (.bin true (.atom 1) (.atom 2)))) (.atom 3)) = true := by decide
example : wellParen docTable (.bin false (.atom 0) (.bin true (.atom 1) (.atom 2))) = true := by decide
example : wellParen docTable witness = true ∧ noMix witness = false := by decide
example : codeTable = { land := 1, lor := 2, not := 3, landLeft := true, lorLeft := true } := by decide

end BfeVerif.C16
