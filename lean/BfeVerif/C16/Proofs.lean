import BfeVerif.C16.Model
/-! Lemmas for C16 (core Lean only). -/
namespace BfeVerif.C16

theorem mono_step (t : Table) : ∀ n,
    (∀ ctx toks r, parseExpr t n ctx toks = some r → parseExpr t (n + 1) ctx toks = some r) ∧
    (∀ toks r, parsePrimary t n toks = some r → parsePrimary t (n + 1) toks = some r) ∧
    (∀ ctx lhs toks r, loop t n ctx lhs toks = some r → loop t (n + 1) ctx lhs toks = some r) := by
  intro n
  induction n with
  | zero =>
    refine ⟨?_, ?_, ?_⟩
    · intro ctx toks r h; simp [parseExpr] at h
    · intro toks r h; simp [parsePrimary] at h
    · intro ctx lhs toks r h; simp [loop] at h
  | succ n ih =>
    obtain ⟨ihE, ihP, ihL⟩ := ih
    refine ⟨?_, ?_, ?_⟩
    · intro ctx toks r h
      rw [parseExpr] at h
      rw [parseExpr]
      cases hp : parsePrimary t n toks with
      | none => rw [hp] at h; simp at h
      | some pr =>
        obtain ⟨lhs, rest⟩ := pr
        rw [hp] at h; simp only at h
        rw [ihP _ _ hp]; simp only
        exact ihL _ _ _ _ h
    · intro toks r h
      match toks with
      | [] => simp [parsePrimary] at h
      | .atom a :: rest => simp only [parsePrimary] at h ⊢; exact h
      | .not :: rest =>
        simp only [parsePrimary] at h ⊢
        cases hp : parseExpr t n (some t.not) rest with
        | none => rw [hp] at h; simp at h
        | some pr => rw [hp] at h; rw [ihE _ _ _ hp]; exact h
      | .lp :: rest =>
        simp only [parsePrimary] at h ⊢
        cases hp : parseExpr t n none rest with
        | none => rw [hp] at h; simp at h
        | some pr => rw [hp] at h; rw [ihE _ _ _ hp]; exact h
      | .rp :: rest => simp [parsePrimary] at h
      | .land :: rest => simp [parsePrimary] at h
      | .lor :: rest => simp [parsePrimary] at h
    · intro ctx lhs toks r h
      match toks with
      | [] => simp only [loop] at h ⊢; exact h
      | .atom a :: rest => simp only [loop] at h ⊢; exact h
      | .not :: rest => simp only [loop] at h ⊢; exact h
      | .lp :: rest => simp only [loop] at h ⊢; exact h
      | .rp :: rest => simp only [loop] at h ⊢; exact h
      | .land :: rest =>
        simp only [loop] at h ⊢
        by_cases hs : stop t ctx true = true
        · simp only [hs, if_true] at h ⊢; exact h
        · simp only [hs] at h ⊢
          cases hp : parseExpr t n (some t.land) rest with
          | none => rw [hp] at h; simp at h
          | some pr =>
            obtain ⟨rhs, rest'⟩ := pr
            rw [hp] at h; simp only at h
            rw [ihE _ _ _ hp]; simp only
            exact ihL _ _ _ _ h
      | .lor :: rest =>
        simp only [loop] at h ⊢
        by_cases hs : stop t ctx false = true
        · simp only [hs, if_true] at h ⊢; exact h
        · simp only [hs] at h ⊢
          cases hp : parseExpr t n (some t.lor) rest with
          | none => rw [hp] at h; simp at h
          | some pr =>
            obtain ⟨rhs, rest'⟩ := pr
            rw [hp] at h; simp only at h
            rw [ihE _ _ _ hp]; simp only
            exact ihL _ _ _ _ h

theorem parseExpr_mono (t : Table) {n m : Nat} (h : n ≤ m) {ctx toks r}
    (hp : parseExpr t n ctx toks = some r) : parseExpr t m ctx toks = some r := by
  induction h with
  | refl => exact hp
  | step _ ih => exact (mono_step t _).1 _ _ _ ih

theorem loop_mono (t : Table) {n m : Nat} (h : n ≤ m) {ctx lhs toks r}
    (hp : loop t n ctx lhs toks = some r) : loop t m ctx lhs toks = some r := by
  induction h with
  | refl => exact hp
  | step _ ih => exact (mono_step t _).2.2 _ _ _ _ ih


/-- fuel needed to parse the printing of a tree -/
def cost : PE → Nat
  | .atom _ => 2
  | .not e => cost e + 3
  | .paren e => cost e + 3
  | .bin _ l r => cost l + cost r + 2

/-- all rules open at the right edge of `pe` end at the first token of `rest` -/
def headEnds (t : Table) (pe : PE) : List Tok → Bool
  | .land :: _ => endsAt t true pe
  | .lor :: _ => endsAt t false pe
  | _ => true

/-- the pending rule of level `ctx` ends at the first token of `rest` -/
def ctxStops (t : Table) (ctx : Option Nat) : List Tok → Bool
  | .land :: _ => stop t ctx true
  | .lor :: _ => stop t ctx false
  | _ => true

theorem loop_done (t : Table) (n : Nat) (ctx lhs rest) (h : ctxStops t ctx rest = true) :
    loop t (n + 1) ctx lhs rest = some (lhs, rest) := by
  match rest with
  | [] => simp [loop]
  | .atom a :: r => simp [loop]
  | .not :: r => simp [loop]
  | .lp :: r => simp [loop]
  | .rp :: r => simp [loop]
  | .land :: r => simp only [ctxStops] at h; simp [loop, h]
  | .lor :: r => simp only [ctxStops] at h; simp [loop, h]

theorem print_bin (op : Bool) (l r : PE) :
    print (.bin op l r) = print l ++ (if op then Tok.land else Tok.lor) :: print r := by
  cases op <;> simp [print]

theorem loop_shift (t : Table) (n : Nat) (ctx lhs) (op : Bool) (rest) (hs : stop t ctx op = false)
    {rhs rest'} (hp : parseExpr t n (some (t.lvl op)) rest = some (rhs, rest')) :
    loop t (n + 1) ctx lhs ((if op then Tok.land else Tok.lor) :: rest) =
      loop t n ctx (.bin op lhs rhs) rest' := by
  cases op
  · have hp' : parseExpr t n (some t.lor) rest = some (rhs, rest') := by simpa [Table.lvl] using hp
    simp [loop, hs, hp']
  · have hp' : parseExpr t n (some t.land) rest = some (rhs, rest') := by simpa [Table.lvl] using hp
    simp [loop, hs, hp']

theorem fits_none (t : Table) (e : PE) : fits t none e = true := by
  induction e with
  | bin op l r ihl _ => simp [fits, stop, ihl]
  | _ => simp [fits]

theorem headEnds_bin (t : Table) (op : Bool) (l r : PE) (rest) (h : headEnds t (.bin op l r) rest = true) :
    ctxStops t (some (t.lvl op)) rest = true ∧ headEnds t r rest = true := by
  match rest with
  | [] => simp [ctxStops, headEnds]
  | .atom a :: r => simp [ctxStops, headEnds]
  | .not :: r => simp [ctxStops, headEnds]
  | .lp :: r => simp [ctxStops, headEnds]
  | .rp :: r => simp [ctxStops, headEnds]
  | .land :: r => simpa [ctxStops, headEnds, endsAt] using h
  | .lor :: r => simpa [ctxStops, headEnds, endsAt] using h

theorem headEnds_not (t : Table) (e : PE) (rest) (h : headEnds t (.not e) rest = true) :
    ctxStops t (some t.not) rest = true ∧ headEnds t e rest = true := by
  match rest with
  | [] => simp [ctxStops, headEnds]
  | .atom a :: r => simp [ctxStops, headEnds]
  | .not :: r => simp [ctxStops, headEnds]
  | .lp :: r => simp [ctxStops, headEnds]
  | .rp :: r => simp [ctxStops, headEnds]
  | .land :: r => simpa [ctxStops, headEnds, endsAt] using h
  | .lor :: r => simpa [ctxStops, headEnds, endsAt] using h

/-- Main lemma: parsing the printing of a well-parenthesised tree in a context it fits in continues
    exactly like the operator loop with that tree as left operand. -/
theorem parse_spine (t : Table) : ∀ pe, wellParen t pe = true → ∀ ctx rest m R,
    fits t ctx pe = true → headEnds t pe rest = true → loop t m ctx pe rest = some R →
    parseExpr t (m + cost pe) ctx (print pe ++ rest) = some R := by
  intro pe
  induction pe with
  | atom a =>
    intro _ ctx rest m R _ _ hl
    show parseExpr t (m + 1 + 1) ctx (Tok.atom a :: rest) = some R
    rw [parseExpr]
    simp only [parsePrimary]
    exact loop_mono t (Nat.le_succ m) hl
  | not e ih =>
    intro hw ctx rest m R _ he hl
    simp only [wellParen, Bool.and_eq_true] at hw
    obtain ⟨hc, hee⟩ := headEnds_not t e rest he
    show parseExpr t (m + (cost e + 1) + 1 + 1) ctx (Tok.not :: (print e ++ rest)) = some R
    rw [parseExpr, parsePrimary]
    have h1 : parseExpr t (m + 1 + cost e) (some t.not) (print e ++ rest) = some (e, rest) :=
      ih hw.1 (some t.not) rest (m + 1) (e, rest) hw.2 hee (loop_done t m _ _ _ hc)
    have h1' : parseExpr t (m + (cost e + 1)) (some t.not) (print e ++ rest) = some (e, rest) := by
      rw [show m + (cost e + 1) = m + 1 + cost e by omega]; exact h1
    rw [h1']
    exact loop_mono t (by omega) hl
  | paren e ih =>
    intro hw ctx rest m R _ _ hl
    simp only [wellParen] at hw
    show parseExpr t (m + (cost e + 1) + 1 + 1) ctx (Tok.lp :: (print e ++ [Tok.rp]) ++ rest) = some R
    rw [parseExpr]
    have hfit : fits t none e = true := fits_none t e
    have h1 : parseExpr t (m + 1 + cost e) none (print e ++ (Tok.rp :: rest)) = some (e, Tok.rp :: rest) :=
      ih hw none (Tok.rp :: rest) (m + 1) (e, Tok.rp :: rest) hfit (by simp [headEnds])
        (loop_done t m _ _ _ (by simp [ctxStops]))
    have h1' : parseExpr t (m + (cost e + 1)) none (print e ++ [Tok.rp] ++ rest) = some (e, Tok.rp :: rest) := by
      rw [show m + (cost e + 1) = m + 1 + cost e by omega]; simpa using h1
    simp only [List.cons_append, parsePrimary, h1']
    exact loop_mono t (by omega) hl
  | bin op l r ihl ihr =>
    intro hw ctx rest m R hf he hl
    simp only [wellParen, Bool.and_eq_true] at hw
    obtain ⟨⟨⟨hwl, hwr⟩, hel⟩, hfr⟩ := hw
    simp only [fits, Bool.and_eq_true, Bool.not_eq_true'] at hf
    obtain ⟨hns, hfl⟩ := hf
    obtain ⟨hc, her⟩ := headEnds_bin t op l r rest he
    rw [print_bin, List.append_assoc, List.cons_append]
    have hr : parseExpr t (m + 1 + cost r) (some (t.lvl op)) (print r ++ rest) = some (r, rest) :=
      ihr hwr (some (t.lvl op)) rest (m + 1) (r, rest) hfr her (loop_done t m _ _ _ hc)
    have hloop : loop t (m + 1 + cost r + 1) ctx l ((if op then Tok.land else Tok.lor) :: (print r ++ rest)) = some R := by
      rw [loop_shift t _ ctx l op _ hns hr]
      exact loop_mono t (by omega) hl
    have hhe : headEnds t l ((if op then Tok.land else Tok.lor) :: (print r ++ rest)) = true := by
      cases op <;> simpa [headEnds] using hel
    have := ihl hwl ctx _ (m + 1 + cost r + 1) R hfl hhe hloop
    rw [show m + cost (PE.bin op l r) = m + 1 + cost r + 1 + cost l by simp [cost]; omega]
    exact this

theorem cost_le (pe : PE) : cost pe ≤ 3 * (print pe).length := by
  induction pe with
  | atom a => simp [cost, print]
  | not e ih => simp [cost, print]; omega
  | paren e ih => simp [cost, print]; omega
  | bin op l r ihl ihr => rw [print_bin]; simp [cost]; omega


/-! ### from the documented grammar to another table -/

def isNB : PE → Bool
  | .bin _ _ _ => false
  | _ => true

theorem fits_of_isNB (t : Table) (ctx) (e : PE) (h : isNB e = true) : fits t ctx e = true := by
  cases e <;> simp_all [isNB, fits]

/-- "`!` binds tighter than both binary operators, and both binary operators are left-associative" -/
def NotTightLeftAssoc (c : Table) : Prop :=
  (∀ op, stop c (some c.not) op = true) ∧ (∀ op, stop c (some (c.lvl op)) op = true)

theorem doc_not_child_NB (e : PE) (h : fits docTable (some docTable.not) e = true) : isNB e = true := by
  cases e with
  | bin o l r => cases o <;> simp [fits, stop, docTable, Table.lvl, Table.left] at h
  | _ => rfl

theorem doc_right_child_NB (o : Bool) (r : PE) (h : fits docTable (some (docTable.lvl o)) r = true)
    (hm : isBin (!o) r = false) : isNB r = true := by
  cases r with
  | bin o2 l2 r2 =>
    cases o <;> cases o2 <;> simp [fits, stop, docTable, Table.lvl, Table.left, isBin] at h hm
  | _ => rfl

theorem endsAt_notChain (c : Table) (hc : NotTightLeftAssoc c) (op : Bool) :
    ∀ e, wellParen docTable e = true → isNB e = true → endsAt c op e = true := by
  intro e
  induction e with
  | atom a => intros; rfl
  | paren e _ => intros; rfl
  | bin o l r _ _ => intro _ h; simp [isNB] at h
  | not e ih =>
    intro hw _
    simp only [wellParen, Bool.and_eq_true] at hw
    simp only [endsAt, Bool.and_eq_true]
    exact ⟨hc.1 op, ih hw.1 (doc_not_child_NB e hw.2)⟩

theorem wellParen_transfer (c : Table) (hc : NotTightLeftAssoc c) :
    ∀ pe, wellParen docTable pe = true → noMix pe = true → wellParen c pe = true := by
  intro pe
  induction pe with
  | atom a => intros; rfl
  | paren e ih => intro hw hm; simp only [wellParen, noMix] at hw hm ⊢; exact ih hw hm
  | not e ih =>
    intro hw hm
    simp only [wellParen, noMix, Bool.and_eq_true] at hw hm ⊢
    exact ⟨ih hw.1 hm, fits_of_isNB c _ e (doc_not_child_NB e hw.2)⟩
  | bin op l r ihl ihr =>
    intro hw hm
    simp only [wellParen, noMix, Bool.and_eq_true, Bool.not_eq_true'] at hw hm ⊢
    obtain ⟨⟨⟨hwl, hwr⟩, hel⟩, hfr⟩ := hw
    obtain ⟨⟨⟨hml, hmr⟩, hnl⟩, hnr⟩ := hm
    refine ⟨⟨⟨ihl hwl hnl, ihr hwr hnr⟩, ?_⟩, fits_of_isNB c _ r (doc_right_child_NB op r hfr hmr)⟩
    cases l with
    | atom a => rfl
    | paren e => rfl
    | not e => exact endsAt_notChain c hc op _ hwl rfl
    | bin o l2 r2 =>
      have ho : o = op := by
        cases o <;> cases op <;> simp [isBin] at hml ⊢
      subst ho
      simp only [wellParen, noMix, Bool.and_eq_true, Bool.not_eq_true'] at hwl hnl
      simp only [endsAt, Bool.and_eq_true]
      refine ⟨hc.2 o, endsAt_notChain c hc o r2 hwl.1.1.2 ?_⟩
      exact doc_right_child_NB o r2 hwl.2 hnl.1.1.2

end BfeVerif.C16
