import BfeVerif.C17.Proofs
/-!
  C17 — condition parsing and building are total and type-checked.
  Property theorems only (helper lemmas are in `Proofs.lean`).

  `build x src` is the outcome (`ok | err | crash`) of `condition.Build` on the byte string `src`; `x : Ext` are
  the external functions (regexp.Compile, net.ParseIP, bfe_util.ParseTime, fmt.Sscanf) — every theorem holds
  for ALL of them.  `crash` is produced exactly where the Go code indexes or slices out of range:
  `node.Args[k]` (`argAt`), `timeStr[a:b]` (`goSlice`), `(*buckets)[i]` (`setBuckets`).
  The tables are the ones extracted from the current source (`Generated.C17`).
-/
namespace BfeVerif.C17
open BfeVerif.Generated.C17

/-- **C17 (totality)**: for every input byte string and whatever the external functions answer, Build
    returns a condition or an error; no index or slice goes out of range.
    (Holds for the tree with fixes/C17-scanner-timeofday.md; before the fix
    `bfe_periodic_time_range("12 Z","235959Z","")` and any input ending in `"` panicked — kept in the corpus.) -/
theorem C17_total (x : Ext) (src : Bytes) : build x src ≠ .crash := by
  unfold build
  split
  · simp
  · rename_i f _
    by_cases h1 : f.calls.all protoOk = true
    · simp only [h1, Bool.not_true, Bool.false_eq_true, if_false]
      split
      · simp
      · exact buildAll_ne_crash x _ h1
    · simp [h1]

/-- the two extracted tables agree: every case of `buildPrimitive` has a prototype whose arity covers every
    `node.Args[k]` the case touches, and every prototype has a case (nothing type-checks and is then
    "unsupported primitive").  Re-checked by `decide` against the tables of the current tree. -/
theorem C17_tables_consistent : tablesOk = true ∧ protosCovered = true :=
  ⟨tablesOk_true, protosCovered_true⟩

/-- scanner / lexer / syntax errors are rejected -/
theorem C17_syntax_rejected (x : Ext) (src : Bytes) (h : analyse src = none) : build x src = .err := by
  unfold build; rw [h]

/-- a call of a name that is not in `funcProtos` is rejected, wherever it occurs in the expression -/
theorem C17_unknown_rejected (x : Ext) (src : Bytes) (f : Found) (c : Call)
    (ha : analyse src = some f) (hc : c ∈ f.calls) (hn : lookup c.name funcProtos = none) :
    build x src = .err := by
  unfold build; rw [ha]
  have : f.calls.all protoOk = false := by
    rw [List.all_eq_false]; exact ⟨c, hc, by simp [protoOk, hn]⟩
  simp [this]

/-- wrong number of arguments or wrong argument kinds are rejected -/
theorem C17_arity_types (x : Ext) (src : Bytes) (f : Found) (c : Call) (kinds : List String)
    (ha : analyse src = some f) (hc : c ∈ f.calls) (hk : lookup c.name funcProtos = some kinds)
    (hne : kinds ≠ c.args.map (fun a => a.1.name)) : build x src = .err := by
  unfold build; rw [ha]
  have : f.calls.all protoOk = false := by
    rw [List.all_eq_false]; exact ⟨c, hc, by simp [protoOk, hk, hne]⟩
  simp [this]

/-- an identifier that is not a call (a condition variable) is rejected by Build -/
theorem C17_unresolved_var_rejected (x : Ext) (src : Bytes) (f : Found)
    (ha : analyse src = some f) (hv : f.vars ≠ []) : build x src = .err := by
  unfold build; rw [ha]
  by_cases h1 : f.calls.all protoOk = true
  · have : f.vars.isEmpty = false := by cases hf : f.vars <;> simp_all
    simp [h1, this]
  · simp [h1]

/-- an invalid argument of any call (IP, regexp, hash range, host with port, time) is rejected -/
theorem C17_invalid_argument_rejected (x : Ext) (src : Bytes) (f : Found) (c : Call)
    (ha : analyse src = some f) (hc : c ∈ f.calls) (he : buildCall x c = .err) :
    build x src = .err := by
  unfold build; rw [ha]
  by_cases h1 : f.calls.all protoOk = true
  · simp only [h1, Bool.not_true, Bool.false_eq_true, if_false]
    split
    · rfl
    · exact buildAll_err_of_mem x _ h1 c hc he
  · simp [h1]

/-- exact characterisation of success -/
theorem C17_ok_iff (x : Ext) (src : Bytes) :
    build x src = .ok ↔ ∃ f, analyse src = some f ∧ f.calls.all protoOk = true ∧ f.vars = [] ∧
      ∀ c ∈ f.calls, buildCall x c = .ok := by
  unfold build
  cases ha : analyse src with
  | none => simp
  | some f =>
    by_cases h1 : f.calls.all protoOk = true
    · cases hv : f.vars with
      | nil =>
        simp only [h1, hv, Bool.not_true, Bool.false_eq_true, if_false, List.isEmpty_nil]
        rw [buildAll_ok_iff]
        constructor
        · intro h; exact ⟨f, rfl, h1, hv, h⟩
        · rintro ⟨g, hg, _, _, h⟩
          have : g = f := by simpa using hg.symm
          subst this; exact h
      | cons v vs =>
        simp only [h1, hv, Bool.not_true, Bool.false_eq_true, if_false, List.isEmpty_cons, Bool.not_false, if_true]
        constructor
        · intro h; simp at h
        · rintro ⟨g, hg, _, hvg, _⟩
          have : g = f := by simpa using hg.symm
          subst this; rw [hv] at hvg; simp at hvg
    · simp only [h1, Bool.not_false, if_true]
      constructor
      · intro h; simp at h
      · rintro ⟨g, hg, hp, _, _⟩
        have : g = f := by simpa using hg.symm
        subst this; exact absurd hp h1

/-- hash bucket lists: a section that is not `a` or `a-b` with 0 ≤ a ≤ b < HashMatcherBucketSize is an error -/
theorem C17_bad_hash_range_rejected (p : Bytes) (sec : Bytes) (hs : sec ∈ splitOn 124 p)
    (hb : hashSection sec = none) : newHashMatcher p = .err := by
  unfold newHashMatcher
  have gen : ∀ (l : List Bytes) (acc : Outcome), acc ≠ Outcome.crash → (acc = Outcome.err ∨ sec ∈ l) →
      l.foldl (fun acc sec => match acc with
        | .ok => match hashSection sec with
          | none => .err
          | some (s, e) => if setBuckets s e then .ok else .crash
        | o => o) acc = Outcome.err := by
    intro l
    induction l with
    | nil => intro acc _ h; rcases h with h | h; exact h; simp at h
    | cons a tl ih =>
      intro acc hnc h
      simp only [List.foldl_cons]
      cases acc with
      | crash => exact absurd rfl hnc
      | err => exact ih _ (by simp) (Or.inl rfl)
      | ok =>
        simp only
        cases hsa : hashSection a with
        | none => exact ih _ (by simp) (Or.inl rfl)
        | some se =>
          obtain ⟨s, e⟩ := se
          have hlt := hashSection_lt hsa
          have hset : setBuckets s e = true := by simp [setBuckets, hlt]
          simp only [hset, if_true]
          rcases h with h | h
          · simp at h
          · rcases List.mem_cons.mp h with rfl | hm
            · rw [hb] at hsa; simp at hsa
            · exact ih _ (by simp) (Or.inr hm)
  exact gen _ Outcome.ok (by simp) (Or.inr hs)

/-! Non-vacuity / concrete instances (kept small: `decide` on the whole pipeline is too expensive for the
    kernel; the pipeline as a whole is exercised by the correspondence run). -/
/-- a slice past the end IS a crash in the model: without the length guard the old witness would crash -/
example : goSlice [49, 50, 32, 90] 4 6 = none := by decide
example : goSlice [49, 50, 51, 52, 53, 54, 90] 4 6 = some [53, 54] := by decide
/-- `node.Args[2]` on a two-argument call is a crash in the model -/
example : argAt ⟨[120], [(.str, []), (.str, [])]⟩ 2 = none := by decide
example : hashSection [53, 45, 51] = none := by decide             -- "5-3"
example : bucketNum (some 10000) = none := by decide
example : pArgs [.lit .str [47], .comma, .lit .bool [116], .rp] [] = some ([(.str, [47]), (.bool, [116])], []) := by decide
example : (scan 8 [120, 40, 41]).1 = [.ident [120], .lp, .rp] := by decide

end BfeVerif.C17
