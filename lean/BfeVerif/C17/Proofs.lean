import BfeVerif.C17.Model
/-! Lemmas for C17 (core Lean only). -/
namespace BfeVerif.C17
open BfeVerif.Generated.C17

/-- consistency of the two extracted tables: every case of buildPrimitive has a prototype, and only
    touches `node.Args[k]` with `k` below the prototype's arity -/
def tablesOk : Bool :=
  buildCases.all fun e =>
    match lookup e.1 funcProtos with
    | none => false
    | some kinds => e.2.1.all (fun u => decide (u.1 < kinds.length)) &&
        e.2.2.all (fun ct => ct.2.all (fun k => decide (k < kinds.length)))

/-- every prototype has a case in buildPrimitive (no primitive passes the type check and is then
    "unsupported") -/
def protosCovered : Bool :=
  funcProtos.all fun p => (lookup p.1 buildCases).isSome

theorem tablesOk_true : tablesOk = true := by decide
theorem protosCovered_true : protosCovered = true := by decide

theorem lookup_mem {α : Type} (name : Bytes) (l : List (Bytes × α)) (v : α)
    (h : lookup name l = some v) : (name, v) ∈ l := by
  induction l with
  | nil => simp [lookup] at h
  | cons hd tl ih =>
    obtain ⟨k, w⟩ := hd
    simp only [lookup] at h
    by_cases hk : (k == name) = true
    · simp only [hk, if_true, Option.some.injEq] at h
      have : k = name := by simpa using hk
      subst this; subst h; exact List.mem_cons_self
    · simp only [hk] at h
      exact List.mem_cons_of_mem _ (ih h)

theorem bucketNum_lt {x : Option Int} {v : Nat} (h : bucketNum x = some v) : v < hashBucketSize := by
  unfold bucketNum at h
  split at h
  · split at h
    · rename_i w hw
      simp only [Option.some.injEq] at h
      subst h; omega
    · simp at h
  · simp at h

theorem hashSection_lt {sec : Bytes} {s e : Nat} (h : hashSection sec = some (s, e)) :
    e < hashBucketSize := by
  unfold hashSection at h
  split at h
  · rename_i a ha
    cases a with
    | none => simp at h
    | some v =>
      simp only [Option.map, Option.some.injEq, Prod.mk.injEq] at h
      have : v < hashBucketSize := by
        have hm : bucketNum (atoi (List.filter (fun x => x != 32) ((splitOn 45 sec).headD []))) = some v := by
          cases hs : splitOn 45 sec with
          | nil => rw [hs] at ha; simp at ha
          | cons x xs => rw [hs] at ha; simp at ha; simpa using ha.1
        exact bucketNum_lt hm
      omega
  · rename_i a b hab
    split at h
    · rename_i s' e' 
      split at h
      · simp at h
      · simp only [Option.some.injEq, Prod.mk.injEq] at h
        cases hs : splitOn 45 sec with
        | nil => rw [hs] at hab; simp at hab
        | cons x xs =>
          cases xs with
          | nil => rw [hs] at hab; simp at hab
          | cons y ys =>
            rw [hs] at hab
            simp at hab
            have := bucketNum_lt hab.2.1
            omega
    · simp at h
  · simp at h

theorem foldl_ne_crash {α : Type} (f : Outcome → α → Outcome) (l : List α)
    (hok : ∀ a ∈ l, f .ok a ≠ .crash) (herr : ∀ a, f .err a = .err) :
    ∀ acc, acc ≠ .crash → l.foldl f acc ≠ .crash := by
  induction l with
  | nil => intro acc h; simpa using h
  | cons a tl ih =>
    intro acc h
    simp only [List.foldl_cons]
    apply ih (fun b hb => hok b (List.mem_cons_of_mem _ hb))
    cases acc with
    | ok => exact hok a List.mem_cons_self
    | err => rw [herr]; simp
    | crash => exact absurd rfl h

theorem newHashMatcher_ne_crash (p : Bytes) : newHashMatcher p ≠ .crash := by
  unfold newHashMatcher
  apply foldl_ne_crash
  · intro sec _
    simp only
    cases hs : hashSection sec with
    | none => simp
    | some se =>
      obtain ⟨s, e⟩ := se
      have := hashSection_lt hs
      simp [setBuckets, this]
  · intro a; rfl
  · simp

theorem goSlice_some (s : Bytes) (lo hi : Nat) (h1 : lo ≤ hi) (h2 : hi ≤ s.length) :
    ∃ r, goSlice s lo hi = some r := by
  unfold goSlice; simp [h1, h2]

theorem parseTimeOfDay_ne_none (x : Ext) (s : Bytes) : parseTimeOfDay x s ≠ none := by
  unfold parseTimeOfDay
  split
  · simp
  · split
    · simp
    · rename_i hlen
      obtain ⟨a, ha⟩ := goSlice_some s 0 2 (by omega) (by omega)
      obtain ⟨b, hb⟩ := goSlice_some s 2 4 (by omega) (by omega)
      obtain ⟨c, hc⟩ := goSlice_some s 4 6 (by omega) (by omega)
      rw [ha, hb, hc]
      simp only
      split
      · split
        · split <;> simp
        · simp
      · simp

theorem newPeriodicTimeMatcher_ne_crash (x : Ext) (a b p : Bytes) :
    newPeriodicTimeMatcher x a b p ≠ .crash := by
  unfold newPeriodicTimeMatcher
  split
  · simp
  · have ha := parseTimeOfDay_ne_none x a
    have hb := parseTimeOfDay_ne_none x b
    split
    · rename_i h; exact absurd h ha
    · simp
    · split
      · rename_i h; exact absurd h hb
      · simp
      · split
        · simp
        · split <;> simp

theorem validator_ne_crash (x : Ext) (fn : String) (vals : List Bytes) : validator x fn vals ≠ .crash := by
  unfold validator
  split
  · split <;> simp
  · unfold newIPMatcher; split
    · split
      · simp
      · split <;> simp
    · simp
  · exact newHashMatcher_ne_crash _
  · split <;> simp
  · split <;> simp
  · unfold newTimeMatcher; split
    · split <;> simp
    · simp
  · exact newPeriodicTimeMatcher_ne_crash x _ _ _
  · simp

theorem fetchAll_some (c : Call) (ks : List Nat) (h : ∀ k ∈ ks, k < c.args.length) :
    ∃ vs, fetchAll c ks = some vs := by
  induction ks with
  | nil => exact ⟨[], rfl⟩
  | cons k tl ih =>
    obtain ⟨vs, hvs⟩ := ih (fun j hj => h j (List.mem_cons_of_mem _ hj))
    have hk := h k List.mem_cons_self
    refine ⟨(c.args[k]).2 :: vs, ?_⟩
    simp [fetchAll, argAt, hvs, List.getElem?_eq_getElem hk]

theorem protoOk_len {c : Call} (h : protoOk c = true) :
    ∃ kinds, lookup c.name funcProtos = some kinds ∧ kinds.length = c.args.length := by
  unfold protoOk at h
  split at h
  · simp at h
  · rename_i kinds hk
    refine ⟨kinds, hk, ?_⟩
    have : kinds = c.args.map (fun a => a.1.name) := by simpa using h
    rw [this]; simp

theorem buildCall_ne_crash (x : Ext) (c : Call) (hp : protoOk c = true) : buildCall x c ≠ .crash := by
  obtain ⟨kinds, hk, hlen⟩ := protoOk_len hp
  unfold buildCall
  split
  · simp
  · rename_i uses ctors hl
    have hmem := lookup_mem _ _ _ hl
    have ht := tablesOk_true
    unfold tablesOk at ht
    rw [List.all_eq_true] at ht
    have he := ht _ hmem
    simp only [hk, Bool.and_eq_true, List.all_eq_true, decide_eq_true_eq] at he
    obtain ⟨hu, hc⟩ := he
    have hany : (uses.any fun u => (argAt c u.1).isNone) = false := by
      rw [List.any_eq_false]
      intro u hu'
      have := hu u hu'
      simp [argAt, List.getElem?_eq_getElem (show u.1 < c.args.length by omega)]
    rw [hany]
    simp only [Bool.false_eq_true, if_false]
    apply foldl_ne_crash
    · intro ct hct
      simp only
      obtain ⟨vs, hvs⟩ := fetchAll_some c ct.2 (fun k hk' => by have := hc ct hct k hk'; omega)
      rw [hvs]
      exact validator_ne_crash x _ _
    · intro a; rfl
    · simp

theorem buildAll_ne_crash (x : Ext) (cs : List Call) (h : cs.all protoOk = true) :
    buildAll x cs ≠ .crash := by
  induction cs with
  | nil => simp [buildAll]
  | cons c tl ih =>
    simp only [List.all_cons, Bool.and_eq_true] at h
    unfold buildAll
    have hc := buildCall_ne_crash x c h.1
    cases hb : buildCall x c with
    | ok => simpa using ih h.2
    | err => simp
    | crash => exact absurd hb hc

theorem buildAll_err_of_mem (x : Ext) (cs : List Call) (h : cs.all protoOk = true)
    (c : Call) (hc : c ∈ cs) (he : buildCall x c = .err) : buildAll x cs = .err := by
  induction cs with
  | nil => simp at hc
  | cons d tl ih =>
    simp only [List.all_cons, Bool.and_eq_true] at h
    unfold buildAll
    cases hb : buildCall x d with
    | err => rfl
    | crash => exact absurd hb (buildCall_ne_crash x d h.1)
    | ok =>
      simp only
      rcases List.mem_cons.mp hc with rfl | hm
      · rw [he] at hb; simp at hb
      · exact ih h.2 hm

theorem buildAll_ok_iff (x : Ext) (cs : List Call) :
    buildAll x cs = .ok ↔ ∀ c ∈ cs, buildCall x c = .ok := by
  induction cs with
  | nil => simp [buildAll]
  | cons d tl ih =>
    unfold buildAll
    cases hb : buildCall x d with
    | ok => simp [ih, hb]
    | err => simp [hb]
    | crash => simp [hb]

end BfeVerif.C17
