import BfeVerif.C17.Driver
def main : IO Unit := BfeVerif.Proto.driverMain BfeVerif.C17.run
