import BfeVerif.Generated.C17
/-!
  C17 — model of `condition.Build` as far as its OUTCOME (`ok | err | crash`) is concerned:
  `parser/scanner.go` (Scan), `cond.y` (language of the grammar), `parser/semant.go` (prototypeCheck,
  collectVariable), `build.go` (Build, buildPrimitive) and the fallible constructors of `primitive.go`
  (`NewIpInMatcher`, `NewIPMatcher`, `NewHashMatcher`, `NewHostMatcher`, `NewTimeMatcher`,
  `NewPeriodicTimeMatcher`), `bfe_util.ParseTimeOfDay` (after the fix of fixes/C17-*.md).  Core-only.

  Go operations that can panic are modelled as partial operations (`argAt`, `goSlice`, `setBuckets`); a `none`
  of one of them is the outcome `crash`.  The tables `funcProtos` / `buildCases` (which `node.Args[k]` a case
  of buildPrimitive touches, which fallible constructor it calls on which arguments), `HashMatcherBucketSize`
  and `TimeZoneMap` are extracted from the source on every run.

  External functions are parameters (`Ext`): regexp.Compile, net.ParseIP, bfe_util.ParseTime (Sscanf +
  time.Parse + zone table, no partial operation of its own) and fmt.Sscanf("%6s%s").
-/
namespace BfeVerif.C17
open BfeVerif.Generated.C17

abbrev Bytes := List UInt8

inductive Outcome where
  | ok | err | crash
  deriving DecidableEq, Repr

structure Ext where
  regexOk : Bytes → Bool
  parseIP : Bytes → Option Bytes
  parseTime : Bytes → Option Int
  sscanf6 : Bytes → Option (Bytes × Bytes)

inductive LitKind where
  | bool | str | int
  deriving DecidableEq, Repr

def LitKind.name : LitKind → String
  | .bool => "BOOL" | .str => "STRING" | .int => "INT"

inductive Tk where
  | ident (s : Bytes) | lit (k : LitKind) (v : Bytes)
  | land | lor | lp | rp | not | comma | semi
  deriving DecidableEq, Repr

/-! ### scanner -/
def isLetter (b : UInt8) : Bool :=
  (97 ≤ b && b ≤ 122) || (65 ≤ b && b ≤ 90) || b == 95 || b == 45
def isDigit (b : UInt8) : Bool := 48 ≤ b && b ≤ 57
def isWs (b : UInt8) : Bool := b == 32 || b == 9 || b == 13 || b == 10
def isHex (b : UInt8) : Bool := isDigit b || (97 ≤ b && b ≤ 102) || (65 ≤ b && b ≤ 70)
def hexVal (b : UInt8) : Nat :=
  if isDigit b then b.toNat - 48 else if 97 ≤ b && b ≤ 102 then b.toNat - 87 else b.toNat - 55

/-- bytes of an ASCII string constant (kernel-reducible, unlike `String.toUTF8`) -/
def str (s : String) : Bytes := s.toList.map (fun c => c.toNat.toUInt8)

def keywords : List Bytes := ["break", "case", "chan", "const", "continue", "default", "defer", "else",
  "fallthrough", "for", "func", "go", "goto", "if", "import", "interface", "map", "package", "range",
  "return", "select", "struct", "switch", "type", "var"].map str

/-- UTF-8 validity as `utf8.DecodeRune` sees it (an invalid byte is reported by `Scanner.next`) -/
def validUtf8 : Nat → Bytes → Bool
  | 0, _ => true
  | _ + 1, [] => true
  | n + 1, b :: rest =>
    if b < 0x80 then validUtf8 n rest
    else if 0xC2 ≤ b && b ≤ 0xDF then
      match rest with
      | c :: r => (0x80 ≤ c && c ≤ 0xBF) && validUtf8 n r
      | _ => false
    else if 0xE0 ≤ b && b ≤ 0xEF then
      match rest with
      | c :: d :: r =>
        let lo : UInt8 := if b == 0xE0 then 0xA0 else 0x80
        let hi : UInt8 := if b == 0xED then 0x9F else 0xBF
        (lo ≤ c && c ≤ hi) && (0x80 ≤ d && d ≤ 0xBF) && validUtf8 n r
      | _ => false
    else if 0xF0 ≤ b && b ≤ 0xF4 then
      match rest with
      | c :: d :: e :: r =>
        let lo : UInt8 := if b == 0xF0 then 0x90 else 0x80
        let hi : UInt8 := if b == 0xF4 then 0x8F else 0xBF
        (lo ≤ c && c ≤ hi) && (0x80 ≤ d && d ≤ 0xBF) && (0x80 ≤ e && e ≤ 0xBF) && validUtf8 n r
      | _ => false
    else false

/-- a byte order mark anywhere but at offset 0 is an error -/
def hasBom : Bytes → Bool
  | 0xEF :: 0xBB :: 0xBF :: _ => true
  | _ :: rest => hasBom rest
  | [] => false

/-- escape sequence after a backslash inside "…": number of bytes consumed, or none (error) -/
def scanEscape : Bytes → Option Nat
  | [] => none
  | c :: rest =>
    if c == 97 || c == 98 || c == 102 || c == 110 || c == 114 || c == 116 || c == 118 || c == 92 || c == 34 then some 1
    else if 48 ≤ c && c ≤ 55 then
      match rest with
      | d :: e :: _ =>
        if (48 ≤ d && d ≤ 55) && (48 ≤ e && e ≤ 55) &&
           decide ((c.toNat - 48) * 64 + (d.toNat - 48) * 8 + (e.toNat - 48) ≤ 255) then some 3 else none
      | _ => none
    else
      let n := if c == 120 then 2 else if c == 117 then 4 else if c == 85 then 8 else 0
      if n == 0 then none
      else
        let ds := rest.take n
        if ds.length == n && ds.all isHex then
          let x := ds.foldl (fun a d => a * 16 + hexVal d) 0
          let mx := if n == 2 then 255 else 0x10FFFF
          if x > mx || (0xD800 ≤ x && x < 0xE000) then none else some (n + 1)
        else none

/-- body of "…": (literal bytes between the quotes, rest after the literal, error?) -/
def scanString : Nat → Bytes → Bytes → Bytes × Bytes × Bool
  | 0, acc, rest => (acc.reverse, rest, true)
  | _ + 1, acc, [] => (acc.reverse, [], true)                     -- not terminated
  | n + 1, acc, c :: rest =>
    if c == 10 then (acc.reverse, c :: rest, true)                  -- not terminated
    else if c == 34 then (acc.reverse, rest, false)
    else if c == 92 then
      match scanEscape rest with
      | some k =>
        let (lit, r, e) := scanString n ((rest.take k).reverse ++ c :: acc) (rest.drop k)
        (lit, r, e)
      | none => let (lit, r, _) := scanString n (c :: acc) rest; (lit, r, true)
    else scanString n (c :: acc) rest

/-- body of `…`: carriage returns are stripped from the value -/
def scanRaw : Bytes → Bytes → Bytes × Bytes × Bool
  | acc, [] => ((acc.reverse).filter (· != 13), [], true)
  | acc, c :: rest => if c == 96 then ((acc.reverse).filter (· != 13), rest, false) else scanRaw (c :: acc) rest

def dropLine : Bytes → Bytes
  | [] => []
  | c :: rest => if c == 10 then c :: rest else dropLine rest

/-- `Scan` + `condLex.Lex` over the whole input: tokens, and whether an error was reported
    (scanner error, or a token the lexer does not recognise, after which the lexer reports EOF). -/
def scan : Nat → Bytes → List Tk × Bool
  | 0, _ => ([], true)
  | _ + 1, [] => ([], false)
  | n + 1, c :: rest =>
    let cont (t : Tk) (r : Bytes) (e : Bool) : List Tk × Bool :=
      let (ts, e') := scan n r; (t :: ts, e || e')
    if isWs c then scan n rest
    else if isLetter c then
      let id := (c :: rest).takeWhile (fun b => isLetter b || isDigit b)
      let r := (c :: rest).dropWhile (fun b => isLetter b || isDigit b)
      if id.length > 1 && keywords.contains id then ([], true)
      else if id == str "true" || id == str "false" then cont (.lit .bool id) r false
      else cont (.ident id) r false
    else if isDigit c then
      -- numbers: no prototype has a numeric argument; FLOAT / IMAG are lexer errors.  Scanned coarsely.
      let isNum := fun b => isDigit b || isLetter b || b == 46
      cont (.lit .int ((c :: rest).takeWhile isNum)) ((c :: rest).dropWhile isNum) false
    else if c == 34 then
      let (lit, r, e) := scanString n [] rest
      cont (.lit .str lit) r e
    else if c == 96 then
      let (lit, r, e) := scanRaw [] rest
      cont (.lit .str lit) r e
    else if c == 40 then cont .lp rest false
    else if c == 41 then cont .rp rest false
    else if c == 33 then cont .not rest false
    else if c == 44 then cont .comma rest false
    else if c == 59 then cont .semi rest false
    else if c == 38 then
      match rest with
      | 38 :: r => cont .land r false
      | _ => ([], true)
    else if c == 124 then
      match rest with
      | 124 :: r => cont .lor r false
      | _ => ([], true)
    else if c == 47 then
      match rest with
      | 47 :: r => scan n (dropLine r)
      | _ => ([], true)
    else ([], true)

/-! ### the language of cond.y (precedence does not matter for acceptance) and the nodes the
    semantic checks look at -/
structure Call where
  name : Bytes
  args : List (LitKind × Bytes)
  deriving Repr

structure Found where
  calls : List Call := []
  vars : List Bytes := []
  deriving Repr

def pArgs : List Tk → List (LitKind × Bytes) → Option (List (LitKind × Bytes) × List Tk)
  | .lit k v :: .comma :: rest, acc => pArgs rest ((k, v) :: acc)
  | .lit k v :: .rp :: rest, acc => some (((k, v) :: acc).reverse, rest)
  | _, _ => none

mutual
def pExpr : Nat → List Tk → Found → Option (Found × List Tk)
  | 0, _, _ => none
  | n + 1, ts, f =>
    match pUnary n ts f with
    | none => none
    | some (f', rest) => pTail n rest f'
def pTail : Nat → List Tk → Found → Option (Found × List Tk)
  | 0, _, _ => none
  | n + 1, .land :: rest, f =>
    match pUnary n rest f with
    | none => none
    | some (f', rest') => pTail n rest' f'
  | n + 1, .lor :: rest, f =>
    match pUnary n rest f with
    | none => none
    | some (f', rest') => pTail n rest' f'
  | _ + 1, ts, f => some (f, ts)
def pUnary : Nat → List Tk → Found → Option (Found × List Tk)
  | 0, _, _ => none
  | n + 1, .not :: rest, f => pUnary n rest f
  | n + 1, .lp :: rest, f =>
    match pExpr n rest f with
    | some (f', .rp :: r) => some (f', r)
    | _ => none
  | _ + 1, .ident s :: .lp :: .rp :: rest, f => some ({ f with calls := f.calls ++ [⟨s, []⟩] }, rest)
  | _ + 1, .ident s :: .lp :: rest, f =>
    match pArgs rest [] with
    | some (as, r) => some ({ f with calls := f.calls ++ [⟨s, as⟩] }, r)
    | none => none
  | _ + 1, .ident s :: rest, f => some ({ f with vars := f.vars ++ [s] }, rest)
  | _ + 1, _, _ => none
end

def parse (ts : List Tk) : Option Found :=
  match pExpr (2 * ts.length + 2) ts {} with
  | some (f, []) => some f
  | _ => none

/-! ### prototypeCheck -/
def lookup {α : Type} (name : Bytes) : List (Bytes × α) → Option α
  | [] => none
  | (k, v) :: rest => if k == name then some v else lookup name rest

def protoOk (c : Call) : Bool :=
  match lookup c.name funcProtos with
  | none => false
  | some kinds => kinds == c.args.map (fun a => a.1.name)

/-! ### buildPrimitive -/
/-- `node.Args[k]` -/
def argAt (c : Call) (k : Nat) : Option (LitKind × Bytes) := c.args[k]?

/-- Go `s[lo:hi]` -/
def goSlice (s : Bytes) (lo hi : Nat) : Option Bytes :=
  if lo ≤ hi ∧ hi ≤ s.length then some ((s.take hi).drop lo) else none

def splitOn (sep : UInt8) : Bytes → List Bytes
  | [] => [[]]
  | c :: rest =>
    match splitOn sep rest with
    | [] => [[]]
    | h :: t => if c == sep then [] :: h :: t else (c :: h) :: t

/-- `strconv.Atoi` (results outside the int64 range are errors) -/
def atoi (s : Bytes) : Option Int :=
  let (neg, ds) := match s with
    | 45 :: r => (true, r)
    | 43 :: r => (false, r)
    | r => (false, r)
  if ds.isEmpty || !(ds.all isDigit) then none
  else
    let n : Nat := ds.foldl (fun a d => a * 10 + (d.toNat - 48)) 0
    if neg then (if n ≤ 2 ^ 63 then some (-(n : Int)) else none)
    else (if n < 2 ^ 63 then some (n : Int) else none)

/-- the range check of `parserHashSectionConf` on one parsed number -/
def bucketNum (x : Option Int) : Option Nat :=
  match x with
  | some v => if 0 ≤ v ∧ v < (hashBucketSize : Int) then some v.toNat else none
  | none => none

/-- `parserHashSectionConf`: start and end bucket, or none (error) -/
def hashSection (sec : Bytes) : Option (Nat × Nat) :=
  match (splitOn 45 sec).map (fun s => bucketNum (atoi (s.filter (· != 32)))) with
  | [a] => a.map (fun v => (v, v))
  | [a, b] =>
    match a, b with
    | some s, some e => if e < s then none else some (s, e)
    | _, _ => none
  | _ => none

/-- `for i := start; i <= end; i++ { (*buckets)[i] = true }` on a table of `hashBucketSize` entries:
    `false` = index out of range -/
def setBuckets (s e : Nat) : Bool := decide (e < s) || decide (e < hashBucketSize)

def newHashMatcher (p : Bytes) : Outcome :=
  (splitOn 124 p).foldl (fun acc sec =>
    match acc with
    | .ok =>
      match hashSection sec with
      | none => .err
      | some (s, e) => if setBuckets s e then .ok else .crash
    | o => o) .ok

def isV4 (ip : Bytes) : Bool := ip.take 10 == List.replicate 10 0 && (ip.drop 10).take 2 == [255, 255]

def bytesLt : Bytes → Bytes → Bool
  | [], [] => false
  | [], _ :: _ => true
  | _ :: _, [] => false
  | a :: as, b :: bs => a < b || (a == b && bytesLt as bs)

def newIPMatcher (x : Ext) (s e : Bytes) : Outcome :=
  match x.parseIP s, x.parseIP e with
  | some a, some b => if isV4 a != isV4 b then .err else if bytesLt b a then .err else .ok
  | _, _ => .err

def upper (s : Bytes) : Bytes := s.map fun b => if 97 ≤ b && b ≤ 122 then b - 32 else b

def zoneOffset (z : Bytes) : Option Int := lookup (upper z) timeZones

def twoDigits (s : Bytes) : Option Nat :=
  match s with
  | [a, b] => if isDigit a && isDigit b then some ((a.toNat - 48) * 10 + (b.toNat - 48)) else none
  | _ => none

/-- `bfe_util.ParseTimeOfDay` (fixed): inl = crash, inr none = error, inr (some (seconds, offset)) -/
def parseTimeOfDay (x : Ext) (s : Bytes) : Option (Option (Nat × Int)) :=
  match x.sscanf6 s with
  | none => some none
  | some (_, zone) =>
    if s.length < 6 then some none
    else
      match goSlice s 0 2, goSlice s 2 4, goSlice s 4 6 with
      | some h, some m, some sec =>
        -- time.Parse("15:04:05", h:m:s)
        match twoDigits h, twoDigits m, twoDigits sec with
        | some hh, some mm, some ss =>
          if hh < 24 ∧ mm < 60 ∧ ss < 60 then
            match zoneOffset zone with
            | some off => some (some (hh * 3600 + mm * 60 + ss, off))
            | none => some none
          else some none
        | _, _, _ => some none
      | _, _, _ => none

def newPeriodicTimeMatcher (x : Ext) (a b p : Bytes) : Outcome :=
  if !p.isEmpty then .err
  else
    match parseTimeOfDay x a with
    | none => .crash
    | some none => .err
    | some (some (s1, o1)) =>
      match parseTimeOfDay x b with
      | none => .crash
      | some none => .err
      | some (some (s2, o2)) => if s1 > s2 then .err else if o1 != o2 then .err else .ok

def newTimeMatcher (x : Ext) (a b : Bytes) : Outcome :=
  match x.parseTime a, x.parseTime b with
  | some ta, some tb => if ta > tb then .err else .ok
  | _, _ => .err

/-- one fallible constructor applied to already fetched argument values -/
def validator (x : Ext) (fn : String) (vals : List Bytes) : Outcome :=
  match fn, vals with
  | "NewIpInMatcher", [p] => if (splitOn 124 p).all (fun s => (x.parseIP s).isSome) then .ok else .err
  | "NewIPMatcher", [s, e] => newIPMatcher x s e
  | "NewHashMatcher", [p] => newHashMatcher p
  | "NewHostMatcher", [p] => if (splitOn 124 p).any (fun s => s.contains 58) then .err else .ok
  | "Compile", [r] => if x.regexOk r then .ok else .err
  | "NewTimeMatcher", [a, b] => newTimeMatcher x a b
  | "NewPeriodicTimeMatcher", [a, b, p] => newPeriodicTimeMatcher x a b p
  | _, _ => .ok

def fetchAll (c : Call) : List Nat → Option (List Bytes)
  | [] => some []
  | k :: ks =>
    match argAt c k, fetchAll c ks with
    | some (_, v), some vs => some (v :: vs)
    | _, _ => none

/-- `buildPrimitive` for one call: every `node.Args[k]` of the case is evaluated (an index beyond the
    argument list panics), then the case's constructors run. -/
def buildCall (x : Ext) (c : Call) : Outcome :=
  match lookup c.name buildCases with
  | none => .err                                  -- default: unsupported primitive
  | some (uses, ctors) =>
    if uses.any (fun u => (argAt c u.1).isNone) then .crash
    else ctors.foldl (fun acc ct =>
      match acc with
      | .ok => match fetchAll c ct.2 with
        | some vals => validator x ct.1 vals
        | none => .crash
      | o => o) .ok

def buildAll (x : Ext) : List Call → Outcome
  | [] => .ok
  | c :: cs => match buildCall x c with
    | .ok => buildAll x cs
    | o => o

/-- scanner + parser: the calls and variables of the expression, `none` on any scanner, lexer or
    syntax error -/
def analyse (src : Bytes) : Option Found :=
  let src' := match src with
    | 0xEF :: 0xBB :: 0xBF :: r => r
    | r => r
  let byteErr := src.contains 0 || !(validUtf8 src.length src) || hasBom src'
  let (ts, scanErr) := scan (src'.length + 1) src'
  if byteErr || scanErr then none else parse ts

/-- `condition.Build` -/
def build (x : Ext) (src : Bytes) : Outcome :=
  match analyse src with
  | none => .err
  | some f =>
    if !(f.calls.all protoOk) then .err
    else if !f.vars.isEmpty then .err
    else buildAll x f.calls

end BfeVerif.C17
