import BfeVerif.Common.Proto
import BfeVerif.C17.Model
/-!
  C17 driver.  op = `b <hex input> <hints>`; hints (`-` if none) = comma list giving the values of the external
  functions on the literals of the input:  `r<hex>=0|1` regexp.Compile ok, `i<hex>=<32 hex>|x` net.ParseIP,
  `t<hex>=<unix seconds>|x` bfe_util.ParseTime, `s<hex>=<hex prefix>:<hex zone>|x` fmt.Sscanf("%6s%s").
  result = `ok` | `err` | `crash` | `hang`.
-/
namespace BfeVerif.C17
open BfeVerif.Proto

structure Hint where
  kind : Char
  key : Bytes
  val : String

def parseHint (s : String) : Option Hint :=
  match s.toList with
  | k :: rest =>
    match (String.ofList rest).splitOn "=" with
    | [key, v] => (bytesOfHex key).map fun kb => { kind := k, key := kb, val := v }
    | _ => none
  | [] => none

def findHint (hs : List Hint) (k : Char) (key : Bytes) : Option String :=
  match hs.find? (fun h => h.kind == k && h.key == key) with
  | some h => some h.val
  | none => none

def extOf (hs : List Hint) : Ext where
  regexOk := fun b => findHint hs 'r' b == some "1"
  parseIP := fun b => match findHint hs 'i' b with
    | some v => if v == "x" then none else bytesOfHex v
    | none => none
  parseTime := fun b => match findHint hs 't' b with
    | some v => v.toInt?
    | none => none
  sscanf6 := fun b => match findHint hs 's' b with
    | some v => match v.splitOn ":" with
      | [p, z] => match bytesOfHex p, bytesOfHex z with
        | some pb, some zb => some (pb, zb)
        | _, _ => none
      | _ => none
    | none => none

def Outcome.str : Outcome → String
  | .ok => "ok" | .err => "err" | .crash => "crash"

def containsSub (s pat : Bytes) : Bool :=
  (List.range (s.length + 1)).any fun i => (s.drop i).take pat.length == pat

/-- why the specification demands a rejection (independent of `build`'s control flow) -/
def mustReject (x : Ext) (src : Bytes) : Option String :=
  match analyse src with
  | none => none
  | some f =>
    if f.calls.any (fun c => (lookup c.name BfeVerif.Generated.C17.funcProtos).isNone) then some "unknown-primitive"
    else if !(f.calls.all protoOk) then some "arg-count-or-type"
    else if !f.vars.isEmpty then some "unresolved-variable"
    else if f.calls.any (fun c => buildCall x c == .err) then some "invalid-argument"
    else none

def run (op impl : String) : Ans :=
  match op.splitOn " " with
  | ["b", hx, hints] =>
    match bytesOfHex hx with
    | none => { model := "bad-op", verdict := "skip" }
    | some src =>
      let hs := if hints == "-" then [] else (hints.splitOn ",").filterMap parseHint
      let x := extOf hs
      let m := build x src
      let pr := analyse src
      let cls :=
        if containsSub src (str "periodic_time") then "timeofday-slice"
        else if src.contains 34 || src.contains 96 then "string-literal" else "other"
      let verdict :=
        if impl == "crash" then "FAIL:crash-" ++ cls
        else if impl == "hang" then "FAIL:hang"
        else if impl == "ok" then
          match mustReject x src with
          | some why => "FAIL:accepts-" ++ why
          | none => "ok"
        else if impl == "err" then "ok"
        else "FAIL:unexpected-result"
      let tags :=
        [m.str] ++
        (match pr with
          | none => ["scan-or-syntax-err"]
          | some f =>
            (if f.calls.length ≥ 1 then ["nt"] else []) ++
            (match mustReject x src with | some w => [w] | none => []) ++
            (if f.calls.length ≥ 2 then ["multi-call"] else [])) ++
        (if src.any (· ≥ 128) then ["non-ascii"] else [])
      { model := m.str, verdict := verdict, tags := tags }
  | _ => { model := "bad-op", verdict := "skip" }

end BfeVerif.C17
