import BfeVerif.Common.Proto
import BfeVerif.C38.Model
/-!
  C38 driver.  op / result format: see harness/cmd/c38/main.go.
  `run op impl` = model result, verdict of the spec oracle on the IMPLEMENTATION's result, tags.
-/
namespace BfeVerif.C38
open BfeVerif.Proto

def natsOfHex (s : String) : Option Str := (bytesOfHex s).map fun l => l.map (·.toNat)
def hexOfNats (s : Str) : String := hexField (s.map fun n => UInt8.ofNat n)

def parseAct (a : String) : Option Act :=
  match a.splitOn ":" with
  | ["a", k, v] => do
    let k ← natsOfHex k
    let v ← natsOfHex v
    pure (Act.add k v)
  | ["A", k, b, n] => do
    let k ← natsOfHex k
    let b ← natsOfHex b
    let n ← n.toNat?
    match b with
    | [x] => pure (Act.add k (List.replicate n x))
    | _ => none
  | ["m", k, v] => do
    let k ← natsOfHex k
    let v ← natsOfHex v
    pure (Act.setFirst k v)
  | ["s", c] => c.toNat?.map Act.status
  | ["w", b, n] => do
    let b ← natsOfHex b
    let n ← n.toNat?
    match b with
    | [x] => pure (Act.write (List.replicate n x))
    | _ => none
  | ["f"] => some Act.flush
  | _ => none

def parseOp (op : String) : Option (Bool × List Act) :=
  match op.splitOn "|" with
  | [m, rest] =>
    if m != "G" && m != "H" then none
    else if rest.isEmpty then some (m == "H", [])
    else (rest.splitOn ";").mapM parseAct |>.map fun l => (m == "H", l)
  | _ => none

/-! rendering -/
def rleAux : List Nat → Nat → Nat → List (Nat × Nat) → List (Nat × Nat)
  | [], b, n, acc => ((b, n) :: acc).reverse
  | x :: r, b, n, acc => if x == b then rleAux r b (n + 1) acc else rleAux r x 1 ((b, n) :: acc)

def rle (p : List Nat) : String :=
  match p with
  | [] => "-"
  | x :: r => ".".intercalate ((rleAux r x 1 []).map fun (b, n) => hexOfNats [b] ++ "*" ++ toString n)

def renderVal (v : Str) : String := if v.length > 64 then "*" ++ rle v else hexOfNats v

def renderWire (w : Wire) : String :=
  (if w.cont then "c" else "h") ++ (if w.es then "S" else "-") ++ (if w.eh then "E" else "-") ++ toString w.len

/-- `blockLen` = HPACK length of this block, an external quantity taken from the implementation's own report -/
def renderFrame (f : Frame) (blockLen : Nat) : String :=
  match f with
  | .headers fs e => "H" ++ (if e then "+" else "-") ++ "[" ++ ".".intercalate ((splitBlock blockLen e).map renderWire) ++ "]:" ++
      ",".intercalate (fs.map fun (k, v) => hexOfNats k ++ "=" ++ renderVal v)
  | .data p e => "D" ++ (if e then "+" else "-") ++ ":" ++ rle p

/-- render the frames; the i-th header block takes its encoded length from `lens` -/
def renderFrames : List Frame → List Nat → List String
  | [], _ => []
  | .headers fs e :: r, lens => renderFrame (.headers fs e) (lens.headD 0) :: renderFrames r (lens.drop 1)
  | f :: r, lens => renderFrame f 0 :: renderFrames r lens

def renderW : WRes → String
  | .n k => toString k
  | .notAllowed => "b"
  | .overLength => "c"
  | .shortWrite => "e"

def render (isHead : Bool) (s : St) (lens : List Nat) : String :=
  let fs := "/".intercalate (renderFrames s.out lens)
  -- HEAD: the real result of a Write that reaches the bufio.Writer depends on goroutine timing (writeHeaders' select
  -- between the write result and the stream's close signal); only its class is compared
  let ws := ",".intercalate (s.wres.map fun w =>
    if isHead then (match w with | .n _ => "w" | .shortWrite => "w" | _ => renderW w) else renderW w)
  (if fs.isEmpty then "-" else fs) ++ "|" ++ (if ws.isEmpty then "-" else ws)

def envDrv : Env := { sniff := fun _ => [64], now := [64] }

/-! ### parsing the implementation's result -/
inductive IFrame
  | h (fields : List (Str × Str)) (es : Bool) (wire : List Wire)
  | d (p : List Nat) (es : Bool)
  | other (s : String)

def parseRuns (s : String) : Option (List Nat) :=
  if s == "-" then some [] else
  (s.splitOn ".").foldlM (fun acc r =>
    match r.splitOn "*" with
    | [b, n] => do
      let b ← natsOfHex b
      let n ← n.toNat?
      match b with
      | [x] => pure (acc ++ List.replicate n x)
      | _ => none
    | _ => none) []

def parseField (s : String) : Option (Str × Str) :=
  match s.splitOn "=" with
  | [k, v] => do
    let k ← natsOfHex k
    let v ← if v.startsWith "*" then parseRuns (v.drop 1).toString else natsOfHex v
    pure (k, v)
  | _ => none

/-- `hS-16384.c-E20` → total length and the frames -/
def parseWire (s : String) : Option (List Wire) :=
  (s.splitOn ".").mapM fun w =>
    let cs := w.toList
    match cs with
    | t :: a :: b :: rest => do
      let n ← (String.ofList rest).toNat?
      if t != 'h' && t != 'c' then none else
      pure { cont := t == 'c', es := a == 'S', eh := b == 'E', len := n }
    | _ => none

def parseIFrame (s : String) : IFrame :=
  if s.startsWith "H+[" || s.startsWith "H-[" then
    let es := s.startsWith "H+"
    match ((s.drop 3).toString).splitOn "]:" with
    | [w, body] =>
      match parseWire w with
      | none => .other s
      | some wire =>
        if body.isEmpty then .h [] es wire
        else match (body.splitOn ",").mapM parseField with
          | some fs => .h fs es wire
          | none => .other s
    | _ => .other s
  else if s.startsWith "D+:" || s.startsWith "D-:" then
    match parseRuns (s.drop 3).toString with
    | some p => .d p (s.startsWith "D+")
    | none => .other s
  else .other s

def IFrame.es : IFrame → Bool
  | .h _ e _ => e
  | .d _ e => e
  | .other _ => false

/-! ### the spec oracle (what C38 demands, judged on the implementation's frames) -/

/-- RFC 7540 8.1.2.2 connection-specific names, lower-case (from the server's own `connHeaders` list). -/
def connNames : List Str := BfeVerif.Generated.C38.connHeaders.map lower
def proxyAuthNames : List Str :=
  [[112,114,111,120,121,45,97,117,116,104,101,110,116,105,99,97,116,101],
   [112,114,111,120,121,45,97,117,116,104,111,114,105,122,97,116,105,111,110]]

/-- status the handler chose: the first `s:` unless a write/flush came first (implicit 200). -/
def expectedStatus : List Act → Nat
  | [] => 200
  | .status c :: _ => c
  | .write _ :: _ => 200
  | .flush :: _ => 200
  | .add _ _ :: r => expectedStatus r
  | .setFirst _ _ :: r => expectedStatus r

/-- replace the value of the first pair with key `k` -/
def setFirstPair (k v : Str) : List (Str × Str) → List (Str × Str)
  | [] => []
  | (k', v') :: r => if k' == k then (k', v) :: r else (k', v') :: setFirstPair k v r

/-- all header operations of the script applied in order (the handler's map when it returns) -/
def finalPairs (acc : List (Str × Str)) : List Act → List (Str × Str)
  | [] => acc
  | .add k v :: r => finalPairs (acc ++ [(k, v)]) r
  | .setFirst k v :: r => finalPairs (setFirstPair k v acc) r
  | _ :: r => finalPairs acc r

def headerAddsFrom (acc : List (Str × Str)) : List Act → List (Str × Str)
  | .add k v :: r => headerAddsFrom (acc ++ [(k, v)]) r
  | .setFirst k v :: r => headerAddsFrom (setFirstPair k v acc) r
  | _ => acc

/-- the handler's header fields at the point where the header is fixed. -/
def headerAdds (acts : List Act) : List (Str × Str) := headerAddsFrom [] acts

def allAdds (acts : List Act) : List (Str × Str) :=
  acts.filterMap fun a => match a with | .add k v => some (k, v) | .setFirst k v => some (k, v) | _ => none

def pairLt (a b : Str × Str) : Bool := strLt a.1 b.1 || (a.1 == b.1 && strLt a.2 b.2)
def insertPair (k : Str × Str) : List (Str × Str) → List (Str × Str)
  | [] => [k]
  | x :: r => if pairLt x k then x :: insertPair k r else k :: x :: r
def sortPairs (l : List (Str × Str)) : List (Str × Str) := l.foldr insertPair []

def managed (n : Str) : Bool := n == lContentLength
def sendable (k v : Str) : Bool := validName (lower k) && validValue v

def spec (isHead : Bool) (acts : List Act) (impl : String) : String :=
  match impl.splitOn "|" with
  | [fstr, wstr] =>
    let frames := if fstr == "-" then [] else (fstr.splitOn "/").map parseIFrame
    if frames.any (fun f => match f with | .other _ => true | _ => false) then "FAIL:unexpected-frame" else
    match frames with
    | [] => "FAIL:no-response"
    | .d _ _ :: _ => "FAIL:data-before-headers"
    | .other _ :: _ => "FAIL:unexpected-frame"
    | .h hf hes _ :: rest =>
      let status := expectedStatus acts
      -- 1. status
      if hf.head? != some (lStatus, itoa status) then "FAIL:status" else
      -- 2. END_STREAM exactly once, at the end
      let nEnd := (frames.filter (·.es)).length
      if nEnd == 0 then "FAIL:no-end-stream" else
      if nEnd > 1 then "FAIL:end-stream-twice" else
      if !(frames.getLast?.map (·.es)).getD false then "FAIL:frame-after-end-stream" else
      -- 3. shape: HEADERS DATA* [HEADERS]
      let datas := rest.takeWhile fun f => match f with | .d _ _ => true | _ => false
      let after := rest.dropWhile fun f => match f with | .d _ _ => true | _ => false
      let trailerOk := match after with
        | [] => true
        | [.h _ _ _] => true
        | _ => false
      if !trailerOk then "FAIL:frame-order" else
      -- 3b. every header block: HEADERS first (it alone may carry END_STREAM), then CONTINUATIONs, END_HEADERS exactly
      --     on the last, fragments non-empty and at most 16384 bytes
      let wireOk (w : List Wire) (es : Bool) : Bool :=
        match w with
        | [] => false
        | f :: r => !f.cont && f.es == es && r.all (fun c => c.cont && !c.es) &&
            (w.dropLast.all (fun x => !x.eh)) && ((w.getLast?.map (·.eh)).getD false) &&
            w.all (fun x => 0 < x.len && x.len ≤ maxFrag)
      let splitBad := frames.any fun f => match f with | .h _ es w => !wireOk w es | _ => false
      if splitBad then "FAIL:continuation-split" else
      let tfields := match after with
        | [.h tf _ _] => tf
        | _ => []
      -- 4. names: lower-case valid tokens, nothing connection-specific
      let regular := hf.drop 1
      let allf := regular ++ tfields
      if allf.any (fun f => connNames.contains f.1) then "FAIL:conn-specific" else
      if allf.any (fun f => !validName f.1 || !validValue f.2) then "FAIL:bad-field" else
      -- 5. body
      let body := datas.foldl (fun acc f => match f with | .d p _ => acc ++ p | _ => acc) []
      let writes := acts.filterMap fun a => match a with | .write p => some p | _ => none
      let wr := if wstr == "-" then [] else wstr.splitOn ","
      let accepted := if isHead then [] else
        (writes.zip wr).foldl (fun acc (p, r) => if r.toNat?.isSome then acc ++ p else acc) []
      if wr.length != writes.length then "FAIL:write-results" else
      if (isHead || !bodyAllowed status) && !body.isEmpty then "FAIL:body-not-allowed" else
      if body != accepted then "FAIL:body" else
      let _ := hes
      -- 6. header fields = the handler's fields, lower-cased, minus connection-specific / unsendable ones
      let adds := headerAdds acts
      let expected := adds.filterMap fun (k, v) =>
        let n := lower k
        if connNames.contains n || proxyAuthNames.contains n then none
        else if managed n then none
        else if !sendable k v then none else some (n, v)
      let hasCT := adds.any fun (k, _) => k == sContentType
      let hasDate := adds.any fun (k, _) => k == sDate
      let got := regular.filter fun f => !managed f.1 && !proxyAuthNames.contains f.1
      let got := if !hasCT then got.filter (fun f => !(f.1 == lContentType && f.2 == [64])) else got
      let got := if !hasDate then got.filter (fun f => !(f.1 == lDate && f.2 == [64])) else got
      if !hasDate && !(regular.contains (lDate, [64])) then "FAIL:no-date" else
      if sortPairs got != sortPairs expected then "FAIL:headers" else
      -- 7. trailers: every trailer field was given by the handler under that (declared) name
      let all := allAdds acts
      let fromHandler (f : Str × Str) : Bool := all.any fun (k, v) =>
        v == f.2 && (lower k == f.1 || (sTrailerPrefix.isPrefixOf k && lower (k.drop sTrailerPrefix.length) == f.1))
      if tfields.any (fun f => !fromHandler f) then "FAIL:trailer-field" else
      if tfields.any (fun f => f.1 == lContentLength || f.1 == lTransferEncoding || f.1 == lower sTrailer) then "FAIL:trailer-forbidden" else
      -- predeclared trailers (Trailer header, fixed with the header) must be delivered
      let declared := (adds.filter (fun kv => kv.1 == sTrailer)).flatMap fun kv => headerElements kv.2
      let declared := declared.map canon |>.filter fun k =>
        !(k == sTransferEncoding || k == sContentLength || k == sTrailer || connNames.contains (lower k) || proxyAuthNames.contains (lower k))
      -- (a `Trailer:`-prefixed key for the same name replaces the values, so such names are not judged here)
      let replaced (k : Str) : Bool := all.any fun (k2, _) =>
        sTrailerPrefix.isPrefixOf k2 && canon (k2.drop sTrailerPrefix.length) == k
      let missing := declared.any fun k => !replaced k &&
        (finalPairs [] acts).any (fun (k2, v) => k2 == k && sendable k v && !tfields.contains (lower k, v))
      if !isHead && missing then "FAIL:trailer-missing" else
      "ok"
  | _ => "FAIL:unparsable"

def run (op impl : String) : Ans :=
  match parseOp op with
  | none => { model := "bad-op", verdict := "skip" }
  | some (isHead, acts) =>
    let s := runHandler envDrv isHead acts
    -- encoded block lengths (HPACK is external): taken from the implementation's report, in order
    let implFrames := match impl.splitOn "|" with
      | f :: _ => if f == "-" then [] else (f.splitOn "/").map parseIFrame
      | [] => []
    let lens := implFrames.filterMap fun f => match f with
      | .h _ _ w => some ((w.map (·.len)).foldl (· + ·) 0)
      | _ => none
    let adds := allAdds acts
    let hasConn := adds.any fun (k, _) => connNames.contains (lower k) || proxyAuthNames.contains (lower k)
    let hasTrailer := adds.any fun (k, _) => k == sTrailer || sTrailerPrefix.isPrefixOf k
    let nWrites := (acts.filter fun a => match a with | .write _ => true | _ => false).length
    let nFlush := (acts.filter fun a => match a with | .flush => true | _ => false).length
    let nData := (s.out.filter fun f => match f with | .data _ _ => true | _ => false).length
    let st := expectedStatus acts
    let tags :=
      [if isHead then "head" else "get"]
      ++ (if hasConn then ["conn-hdr"] else [])
      ++ (if hasTrailer then ["trailer"] else [])
      ++ (if s.trailers.isEmpty then [] else ["trailer-declared"])
      ++ (if !bodyAllowed st then ["bodyless"] else [])
      ++ (if nWrites > 0 then ["write"] else [])
      ++ (if nFlush > 0 then ["flush"] else [])
      ++ (if nData > 1 then ["multi-data"] else [])
      ++ (if s.wres.contains WRes.overLength then ["over-cl"] else [])
      ++ (if adds.length + nWrites + nFlush ≥ 2 then ["nt"] else [])
    let split := lens.any (· > maxFrag)
    { model := render isHead s lens, verdict := spec isHead acts impl,
      tags := tags ++ (if split then ["split"] else []) ++ (if lens.any (fun l => l + 200 > maxFrag && l < maxFrag + 200) then ["near-16384"] else []) }

end BfeVerif.C38
