import BfeVerif.C38.Driver
def main : IO Unit := BfeVerif.Proto.driverMain BfeVerif.C38.run
