import BfeVerif.C38.Shape
/-! C38 helper lemmas, part 3: the response HEADERS frame carries the handler's status and header fields. -/
namespace BfeVerif.C38

/-- the field list C38 demands: `:status`, the snapshot's sendable fields in key order, then server-added fields -/
def SpecFields (S : HMap) (st : Nat) (autos : List (Str × Str)) : List (Str × Str) :=
  (lStatus, itoa st) :: (encodeHeaders S (sortStrs (S.map (·.1))) ++ autos)

def AutosOK (autos : List (Str × Str)) : Prop :=
  ∀ f ∈ autos, f.1 = lContentType ∨ f.1 = lContentLength ∨ f.1 = lDate

/-- header fixed (WriteHeader happened), nothing sent yet -/
def PB (S0 : HMap) (st : Nat) (s : St) : Prop :=
  s.wroteHeader = true ∧ s.sentHeader = false ∧ s.out = [] ∧ s.snap = S0 ∧ s.status = st ∧ s.bwErr = false

/-- the response HEADERS frame has been written and is the specified one -/
def PC (S0 : HMap) (st : Nat) (s : St) : Prop :=
  s.sentHeader = true ∧ ∃ es rest autos, AutosOK autos ∧
    s.out = Frame.headers (SpecFields (clenSnap S0) st autos) es :: rest

def PBC (S0 : HMap) (st : Nat) (s : St) : Prop := PB S0 st s ∨ PC S0 st s

theorem clenPart_snap (s : St) : (clenPart s).1.snap = clenSnap s.snap ∧ (clenPart s).1.status = s.status := by
  unfold clenPart clenSnap
  simp only []
  split
  · split <;> exact ⟨rfl, rfl⟩
  · exact ⟨rfl, rfl⟩

theorem headerFields_spec (env : Env) (s : St) (c : Str) (p : List Nat) :
    ∃ autos, AutosOK autos ∧ headerFields env s c p = SpecFields s.snap s.status autos := by
  unfold headerFields SpecFields
  simp only []
  refine ⟨_, ?_, by simp only [List.cons_append, List.nil_append, List.append_assoc]; rfl⟩
  intro f hf
  simp only [List.mem_append] at hf
  rcases hf with hf | hf | hf
  · exact Or.inl (mem_opt _ _ f hf)
  · exact Or.inr (Or.inl (mem_opt _ _ f hf))
  · exact Or.inr (Or.inr (mem_opt _ _ f hf))

/-- the header part of the first writeChunk call writes the specified frame -/
theorem headerPart_spec (env : Env) (s : St) (p : List Nat) (h : s.sentHeader = false) :
    ∃ es autos, AutosOK autos ∧
      (headerPart env s p).1.out = s.out ++ [Frame.headers (SpecFields (clenSnap s.snap) s.status autos) es] ∧
      (headerPart env s p).1.sentHeader = true := by
  obtain ⟨F, e1, e2, _, _, s2, c, hF, hsn, hst⟩ := headerPart_unsent env s p h
  obtain ⟨d1, d2⟩ := clenPart_snap { s with sentHeader := true }
  obtain ⟨autos, ha, he⟩ := headerFields_spec env s2 c p
  rw [hsn, hst, d1, d2] at he
  exact ⟨_, autos, ha, by rw [e1, hF, he], e2⟩

theorem wc_pre_id (s : St) (h : s.wroteHeader = true) :
    (if (!s.wroteHeader) = true then writeHeader s 200 else s) = s := by simp [h]

/-- after the header part, the rest of writeChunk only appends frames -/
theorem wc_rest (s : St) (p : List Nat) (hs : s.sentHeader = true) (stop : Bool) :
    let r := if stop then s else if s.isHead then s else if (p.isEmpty && !s.handlerDone) = true then s else bodyPart s p
    r.sentHeader = true ∧ ∃ more, r.out = s.out ++ more := by
  simp only []
  split
  · exact ⟨hs, [], by simp⟩
  · split
    · exact ⟨hs, [], by simp⟩
    · split
      · exact ⟨hs, [], by simp⟩
      · obtain ⟨b1, b2⟩ := bodyPart_out s p
        obtain ⟨_, q2, _, q4⟩ := afterPromote_props s
        exact ⟨by rw [b2, q4, hs], _, by rw [b1, q2, List.append_assoc]⟩

theorem pc_of_append (S0 : HMap) (st : Nat) (s r : St) (h : PC S0 st s) (hs : r.sentHeader = true)
    (ho : ∃ more, r.out = s.out ++ more) : PC S0 st r := by
  obtain ⟨_, es, rest, autos, ha, e⟩ := h
  obtain ⟨more, hm⟩ := ho
  exact ⟨hs, es, rest ++ more, autos, ha, by rw [hm, e]; rfl⟩

theorem wc_PC (env : Env) (S0 : HMap) (st : Nat) (s : St) (p : List Nat) (h : PC S0 st s) :
    PC S0 st (writeChunk env s p) := by
  obtain ⟨a1, a2, _⟩ := wc_pre env s
  unfold writeChunk
  simp only [] at a1 a2 ⊢
  generalize (if (!s.wroteHeader) = true then writeHeader s 200 else s) = s1 at a1 a2 ⊢
  have h1 : PC S0 st s1 := by unfold PC; rw [a1, a2]; exact h
  have hs := h1.1
  split
  · exact h1
  · rw [headerPart_sent env s1 p hs]
    obtain ⟨w1, w2⟩ := wc_rest s1 p hs false
    simp only [] at w1 w2 ⊢
    exact pc_of_append S0 st s1 _ h1 w1 w2

theorem wc_PB (env : Env) (S0 : HMap) (st : Nat) (s : St) (p : List Nat) (h : PB S0 st s) :
    PC S0 st (writeChunk env s p) := by
  obtain ⟨hw, hs, ho, hsn, hst, _⟩ := h
  unfold writeChunk
  rw [wc_pre_id s hw, if_neg (by simp [hs])]
  obtain ⟨es, autos, ha, e1, e2⟩ := headerPart_spec env s p hs
  rw [ho, hsn, hst, List.nil_append] at e1
  have hpc : PC S0 st (headerPart env s p).1 := ⟨e2, es, [], autos, ha, e1⟩
  obtain ⟨w1, w2⟩ := wc_rest (headerPart env s p).1 p e2 (headerPart env s p).2
  exact pc_of_append S0 st _ _ hpc w1 w2

theorem wc_PBC (env : Env) (S0 : HMap) (st : Nat) (s : St) (p : List Nat) (h : PBC S0 st s) :
    PC S0 st (writeChunk env s p) := by
  rcases h with h | h
  · exact wc_PB env S0 st s p h
  · exact wc_PC env S0 st s p h

theorem pbc_writeHeader (S0 : HMap) (st : Nat) (s : St) (c : Nat) (h : PBC S0 st s) : PBC S0 st (writeHeader s c) := by
  rcases h with h | h
  · have : writeHeader s c = s := by unfold writeHeader; simp [h.1]
    rw [this]; exact Or.inl h
  · obtain ⟨e1, e2⟩ := writeHeader_sent s c
    exact Or.inr (by unfold PC; rw [e1, e2]; exact h)

theorem pbc_bwWrite (env : Env) (S0 : HMap) (st : Nat) (s : St) (p : List Nat) (h : PBC S0 st s) :
    PBC S0 st (bwWrite env s p) := by
  unfold bwWrite
  split
  · exact h
  · split
    · exact Or.inr (wc_PBC env S0 st s p h)
    · simp only []
      have h1 := wc_PBC env S0 st { s with buf := [] } (s.buf ++ p.take (bufSize - s.buf.length)) h
      split
      · exact Or.inr h1
      · exact Or.inr (wc_PC env S0 st _ _ h1)

/-- a Write that has to flush a non-empty buffer sends the HEADERS -/
theorem pc_bwWrite_flush (env : Env) (S0 : HMap) (st : Nat) (s : St) (p : List Nat) (h : PBC S0 st s)
    (hne : s.buf.isEmpty = false) (hgt : p.length > bufSize - s.buf.length) : PC S0 st (bwWrite env s p) := by
  unfold bwWrite
  rw [if_neg (by omega), if_neg (by simp [hne])]
  simp only []
  have h1 := wc_PBC env S0 st { s with buf := [] } (s.buf ++ p.take (bufSize - s.buf.length)) h
  split
  · exact h1
  · exact wc_PC env S0 st _ _ h1

theorem pbc_rwWrite (env : Env) (S0 : HMap) (st : Nat) (s : St) (p : List Nat) (h : PBC S0 st s) :
    PBC S0 st (rwWrite env s p) := by
  unfold rwWrite
  generalize hs1 : (if (!s.wroteHeader) = true then writeHeader s 200 else s) = s1
  have g1 : PBC S0 st s1 := by
    rw [← hs1]; split
    · exact pbc_writeHeader S0 st s 200 h
    · exact h
  simp only []
  split
  · exact g1
  · split
    · exact g1
    · have g2 : PBC S0 st { s1 with wroteBytes := s1.wroteBytes + p.length } := g1
      have g3 := pbc_bwWrite env S0 st _ p g2
      split
      · unfold rwWriteHead
        split
        · exact g2
        · split
          · rename_i hshort
            unfold bwShort at hshort
            simp only [Bool.and_eq_true, Bool.not_eq_true', decide_eq_true_eq] at hshort
            have hpc := pc_bwWrite_flush env S0 st _ p g2 hshort.1.2 hshort.2
            exact Or.inr hpc
          · exact g3
      · exact g3

theorem pbc_rwFlush (env : Env) (S0 : HMap) (st : Nat) (s : St) (h : PBC S0 st s) : PC S0 st (rwFlush env s) := by
  unfold rwFlush rwFlushHead rwFlushGet
  split
  · split
    · split
      · rename_i hbe
        -- before the HEADERS are sent the bufio.Writer has no error
        rcases h with h | h
        · have := h.2.2.2.2.2; rw [hbe] at this; cases this
        · exact h
      · split
        · exact wc_PBC env S0 st { s with buf := [] } s.buf h
        · exact wc_PBC env S0 st { s with buf := [] } s.buf h
    · exact wc_PBC env S0 st s [] h
  · split
    · exact wc_PBC env S0 st { s with buf := [] } s.buf h
    · exact wc_PBC env S0 st s [] h

theorem pbc_step (env : Env) (S0 : HMap) (st : Nat) (s : St) (a : Act) (h : PBC S0 st s) : PBC S0 st (step env s a) := by
  cases a with
  | add k v => exact h
  | setFirst k v => exact h
  | status c => exact pbc_writeHeader S0 st s c h
  | write p => exact pbc_rwWrite env S0 st s p h
  | flush => exact Or.inr (pbc_rwFlush env S0 st s h)

/-- the end of the handler: remaining steps, then `handlerDone` and the final Flush -/
def finish (env : Env) (s : St) (acts : List Act) : St :=
  rwFlush env { acts.foldl (step env) s with handlerDone := true }

theorem pbc_finish (env : Env) (S0 : HMap) (st : Nat) (acts : List Act) (s : St) (h : PBC S0 st s) :
    PC S0 st (finish env s acts) := by
  unfold finish
  induction acts generalizing s with
  | nil => exact pbc_rwFlush env S0 st _ h
  | cons a r ih => exact ih _ (pbc_step env S0 st s a h)

/-- before WriteHeader: only header additions so far -/
def PA (m : HMap) (s : St) : Prop :=
  s.wroteHeader = false ∧ s.sentHeader = false ∧ s.out = [] ∧ s.hh = m ∧ s.snap = [] ∧ s.bwErr = false

theorem pa_writeHeader (m : HMap) (s : St) (c : Nat) (h : PA m s) : PB (snapAt m) c (writeHeader s c) := by
  obtain ⟨h1, h2, h3, h4, h5, h6⟩ := h
  unfold writeHeader snapAt
  simp only [h1, Bool.false_eq_true, if_false]
  refine ⟨rfl, h2, h3, ?_, rfl, h6⟩
  simp only []
  rw [h4, h5]

theorem writeChunk_pre (env : Env) (s : St) (p : List Nat) (h : s.wroteHeader = false) :
    writeChunk env s p = writeChunk env (writeHeader s 200) p := by
  have hw : (writeHeader s 200).wroteHeader = true := by unfold writeHeader; simp [h]
  unfold writeChunk
  simp [h, hw]

theorem rwWrite_pre (env : Env) (s : St) (p : List Nat) (h : s.wroteHeader = false) :
    rwWrite env s p = rwWrite env (writeHeader s 200) p := by
  have hw : (writeHeader s 200).wroteHeader = true := by unfold writeHeader; simp [h]
  unfold rwWrite
  simp [h, hw]

theorem wc_PA (env : Env) (m : HMap) (s : St) (p : List Nat) (h : PA m s) :
    PC (snapAt m) 200 (writeChunk env s p) := by
  rw [writeChunk_pre env s p h.1]
  exact wc_PB env _ _ _ _ (pa_writeHeader m s 200 h)

theorem rwWrite_PA (env : Env) (m : HMap) (s : St) (p : List Nat) (h : PA m s) :
    PBC (snapAt m) 200 (rwWrite env s p) := by
  rw [rwWrite_pre env s p h.1]
  exact pbc_rwWrite env _ _ _ p (Or.inl (pa_writeHeader m s 200 h))

theorem rwFlush_PA (env : Env) (m : HMap) (s : St) (h : PA m s) : PC (snapAt m) 200 (rwFlush env s) := by
  have hbe : s.bwErr = false := h.2.2.2.2.2
  unfold rwFlush rwFlushHead rwFlushGet
  split
  · split
    · rw [if_neg (by simp [hbe]), if_pos (by simp [h.2.1])]
      exact wc_PA env m _ _ ⟨h.1, h.2.1, h.2.2.1, h.2.2.2.1, h.2.2.2.2⟩
    · exact wc_PA env m _ _ h
  · split
    · exact wc_PA env m _ _ ⟨h.1, h.2.1, h.2.2.1, h.2.2.2.1, h.2.2.2.2⟩
    · exact wc_PA env m _ _ h

theorem pa_finish (env : Env) (acts : List Act) (m : HMap) (s : St) (h : PA m s) :
    PC (snapAt (hdrAdds m acts)) (statusOf acts) (finish env s acts) := by
  induction acts generalizing m s with
  | nil =>
    unfold finish
    simp only [List.foldl_nil, hdrAdds, statusOf]
    exact rwFlush_PA env m _ ⟨h.1, h.2.1, h.2.2.1, h.2.2.2.1, h.2.2.2.2⟩
  | cons a r ih =>
    cases a with
    | add k v =>
      have h' : PA (hadd m k v) (step env s (.add k v)) := ⟨h.1, h.2.1, h.2.2.1, by simp [step, h.2.2.2.1], h.2.2.2.2⟩
      have := ih (hadd m k v) _ h'
      simpa [finish, hdrAdds, statusOf] using this
    | setFirst k v =>
      have h' : PA (hsetFirst m k v) (step env s (.setFirst k v)) := ⟨h.1, h.2.1, h.2.2.1, by simp [step, h.2.2.2.1], h.2.2.2.2⟩
      have := ih (hsetFirst m k v) _ h'
      simpa [finish, hdrAdds, statusOf] using this
    | status c =>
      have hb := pa_writeHeader m s c h
      have := pbc_finish env (snapAt m) c r (step env s (.status c)) (Or.inl hb)
      simpa [finish, hdrAdds, statusOf] using this
    | write p =>
      have h2 : PBC (snapAt m) 200 (step env s (.write p)) := rwWrite_PA env m s p h
      have := pbc_finish env (snapAt m) 200 r _ h2
      simpa [finish, hdrAdds, statusOf] using this
    | flush =>
      have h2 : PBC (snapAt m) 200 (step env s .flush) := Or.inr (rwFlush_PA env m s h)
      have := pbc_finish env (snapAt m) 200 r _ h2
      simpa [finish, hdrAdds, statusOf] using this

end BfeVerif.C38
