import BfeVerif.C38.Proofs
/-! C38 helper lemmas, part 2: the frame sequence of a response (HEADERS, DATA*, optional trailers; END_STREAM). -/
namespace BfeVerif.C38

def isDataNoEnd (f : Frame) : Prop := ∃ p, f = Frame.data p false

/-- frames of a non-HEAD response while the handler is still running -/
def Running (s : St) : Prop :=
  (s.sentHeader = false ∧ s.out = []) ∨
  (s.sentHeader = true ∧ ∃ F ds, s.out = Frame.headers F false :: ds ∧ ∀ d ∈ ds, isDataNoEnd d)

/-- frames of a HEAD response at any time -/
def HeadSh (s : St) : Prop :=
  (s.sentHeader = false ∧ s.out = []) ∨ (s.sentHeader = true ∧ ∃ F, F ≠ [] ∧ s.out = [Frame.headers F true])

/-- frames of a finished response -/
def Final (o : List Frame) : Prop :=
  (∃ F, F ≠ [] ∧ o = [Frame.headers F true]) ∨
  (∃ F ds last, o = Frame.headers F false :: (ds ++ [last]) ∧ (∀ d ∈ ds, isDataNoEnd d) ∧
     ((∃ p, last = Frame.data p true) ∨ (∃ T, T ≠ [] ∧ last = Frame.headers T true)))

/-! ### pieces of writeChunk -/
theorem writeHeader_sent (s : St) (c : Nat) :
    (writeHeader s c).sentHeader = s.sentHeader ∧ (writeHeader s c).out = s.out := by
  unfold writeHeader; split <;> exact ⟨rfl, rfl⟩

theorem clenPart_sent (s : St) : (clenPart s).1.sentHeader = s.sentHeader := by
  unfold clenPart
  simp only []
  split
  · split <;> rfl
  · rfl

theorem headerPart_sent (env : Env) (s : St) (p : List Nat) (h : s.sentHeader = true) :
    headerPart env s p = (s, false) := by
  unfold headerPart; simp [h]

theorem headerPart_unsent (env : Env) (s : St) (p : List Nat) (h : s.sentHeader = false) :
    ∃ F, (headerPart env s p).1.out = s.out ++ [Frame.headers F (headerPart env s p).2] ∧
      (headerPart env s p).1.sentHeader = true ∧
      (headerPart env s p).2 =
        ((s.handlerDone && (headerPart env s p).1.trailers.isEmpty && p.isEmpty) || s.isHead) ∧ F ≠ [] ∧
      ∃ s2 c, F = headerFields env s2 c p ∧ s2.snap = (clenPart { s with sentHeader := true }).1.snap ∧
        s2.status = (clenPart { s with sentHeader := true }).1.status := by
  obtain ⟨_, _, c3, c4, _, _, _, c8⟩ := clenPart_props { s with sentHeader := true }
  have c9 := clenPart_sent { s with sentHeader := true }
  simp only [] at c3 c4 c8 c9
  unfold headerPart
  simp only [h, Bool.not_false, if_true]
  refine ⟨?F, ?h1, ?h2, ?h3, ?h0, ?h4⟩
  case h1 => rw [c3]
  case h2 => exact c9
  case h3 => rw [c8, c4]
  case h0 => unfold headerFields; simp
  case h4 => exact ⟨_, _, rfl, rfl, rfl⟩

theorem promoteStep_sent (st : St) (e : Str × List Str) : (promoteStep st e).sentHeader = st.sentHeader := by
  unfold promoteStep; split <;> rfl

theorem promote_fold_sent (l : HMap) (s : St) : (l.foldl promoteStep s).sentHeader = s.sentHeader := by
  induction l generalizing s with
  | nil => rfl
  | cons e r ih => simp only [List.foldl_cons]; rw [ih, promoteStep_sent]

theorem promote_sent (s : St) : (promote s).sentHeader = s.sentHeader := by
  rw [promote_eq]
  simp only []
  split
  · exact promote_fold_sent _ _
  · exact promote_fold_sent _ _

def afterPromote (s : St) : St := if s.handlerDone then promote s else s

theorem afterPromote_props (s : St) :
    (TrOK s.trailers → TrOK (afterPromote s).trailers) ∧ (afterPromote s).out = s.out ∧
    (afterPromote s).handlerDone = s.handlerDone ∧ (afterPromote s).sentHeader = s.sentHeader := by
  unfold afterPromote
  obtain ⟨q1, _, q3, _, q5, _, _, _⟩ := promote_props s
  split
  · exact ⟨q1, q3, q5, promote_sent s⟩
  · exact ⟨id, rfl, rfl, rfl⟩

def dataPart (p : List Nat) (es : Bool) : List Frame :=
  if (decide (p.length > 0) || es) = true then [Frame.data p es] else []

def trailerPart (s1 : St) : List Frame :=
  if (s1.handlerDone && hasNonempty s1) = true then
    (if (encodeHeaders s1.hh s1.trailers).isEmpty then [] else [Frame.headers (encodeHeaders s1.hh s1.trailers) true])
  else []

theorem bodyPart_out (s : St) (p : List Nat) :
    (bodyPart s p).out =
      (afterPromote s).out ++ dataPart p ((afterPromote s).handlerDone && !hasNonempty (afterPromote s))
        ++ trailerPart (afterPromote s) ∧
    (bodyPart s p).sentHeader = (afterPromote s).sentHeader := by
  unfold bodyPart
  show _ ∧ _
  simp only []
  have e : (if s.handlerDone = true then promote s else s) = afterPromote s := rfl
  rw [e]
  generalize afterPromote s = s1
  unfold dataPart trailerPart emitHeaders
  by_cases h1 : (decide (p.length > 0) || (s1.handlerDone && !hasNonempty s1)) = true <;>
  by_cases h2 : (s1.handlerDone && hasNonempty s1) = true <;>
  by_cases h3 : encodeHeaders s1.hh s1.trailers = [] <;>
  simp [h1, h2, h3]

/-- with the fix, a trailers frame that is attempted is never empty -/
theorem encode_nonempty (s1 : St) (ht : TrOK s1.trailers) (hn : hasNonempty s1 = true) :
    (encodeHeaders s1.hh s1.trailers).isEmpty = false := by
  unfold hasNonempty at hn
  rw [List.any_eq_true] at hn
  obtain ⟨k, hk, hv⟩ := hn
  rw [List.any_eq_true] at hv
  obtain ⟨v, hv1, hv2⟩ := hv
  simp only [Bool.and_eq_true] at hv2
  have hmem : (lower k, v) ∈ encodeHeaders s1.hh s1.trailers := by
    unfold encodeHeaders
    rw [List.mem_flatMap]
    refine ⟨k, hk, ?_⟩
    simp only [hv2.1, Bool.not_true, Bool.false_eq_true, if_false, List.mem_filterMap]
    refine ⟨v, hv1, ?_⟩
    simp only [hv2.2, Bool.not_true, Bool.false_eq_true, if_false]
    have hne : (lower k == lTransferEncoding) = false := by
      obtain ⟨k0, hk0, hh⟩ := ht k hk
      cases hb : (lower k == lTransferEncoding) with
      | false => rfl
      | true =>
        have heq : lower k = lTransferEncoding := by simpa using hb
        have hc : lower k0 ∈ connLower := by
          rw [← lower_canon, ← hk0, heq]; decide
        have hv' : validName (lower k0) = true := by rw [← lower_canon, ← hk0]; exact hv2.1
        have := hop_of_lower k0 hv' hc
        rw [hh] at this; cases this
    simp [hne]
  cases hl : encodeHeaders s1.hh s1.trailers with
  | nil => rw [hl] at hmem; cases hmem
  | cons a r => rfl

/-! ### one writeChunk call and the shapes -/
theorem mem_append_data {ds : List Frame} {p : List Nat} (h : ∀ d ∈ ds, isDataNoEnd d) :
    ∀ d ∈ ds ++ dataPart p false, isDataNoEnd d := by
  intro d hd
  rcases List.mem_append.mp hd with hd | hd
  · exact h d hd
  · unfold dataPart at hd
    split at hd
    · exact ⟨p, List.mem_singleton.mp hd⟩
    · cases hd

theorem wc_pre (env : Env) (s : St) :
    let s1 := if (!s.wroteHeader) = true then writeHeader s 200 else s
    s1.sentHeader = s.sentHeader ∧ s1.out = s.out ∧ Keeps s s1 := by
  simp only []
  split
  · exact ⟨(writeHeader_sent s 200).1, (writeHeader_sent s 200).2, (keeps_writeHeader s 200).1⟩
  · exact ⟨rfl, rfl, Keeps.refl s⟩

/-- GET, handler still running: the shape `Running` is kept -/
theorem wc_running (env : Env) (s : St) (p : List Nat) (hh : s.isHead = false) (hd : s.handlerDone = false)
    (hr : Running s) : Running (writeChunk env s p) := by
  obtain ⟨a1, a2, ka⟩ := wc_pre env s
  unfold writeChunk
  simp only [] at a1 a2 ka ⊢
  generalize (if (!s.wroteHeader) = true then writeHeader s 200 else s) = s1 at a1 a2 ka ⊢
  have hh1 : s1.isHead = false := by rw [ka.isHead]; exact hh
  have hd1 : s1.handlerDone = false := by rw [ka.done]; exact hd
  have hr1 : Running s1 := by unfold Running; rw [a1, a2]; exact hr
  rw [if_neg (by simp [hh1])]
  obtain ⟨kh, _, _⟩ := headerPart_props env s1 p
  rcases hr1 with ⟨hs, ho⟩ | ⟨hs, F, ds, ho, hds⟩
  · -- header not yet sent
    obtain ⟨F, e1, e2, e3, e0, _⟩ := headerPart_unsent env s1 p hs
    have hes : (headerPart env s1 p).2 = false := by rw [e3, hd1, hh1]; rfl
    rw [hes] at e1
    rw [if_neg (by simp [hes]), if_neg (by rw [kh.isHead, hh1]; simp)]
    split
    · exact Or.inr ⟨e2, F, [], by rw [e1, ho]; rfl, fun _ h => by cases h⟩
    · obtain ⟨b1, b2⟩ := bodyPart_out (headerPart env s1 p).1 p
      obtain ⟨_, q2, q3, q4⟩ := afterPromote_props (headerPart env s1 p).1
      have hdn : (afterPromote (headerPart env s1 p).1).handlerDone = false := by rw [q3, kh.done, hd1]
      refine Or.inr ⟨by rw [b2, q4, e2], F, dataPart p false, ?_, ?_⟩
      · rw [b1, q2, e1, ho, hdn]
        simp [trailerPart, hdn]
      · exact mem_append_data (ds := []) (fun _ h => by cases h)
  · rw [headerPart_sent env s1 p hs]
    simp only []
    rw [if_neg (by simp), if_neg (by simp [hh1])]
    split
    · exact Or.inr ⟨hs, F, ds, ho, hds⟩
    · obtain ⟨b1, b2⟩ := bodyPart_out s1 p
      obtain ⟨_, q2, q3, q4⟩ := afterPromote_props s1
      have hdn : (afterPromote s1).handlerDone = false := by rw [q3, hd1]
      refine Or.inr ⟨by rw [b2, q4, hs], F, ds ++ dataPart p false, ?_, mem_append_data hds⟩
      rw [b1, q2, ho, hdn]
      simp [trailerPart, hdn]

/-- the tail written by bodyPart once the handler is done ends the stream -/
theorem final_tail (s1 : St) (p : List Nat) (hd : s1.handlerDone = true) (ht : TrOK s1.trailers) :
    ∃ ds last, dataPart p (s1.handlerDone && !hasNonempty s1) ++ trailerPart s1 = ds ++ [last] ∧
      (∀ d ∈ ds, isDataNoEnd d) ∧ ((∃ q, last = Frame.data q true) ∨ (∃ T, T ≠ [] ∧ last = Frame.headers T true)) := by
  cases hn : hasNonempty s1 with
  | true =>
    have hne := encode_nonempty s1 ht hn
    refine ⟨dataPart p false, Frame.headers (encodeHeaders s1.hh s1.trailers) true, ?_,
      mem_append_data (ds := []) (fun _ h => by cases h), Or.inr ⟨_, ?_, rfl⟩⟩
    · simp [trailerPart, hd, hn, hne]
    · intro h0; rw [h0] at hne; simp at hne
  | false =>
    refine ⟨[], Frame.data p true, ?_, (fun _ h => by cases h), Or.inl ⟨p, rfl⟩⟩
    simp [trailerPart, dataPart, hd, hn]

/-- GET, final call (handler done): the response is complete -/
theorem wc_final (env : Env) (s : St) (p : List Nat) (hh : s.isHead = false) (hd : s.handlerDone = true)
    (hi : Inv s) (hr : Running s) : Final (writeChunk env s p).out := by
  obtain ⟨a1, a2, ka⟩ := wc_pre env s
  unfold writeChunk
  simp only [] at a1 a2 ka ⊢
  generalize (if (!s.wroteHeader) = true then writeHeader s 200 else s) = s1 at a1 a2 ka ⊢
  have hh1 : s1.isHead = false := by rw [ka.isHead]; exact hh
  have hd1 : s1.handlerDone = true := by rw [ka.done]; exact hd
  have hi1 : Inv s1 := ka.inv hi
  have hr1 : Running s1 := by unfold Running; rw [a1, a2]; exact hr
  rw [if_neg (by simp [hh1])]
  obtain ⟨kh, _, _⟩ := headerPart_props env s1 p
  rcases hr1 with ⟨hs, ho⟩ | ⟨hs, F, ds, ho, hds⟩
  · obtain ⟨F, e1, e2, e3, e0, _⟩ := headerPart_unsent env s1 p hs
    cases hes : (headerPart env s1 p).2 with
    | true =>
      rw [if_pos rfl]
      rw [hes] at e1
      exact Or.inl ⟨F, e0, by rw [e1, ho]; rfl⟩
    | false =>
      rw [hes] at e1
      rw [if_neg (by simp), if_neg (by rw [kh.isHead, hh1]; simp), if_neg (by rw [kh.done, hd1]; simp)]
      obtain ⟨b1, _⟩ := bodyPart_out (headerPart env s1 p).1 p
      obtain ⟨q1, q2, q3, _⟩ := afterPromote_props (headerPart env s1 p).1
      have hdn : (afterPromote (headerPart env s1 p).1).handlerDone = true := by rw [q3, kh.done, hd1]
      obtain ⟨ds, last, t1, t2, t3⟩ := final_tail (afterPromote (headerPart env s1 p).1) p hdn (q1 (kh.inv hi1).tr)
      refine Or.inr ⟨F, ds, last, ?_, t2, t3⟩
      rw [b1, q2, e1, ho, List.append_assoc, t1]; rfl
  · rw [headerPart_sent env s1 p hs]
    simp only []
    rw [if_neg (by simp), if_neg (by simp [hh1]), if_neg (by rw [hd1]; simp)]
    obtain ⟨b1, _⟩ := bodyPart_out s1 p
    obtain ⟨q1, q2, q3, _⟩ := afterPromote_props s1
    have hdn : (afterPromote s1).handlerDone = true := by rw [q3, hd1]
    obtain ⟨ds2, last, t1, t2, t3⟩ := final_tail (afterPromote s1) p hdn (q1 hi1.tr)
    refine Or.inr ⟨F, ds ++ ds2, last, ?_, ?_, t3⟩
    · rw [b1, q2, ho, List.append_assoc, t1]; simp
    · intro d hd'
      rcases List.mem_append.mp hd' with h | h
      · exact hds d h
      · exact t2 d h

/-- HEAD: one HEADERS frame with END_STREAM, then nothing -/
theorem wc_head (env : Env) (s : St) (p : List Nat) (hh : s.isHead = true) (hr : HeadSh s) :
    HeadSh (writeChunk env s p) ∧ (writeChunk env s p).sentHeader = true := by
  obtain ⟨a1, a2, ka⟩ := wc_pre env s
  unfold writeChunk
  simp only [] at a1 a2 ka ⊢
  generalize (if (!s.wroteHeader) = true then writeHeader s 200 else s) = s1 at a1 a2 ka ⊢
  have hh1 : s1.isHead = true := by rw [ka.isHead]; exact hh
  have hr1 : HeadSh s1 := by unfold HeadSh; rw [a1, a2]; exact hr
  rcases hr1 with ⟨hs, ho⟩ | ⟨hs, F, ho⟩
  · rw [if_neg (by simp [hs])]
    obtain ⟨F, e1, e2, e3, e0, _⟩ := headerPart_unsent env s1 p hs
    have hes : (headerPart env s1 p).2 = true := by rw [e3, hh1]; simp
    rw [if_pos hes]
    rw [hes] at e1
    exact ⟨Or.inr ⟨e2, F, e0, by rw [e1, ho]; rfl⟩, e2⟩
  · rw [if_pos (by simp [hh1, hs])]
    exact ⟨Or.inr ⟨hs, F, ho⟩, hs⟩

/-! ### the handler's steps -/

/-- what stays true while the handler runs: fixed method, handler not done, and the frame shape -/
structure Live (hd : Bool) (s : St) : Prop where
  isHead : s.isHead = hd
  notDone : s.handlerDone = false
  get : hd = false → Running s
  head : hd = true → HeadSh s
  /-- the bufio.Writer's sticky error is only ever set by the call that sent the HEADERS of a HEAD response -/
  errSent : hd = true → s.bwErr = true → s.sentHeader = true

theorem live_wc (env : Env) (hd : Bool) (s : St) (p : List Nat) (h : Live hd s) : Live hd (writeChunk env s p) := by
  obtain ⟨k, _, _⟩ := writeChunk_props env s p
  refine ⟨k.isHead.trans h.isHead, k.done.trans h.notDone, fun e => ?_, fun e => ?_, fun e _ => ?_⟩
  · exact wc_running env s p (h.isHead.trans e) h.notDone (h.get e)
  · exact (wc_head env s p (h.isHead.trans e) (h.head e)).1
  · exact (wc_head env s p (h.isHead.trans e) (h.head e)).2

theorem writeHeader_bwErr (s : St) (c : Nat) : (writeHeader s c).bwErr = s.bwErr := by
  unfold writeHeader; split <;> rfl

theorem live_upd (hd : Bool) (s r : St) (h : Live hd s) (e1 : r.isHead = s.isHead) (e2 : r.handlerDone = s.handlerDone)
    (e3 : r.sentHeader = s.sentHeader) (e4 : r.out = s.out) (e5 : r.bwErr = s.bwErr) : Live hd r := by
  refine ⟨e1.trans h.isHead, e2.trans h.notDone, fun e => ?_, fun e => ?_, fun e hb => ?_⟩
  · have := h.get e; unfold Running at this ⊢; rw [e3, e4]; exact this
  · have := h.head e; unfold HeadSh at this ⊢; rw [e3, e4]; exact this
  · rw [e3]; exact h.errSent e (e5 ▸ hb)

/-- setting the sticky error on a state whose HEADERS are out -/
theorem live_setErr (hd : Bool) (s r : St) (h : Live hd s) (hs : hd = true → s.sentHeader = true)
    (e1 : r.isHead = s.isHead) (e2 : r.handlerDone = s.handlerDone) (e3 : r.sentHeader = s.sentHeader) (e4 : r.out = s.out) :
    Live hd r := by
  refine ⟨e1.trans h.isHead, e2.trans h.notDone, fun e => ?_, fun e => ?_, fun e _ => ?_⟩
  · have := h.get e; unfold Running at this ⊢; rw [e3, e4]; exact this
  · have := h.head e; unfold HeadSh at this ⊢; rw [e3, e4]; exact this
  · rw [e3]; exact hs e

theorem live_writeHeader (hd : Bool) (s : St) (c : Nat) (h : Live hd s) : Live hd (writeHeader s c) := by
  obtain ⟨e1, e2⟩ := writeHeader_sent s c
  have k := (keeps_writeHeader s c).1
  exact live_upd hd s _ h k.isHead k.done e1 e2 (writeHeader_bwErr s c)

theorem live_bwWrite (env : Env) (hd : Bool) (s : St) (p : List Nat) (h : Live hd s) : Live hd (bwWrite env s p) := by
  unfold bwWrite
  split
  · exact live_upd hd s _ h rfl rfl rfl rfl rfl
  · split
    · exact live_wc env hd s p h
    · simp only []
      have h0 : Live hd { s with buf := [] } := live_upd hd s _ h rfl rfl rfl rfl rfl
      have h1 := live_wc env hd _ (s.buf ++ p.take (bufSize - s.buf.length)) h0
      split
      · exact live_upd hd _ _ h1 rfl rfl rfl rfl rfl
      · exact live_wc env hd _ _ h1

/-- a Write that has to flush a non-empty buffer leaves the HEADERS of a HEAD response sent -/
theorem bwWrite_sent (env : Env) (s : St) (p : List Nat) (h : Live true s)
    (hne : s.buf.isEmpty = false) (hgt : p.length > bufSize - s.buf.length) : (bwWrite env s p).sentHeader = true := by
  unfold bwWrite
  rw [if_neg (by omega), if_neg (by simp [hne])]
  simp only []
  have h0 : Live true { s with buf := [] } := live_upd true s _ h rfl rfl rfl rfl rfl
  have hs1 := (wc_head env _ (s.buf ++ p.take (bufSize - s.buf.length)) h0.isHead (h0.head rfl)).2
  have h1 := live_wc env true _ (s.buf ++ p.take (bufSize - s.buf.length)) h0
  split
  · exact hs1
  · exact (wc_head env _ _ h1.isHead (h1.head rfl)).2

theorem live_rwWrite (env : Env) (hd : Bool) (s : St) (p : List Nat) (h : Live hd s) : Live hd (rwWrite env s p) := by
  unfold rwWrite
  generalize hs1 : (if (!s.wroteHeader) = true then writeHeader s 200 else s) = s1
  have g1 : Live hd s1 := by
    rw [← hs1]; split
    · exact live_writeHeader hd s 200 h
    · exact h
  simp only []
  split
  · exact live_upd hd s1 _ g1 rfl rfl rfl rfl rfl
  · split
    · exact live_upd hd s1 _ g1 rfl rfl rfl rfl rfl
    · have g2 : Live hd { s1 with wroteBytes := s1.wroteBytes + p.length } := live_upd hd s1 _ g1 rfl rfl rfl rfl rfl
      have g3 := live_bwWrite env hd _ p g2
      split
      · rename_i hh
        have hdt : hd = true := by rw [← g2.isHead]; exact hh
        subst hdt
        unfold rwWriteHead
        split
        · exact live_upd true _ _ g2 rfl rfl rfl rfl rfl
        · split
          · rename_i hshort
            unfold bwShort at hshort
            simp only [Bool.and_eq_true, Bool.not_eq_true', decide_eq_true_eq] at hshort
            have hsent := bwWrite_sent env _ p g2 hshort.1.2 hshort.2
            exact live_setErr true _ _ g3 (fun _ => hsent) rfl rfl rfl rfl
          · exact live_upd true _ _ g3 rfl rfl rfl rfl rfl
      · exact live_upd hd _ _ g3 rfl rfl rfl rfl rfl

theorem live_rwFlush (env : Env) (hd : Bool) (s : St) (h : Live hd s) : Live hd (rwFlush env s) := by
  have h0 : Live hd { s with buf := [] } := live_upd hd s _ h rfl rfl rfl rfl rfl
  unfold rwFlush rwFlushHead rwFlushGet
  split
  · split
    · split
      · exact h
      · split
        · have h1 := live_wc env hd _ s.buf h0
          exact live_setErr hd _ _ h1 (fun e => (wc_head env _ _ (h0.isHead.trans e) (h0.head e)).2) rfl rfl rfl rfl
        · exact live_wc env hd _ _ h0
    · exact live_wc env hd _ _ h
  · split
    · exact live_wc env hd _ _ h0
    · exact live_wc env hd _ _ h

theorem live_step (env : Env) (hd : Bool) (s : St) (a : Act) (h : Live hd s) : Live hd (step env s a) := by
  cases a with
  | add k v => exact live_upd hd s _ h rfl rfl rfl rfl rfl
  | setFirst k v => exact live_upd hd s _ h rfl rfl rfl rfl rfl
  | status c => exact live_writeHeader hd s c h
  | write p => exact live_rwWrite env hd s p h
  | flush => exact live_rwFlush env hd s h

theorem live_foldl (env : Env) (hd : Bool) (acts : List Act) (s : St) (h : Live hd s) :
    Live hd (acts.foldl (step env) s) := by
  induction acts generalizing s with
  | nil => exact h
  | cons a r ih => exact ih _ (live_step env hd s a h)

theorem live_init (hd : Bool) : Live hd { isHead := hd } :=
  ⟨rfl, rfl, fun _ => Or.inl ⟨rfl, rfl⟩, fun _ => Or.inl ⟨rfl, rfl⟩, fun _ hb => by cases hb⟩

/-- every finished response has the final shape -/
theorem final_run (env : Env) (isHead : Bool) (acts : List Act) : Final (runHandler env isHead acts).out := by
  unfold runHandler
  have hl := live_foldl env isHead acts { isHead := isHead } (live_init isHead)
  have hg := (good_foldl env acts { isHead := isHead } (good_init isHead)).1
  generalize acts.foldl (step env) { isHead := isHead } = s at hl hg
  simp only []
  cases isHead with
  | false =>
    have hr := hl.get rfl
    have hi : Inv { s with handlerDone := true } := ⟨hg.inv.snap, hg.inv.tr, hg.inv.out⟩
    unfold rwFlush
    rw [if_neg (by simp only []; rw [hl.isHead]; simp)]
    unfold rwFlushGet
    split
    · exact wc_final env _ _ hl.isHead rfl ⟨hi.snap, hi.tr, hi.out⟩ hr
    · exact wc_final env _ _ hl.isHead rfl hi hr
  | true =>
    have hr := hl.head rfl
    have key : ∀ (s' : St) (p : List Nat), s'.isHead = true → HeadSh s' → Final (writeChunk env s' p).out := by
      intro s' p h1 h2
      obtain ⟨w1, w2⟩ := wc_head env s' p h1 h2
      rcases w1 with ⟨w, _⟩ | ⟨_, F, hF, ho⟩
      · rw [w2] at w; cases w
      · exact Or.inl ⟨F, hF, ho⟩
    have key2 : ∀ (s' : St) (p : List Nat), s'.isHead = true → HeadSh s' →
        Final ({ writeChunk env s' p with bwErr := true }).out := fun s' p h1 h2 => key s' p h1 h2
    -- a sticky bufio error means the HEADERS were already sent: the response is complete as it is
    have sent : ∀ (s' : St), s'.isHead = true → HeadSh s' → s'.sentHeader = true → Final s'.out := by
      intro s' _ h2 h3
      rcases h2 with ⟨w, _⟩ | ⟨_, F, hF, ho⟩
      · rw [h3] at w; cases w
      · exact Or.inl ⟨F, hF, ho⟩
    unfold rwFlush
    rw [if_pos (by simp only []; exact hl.isHead)]
    unfold rwFlushHead
    split
    · split
      · rename_i hbe
        -- bwErr is only ever set by a call that sent the HEADERS
        exact sent _ hl.isHead hr (hl.errSent rfl hbe)
      · split
        · exact key2 _ _ hl.isHead hr
        · exact key _ _ hl.isHead hr
    · exact key _ _ hl.isHead hr

/-! ### HEADERS / CONTINUATION splitting -/
theorem splitAux_zero (fuel : Nat) (first es : Bool) : splitAux fuel 0 first es = [] := by
  cases fuel <;> simp [splitAux]

theorem splitAux_tail (fuel rem : Nat) (es : Bool) :
    ∀ w ∈ splitAux fuel rem false es, w.cont = true ∧ w.es = false := by
  induction fuel generalizing rem with
  | zero => intro w hw; simp [splitAux] at hw
  | succ n ih =>
    intro w hw
    simp only [splitAux] at hw
    split at hw
    · cases hw
    · rcases List.mem_cons.mp hw with h | h
      · rw [h]; simp
      · exact ih _ w h

theorem splitAux_noes (fuel rem : Nat) (first : Bool) :
    ∀ w ∈ splitAux fuel rem first false, w.es = false := by
  induction fuel generalizing rem first with
  | zero => intro w hw; simp [splitAux] at hw
  | succ n ih =>
    intro w hw
    simp only [splitAux] at hw
    split at hw
    · cases hw
    · rcases List.mem_cons.mp hw with h | h
      · rw [h]; simp
      · exact ih _ _ w h

theorem splitAux_len (fuel rem : Nat) (first es : Bool) :
    ∀ w ∈ splitAux fuel rem first es, 0 < w.len ∧ w.len ≤ maxFrag := by
  induction fuel generalizing rem first with
  | zero => intro w hw; simp [splitAux] at hw
  | succ n ih =>
    intro w hw
    simp only [splitAux] at hw
    split at hw
    · cases hw
    · rename_i hr
      rcases List.mem_cons.mp hw with h | h
      · rw [h]; simp only []; unfold maxFrag; omega
      · exact ih _ _ w h

theorem splitAux_sum (fuel rem : Nat) (first es : Bool) (h : rem ≤ fuel) :
    ((splitAux fuel rem first es).map (·.len)).sum = rem := by
  induction fuel generalizing rem first with
  | zero => have : rem = 0 := by omega
            simp [splitAux, this]
  | succ n ih =>
    simp only [splitAux]
    split
    · rename_i h0; simp [h0]
    · rename_i h0
      simp only [List.map_cons, List.sum_cons]
      have hm : min rem maxFrag ≥ 1 := by unfold maxFrag; omega
      rw [ih (rem - min rem maxFrag) false (by omega)]
      have : min rem maxFrag ≤ rem := Nat.min_le_left _ _
      omega

/-- END_HEADERS exactly on the last frame -/
def ehOk : List Wire → Bool
  | [] => true
  | [w] => w.eh
  | w :: r => !w.eh && ehOk r

theorem ehOk_cons (w : Wire) (t : List Wire) (ht : t ≠ []) : ehOk (w :: t) = (!w.eh && ehOk t) := by
  cases t with
  | nil => exact absurd rfl ht
  | cons a r => rfl

theorem splitAux_ne_nil (fuel rem : Nat) (first es : Bool) (h0 : rem ≠ 0) (h : rem ≤ fuel) :
    splitAux fuel rem first es ≠ [] := by
  cases fuel with
  | zero => omega
  | succ n => simp [splitAux, h0]

theorem splitAux_eh (fuel rem : Nat) (first es : Bool) (h : rem ≤ fuel) :
    ehOk (splitAux fuel rem first es) = true := by
  induction fuel generalizing rem first with
  | zero => simp [splitAux, ehOk]
  | succ n ih =>
    simp only [splitAux]
    split
    · simp [ehOk]
    · rename_i h0
      have hm : min rem maxFrag ≥ 1 := by unfold maxFrag; omega
      have hle : min rem maxFrag ≤ rem := Nat.min_le_left _ _
      by_cases hz : rem - min rem maxFrag = 0
      · rw [hz, splitAux_zero]; simp [ehOk]
      · have hr : rem - min rem maxFrag ≤ n := by omega
        rw [ehOk_cons _ _ (splitAux_ne_nil n _ false es hz hr), ih _ false hr]
        have : (rem - min rem maxFrag == 0) = false := by simpa using hz
        simp [this]

theorem wireOf_append (encLen : List (Str × Str) → Nat) (a b : List Frame) :
    wireOf encLen (a ++ b) = wireOf encLen a ++ wireOf encLen b := by
  induction a with
  | nil => rfl
  | cons x r ih => cases x <;> simp [wireOf, ih]

theorem wireOf_noes (encLen : List (Str × Str) → Nat) (fs : List Frame) (h : ∀ f ∈ fs, f.es = false) :
    ∀ w ∈ wireOf encLen fs, w.es = false := by
  induction fs with
  | nil => intro w hw; cases hw
  | cons x r ih =>
    intro w hw
    have hx := h x (by simp)
    have hr : ∀ f ∈ r, f.es = false := fun f hf => h f (List.mem_cons_of_mem _ hf)
    cases x with
    | headers F e =>
      simp only [Frame.es] at hx
      simp only [wireOf, List.mem_append] at hw
      rcases hw with hw | hw
      · rw [hx] at hw; exact splitAux_noes _ _ _ w hw
      · exact ih hr w hw
    | data p e =>
      simp only [Frame.es] at hx
      simp only [wireOf] at hw
      rcases List.mem_cons.mp hw with hw | hw
      · rw [hw]; exact hx
      · exact ih hr w hw

/-- the block of a non-empty field list: a HEADERS frame with the block's END_STREAM flag, then CONTINUATIONs -/
theorem splitBlock_cons (L : Nat) (es : Bool) (hL : 0 < L) :
    ∃ w rest, splitBlock L es = w :: rest ∧ w.cont = false ∧ w.es = es ∧
      ∀ c ∈ rest, c.cont = true ∧ c.es = false := by
  unfold splitBlock
  cases L with
  | zero => omega
  | succ n =>
    simp only [splitAux]
    rw [if_neg (by omega)]
    exact ⟨_, _, rfl, by simp, by simp, splitAux_tail _ _ _⟩

end BfeVerif.C38
