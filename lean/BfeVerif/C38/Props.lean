import BfeVerif.C38.Proofs
/-!
  C38 — HTTP/2 responses carry exactly the handler's response.   Property theorems only.

  `runHandler env isHead acts` is the model of a handler that performs `acts` (header additions with raw
  keys, WriteHeader, Write, Flush) on a `responseWriter` and returns; `.out` are the frames written for the
  stream, `.acc` (ghost) the bytes of the `Write` calls that reported success.  The theorems hold for every
  `env` (content sniffing and the clock are arbitrary functions).
-/
namespace BfeVerif.C38
open BfeVerif.Generated.C38

/-- **C38_no_conn_specific**: no HEADERS frame of the response (header block or trailers) carries a field
    named `connection`, `keep-alive`, `proxy-connection`, `transfer-encoding` or `upgrade` (the list is the
    server's own `connHeaders`, regenerated from the source; the filter table `HopHeaders` is regenerated
    too), whatever keys — in whatever letter case — the handler put into its header map and whatever it
    declared as trailers.  (Holds for the code after the fix; the unfixed code's witnesses are in the corpus.) -/
theorem C38_no_conn_specific (env : Env) (isHead : Bool) (acts : List Act) :
    ∀ f ∈ fieldsOf (runHandler env isHead acts).out, f.1 ∉ connHeaders.map lower :=
  (good_run env isHead acts).1.inv.out

/-- **C38_body_exact**: for a non-HEAD request the concatenation of the DATA payloads equals the
    concatenation of the byte strings of the `Write` calls that returned success, in order — for every
    pattern of write sizes, flushes, status and header operations (bufio chunking included). -/
theorem C38_body_exact (env : Env) (acts : List Act) :
    bodyOf (runHandler env false acts).out = (runHandler env false acts).acc := by
  obtain ⟨g, hb, hh⟩ := good_run env false acts
  have := g.get hh
  rw [hb, List.append_nil] at this
  exact this

/-- **C38_head_nobody**: the response to a HEAD request never carries DATA payload. -/
theorem C38_head_nobody (env : Env) (acts : List Act) :
    bodyOf (runHandler env true acts).out = [] := by
  obtain ⟨g, _, hh⟩ := good_run env true acts
  exact g.head hh

/-- Writes for a status that forbids a body are refused (`ErrBodyNotAllowed`), so they never count as
    accepted bytes: with C38_body_exact, a 1xx/204/304 response has no DATA payload. -/
theorem C38_bodyless_refused (env : Env) (s : St) (p : List Nat) (hw : s.wroteHeader = true)
    (hs : bodyAllowed s.status = false) :
    (rwWrite env s p).acc = s.acc ∧ (rwWrite env s p).out = s.out ∧ (rwWrite env s p).buf = s.buf := by
  unfold rwWrite
  simp [hw, hs]

/-! ### END_STREAM: full statement, and why it is only `_partial` for the code as it is -/

/-- full-strength statement: exactly one frame carries END_STREAM and it is the last one. -/
def EndStreamOnce (o : List Frame) : Prop :=
  ∃ pre last, o = pre ++ [last] ∧ last.es = true ∧ ∀ f ∈ pre, f.es = false

def envConst : Env := { sniff := fun _ => [64], now := [64] }

/-- witness: a handler that declares a trailer (`Trailer: X-T1`) and never sets it — the trailers block is
    empty, `writeResHeaders.writeFrame` then writes no frame at all, and END_STREAM is never sent. -/
def witnessActs : List Act := [Act.add sTrailer [88, 45, 84, 49], Act.write [97]]

theorem C38_witness_no_end_stream : ¬ EndStreamOnce (runHandler envConst false witnessActs).out := by
  have h : (runHandler envConst false witnessActs).out.all (fun f => !f.es) = true := by decide
  rintro ⟨pre, last, ho, hl, _⟩
  rw [List.all_eq_true] at h
  have := h last (by rw [ho]; simp)
  rw [hl] at this; cases this

/-- the same response without the trailer declaration ends properly (non-vacuity of `EndStreamOnce`). -/
example : EndStreamOnce (runHandler envConst false [Act.write [97]]).out := by
  refine ⟨(runHandler envConst false [Act.write [97]]).out.take 1, Frame.data [97] true, by decide, rfl, ?_⟩
  decide

/-- non-vacuity of C38_no_conn_specific: the handler sets `connection` / `Keep-Alive` / `UPGRADE` and a normal
    header; the model emits the normal one and none of the others. -/
example : fieldsOf (runHandler envConst false
    [Act.add [99,111,110,110,101,99,116,105,111,110] [120], Act.add [75,101,101,112,45,65,108,105,118,101] [120],
     Act.add [85,80,71,82,65,68,69] [120], Act.add [88,45,65] [118]]).out
    = [(lStatus, [50,48,48]), ([120,45,97], [118]), (lContentType, [64]), (lContentLength, [48]), (lDate, [64])] := by
  decide

end BfeVerif.C38
