import BfeVerif.C38.Shape
/-!
  C38 — HTTP/2 responses carry exactly the handler's response.   Property theorems only.

  `runHandler env isHead acts` is the model of a handler that performs `acts` (header additions with raw
  keys, WriteHeader, Write, Flush) on a `responseWriter` and returns; `.out` are the frames written for the
  stream, `.acc` (ghost) the bytes of the `Write` calls that reported success.  The theorems hold for every
  `env` (content sniffing and the clock are arbitrary functions).
-/
namespace BfeVerif.C38
open BfeVerif.Generated.C38

/-- **C38_no_conn_specific**: no HEADERS frame of the response (header block or trailers) carries a field
    named `connection`, `keep-alive`, `proxy-connection`, `transfer-encoding` or `upgrade` (the list is the
    server's own `connHeaders`, regenerated from the source; the filter table `HopHeaders` is regenerated
    too), whatever keys — in whatever letter case — the handler put into its header map and whatever it
    declared as trailers.  (Holds for the code after the fix; the unfixed code's witnesses are in the corpus.) -/
theorem C38_no_conn_specific (env : Env) (isHead : Bool) (acts : List Act) :
    ∀ f ∈ fieldsOf (runHandler env isHead acts).out, f.1 ∉ connHeaders.map lower :=
  (good_run env isHead acts).1.inv.out

/-- **C38_body_exact**: for a non-HEAD request the concatenation of the DATA payloads equals the
    concatenation of the byte strings of the `Write` calls that returned success, in order — for every
    pattern of write sizes, flushes, status and header operations (bufio chunking included). -/
theorem C38_body_exact (env : Env) (acts : List Act) :
    bodyOf (runHandler env false acts).out = (runHandler env false acts).acc := by
  obtain ⟨g, hb, hh⟩ := good_run env false acts
  have := g.get hh
  rw [hb, List.append_nil] at this
  exact this

/-- **C38_head_nobody**: the response to a HEAD request never carries DATA payload. -/
theorem C38_head_nobody (env : Env) (acts : List Act) :
    bodyOf (runHandler env true acts).out = [] := by
  obtain ⟨g, _, hh⟩ := good_run env true acts
  exact g.head hh

/-- Writes for a status that forbids a body are refused (`ErrBodyNotAllowed`), so they never count as
    accepted bytes: with C38_body_exact, a 1xx/204/304 response has no DATA payload. -/
theorem C38_bodyless_refused (env : Env) (s : St) (p : List Nat) (hw : s.wroteHeader = true)
    (hs : bodyAllowed s.status = false) :
    (rwWrite env s p).acc = s.acc ∧ (rwWrite env s p).out = s.out ∧ (rwWrite env s p).buf = s.buf := by
  unfold rwWrite
  simp [hw, hs]

/-! ### frame sequence and END_STREAM -/

/-- exactly one frame carries END_STREAM and it is the last one. -/
def EndStreamOnce (o : List Frame) : Prop :=
  ∃ pre last, o = pre ++ [last] ∧ last.es = true ∧ ∀ f ∈ pre, f.es = false

/-- **C38_end_stream_once** (full strength, for the code after the `hasNonemptyTrailers` fix): for every handler
    script — any headers, status, writes, flushes, declared / undeclared / unset / invalid trailers, GET or
    HEAD — exactly one frame of the response carries END_STREAM and it is the last frame. -/
theorem C38_end_stream_once (env : Env) (isHead : Bool) (acts : List Act) :
    EndStreamOnce (runHandler env isHead acts).out := by
  rcases final_run env isHead acts with ⟨F, h⟩ | ⟨F, ds, last, h, hds, hl⟩
  · exact ⟨[], _, by rw [h]; rfl, rfl, fun _ hf => by cases hf⟩
  · refine ⟨Frame.headers F false :: ds, last, by rw [h]; rfl, ?_, ?_⟩
    · rcases hl with ⟨p, hp⟩ | ⟨T, hT⟩
      · rw [hp]; rfl
      · rw [hT]; rfl
    · intro f hf
      rcases List.mem_cons.mp hf with hf | hf
      · rw [hf]; rfl
      · obtain ⟨p, hp⟩ := hds f hf; rw [hp]; rfl

/-- **C38_trailers_after_body**: a response is one HEADERS frame, then only DATA frames, then at most one
    more HEADERS frame (the trailers), which ends the stream; nothing follows the trailers. -/
theorem C38_trailers_after_body (env : Env) (isHead : Bool) (acts : List Act) :
    ∃ F e ds tl, (runHandler env isHead acts).out = Frame.headers F e :: (ds ++ tl) ∧
      (∀ d ∈ ds, ∃ p e', d = Frame.data p e') ∧ (tl = [] ∨ ∃ T, tl = [Frame.headers T true]) := by
  rcases final_run env isHead acts with ⟨F, h⟩ | ⟨F, ds, last, h, hds, hl⟩
  · exact ⟨F, true, [], [], by rw [h]; rfl, (fun _ hf => by cases hf), Or.inl rfl⟩
  · rcases hl with ⟨p, hp⟩ | ⟨T, hT⟩
    · refine ⟨F, false, ds ++ [last], [], by rw [h]; simp, ?_, Or.inl rfl⟩
      intro d hd
      rcases List.mem_append.mp hd with hd | hd
      · obtain ⟨q, hq⟩ := hds d hd; exact ⟨q, false, hq⟩
      · rw [List.mem_singleton.mp hd, hp]; exact ⟨p, true, rfl⟩
    · refine ⟨F, false, ds, [last], h, ?_, Or.inr ⟨T, by rw [hT]⟩⟩
      intro d hd
      obtain ⟨q, hq⟩ := hds d hd; exact ⟨q, false, hq⟩

def envConst : Env := { sniff := fun _ => [64], now := [64] }

/-- the former witness of the `no-end-stream` defect (trailer `X-T1` declared, never set): before the fix the
    response had no END_STREAM at all; now the DATA frame carries it. -/
def witnessActs : List Act := [Act.add sTrailer [88, 45, 84, 49], Act.write [97]]

example : ((runHandler envConst false witnessActs).out.map Frame.es) = [false, true] := by decide

/-- a response with real trailers: HEADERS, DATA, trailers(END_STREAM) -/
example : ((runHandler envConst false
    [Act.add sTrailer [88, 45, 84, 49], Act.write [97], Act.flush, Act.add [88, 45, 84, 49] [118]]).out.map Frame.es)
    = [false, false, true] := by decide

/-- non-vacuity of C38_no_conn_specific: the handler sets `connection` / `Keep-Alive` / `UPGRADE` and a normal
    header; the model emits the normal one and none of the others. -/
example : fieldsOf (runHandler envConst false
    [Act.add [99,111,110,110,101,99,116,105,111,110] [120], Act.add [75,101,101,112,45,65,108,105,118,101] [120],
     Act.add [85,80,71,82,65,68,69] [120], Act.add [88,45,65] [118]]).out
    = [(lStatus, [50,48,48]), ([120,45,97], [118]), (lContentType, [64]), (lContentLength, [48]), (lDate, [64])] := by
  decide

end BfeVerif.C38
