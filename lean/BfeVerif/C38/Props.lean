import BfeVerif.C38.Status
/-!
  C38 — HTTP/2 responses carry exactly the handler's response.   Property theorems only.

  `runHandler env isHead acts` is the model of a handler that performs `acts` (header additions with raw
  keys, WriteHeader, Write, Flush) on a `responseWriter` and returns; `.out` are the frames written for the
  stream, `.acc` (ghost) the bytes of the `Write` calls that reported success.  The theorems hold for every
  `env` (content sniffing and the clock are arbitrary functions).
-/
namespace BfeVerif.C38
open BfeVerif.Generated.C38

/-- **C38_no_conn_specific**: no HEADERS frame of the response (header block or trailers) carries a field
    named `connection`, `keep-alive`, `proxy-connection`, `transfer-encoding` or `upgrade` (the list is the
    server's own `connHeaders`, regenerated from the source; the filter table `HopHeaders` is regenerated
    too), whatever keys — in whatever letter case — the handler put into its header map and whatever it
    declared as trailers.  (Holds for the code after the fix; the unfixed code's witnesses are in the corpus.) -/
theorem C38_no_conn_specific (env : Env) (isHead : Bool) (acts : List Act) :
    ∀ f ∈ fieldsOf (runHandler env isHead acts).out, f.1 ∉ connHeaders.map lower :=
  (good_run env isHead acts).1.inv.out

/-- **C38_body_exact**: for a non-HEAD request the concatenation of the DATA payloads equals the
    concatenation of the byte strings of the `Write` calls that returned success, in order — for every
    pattern of write sizes, flushes, status and header operations (bufio chunking included). -/
theorem C38_body_exact (env : Env) (acts : List Act) :
    bodyOf (runHandler env false acts).out = (runHandler env false acts).acc := by
  obtain ⟨g, hb, hh⟩ := good_run env false acts
  have := g.get hh
  rw [hb rfl, List.append_nil] at this
  exact this

/-- **C38_head_nobody**: the response to a HEAD request never carries DATA payload. -/
theorem C38_head_nobody (env : Env) (acts : List Act) :
    bodyOf (runHandler env true acts).out = [] := by
  obtain ⟨g, _, hh⟩ := good_run env true acts
  exact g.head hh

/-- **C38_head_write_contract**: what `Write` reports for a HEAD request — once the bufio.Writer's flush has been the
    call that sent the HEADERS (it then reports 0 bytes written), the error is sticky: every later Write fails with
    io.ErrShortWrite and changes nothing (no frame, no accepted byte). -/
theorem C38_head_write_contract (env : Env) (s : St) (p : List Nat) (hb : s.bwErr = true) :
    (rwWriteHead env s p).wres = s.wres ++ [WRes.shortWrite] ∧ (rwWriteHead env s p).out = s.out ∧
    (rwWriteHead env s p).acc = s.acc := by
  unfold rwWriteHead
  simp [hb]

/-- Writes for a status that forbids a body are refused (`ErrBodyNotAllowed`), so they never count as
    accepted bytes: with C38_body_exact, a 1xx/204/304 response has no DATA payload. -/
theorem C38_bodyless_refused (env : Env) (s : St) (p : List Nat) (hw : s.wroteHeader = true)
    (hs : bodyAllowed s.status = false) :
    (rwWrite env s p).acc = s.acc ∧ (rwWrite env s p).out = s.out ∧ (rwWrite env s p).buf = s.buf := by
  unfold rwWrite
  simp [hw, hs]

def envConst : Env := { sniff := fun _ => [64], now := [64] }

/-! ### status and header fields -/

/-- the header map that reaches the wire: the handler's additions before its first WriteHeader / Write / Flush
    (`hdrAdds`), minus the keys `cloneHeader` filters (canonical form in `HopHeaders`), minus a non-empty
    Content-Length (re-emitted by the server if it is a non-negative integer) -/
def sentSnap (acts : List Act) : HMap := clenSnap (snapAt (hdrAdds [] acts))

/-- **C38_status_headers**: for every handler script the first frame of the response is a HEADERS frame whose
    fields are, in this order: `:status` with the status the handler chose (`statusOf`: its first WriteHeader, 200
    if it wrote or flushed first); then exactly `encodeHeaders` of `sentSnap` — every value of every remaining key,
    keys in byte order and lower-cased, values in the handler's order, dropping only names / values that are not
    valid HTTP/2 field names / values (and `transfer-encoding` ≠ trailers); then only server-added fields named
    content-type, content-length or date. -/
theorem C38_status_headers (env : Env) (isHead : Bool) (acts : List Act) :
    ∃ es rest autos,
      (∀ f ∈ autos, f.1 = lContentType ∨ f.1 = lContentLength ∨ f.1 = lDate) ∧
      (runHandler env isHead acts).out =
        Frame.headers ((lStatus, itoa (statusOf acts)) ::
          (encodeHeaders (sentSnap acts) (sortStrs ((sentSnap acts).map (·.1))) ++ autos)) es :: rest := by
  have h := pa_finish env acts [] { isHead := isHead } ⟨rfl, rfl, rfl, rfl, rfl, rfl⟩
  obtain ⟨_, es, rest, autos, ha, e⟩ := h
  exact ⟨es, rest, autos, ha, e⟩

/-- non-vacuity: two values under one key, a mixed-case key, a hop-by-hop key, status 404 set after the headers -/
example : (runHandler envConst false
    [Act.add [88,45,65] [49], Act.add [120,45,98] [50], Act.add [88,45,65] [51], Act.add [85,112,103,114,97,100,101] [52],
     Act.status 404, Act.add [88,45,67] [53], Act.status 500]).out
    = [Frame.headers [(lStatus, [52,48,52]), ([120,45,97], [49]), ([120,45,97], [51]), ([120,45,98], [50]),
        (lContentType, [64]), (lContentLength, [48]), (lDate, [64])] true] := by decide

/-! ### frame sequence and END_STREAM -/

/-- exactly one frame carries END_STREAM and it is the last one. -/
def EndStreamOnce (o : List Frame) : Prop :=
  ∃ pre last, o = pre ++ [last] ∧ last.es = true ∧ ∀ f ∈ pre, f.es = false

/-- **C38_end_stream_once** (full strength, for the code after the `hasNonemptyTrailers` fix): for every handler
    script — any headers, status, writes, flushes, declared / undeclared / unset / invalid trailers, GET or
    HEAD — exactly one frame of the response carries END_STREAM and it is the last frame. -/
theorem C38_end_stream_once (env : Env) (isHead : Bool) (acts : List Act) :
    EndStreamOnce (runHandler env isHead acts).out := by
  rcases final_run env isHead acts with ⟨F, _, h⟩ | ⟨F, ds, last, h, hds, hl⟩
  · exact ⟨[], _, by rw [h]; rfl, rfl, fun _ hf => by cases hf⟩
  · refine ⟨Frame.headers F false :: ds, last, by rw [h]; rfl, ?_, ?_⟩
    · rcases hl with ⟨p, hp⟩ | ⟨T, _, hT⟩
      · rw [hp]; rfl
      · rw [hT]; rfl
    · intro f hf
      rcases List.mem_cons.mp hf with hf | hf
      · rw [hf]; rfl
      · obtain ⟨p, hp⟩ := hds f hf; rw [hp]; rfl

/-- **C38_trailers_after_body**: a response is one HEADERS frame, then only DATA frames, then at most one
    more HEADERS frame (the trailers), which ends the stream; nothing follows the trailers. -/
theorem C38_trailers_after_body (env : Env) (isHead : Bool) (acts : List Act) :
    ∃ F e ds tl, (runHandler env isHead acts).out = Frame.headers F e :: (ds ++ tl) ∧
      (∀ d ∈ ds, ∃ p e', d = Frame.data p e') ∧ (tl = [] ∨ ∃ T, tl = [Frame.headers T true]) := by
  rcases final_run env isHead acts with ⟨F, _, h⟩ | ⟨F, ds, last, h, hds, hl⟩
  · exact ⟨F, true, [], [], by rw [h]; rfl, (fun _ hf => by cases hf), Or.inl rfl⟩
  · rcases hl with ⟨p, hp⟩ | ⟨T, _, hT⟩
    · refine ⟨F, false, ds ++ [last], [], by rw [h]; simp, ?_, Or.inl rfl⟩
      intro d hd
      rcases List.mem_append.mp hd with hd | hd
      · obtain ⟨q, hq⟩ := hds d hd; exact ⟨q, false, hq⟩
      · rw [List.mem_singleton.mp hd, hp]; exact ⟨p, true, rfl⟩
    · refine ⟨F, false, ds, [last], h, ?_, Or.inr ⟨T, by rw [hT]⟩⟩
      intro d hd
      obtain ⟨q, hq⟩ := hds d hd; exact ⟨q, false, hq⟩

/-! ### on the wire: header blocks larger than one frame -/

/-- **C38_continuation_split**: a header (or trailer) block whose HPACK encoding is `L > 0` bytes long is written as
    one HEADERS frame carrying the block's END_STREAM flag, followed by CONTINUATION frames that never carry
    END_STREAM; END_HEADERS is set on the last frame and only there; every fragment has 1..16384 bytes and the
    fragments add up to `L`.  (Holds for every `L`, i.e. for any number of CONTINUATION frames.) -/
theorem C38_continuation_split (L : Nat) (es : Bool) (hL : 0 < L) :
    (∃ w rest, splitBlock L es = w :: rest ∧ w.cont = false ∧ w.es = es ∧ ∀ c ∈ rest, c.cont = true ∧ c.es = false) ∧
    ehOk (splitBlock L es) = true ∧
    (∀ w ∈ splitBlock L es, 0 < w.len ∧ w.len ≤ 16384) ∧
    ((splitBlock L es).map (·.len)).sum = L :=
  ⟨splitBlock_cons L es hL, splitAux_eh L L true es (Nat.le_refl _), splitAux_len L L true es,
   splitAux_sum L L true es (Nat.le_refl _)⟩

/-- exactly one wire frame carries END_STREAM; nothing but CONTINUATION frames of the same block follows it -/
def WireEndOnce (ws : List Wire) : Prop :=
  ∃ pre w conts, ws = pre ++ [w] ++ conts ∧ w.es = true ∧ (∀ x ∈ pre, x.es = false) ∧
    (∀ c ∈ conts, c.cont = true ∧ c.es = false)

/-- **C38_end_stream_once_wire**: `C38_end_stream_once` on the wire, for every HPACK length function that gives
    non-empty blocks to non-empty field lists — also when header or trailer blocks are split into HEADERS +
    CONTINUATION frames: exactly one frame carries END_STREAM; it is a DATA frame or the HEADERS frame of the last
    block, and only that block's CONTINUATION frames follow it. -/
theorem C38_end_stream_once_wire (env : Env) (encLen : List (Str × Str) → Nat)
    (henc : ∀ F, F ≠ [] → 0 < encLen F) (isHead : Bool) (acts : List Act) :
    WireEndOnce (wireOf encLen (runHandler env isHead acts).out) := by
  rcases final_run env isHead acts with ⟨F, hF, h⟩ | ⟨F, ds, last, h, hds, hl⟩
  · obtain ⟨w, rest, e, _, h2, h3⟩ := splitBlock_cons (encLen F) true (henc F hF)
    refine ⟨[], w, rest, ?_, h2, (fun _ hx => by cases hx), h3⟩
    rw [h]; simp [wireOf, e]
  · have hpre : ∀ f ∈ Frame.headers F false :: ds, f.es = false := by
      intro f hf
      rcases List.mem_cons.mp hf with hf | hf
      · rw [hf]; rfl
      · obtain ⟨p, hp⟩ := hds f hf; rw [hp]; rfl
    have hno := wireOf_noes encLen _ hpre
    have hsplit : (runHandler env isHead acts).out = (Frame.headers F false :: ds) ++ [last] := by rw [h]; rfl
    rw [hsplit, wireOf_append]
    rcases hl with ⟨p, hp⟩ | ⟨T, hT, hl⟩
    · refine ⟨_, { cont := false, es := true, eh := false, len := p.length }, [], ?_, rfl, hno, (fun _ hx => by cases hx)⟩
      rw [hp]; simp [wireOf]
    · obtain ⟨w, rest, e, _, h2, h3⟩ := splitBlock_cons (encLen T) true (henc T hT)
      refine ⟨_, w, rest, ?_, h2, hno, h3⟩
      rw [hl]; simp [wireOf, e]

/-- the former witness of the `no-end-stream` defect (trailer `X-T1` declared, never set): before the fix the
    response had no END_STREAM at all; now the DATA frame carries it. -/
def witnessActs : List Act := [Act.add sTrailer [88, 45, 84, 49], Act.write [97]]

example : ((runHandler envConst false witnessActs).out.map Frame.es) = [false, true] := by decide

/-- a block of 16385 bytes that ends the stream: HEADERS(END_STREAM, 16384 bytes) + CONTINUATION(END_HEADERS, 1 byte) -/
example : splitBlock 16385 true =
    [{ cont := false, es := true, eh := false, len := 16384 }, { cont := true, es := false, eh := true, len := 1 }] := by
  decide

example : splitBlock 16384 true = [{ cont := false, es := true, eh := true, len := 16384 }] := by decide

/-- a response with real trailers: HEADERS, DATA, trailers(END_STREAM) -/
example : ((runHandler envConst false
    [Act.add sTrailer [88, 45, 84, 49], Act.write [97], Act.flush, Act.add [88, 45, 84, 49] [118]]).out.map Frame.es)
    = [false, false, true] := by decide

/-- non-vacuity of C38_no_conn_specific: the handler sets `connection` / `Keep-Alive` / `UPGRADE` and a normal
    header; the model emits the normal one and none of the others. -/
example : fieldsOf (runHandler envConst false
    [Act.add [99,111,110,110,101,99,116,105,111,110] [120], Act.add [75,101,101,112,45,65,108,105,118,101] [120],
     Act.add [85,80,71,82,65,68,69] [120], Act.add [88,45,65] [118]]).out
    = [(lStatus, [50,48,48]), ([120,45,97], [118]), (lContentType, [64]), (lContentLength, [48]), (lDate, [64])] := by
  decide

end BfeVerif.C38
