import BfeVerif.Generated.C38
/-!
  C38 — model of the HTTP/2 response writer of `bfe_http2`
  (`responseWriter.write/Flush/handlerDone`, `responseWriterState.writeHeader/writeChunk/declareTrailer/
  promoteUndeclaredTrailers`, `cloneHeader`, `encodeHeaders`, `writeResHeaders.writeFrame`, and the
  4096-byte `bufio.Writer` between `Write` and `writeChunk`).

  A Go string is the list of its bytes (`Nat`, each < 256).  `http.Header` (a Go map) is an association
  list with unique keys; `encodeHeaders` sorts the keys, so the list order never reaches the output.
  External functions are parameters (`Env`): `http.DetectContentType` and the clock.
-/
namespace BfeVerif.C38
open BfeVerif.Generated.C38

abbrev Str := List Nat

def lowerByte (b : Nat) : Nat := if 65 ≤ b ∧ b ≤ 90 then b + 32 else b
def upperByte (b : Nat) : Nat := if 97 ≤ b ∧ b ≤ 122 then b - 32 else b
/-- `lowerHeader` (ASCII keys). -/
def lower (s : Str) : Str := s.map lowerByte

/-- `isTokenTable` of http2.go / textproto. -/
def isToken (b : Nat) : Bool :=
  (48 ≤ b && b ≤ 57) || (65 ≤ b && b ≤ 90) || (97 ≤ b && b ≤ 122) ||
  b == 33 || b == 35 || b == 36 || b == 37 || b == 38 || b == 39 || b == 42 || b == 43 || b == 45 || b == 46 ||
  b == 94 || b == 95 || b == 96 || b == 124 || b == 126

/-- `validHeaderFieldName`. -/
def validName (s : Str) : Bool :=
  !s.isEmpty && s.all fun b => isToken b && !(65 ≤ b && b ≤ 90)

/-- `validHeaderFieldValue`. -/
def validValue (s : Str) : Bool := s.all fun b => !((b < 32 && b != 9) || b == 127)

def canonAux : Bool → Str → Str
  | _, [] => []
  | up, b :: r => (if up then upperByte b else lowerByte b) :: canonAux (b == 45) r

/-- `http.CanonicalHeaderKey`: canonical MIME capitalisation when every byte is a token byte, else unchanged. -/
def canon (s : Str) : Str := if s.all isToken then canonAux true s else s

/-! ### header maps -/
abbrev HMap := List (Str × List Str)

def hget (h : HMap) (k : Str) : List Str :=
  match h.find? (fun e => e.1 == k) with
  | some e => e.2
  | none => []
def hhas (h : HMap) (k : Str) : Bool := h.any fun e => e.1 == k
def hset (h : HMap) (k : Str) (vv : List Str) : HMap :=
  if hhas h k then h.map (fun e => if e.1 == k then (k, vv) else e) else h ++ [(k, vv)]
/-- `h[k] = append(h[k], v)` -/
def hadd (h : HMap) (k v : Str) : HMap := hset h k (hget h k ++ [v])
def hdel (h : HMap) (k : Str) : HMap := h.filter fun e => !(e.1 == k)
/-- `h[k][0] = v` when the key is present (in place) -/
def hsetFirst (h : HMap) (k v : Str) : HMap :=
  h.map fun e => if e.1 == k then (e.1, match e.2 with | [] => [] | _ :: r => v :: r) else e

/-- byte-wise `<` of Go strings -/
def strLt : Str → Str → Bool
  | [], [] => false
  | [], _ :: _ => true
  | _ :: _, [] => false
  | a :: as, b :: bs => if a < b then true else if b < a then false else strLt as bs

def insertSorted (k : Str) : List Str → List Str
  | [] => [k]
  | x :: r => if strLt x k then x :: insertSorted k r else k :: x :: r
/-- `sort.Sort` of distinct strings -/
def sortStrs (ks : List Str) : List Str := ks.foldr insertSorted []

/-! ### constants -/
def sContentLength : Str := [67, 111, 110, 116, 101, 110, 116, 45, 76, 101, 110, 103, 116, 104]
def sContentType : Str := [67, 111, 110, 116, 101, 110, 116, 45, 84, 121, 112, 101]
def sDate : Str := [68, 97, 116, 101]
def sTrailer : Str := [84, 114, 97, 105, 108, 101, 114]
def sTransferEncoding : Str := [84, 114, 97, 110, 115, 102, 101, 114, 45, 69, 110, 99, 111, 100, 105, 110, 103]
def sTrailerPrefix : Str := [84, 114, 97, 105, 108, 101, 114, 58]          -- "Trailer:"
def lStatus : Str := [58, 115, 116, 97, 116, 117, 115]                      -- ":status"
def lContentType : Str := [99, 111, 110, 116, 101, 110, 116, 45, 116, 121, 112, 101]
def lContentLength : Str := [99, 111, 110, 116, 101, 110, 116, 45, 108, 101, 110, 103, 116, 104]
def lDate : Str := [100, 97, 116, 101]
def lTransferEncoding : Str := [116, 114, 97, 110, 115, 102, 101, 114, 45, 101, 110, 99, 111, 100, 105, 110, 103]
def lTrailers : Str := [116, 114, 97, 105, 108, 101, 114, 115]              -- "trailers"

def isHop (k : Str) : Bool := hopHeaders.contains k

/-- `encodeHeaders(enc, h, keys)` (keys already chosen / sorted by the caller). -/
def encodeHeaders (h : HMap) (keys : List Str) : List (Str × Str) :=
  keys.flatMap fun k =>
    let n := lower k
    if !validName n then []
    else (hget h k).filterMap fun v =>
      if !validValue v then none
      else if n == lTransferEncoding && !(v == lTrailers) then none
      else some (n, v)

/-- `cloneHeader` (after the fix: the key is canonicalised before the `HopHeaders` lookup). -/
def cloneHeader (h : HMap) : HMap := h.filter fun e => !isHop (canon e.1)

/-! ### numbers -/
def isDigit (b : Nat) : Bool := 48 ≤ b && b ≤ 57
def digitsVal (ds : List Nat) : Nat := ds.foldl (fun acc d => acc * 10 + (d - 48)) 0
/-- `strconv.ParseInt(s, 10, 64)` restricted to what `writeChunk` uses: `some n` iff no error and `n ≥ 0`. -/
def parseNonNeg (s : Str) : Option Nat :=
  let (neg, ds) := match s with
    | 43 :: r => (false, r)
    | 45 :: r => (true, r)
    | _ => (false, s)
  if ds.isEmpty || !ds.all isDigit then none
  else
    let n := digitsVal ds
    if neg then (if n == 0 then some 0 else none)
    else if n < 2 ^ 63 then some n else none

def itoa (n : Nat) : Str := (Nat.toDigits 10 n).map Char.toNat

def bodyAllowed (status : Nat) : Bool :=
  !((100 ≤ status && status ≤ 199) || status == 204 || status == 304)

/-! ### trailers declaration -/
def isSpace (b : Nat) : Bool := b == 32 || b == 9 || b == 10 || b == 13
def trimL (s : Str) : Str := s.dropWhile isSpace
def trim (s : Str) : Str := (trimL (trimL s).reverse).reverse
def splitComma (s : Str) : List Str :=
  (s.foldr (fun b acc => if b == 44 then [] :: acc else
      match acc with
      | [] => [[b]]
      | x :: r => (b :: x) :: r) [[]])
/-- elements `foreachHeaderElement` passes to its callback -/
def headerElements (v : Str) : List Str := ((splitComma v).map trim).filter fun f => !f.isEmpty

/-- `declareTrailer` (after the fix: connection-specific names are refused as well). -/
def declareTrailer (trailers : List Str) (k : Str) : List Str :=
  let k := canon k
  if k == sTransferEncoding || k == sContentLength || k == sTrailer then trailers
  else if isHop k then trailers
  else if trailers.contains k then trailers
  else trailers ++ [k]

/-! ### frames and state -/
inductive Frame
  | headers (fields : List (Str × Str)) (es : Bool)
  | data (p : List Nat) (es : Bool)
  deriving Repr, BEq, DecidableEq

def Frame.es : Frame → Bool
  | .headers _ e => e
  | .data _ e => e

/-- result of one `Write` call -/
inductive WRes
  | n (k : Nat) | notAllowed | overLength
  | shortWrite          -- io.ErrShortWrite (sticky error of the bufio.Writer, HEAD only)
  deriving Repr, BEq, DecidableEq

structure Env where
  sniff : List Nat → Str      -- http.DetectContentType
  now : Str                    -- time.Now().UTC().Format(http.TimeFormat)

structure St where
  isHead : Bool
  hh : HMap := []              -- handlerHeader
  snap : HMap := []            -- snapHeader
  trailers : List Str := []
  status : Nat := 0
  wroteHeader : Bool := false
  sentHeader : Bool := false
  handlerDone : Bool := false
  sentContentLen : Nat := 0
  wroteBytes : Nat := 0
  buf : List Nat := []         -- bufio.Writer contents (≤ 4096)
  out : List Frame := []       -- frames written for the stream, in order
  wres : List WRes := []       -- results of the Write calls, in order
  acc : List Nat := []         -- ghost: bytes of the Write calls that returned success
  bwErr : Bool := false        -- the bufio.Writer's sticky error: for a HEAD request the header-sending writeChunk call
                               -- returns 0, which bufio.Writer.Flush turns into io.ErrShortWrite

def bufSize : Nat := 4096

def writeHeader (s : St) (code : Nat) : St :=
  if s.wroteHeader then s
  else { s with wroteHeader := true, status := code,
                snap := if s.hh.length > 0 then cloneHeader s.hh else s.snap }

/-- `promoteUndeclaredTrailers`: iteration over the handler's map in list order (see assumptions). -/
def promote (s : St) : St :=
  let s1 := s.hh.foldl (fun (st : St) e =>
      if sTrailerPrefix.isPrefixOf e.1 then
        let tk := e.1.drop sTrailerPrefix.length
        { st with trailers := declareTrailer st.trailers tk, hh := hset st.hh (canon tk) e.2 }
      else st) s
  if s1.trailers.length > 1 then { s1 with trailers := sortStrs s1.trailers } else s1

/-- a HEADERS frame is written only when the encoded block is non-empty (`for len(headerBlock) > 0`). -/
def emitHeaders (out : List Frame) (fields : List (Str × Str)) (es : Bool) : List Frame :=
  if fields.isEmpty then out else out ++ [Frame.headers fields es]

/-- Content-Length handling of the first `writeChunk` call: the handler's value is removed from the
    snapshot; a non-negative integer is remembered in `sentContentLen` and re-emitted verbatim. -/
def clenPart (s : St) : St × Str :=
  let clen0 := (hget s.snap sContentLength).headD []
  if !clen0.isEmpty then
    let s := { s with snap := hdel s.snap sContentLength }
    match parseNonNeg clen0 with
    | some n => ({ s with sentContentLen := n }, clen0)
    | none => (s, [])
  else (s, clen0)

/-- a server-added field, present when its value is non-empty -/
def optField (n c : Str) : List (Str × Str) := if c.isEmpty then [] else [(n, c)]

/-- the fields of the response HEADERS frame, in wire order -/
def headerFields (env : Env) (s : St) (clen0 : Str) (p : List Nat) : List (Str × Str) :=
  let clen := if clen0.isEmpty && s.handlerDone && bodyAllowed s.status && (p.length > 0 || !s.isHead)
              then itoa p.length else clen0
  let ctype := if !hhas s.snap sContentType && bodyAllowed s.status then env.sniff p else []
  let date := if !hhas s.snap sDate then env.now else []
  [(lStatus, itoa s.status)]
    ++ encodeHeaders s.snap (sortStrs (s.snap.map (·.1)))
    ++ optField lContentType ctype
    ++ optField lContentLength clen
    ++ optField lDate date

/-- first part of `writeChunk`: the response HEADERS (only on the first call).  Returns the new state and
    whether `writeChunk` returns right after it (`endStream`). -/
def headerPart (env : Env) (s : St) (p : List Nat) : St × Bool :=
  if !s.sentHeader then
    let sc := clenPart { s with sentHeader := true }
    let s1 := sc.1
    let s2 := { s1 with trailers := ((hget s1.snap sTrailer).flatMap headerElements).foldl declareTrailer s1.trailers }
    let endStream := (s2.handlerDone && s2.trailers.isEmpty && p.isEmpty) || s2.isHead
    ({ s2 with out := s2.out ++ [Frame.headers (headerFields env s2 sc.2 p) endStream] }, endStream)
  else (s, false)

/-- `hasNonemptyTrailers` (added by the fix): some declared trailer has a value that `encodeHeaders` will emit. -/
def hasNonempty (s : St) : Bool :=
  s.trailers.any fun k => (hget s.hh k).any fun v => validName (lower k) && validValue v

/-- second part of `writeChunk`: DATA and, once the handler is done, the trailers (after the fix: the
    trailers frame is only attempted when its block is non-empty, otherwise END_STREAM goes on the DATA frame). -/
def bodyPart (s : St) (p : List Nat) : St :=
  let s := if s.handlerDone then promote s else s
  let ne := hasNonempty s
  let endStream := s.handlerDone && !ne
  let s := if p.length > 0 || endStream then { s with out := s.out ++ [Frame.data p endStream] } else s
  if s.handlerDone && ne then
    { s with out := emitHeaders s.out (encodeHeaders s.hh s.trailers) true }
  else s

/-- `responseWriterState.writeChunk(p)` on a connection that stays alive. -/
def writeChunk (env : Env) (s0 : St) (p : List Nat) : St :=
  let s := if !s0.wroteHeader then writeHeader s0 200 else s0
  if s.isHead && s.sentHeader then s else
  let r := headerPart env s p
  if r.2 then r.1
  else if r.1.isHead then r.1
  else if p.isEmpty && !r.1.handlerDone then r.1
  else bodyPart r.1 p

/-- `bufio.Writer.Write(p)` in front of `writeChunk` (buffer of 4096 bytes). -/
def bwWrite (env : Env) (s : St) (p : List Nat) : St :=
  if p.length ≤ bufSize - s.buf.length then { s with buf := s.buf ++ p }
  else if s.buf.isEmpty then writeChunk env s p
  else
    let n := bufSize - s.buf.length
    let s1 := writeChunk env { s with buf := [] } (s.buf ++ p.take n)
    let p' := p.drop n
    if p'.length ≤ bufSize then { s1 with buf := p' } else writeChunk env s1 p'

/-- `bufio.Writer.Write(p)` has to flush a non-empty buffer first, and that flush is the call that sends the HEADERS of a
    HEAD response (writeChunk then returns 0 bytes written) -/
def bwShort (s : St) (p : List Nat) : Bool :=
  s.isHead && !s.sentHeader && !s.buf.isEmpty && decide (p.length > bufSize - s.buf.length)

/-- the tail of `responseWriter.write` for a HEAD request: the bufio.Writer's sticky io.ErrShortWrite -/
def rwWriteHead (env : Env) (s : St) (p : List Nat) : St :=
  if s.bwErr then { s with wres := s.wres ++ [WRes.shortWrite] }      -- sticky: bufio returns its error at once
  else if bwShort s p then
    let s1 := bwWrite env s p
    { s1 with bwErr := true, wres := s1.wres ++ [WRes.shortWrite] }
  else
    let s1 := bwWrite env s p
    { s1 with wres := s1.wres ++ [WRes.n p.length], acc := s1.acc ++ p }

/-- `responseWriter.write` -/
def rwWrite (env : Env) (s0 : St) (p : List Nat) : St :=
  let s := if !s0.wroteHeader then writeHeader s0 200 else s0
  if !bodyAllowed s.status then { s with wres := s.wres ++ [WRes.notAllowed] }
  else
    let s := { s with wroteBytes := s.wroteBytes + p.length }
    if s.sentContentLen != 0 && s.wroteBytes > s.sentContentLen then { s with wres := s.wres ++ [WRes.overLength] }
    else if s.isHead then rwWriteHead env s p
    else
      let s := bwWrite env s p
      { s with wres := s.wres ++ [WRes.n p.length], acc := s.acc ++ p }

def rwFlushGet (env : Env) (s : St) : St :=
  if s.buf.length > 0 then writeChunk env { s with buf := [] } s.buf else writeChunk env s []

def rwFlushHead (env : Env) (s : St) : St :=
  if s.buf.length > 0 then
    (if s.bwErr then s
     else if !s.sentHeader then { writeChunk env { s with buf := [] } s.buf with bwErr := true }
     else writeChunk env { s with buf := [] } s.buf)
  else writeChunk env s []

/-- `responseWriter.Flush` (returns nil whatever happens) -/
def rwFlush (env : Env) (s : St) : St :=
  if s.isHead then rwFlushHead env s else rwFlushGet env s

inductive Act
  | add (k v : Str)        -- w.Header()[k] = append(w.Header()[k], v)
  | setFirst (k v : Str)   -- w.Header()[k][0] = v  (in place; the WriteHeader snapshot owns copies of the slices)
  | status (code : Nat)    -- w.WriteHeader(code)
  | write (p : List Nat)   -- w.Write(p)
  | flush                  -- w.Flush()

def step (env : Env) (s : St) : Act → St
  | .add k v => { s with hh := hadd s.hh k v }
  | .setFirst k v => { s with hh := hsetFirst s.hh k v }
  | .status c => writeHeader s c
  | .write p => rwWrite env s p
  | .flush => rwFlush env s

/-- the handler runs its actions and returns (`responseWriter.handlerDone`). -/
def runHandler (env : Env) (isHead : Bool) (acts : List Act) : St :=
  let s := acts.foldl (step env) { isHead := isHead }
  rwFlush env { s with handlerDone := true }

/-! ### the wire frames of a header block (`writeResHeaders.writeFrame`) -/

/-- one HEADERS / CONTINUATION frame on the wire -/
structure Wire where
  cont : Bool      -- CONTINUATION (false = HEADERS)
  es : Bool        -- END_STREAM flag
  eh : Bool        -- END_HEADERS flag
  len : Nat        -- fragment length
  deriving Repr, DecidableEq

def maxFrag : Nat := 16384

/-- the loop `for len(headerBlock) > 0 { … }`: fragments of at most 16384 bytes, the first one as HEADERS with the
    block's END_STREAM flag, the others as CONTINUATION, END_HEADERS on the last (fuel = an upper bound of the rounds) -/
def splitAux : Nat → Nat → Bool → Bool → List Wire
  | 0, _, _, _ => []
  | fuel + 1, rem, first, es =>
    if rem = 0 then []
    else
      let frag := min rem maxFrag
      { cont := !first, es := first && es, eh := rem - frag == 0, len := frag } :: splitAux fuel (rem - frag) false es

/-- wire frames of a header block whose HPACK encoding (external, see C30) is `L` bytes long -/
def splitBlock (L : Nat) (es : Bool) : List Wire := splitAux L L true es

/-- wire view of a response: header blocks split by `splitBlock`, a DATA frame is one frame
    (`cont = false`, `eh = false`); `encLen` = length of the HPACK encoding of a field list -/
def wireOf (encLen : List (Str × Str) → Nat) : List Frame → List Wire
  | [] => []
  | .headers F es :: r => splitBlock (encLen F) es ++ wireOf encLen r
  | .data p es :: r => { cont := false, es := es, eh := false, len := p.length } :: wireOf encLen r

/-! ### what the handler asked for (specification side of C38_status_headers) -/

/-- the status the handler chose: its first WriteHeader, unless a Write or Flush came first (implicit 200) -/
def statusOf : List Act → Nat
  | [] => 200
  | .status c :: _ => c
  | .write _ :: _ => 200
  | .flush :: _ => 200
  | .add _ _ :: r => statusOf r
  | .setFirst _ _ :: r => statusOf r

/-- the handler's header map at the moment the header is fixed: the additions before the first
    WriteHeader / Write / Flush, applied to `m` -/
def hdrAdds (m : HMap) : List Act → HMap
  | .add k v :: r => hdrAdds (hadd m k v) r
  | .setFirst k v :: r => hdrAdds (hsetFirst m k v) r
  | _ => m

/-- the snapshot `writeHeader` takes -/
def snapAt (m : HMap) : HMap := if m.length > 0 then cloneHeader m else []

/-- the snapshot after `writeChunk` took a non-empty Content-Length out of it -/
def clenSnap (m : HMap) : HMap :=
  if !((hget m sContentLength).headD []).isEmpty then hdel m sContentLength else m

def bodyOf : List Frame → List Nat
  | [] => []
  | .data p _ :: r => p ++ bodyOf r
  | .headers _ _ :: r => bodyOf r

def fieldsOf : List Frame → List (Str × Str)
  | [] => []
  | .data _ _ :: r => fieldsOf r
  | .headers f _ :: r => f ++ fieldsOf r

end BfeVerif.C38
