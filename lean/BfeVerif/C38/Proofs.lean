import BfeVerif.C38.Model
/-! Helper lemmas for C38 (core only). -/
namespace BfeVerif.C38
open BfeVerif.Generated.C38

/-! ### bytes, lower / canon -/
theorem lowerByte_upperByte (b : Nat) : lowerByte (upperByte b) = lowerByte b := by
  unfold lowerByte upperByte; split <;> split <;> (try split) <;> omega

theorem lowerByte_idem (b : Nat) : lowerByte (lowerByte b) = lowerByte b := by
  unfold lowerByte; split <;> (try split) <;> omega

theorem lowerByte_dash (b : Nat) : (lowerByte b == 45) = (b == 45) := by
  unfold lowerByte
  split
  · have h1 : ¬ (b + 32 = 45) := by omega
    have h2 : ¬ (b = 45) := by omega
    rw [beq_eq_false_iff_ne.mpr h1, beq_eq_false_iff_ne.mpr h2]
  · rfl

theorem lower_canonAux (up : Bool) (k : Str) : lower (canonAux up k) = lower k := by
  induction k generalizing up with
  | nil => rfl
  | cons b r ih =>
    simp only [canonAux, lower, List.map_cons]
    have := ih (b == 45)
    simp only [lower] at this
    rw [this]
    split
    · rw [lowerByte_upperByte]
    · rw [lowerByte_idem]

theorem upperByte_lowerByte (b : Nat) : upperByte (lowerByte b) = upperByte b := by
  unfold lowerByte upperByte; split <;> split <;> (try split) <;> omega

theorem canonAux_lower (up : Bool) (k : Str) : canonAux up (lower k) = canonAux up k := by
  induction k generalizing up with
  | nil => rfl
  | cons b r ih =>
    simp only [lower, List.map_cons, canonAux]
    have := ih (b == 45)
    simp only [lower] at this
    rw [lowerByte_dash, this]
    split
    · rw [upperByte_lowerByte]
    · rw [lowerByte_idem]

theorem isToken_of_lower (b : Nat) (h : isToken (lowerByte b) = true) : isToken b = true := by
  unfold lowerByte at h
  split at h
  · rename_i hb
    unfold isToken
    have : (65 ≤ b && b ≤ 90) = true := by simp [hb.1, hb.2]
    simp [this]
  · exact h

theorem allToken_of_validName_lower (k : Str) (h : validName (lower k) = true) : k.all isToken = true := by
  unfold validName at h
  simp only [Bool.and_eq_true, List.all_eq_true, lower, List.mem_map] at h
  rw [List.all_eq_true]
  intro b hb
  have := h.2 (lowerByte b) ⟨b, hb, rfl⟩
  exact isToken_of_lower b this.1

/-- lower-cased RFC 7540 8.1.2.2 names (from the server's `connHeaders`) -/
def connLower : List Str := connHeaders.map lower

theorem conn_in_hop : ∀ c ∈ connLower, isHop (canonAux true c) = true := by decide

/-- A key whose lower-case form is a valid field name equal to a connection-specific name is caught by
    the `HopHeaders[CanonicalHeaderKey(k)]` lookup. -/
theorem hop_of_lower (k : Str) (hv : validName (lower k) = true) (hc : lower k ∈ connLower) :
    isHop (canon k) = true := by
  have ht := allToken_of_validName_lower k hv
  unfold canon
  rw [if_pos ht, ← canonAux_lower]
  exact conn_in_hop _ hc

theorem lower_canon (k : Str) : lower (canon k) = lower k := by
  unfold canon; split
  · exact lower_canonAux _ _
  · rfl

/-! ### sorting keeps membership -/
theorem mem_insertSorted (k x : Str) (l : List Str) : x ∈ insertSorted k l → x = k ∨ x ∈ l := by
  induction l with
  | nil => intro h; simp [insertSorted] at h; exact Or.inl h
  | cons y r ih =>
    intro h
    simp only [insertSorted] at h
    split at h
    · rcases List.mem_cons.mp h with h | h
      · exact Or.inr (by simp [h])
      · rcases ih h with h | h
        · exact Or.inl h
        · exact Or.inr (List.mem_cons_of_mem _ h)
    · rcases List.mem_cons.mp h with h | h
      · exact Or.inl h
      · exact Or.inr h

theorem mem_sortStrs (x : Str) (l : List Str) : x ∈ sortStrs l → x ∈ l := by
  induction l with
  | nil => intro h; simpa [sortStrs] using h
  | cons y r ih =>
    intro h
    simp only [sortStrs, List.foldr_cons] at h
    rcases mem_insertSorted _ _ _ h with h | h
    · simp [h]
    · exact List.mem_cons_of_mem _ (ih h)

/-! ### names produced by encodeHeaders -/
theorem mem_encodeHeaders (h : HMap) (keys : List Str) (f : Str × Str) (hf : f ∈ encodeHeaders h keys) :
    ∃ k ∈ keys, f.1 = lower k ∧ validName (lower k) = true := by
  unfold encodeHeaders at hf
  rw [List.mem_flatMap] at hf
  obtain ⟨k, hk, hm⟩ := hf
  refine ⟨k, hk, ?_⟩
  by_cases hv : validName (lower k) = true
  · simp only [hv, Bool.not_true, Bool.false_eq_true, if_false, List.mem_filterMap] at hm
    obtain ⟨v, _, hv2⟩ := hm
    split at hv2
    · cases hv2
    · split at hv2
      · cases hv2
      · cases hv2; exact ⟨rfl, hv⟩
  · simp [hv] at hm

/-! ### the "no connection-specific name" invariant -/
def SnapOK (m : HMap) : Prop := ∀ e ∈ m, isHop (canon e.1) = false
def TrOK (t : List Str) : Prop := ∀ k ∈ t, ∃ k0, k = canon k0 ∧ isHop (canon k0) = false
def OutOK (o : List Frame) : Prop := ∀ f ∈ fieldsOf o, f.1 ∉ connLower

structure Inv (s : St) : Prop where
  snap : SnapOK s.snap
  tr : TrOK s.trailers
  out : OutOK s.out

theorem fieldsOf_append (a b : List Frame) : fieldsOf (a ++ b) = fieldsOf a ++ fieldsOf b := by
  induction a with
  | nil => rfl
  | cons x r ih => cases x <;> simp [fieldsOf, ih]

theorem bodyOf_append (a b : List Frame) : bodyOf (a ++ b) = bodyOf a ++ bodyOf b := by
  induction a with
  | nil => rfl
  | cons x r ih => cases x <;> simp [bodyOf, ih]

theorem snapOK_clone (h : HMap) : SnapOK (cloneHeader h) := by
  intro e he
  unfold cloneHeader at he
  have := (List.mem_filter.mp he).2
  simpa using this

theorem snapOK_hdel (m : HMap) (k : Str) (h : SnapOK m) : SnapOK (hdel m k) := by
  intro e he
  exact h e (List.mem_filter.mp he).1

theorem trOK_declare (t : List Str) (k : Str) (h : TrOK t) : TrOK (declareTrailer t k) := by
  unfold declareTrailer
  simp only []
  by_cases h1 : (canon k == sTransferEncoding || canon k == sContentLength || canon k == sTrailer) = true
  · rw [if_pos h1]; exact h
  · rw [if_neg h1]
    by_cases h2 : isHop (canon k) = true
    · rw [if_pos h2]; exact h
    · rw [if_neg h2]
      by_cases h3 : (t.contains (canon k)) = true
      · rw [if_pos h3]; exact h
      · rw [if_neg h3]
        intro x hx
        rcases List.mem_append.mp hx with hx | hx
        · exact h x hx
        · simp only [List.mem_singleton] at hx
          exact ⟨k, hx, by simpa using h2⟩

theorem trOK_foldl (l : List Str) (t : List Str) (h : TrOK t) : TrOK (l.foldl declareTrailer t) := by
  induction l generalizing t with
  | nil => exact h
  | cons x r ih => exact ih _ (trOK_declare t x h)

theorem trOK_sort (t : List Str) (h : TrOK t) : TrOK (sortStrs t) := fun k hk => h k (mem_sortStrs k t hk)

theorem inv_writeHeader (s : St) (c : Nat) (h : Inv s) : Inv (writeHeader s c) := by
  unfold writeHeader
  split
  · exact h
  · refine ⟨?_, h.tr, h.out⟩
    simp only []
    split
    · exact snapOK_clone _
    · exact h.snap

/-- fields with a valid lower-case name coming from keys that pass the hop filter are not connection-specific -/
theorem enc_snap_ok (m : HMap) (h : SnapOK m) : ∀ f ∈ encodeHeaders m (sortStrs (m.map (·.1))), f.1 ∉ connLower := by
  intro f hf hc
  obtain ⟨k, hk, hn, hv⟩ := mem_encodeHeaders _ _ _ hf
  have hk2 := mem_sortStrs _ _ hk
  obtain ⟨e, he, hek⟩ := List.mem_map.mp hk2
  have h1 := h e he
  rw [hek] at h1
  rw [hn] at hc
  have := hop_of_lower k hv hc
  rw [h1] at this; cases this

theorem enc_tr_ok (m : HMap) (t : List Str) (h : TrOK t) : ∀ f ∈ encodeHeaders m t, f.1 ∉ connLower := by
  intro f hf hc
  obtain ⟨k, hk, hn, hv⟩ := mem_encodeHeaders _ _ _ hf
  obtain ⟨k0, hk0, hh⟩ := h k hk
  rw [hn, hk0, lower_canon] at hc
  rw [hk0, lower_canon] at hv
  have := hop_of_lower k0 hv hc
  rw [hh] at this; cases this

theorem auto_names : lStatus ∉ connLower ∧ lContentType ∉ connLower ∧ lContentLength ∉ connLower ∧ lDate ∉ connLower := by
  decide

/-! promote keeps everything except `hh` and `trailers` -/
def promoteStep (st : St) (e : Str × List Str) : St :=
  if sTrailerPrefix.isPrefixOf e.1 then
    let tk := e.1.drop sTrailerPrefix.length
    { st with trailers := declareTrailer st.trailers tk, hh := hset st.hh (canon tk) e.2 }
  else st

theorem promote_fold_inv (l : HMap) (s : St) :
    let r := l.foldl promoteStep s
    (TrOK s.trailers → TrOK r.trailers) ∧ r.snap = s.snap ∧ r.out = s.out ∧ r.isHead = s.isHead ∧
    r.handlerDone = s.handlerDone ∧ r.buf = s.buf ∧ r.acc = s.acc ∧ r.wres = s.wres := by
  induction l generalizing s with
  | nil => simp
  | cons e r ih =>
    simp only [List.foldl_cons]
    have := ih (promoteStep s e)
    simp only [] at this ⊢
    obtain ⟨h1, h2, h3, h4, h5, h6, h7, h8⟩ := this
    have hs : (TrOK s.trailers → TrOK (promoteStep s e).trailers) ∧ (promoteStep s e).snap = s.snap ∧
        (promoteStep s e).out = s.out ∧ (promoteStep s e).isHead = s.isHead ∧
        (promoteStep s e).handlerDone = s.handlerDone ∧ (promoteStep s e).buf = s.buf ∧
        (promoteStep s e).acc = s.acc ∧ (promoteStep s e).wres = s.wres := by
      unfold promoteStep
      split
      · exact ⟨fun h => trOK_declare _ _ h, rfl, rfl, rfl, rfl, rfl, rfl, rfl⟩
      · exact ⟨id, rfl, rfl, rfl, rfl, rfl, rfl, rfl⟩
    obtain ⟨g1, g2, g3, g4, g5, g6, g7, g8⟩ := hs
    exact ⟨fun h => h1 (g1 h), h2.trans g2, h3.trans g3, h4.trans g4, h5.trans g5, h6.trans g6, h7.trans g7, h8.trans g8⟩

theorem promote_eq (s : St) : promote s =
    (let s1 := s.hh.foldl promoteStep s
     if s1.trailers.length > 1 then { s1 with trailers := sortStrs s1.trailers } else s1) := rfl

theorem promote_props (s : St) :
    (TrOK s.trailers → TrOK (promote s).trailers) ∧ (promote s).snap = s.snap ∧ (promote s).out = s.out ∧
    (promote s).isHead = s.isHead ∧ (promote s).handlerDone = s.handlerDone ∧ (promote s).buf = s.buf ∧
    (promote s).acc = s.acc ∧ (promote s).wres = s.wres := by
  rw [promote_eq]
  obtain ⟨h1, h2, h3, h4, h5, h6, h7, h8⟩ := promote_fold_inv s.hh s
  simp only [] at h1 h2 h3 h4 h5 h6 h7 h8 ⊢
  split
  · exact ⟨fun h => trOK_sort _ (h1 h), h2, h3, h4, h5, h6, h7, h8⟩
  · exact ⟨h1, h2, h3, h4, h5, h6, h7, h8⟩

/-! ### one `writeChunk` call -/

/-- what every serve-side step keeps: no connection-specific name, and the body bookkeeping -/
structure Keeps (s r : St) : Prop where
  inv : Inv s → Inv r
  isHead : r.isHead = s.isHead
  buf : r.buf = s.buf
  acc : r.acc = s.acc
  wres : r.wres = s.wres
  done : r.handlerDone = s.handlerDone

theorem Keeps.refl (s : St) : Keeps s s := ⟨id, rfl, rfl, rfl, rfl, rfl⟩
theorem Keeps.trans {a b c : St} (h1 : Keeps a b) (h2 : Keeps b c) : Keeps a c :=
  ⟨fun h => h2.inv (h1.inv h), h2.isHead.trans h1.isHead, h2.buf.trans h1.buf, h2.acc.trans h1.acc,
   h2.wres.trans h1.wres, h2.done.trans h1.done⟩

theorem keeps_writeHeader (s : St) (c : Nat) : Keeps s (writeHeader s c) ∧ (writeHeader s c).out = s.out := by
  refine ⟨⟨inv_writeHeader s c, ?_, ?_, ?_, ?_, ?_⟩, ?_⟩ <;> (unfold writeHeader; split <;> rfl)

theorem clenPart_props (s : St) :
    (SnapOK s.snap → SnapOK (clenPart s).1.snap) ∧ (clenPart s).1.trailers = s.trailers ∧ (clenPart s).1.out = s.out ∧
    (clenPart s).1.isHead = s.isHead ∧ (clenPart s).1.buf = s.buf ∧ (clenPart s).1.acc = s.acc ∧
    (clenPart s).1.wres = s.wres ∧ (clenPart s).1.handlerDone = s.handlerDone := by
  unfold clenPart
  simp only []
  split
  · split
    · exact ⟨snapOK_hdel _ _, rfl, rfl, rfl, rfl, rfl, rfl, rfl⟩
    · exact ⟨snapOK_hdel _ _, rfl, rfl, rfl, rfl, rfl, rfl, rfl⟩
  · exact ⟨id, rfl, rfl, rfl, rfl, rfl, rfl, rfl⟩

theorem mem_opt (n c : Str) (f : Str × Str) (h : f ∈ optField n c) : f.1 = n := by
  unfold optField at h
  split at h
  · cases h
  · rw [List.mem_singleton.mp h]

theorem headerFields_ok (env : Env) (s : St) (c : Str) (p : List Nat) (h : SnapOK s.snap) :
    ∀ f ∈ headerFields env s c p, f.1 ∉ connLower := by
  intro f hf
  unfold headerFields at hf
  simp only [List.mem_append, List.mem_singleton] at hf
  obtain ⟨a1, a2, a3, a4⟩ := auto_names
  rcases hf with (((hf | hf) | hf) | hf) | hf
  · rw [hf]; exact a1
  · exact enc_snap_ok _ h f hf
  · rw [mem_opt _ _ f hf]; exact a2
  · rw [mem_opt _ _ f hf]; exact a3
  · rw [mem_opt _ _ f hf]; exact a4

theorem headerPart_props (env : Env) (s : St) (p : List Nat) :
    Keeps s (headerPart env s p).1 ∧ bodyOf (headerPart env s p).1.out = bodyOf s.out ∧
    ((headerPart env s p).2 = true → s.isHead = true ∨ p = []) := by
  unfold headerPart
  split
  · obtain ⟨c1, c2, c3, c4, c5, c6, c7, c8⟩ := clenPart_props { s with sentHeader := true }
    simp only [] at c1 c2 c3 c4 c5 c6 c7 c8 ⊢
    refine ⟨⟨?_, c4, c5, c6, c7, c8⟩, ?_, ?_⟩
    · intro hi
      have hs := c1 hi.snap
      have ht : TrOK (((hget (clenPart { s with sentHeader := true }).1.snap sTrailer).flatMap headerElements).foldl
          declareTrailer (clenPart { s with sentHeader := true }).1.trailers) := by
        apply trOK_foldl; rw [c2]; exact hi.tr
      refine ⟨hs, ht, ?_⟩
      intro f hf
      simp only [fieldsOf_append, List.mem_append, fieldsOf, List.append_nil] at hf
      rcases hf with hf | hf
      · rw [c3] at hf; exact hi.out f hf
      · exact headerFields_ok env _ _ p hs f hf
    · simp only [bodyOf_append, bodyOf, List.append_nil, c3]
    · intro he
      simp only [Bool.or_eq_true, Bool.and_eq_true, List.isEmpty_iff] at he
      rcases he with he | he
      · exact Or.inr he.2
      · rw [c4] at he; exact Or.inl he
  · exact ⟨Keeps.refl s, rfl, fun h => by cases h⟩

theorem emitHeaders_fields (o : List Frame) (fs : List (Str × Str)) (e : Bool) :
    fieldsOf (emitHeaders o fs e) = fieldsOf o ++ fs ∧ bodyOf (emitHeaders o fs e) = bodyOf o := by
  unfold emitHeaders
  split
  · rename_i h; rw [List.isEmpty_iff.mp h]; simp
  · simp [fieldsOf_append, bodyOf_append, fieldsOf, bodyOf]

theorem bodyPart_props (s : St) (p : List Nat) :
    Keeps s (bodyPart s p) ∧ bodyOf (bodyPart s p).out = bodyOf s.out ++ p := by
  obtain ⟨q1, q2, q3, q4, q5, q6, q7, q8⟩ := promote_props s
  unfold bodyPart
  -- the state after the optional promotion
  generalize hs1 : (if s.handlerDone then promote s else s) = s1
  have k1 : (TrOK s.trailers → TrOK s1.trailers) ∧ s1.snap = s.snap ∧ s1.out = s.out ∧ s1.isHead = s.isHead ∧
      s1.handlerDone = s.handlerDone ∧ s1.buf = s.buf ∧ s1.acc = s.acc ∧ s1.wres = s.wres := by
    rw [← hs1]; split
    · exact ⟨q1, q2, q3, q4, q5, q6, q7, q8⟩
    · exact ⟨id, rfl, rfl, rfl, rfl, rfl, rfl, rfl⟩
  obtain ⟨r1, r2, r3, r4, r5, r6, r7, r8⟩ := k1
  simp only []
  generalize hs2 : (if (decide (p.length > 0) || (s1.handlerDone && !hasNonempty s1)) = true then
      { s1 with out := s1.out ++ [Frame.data p (s1.handlerDone && !hasNonempty s1)] } else s1) = s2
  have k2 : s2.trailers = s1.trailers ∧ s2.snap = s1.snap ∧ s2.isHead = s1.isHead ∧ s2.handlerDone = s1.handlerDone ∧
      s2.buf = s1.buf ∧ s2.acc = s1.acc ∧ s2.wres = s1.wres ∧ fieldsOf s2.out = fieldsOf s1.out ∧
      bodyOf s2.out = bodyOf s1.out ++ p ∧ s2.hh = s1.hh := by
    rw [← hs2]; split
    · simp [fieldsOf_append, bodyOf_append, fieldsOf, bodyOf]
    · rename_i hn
      have : p = [] := by
        cases p with
        | nil => rfl
        | cons a b => simp at hn
      simp [this]
  obtain ⟨t1, t2, t3, t4, t5, t6, t7, t8, t9, _⟩ := k2
  split
  · obtain ⟨e1, e2⟩ := emitHeaders_fields s2.out (encodeHeaders s2.hh s2.trailers) true
    refine ⟨⟨?_, t3.trans r4, t5.trans r6, t6.trans r7, t7.trans r8, t4.trans r5⟩, ?_⟩
    · intro hi
      have htr : TrOK s2.trailers := by rw [t1]; exact r1 hi.tr
      refine ⟨by simp only []; rw [t2, r2]; exact hi.snap, htr, ?_⟩
      intro f hf
      simp only [] at hf
      rw [e1, List.mem_append] at hf
      rcases hf with hf | hf
      · rw [t8, r3] at hf; exact hi.out f hf
      · exact enc_tr_ok _ _ htr f hf
    · simp only []; rw [e2, t9, r3]
  · refine ⟨⟨?_, t3.trans r4, t5.trans r6, t6.trans r7, t7.trans r8, t4.trans r5⟩, ?_⟩
    · intro hi
      refine ⟨by rw [t2, r2]; exact hi.snap, by rw [t1]; exact r1 hi.tr, ?_⟩
      intro f hf
      rw [t8, r3] at hf; exact hi.out f hf
    · rw [t9, r3]

theorem writeChunk_props (env : Env) (s : St) (p : List Nat) :
    Keeps s (writeChunk env s p) ∧
    (s.isHead = false → bodyOf (writeChunk env s p).out = bodyOf s.out ++ p) ∧
    (s.isHead = true → bodyOf (writeChunk env s p).out = bodyOf s.out) := by
  unfold writeChunk
  generalize hs1 : (if (!s.wroteHeader) = true then writeHeader s 200 else s) = s1
  have k1 : Keeps s s1 ∧ s1.out = s.out := by
    rw [← hs1]; split
    · exact keeps_writeHeader s 200
    · exact ⟨Keeps.refl s, rfl⟩
  obtain ⟨ka, kb⟩ := k1
  simp only []
  split
  · rename_i hh
    simp only [Bool.and_eq_true] at hh
    refine ⟨ka, fun h => ?_, fun _ => by rw [kb]⟩
    rw [ka.isHead, h] at hh; cases hh.1
  · obtain ⟨h1, h2, h3⟩ := headerPart_props env s1 p
    have kh := ka.trans h1
    split
    · rename_i hstop
      refine ⟨kh, fun h => ?_, fun _ => by rw [h2, kb]⟩
      rcases h3 hstop with h' | h'
      · rw [ka.isHead, h] at h'; cases h'
      · rw [h2, kb, h']; simp
    · split
      · rename_i hhd
        refine ⟨kh, fun h => ?_, fun _ => by rw [h2, kb]⟩
        rw [kh.isHead, h] at hhd; cases hhd
      · rename_i hnh
        split
        · rename_i he
          simp only [Bool.and_eq_true, List.isEmpty_iff] at he
          refine ⟨kh, fun _ => by rw [h2, kb, he.1]; simp, fun _ => by rw [h2, kb]⟩
        · obtain ⟨b1, b2⟩ := bodyPart_props (headerPart env s1 p).1 p
          refine ⟨kh.trans b1, fun _ => by rw [b2, h2, kb], fun h => ?_⟩
          rw [kh.isHead, h] at hnh; exact absurd rfl hnh

/-! ### the running invariant of a handler run -/

/-- the running invariant: no connection-specific field name was emitted or can be emitted, and the DATA
    payloads written so far plus the bufio buffer are exactly the accepted bytes (GET) / nothing (HEAD). -/
structure Good (s : St) : Prop where
  inv : Inv s
  get : s.isHead = false → bodyOf s.out ++ s.buf = s.acc
  head : s.isHead = true → bodyOf s.out = []

theorem inv_setBuf (s : St) (b : List Nat) (h : Inv s) : Inv { s with buf := b } := ⟨h.snap, h.tr, h.out⟩

theorem good_bwWrite (env : Env) (s : St) (p : List Nat) (hg : Good s) :
    Inv (bwWrite env s p) ∧ (bwWrite env s p).isHead = s.isHead ∧
    (s.isHead = false → bodyOf (bwWrite env s p).out ++ (bwWrite env s p).buf = s.acc ++ p) ∧
    (s.isHead = true → bodyOf (bwWrite env s p).out = []) ∧
    (bwWrite env s p).acc = s.acc ∧ (bwWrite env s p).wres = s.wres := by
  unfold bwWrite
  split
  · refine ⟨inv_setBuf s _ hg.inv, rfl, fun h => ?_, hg.head, rfl, rfl⟩
    simp only []; rw [← List.append_assoc, hg.get h]
  · split
    · rename_i hb
      have hb' : s.buf = [] := List.isEmpty_iff.mp hb
      obtain ⟨k, g, hd⟩ := writeChunk_props env s p
      refine ⟨k.inv hg.inv, k.isHead, fun h => ?_, fun h => by rw [hd h]; exact hg.head h, k.acc, k.wres⟩
      have := hg.get h
      rw [hb', List.append_nil] at this
      rw [g h, k.buf, hb', List.append_nil, this]
    · simp only []
      obtain ⟨k, g, hd⟩ := writeChunk_props env { s with buf := [] } (s.buf ++ p.take (bufSize - s.buf.length))
      have hi1 := k.inv (inv_setBuf s [] hg.inv)
      have e1 : ∀ h : s.isHead = false,
          bodyOf (writeChunk env { s with buf := [] } (s.buf ++ p.take (bufSize - s.buf.length))).out =
            s.acc ++ p.take (bufSize - s.buf.length) := by
        intro h
        rw [g h]; simp only []; rw [← List.append_assoc, hg.get h]
      split
      · refine ⟨inv_setBuf _ _ hi1, k.isHead, fun h => ?_, fun h => by simp only []; rw [hd h]; exact hg.head h, k.acc, k.wres⟩
        simp only []
        rw [e1 h, List.append_assoc, List.take_append_drop]
      · obtain ⟨k2, g2, hd2⟩ := writeChunk_props env
          (writeChunk env { s with buf := [] } (s.buf ++ p.take (bufSize - s.buf.length))) (p.drop (bufSize - s.buf.length))
        refine ⟨k2.inv hi1, k2.isHead.trans k.isHead, fun h => ?_, fun h => ?_, k2.acc.trans k.acc, k2.wres.trans k.wres⟩
        · have hh : (writeChunk env { s with buf := [] } (s.buf ++ p.take (bufSize - s.buf.length))).isHead = false := by
            rw [k.isHead]; exact h
          rw [g2 hh, e1 h, k2.buf, k.buf]
          simp only [List.append_nil]
          rw [List.append_assoc, List.take_append_drop]
        · have hh : (writeChunk env { s with buf := [] } (s.buf ++ p.take (bufSize - s.buf.length))).isHead = true := by
            rw [k.isHead]; exact h
          rw [hd2 hh, hd h]; exact hg.head h

theorem good_writeHeader (s : St) (c : Nat) (hg : Good s) : Good (writeHeader s c) := by
  obtain ⟨k, ho⟩ := keeps_writeHeader s c
  refine ⟨k.inv hg.inv, fun h => ?_, fun h => ?_⟩
  · rw [ho, k.buf, k.acc]; exact hg.get (k.isHead ▸ h)
  · rw [ho]; exact hg.head (k.isHead ▸ h)

theorem good_head_of (r : St) (k : Inv r) (hi : r.isHead = true) (hb : bodyOf r.out = []) : Good r :=
  ⟨k, (fun h => by rw [hi] at h; cases h), fun _ => hb⟩

theorem good_rwWriteHead (env : Env) (s : St) (p : List Nat) (hg : Good s) (hh : s.isHead = true) :
    Good (rwWriteHead env s p) ∧ (rwWriteHead env s p).isHead = true := by
  obtain ⟨b1, b2, _, b4, _, _⟩ := good_bwWrite env s p hg
  have hi : (bwWrite env s p).isHead = true := b2.trans hh
  unfold rwWriteHead
  split
  · exact ⟨good_head_of _ ⟨hg.inv.snap, hg.inv.tr, hg.inv.out⟩ hh (hg.head hh), hh⟩
  · split
    · exact ⟨good_head_of _ ⟨b1.snap, b1.tr, b1.out⟩ hi (b4 hh), hi⟩
    · exact ⟨good_head_of _ ⟨b1.snap, b1.tr, b1.out⟩ hi (b4 hh), hi⟩

theorem good_rwWrite (env : Env) (s : St) (p : List Nat) (hg : Good s) : Good (rwWrite env s p) := by
  unfold rwWrite
  generalize hs1 : (if (!s.wroteHeader) = true then writeHeader s 200 else s) = s1
  have g1 : Good s1 := by
    rw [← hs1]; split
    · exact good_writeHeader s 200 hg
    · exact hg
  simp only []
  split
  · exact ⟨⟨g1.inv.snap, g1.inv.tr, g1.inv.out⟩, g1.get, g1.head⟩
  · split
    · exact ⟨⟨g1.inv.snap, g1.inv.tr, g1.inv.out⟩, g1.get, g1.head⟩
    · have g2 : Good { s1 with wroteBytes := s1.wroteBytes + p.length } :=
        ⟨⟨g1.inv.snap, g1.inv.tr, g1.inv.out⟩, g1.get, g1.head⟩
      split
      · rename_i hh
        exact (good_rwWriteHead env _ p g2 hh).1
      · obtain ⟨b1, b2, b3, b4, b5, _⟩ := good_bwWrite env _ p g2
        refine ⟨⟨b1.snap, b1.tr, b1.out⟩, fun h => ?_, fun h => ?_⟩
        · simp only [] at h ⊢
          rw [b3 (b2 ▸ h), b5]
        · simp only [] at h ⊢
          exact b4 (b2 ▸ h)

theorem good_rwFlushGet (env : Env) (s : St) (hg : Good s) :
    Good (rwFlushGet env s) ∧ (rwFlushGet env s).buf = [] ∧ (rwFlushGet env s).acc = s.acc ∧ (rwFlushGet env s).isHead = s.isHead := by
  unfold rwFlushGet
  split
  · obtain ⟨k, g, hd⟩ := writeChunk_props env { s with buf := [] } s.buf
    refine ⟨⟨k.inv (inv_setBuf s [] hg.inv), fun h => ?_, fun h => ?_⟩, k.buf, k.acc, k.isHead⟩
    · rw [g (k.isHead ▸ h), k.buf, k.acc]; simp only [List.append_nil]; exact hg.get (k.isHead ▸ h)
    · rw [hd (k.isHead ▸ h)]; exact hg.head (k.isHead ▸ h)
  · rename_i hb
    have hb' : s.buf = [] := by
      cases hs : s.buf with
      | nil => rfl
      | cons a r => rw [hs] at hb; simp at hb
    obtain ⟨k, g, hd⟩ := writeChunk_props env s []
    refine ⟨⟨k.inv hg.inv, fun h => ?_, fun h => ?_⟩, k.buf.trans hb', k.acc, k.isHead⟩
    · rw [g (k.isHead ▸ h), k.buf, k.acc]; simp only [List.append_nil]
      have := hg.get (k.isHead ▸ h); rw [hb', List.append_nil] at this; rw [this, hb', List.append_nil]
    · rw [hd (k.isHead ▸ h)]; exact hg.head (k.isHead ▸ h)

theorem good_rwFlushHead (env : Env) (s : St) (hg : Good s) (hh : s.isHead = true) :
    Good (rwFlushHead env s) ∧ (rwFlushHead env s).acc = s.acc ∧ (rwFlushHead env s).isHead = true := by
  unfold rwFlushHead
  split
  · split
    · exact ⟨hg, rfl, hh⟩
    · obtain ⟨k, _, hd⟩ := writeChunk_props env { s with buf := [] } s.buf
      have ki := k.inv (inv_setBuf s [] hg.inv)
      have hi : (writeChunk env { s with buf := [] } s.buf).isHead = true := k.isHead.trans hh
      have hb := (hd hh).trans (hg.head hh)
      split
      · exact ⟨good_head_of _ ⟨ki.snap, ki.tr, ki.out⟩ hi hb, k.acc, hi⟩
      · exact ⟨good_head_of _ ki hi hb, k.acc, hi⟩
  · obtain ⟨k, _, hd⟩ := writeChunk_props env s []
    have hi : (writeChunk env s []).isHead = true := k.isHead.trans hh
    exact ⟨good_head_of _ (k.inv hg.inv) hi ((hd hh).trans (hg.head hh)), k.acc, hi⟩

theorem good_rwFlush (env : Env) (s : St) (hg : Good s) :
    Good (rwFlush env s) ∧ (s.isHead = false → (rwFlush env s).buf = []) ∧ (rwFlush env s).acc = s.acc ∧
    (rwFlush env s).isHead = s.isHead := by
  unfold rwFlush
  split
  · rename_i hh
    obtain ⟨a, b, c⟩ := good_rwFlushHead env s hg hh
    exact ⟨a, (fun h => by rw [hh] at h; cases h), b, c.trans hh.symm⟩
  · obtain ⟨a, b, c, d⟩ := good_rwFlushGet env s hg
    exact ⟨a, fun _ => b, c, d⟩

theorem good_step (env : Env) (s : St) (a : Act) (hg : Good s) : Good (step env s a) := by
  cases a with
  | add k v => exact ⟨⟨hg.inv.snap, hg.inv.tr, hg.inv.out⟩, hg.get, hg.head⟩
  | setFirst k v => exact ⟨⟨hg.inv.snap, hg.inv.tr, hg.inv.out⟩, hg.get, hg.head⟩
  | status c => exact good_writeHeader s c hg
  | write p => exact good_rwWrite env s p hg
  | flush => exact (good_rwFlush env s hg).1

theorem bwWrite_isHead (env : Env) (s : St) (p : List Nat) : (bwWrite env s p).isHead = s.isHead := by
  unfold bwWrite
  split
  · rfl
  · split
    · exact (writeChunk_props env _ p).1.isHead
    · simp only []
      split
      · exact (writeChunk_props env _ _).1.isHead
      · exact ((writeChunk_props env _ _).1.isHead).trans ((writeChunk_props env _ _).1.isHead)

theorem rwFlush_isHead (env : Env) (s : St) : (rwFlush env s).isHead = s.isHead := by
  unfold rwFlush rwFlushHead rwFlushGet
  split
  · split
    · split
      · rfl
      · split
        · exact (writeChunk_props env _ _).1.isHead
        · exact (writeChunk_props env _ _).1.isHead
    · exact (writeChunk_props env _ _).1.isHead
  · split
    · exact (writeChunk_props env _ _).1.isHead
    · exact (writeChunk_props env _ _).1.isHead

theorem step_isHead (env : Env) (s : St) (a : Act) : (step env s a).isHead = s.isHead := by
  cases a with
  | add k v => rfl
  | setFirst k v => rfl
  | status c => exact (keeps_writeHeader s c).1.isHead
  | write p =>
    simp only [step, rwWrite]
    generalize hs1 : (if (!s.wroteHeader) = true then writeHeader s 200 else s) = s1
    have e1 : s1.isHead = s.isHead := by
      rw [← hs1]; split
      · exact (keeps_writeHeader s 200).1.isHead
      · rfl
    split
    · exact e1
    · split
      · exact e1
      · split
        · unfold rwWriteHead
          split
          · exact e1
          · split
            · exact (bwWrite_isHead env _ p).trans e1
            · exact (bwWrite_isHead env _ p).trans e1
        · exact (bwWrite_isHead env _ p).trans e1
  | flush => exact rwFlush_isHead env s

theorem good_foldl (env : Env) (acts : List Act) (s : St) (hg : Good s) :
    Good (acts.foldl (step env) s) ∧ (acts.foldl (step env) s).isHead = s.isHead := by
  induction acts generalizing s with
  | nil => exact ⟨hg, rfl⟩
  | cons a r ih =>
    obtain ⟨h1, h2⟩ := ih (step env s a) (good_step env s a hg)
    exact ⟨h1, h2.trans (step_isHead env s a)⟩

theorem good_init (isHead : Bool) : Good { isHead := isHead } := by
  refine ⟨⟨?_, ?_, ?_⟩, fun _ => rfl, fun _ => rfl⟩
  · intro e he; cases he
  · intro k hk; cases hk
  · intro f hf; cases hf

theorem good_run (env : Env) (isHead : Bool) (acts : List Act) :
    Good (runHandler env isHead acts) ∧ (isHead = false → (runHandler env isHead acts).buf = []) ∧
    (runHandler env isHead acts).isHead = isHead := by
  unfold runHandler
  obtain ⟨h1, h2⟩ := good_foldl env acts { isHead := isHead } (good_init isHead)
  have h3 : Good { acts.foldl (step env) { isHead := isHead } with handlerDone := true } :=
    ⟨⟨h1.inv.snap, h1.inv.tr, h1.inv.out⟩, h1.get, h1.head⟩
  obtain ⟨f1, f2, _, f4⟩ := good_rwFlush env _ h3
  exact ⟨f1, fun h => f2 (by simp only []; rw [h2]; exact h), f4.trans h2⟩

end BfeVerif.C38
