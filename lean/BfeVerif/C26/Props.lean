import BfeVerif.C26.Oracle
/-!
  C26 — hop-by-hop headers are not forwarded.  Property theorems only.  (Model = the code after fix
  C26-connection-tokens; `hopRemoveOld` is the loop before it.)
  Header maps are as the frontends build them: keys in canonical form (so `Header.Get/Del` of the loop
  are exact lookups), pairwise distinct.  `forwarded h` = the client fields `Request.write` emits after
  `hopByHopHeaderRemove`; tables `hopHeaders` / `reqWriteExclude` are regenerated from the source.
-/
namespace BfeVerif.C26
open BfeVerif.C25

/-- The property at full strength, as the executable oracle the driver applies to the real output:
    for every header map a frontend can build (distinct keys, each a token in canonical form), the
    case-insensitive judgement finds no listed hop-by-hop field, no TE other than `trailers`, and no field
    named by a token of the Connection header among the forwarded fields. -/
def C26_full : Prop :=
  ∀ h : Hdr, (h.map (·.1)).Nodup → keysCanon h = true → violation h (forwarded h) = none

/-- **C26, full strength (after the fix)**: the oracle itself holds — names are compared ignoring case, Connection
    tokens are taken from every value, split at commas, trimmed and lower-cased exactly as the oracle does. -/
theorem C26_full_holds : C26_full :=
  fun h hd hk => oracle_none h (canon_of h hd hk)

/-- **C26 (after the fix), core statement**: a forwarded field never carries a name that is in
    `bfe_basic.HopHeaders` or that is (the canonical form of) a token of the client's `Connection`
    header — the only exception being the single field `Te: trailers`.  For every header map with
    distinct keys (a Go map), whatever the values (empty first values, several values, any case of the
    tokens, optional whitespace). -/
theorem C26_hop_and_connection_tokens (h : Hdr) (hd : (h.map (·.1)).Nodup) :
    ∀ f ∈ forwarded h, f.1 ∈ hopList BfeVerif.Generated.C26.hopHeaders h →
      f.1 = kTe ∧ lookup h kTe = [sTrailers] :=
  hop_core h hd

/-- the listed names are in the regenerated table, hence covered by the theorem above -/
theorem C26_table_covers :
    kConnection ∈ BfeVerif.Generated.C26.hopHeaders ∧ kKeepAlive ∈ BfeVerif.Generated.C26.hopHeaders ∧
    kProxyAuthenticate ∈ BfeVerif.Generated.C26.hopHeaders ∧ kProxyAuthorization ∈ BfeVerif.Generated.C26.hopHeaders ∧
    kTe ∈ BfeVerif.Generated.C26.hopHeaders ∧ kTransferEncoding ∈ BfeVerif.Generated.C26.hopHeaders ∧
    kUpgrade ∈ BfeVerif.Generated.C26.hopHeaders := by decide

/-- **Listed hop-by-hop fields**: none of Connection, Keep-Alive, Proxy-Authenticate, Proxy-Authorization,
    Upgrade is forwarded, and Te only as the single field `Te: trailers`. -/
theorem C26_listed (h : Hdr) (hd : (h.map (·.1)).Nodup) :
    ∀ f ∈ forwarded h,
      f.1 ≠ kConnection ∧ f.1 ≠ kKeepAlive ∧ f.1 ≠ kProxyAuthenticate ∧ f.1 ≠ kProxyAuthorization ∧
      f.1 ≠ kUpgrade ∧ (f.1 = kTe → lookup h kTe = [sTrailers]) := by
  intro f hf
  have key := C26_hop_and_connection_tokens h hd f hf
  have cov := C26_table_covers
  have inHop : ∀ k, k ∈ BfeVerif.Generated.C26.hopHeaders → f.1 = k → f.1 = kTe ∧ lookup h kTe = [sTrailers] := by
    intro k hk e
    apply key
    rw [e]
    exact List.mem_append.mpr (Or.inl hk)
  refine ⟨?_, ?_, ?_, ?_, ?_, ?_⟩
  · intro e; have := (inHop _ cov.1 e).1; rw [e] at this; exact absurd this (by decide)
  · intro e; have := (inHop _ cov.2.1 e).1; rw [e] at this; exact absurd this (by decide)
  · intro e; have := (inHop _ cov.2.2.1 e).1; rw [e] at this; exact absurd this (by decide)
  · intro e; have := (inHop _ cov.2.2.2.1 e).1; rw [e] at this; exact absurd this (by decide)
  · intro e; have := (inHop _ cov.2.2.2.2.2.2 e).1; rw [e] at this; exact absurd this (by decide)
  · intro e; exact (inHop _ cov.2.2.2.2.1 e).2

/-- **Fields named by the Connection header**: no forwarded field is named by (the canonical form of) a
    token of `Connection`, except `Te: trailers`. -/
theorem C26_connection_tokens (h : Hdr) (hd : (h.map (·.1)).Nodup) :
    ∀ f ∈ forwarded h, f.1 ∈ connNames h → f.1 = kTe ∧ lookup h kTe = [sTrailers] := by
  intro f hf hk
  exact C26_hop_and_connection_tokens h hd f hf (List.mem_append.mpr (Or.inr hk))

/-- **Transfer-Encoding and Trailer never come from the client** (whatever their values):
    the write exclusion table drops them. (`HopHeaders` says "Trailers", which is not the field name.) -/
theorem C26_excluded_never (h : Hdr) :
    ∀ f ∈ forwarded h, f.1 ≠ kTransferEncoding ∧ f.1 ≠ kTrailer := by
  intro f hf
  obtain ⟨_, _, _, hex⟩ := mem_outFields hf
  constructor
  · intro e; rw [e] at hex; exact absurd hex (by decide)
  · intro e; rw [e] at hex; exact absurd hex (by decide)

/-- nothing is invented: every forwarded field is a field of the client's map -/
theorem C26_only_removes (h : Hdr) : ∀ f ∈ forwarded h, ∃ vs, (f.1, vs) ∈ h := by
  intro f hf
  obtain ⟨vs, hm, _, _⟩ := mem_outFields hf
  exact ⟨vs, foldl_hopStep_subset _ hm⟩

/-- **C26 from the wire**: for ANY list of field lines with token names (any case, the same name on several lines,
    Connection on several lines, bodies framed by Content-Length or chunked, Trailer, Pragma), the header map the read
    path leaves (`wireHeader`, model of ReadRequest's grouping and of readTransfer's deletions) satisfies the oracle
    after `hopByHopHeaderRemove`: no listed hop-by-hop field, no TE but `trailers`, no field named by a Connection token. -/
theorem C26_wire_full (wf : List (Bytes × Bytes)) (ht : ∀ f ∈ wf, isToken f.1 = true)
    (h : Hdr) (fr : Framing) (hw : wireHeader wf = some (h, fr)) : violation h (forwarded h) = none :=
  oracle_none h (wireHeader_canon wf ht h fr hw)

/-! ### the three inputs the code BEFORE the fix let through (kept in corpus/C26): now judged clean,
    and shown to violate the property under the old loop -/
def wConnToken : Hdr := [(kConnection, [[120, 45, 102, 111, 111]]), ([88, 45, 70, 111, 111], [[49]])]   -- Connection: x-foo / X-Foo: 1
def wEmptyFirst : Hdr := [(kConnection, [[], sClose])]                                                     -- Connection: "" , close
def wTeFirst : Hdr := [(kTe, [sTrailers, [103, 122, 105, 112]])]                                            -- Te: trailers / Te: gzip

def forwardedOld (h : Hdr) : List (Bytes × Bytes) := outFields (hopRemoveOld BfeVerif.Generated.C26.hopHeaders h)

theorem C26_old_code_witnesses :
    violation wConnToken (forwardedOld wConnToken) = some "connection-token" ∧
    violation wEmptyFirst (forwardedOld wEmptyFirst) = some "empty-first-value" ∧
    violation wTeFirst (forwardedOld wTeFirst) = some "te-trailers-first" := by decide

theorem C26_fixed_on_witnesses :
    violation wConnToken (forwarded wConnToken) = none ∧ forwarded wConnToken = [] ∧
    violation wEmptyFirst (forwarded wEmptyFirst) = none ∧
    violation wTeFirst (forwarded wTeFirst) = none := by decide

/-! non-vacuity -/
example : forwarded [(kConnection, [sClose]), (kUpgrade, [[104, 50, 99]]), ([88], [[49]])] = [([88], [49])] := by decide
example : forwarded [(kTe, [sTrailers])] = [(kTe, sTrailers)] := by decide
example : connNames wConnToken = [[88, 45, 70, 111, 111]] := by decide
example : ((wConnToken.map (·.1)).Nodup) := by decide
example : keysCanon wConnToken = true ∧ keysCanon wEmptyFirst = true ∧ keysCanon wTeFirst = true := by decide
/-- a token in another case, with whitespace, in the second Connection value -/
example : forwarded [(kConnection, [sClose, [32, 120, 45, 70, 79, 111, 9]]), ([88, 45, 70, 111, 111], [[49]]), ([65], [[50]])] = [([65], [50])] := by decide

end BfeVerif.C26
