import BfeVerif.Common.Proto
import BfeVerif.C25.Driver
import BfeVerif.C26.Model
/-!
  C26 driver.  op `hop <header map> <canon 0|1>`; result `ok <hex of the bytes Request.Write produced>`.
  The header map uses the C25 encoding `k:v,v|k:v` (hex).
-/
namespace BfeVerif.C26
open BfeVerif.Proto BfeVerif.C25

def run (op impl : String) : Ans :=
  match op.splitOn " " with
  | ["hop", hs, canon] =>
    (match hdrOf hs with
     | none => { model := "bad-op", verdict := "skip" }
     | some h =>
       if !distinctKeys (h.map (·.1)) then { model := "bad-op", verdict := "skip" }
       else
         let h' := hopRemove BfeVerif.Generated.C26.hopHeaders h
         let m := renderW (true, writeHop h')
         let tags :=
           (if (connTokens h).isEmpty then [] else ["conn-tokens"]) ++
           (if h.any (fun kv => listedLower.contains (kv.1.map lower) || kv.1.map lower == kTe.map lower) then ["hop", "nt"] else []) ++
           (if h' != h then ["removed"] else [])
         if canon != "1" || !keysCanon h then { model := m, verdict := "skip", tags := "noncanon" :: tags }
         else
           match impl.splitOn " " with
           | ["ok", hx] =>
             (match bytesOfHex hx with
              | none => { model := m, verdict := "FAIL:unreadable", tags := tags }
              | some bs =>
                match rfcOne bs with
                | .error _ => { model := m, verdict := "skip", tags := "unparsable" :: tags }
                | .ok p =>
                  let fs := p.fields.filter fun f => !(f.1 == kHost || f.1 == kContentLength)
                  match violation h fs with
                  | none => { model := m, verdict := "ok", tags := tags }
                  | some c => { model := m, verdict := "FAIL:" ++ c, tags := ("v:" ++ c) :: tags })
           | _ => { model := m, verdict := "skip", tags := "write-err" :: tags })
  | "rdh" :: hx :: _ =>
    -- wire bytes (optionally delivered in segments: the model does not look at the segmentation): the client's header
    -- set is what THIS driver parses from the bytes (strict parser of C25); the implementation went through the real
    -- ReadRequest (readTransfer included).  Result = the HEAD Request.Write produced.
    (match bytesOfHex hx with
     | none => { model := "bad-op", verdict := "skip" }
     | some raw =>
       match headLines (raw.length + 1) raw with
       | some (rl :: fls, _) =>
         (match parseFields fls, splitOn 32 rl with
          | some wf, [method, [47], _] =>
            (match wireHeader wf with
             | none => { model := "unmodelled-wire", verdict := "skip", tags := ["wire-unmodelled"] }
             | some (h, fr) =>
               if !keysCanon h || !distinctKeys (h.map (·.1)) || (wf.filter fun f => canon f.1 == kHost).map (·.2) != [[97]] || !isToken method then
                 { model := "unmodelled-wire", verdict := "skip", tags := ["wire-unmodelled"] }
               else
                 let h' := hopRemove BfeVerif.Generated.C26.hopHeaders h
                 let m := renderW (true, writeHopF method fr h')
                 let conn := lookup h kConnection
                 let tags := ["wire", "nt"] ++ (if conn.length ≥ 2 then ["conn-multiline"] else []) ++
                   (match conn with | v :: _ :: _ => if eqFold (trimOWS v) sClose then ["conn-close-first"] else [] | _ => []) ++
                   (match fr with | .none => [] | .cl _ => ["wire-cl-body"] | .chunked => ["wire-chunked"]) ++
                   (if (connTokens h).length > 20 then ["conn-many-tokens"] else []) ++
                   (if (connTokens h).isEmpty then [] else ["conn-tokens"]) ++ (if h' != h then ["removed"] else []) ++
                   (if (op.splitOn " ").length > 2 && (op.splitOn " ").getD 2 "-" != "-" then ["segmented"] else [])
                 if impl == "reject" then { model := m, verdict := "FAIL:wire-rejected", tags := tags }
                 else match impl.splitOn " " with
                   | ["ok", ohx] =>
                     (match bytesOfHex ohx with
                      | none => { model := m, verdict := "FAIL:unreadable", tags := tags }
                      | some bs =>
                        match headLines (bs.length + 1) bs with
                        | some (_ :: ols, _) =>
                          (match parseFields ols with
                           | none => { model := m, verdict := "FAIL:wire-unparsable-output", tags := tags }
                           | some ofs =>
                             -- fields Request.write emits itself (Host, framing) are not client fields
                             let fs := ofs.filter fun f => !(f.1 == kHost || f.1 == kContentLength ||
                               (f.1 == kTransferEncoding && fr == .chunked && f.2 == sChunked))
                             match violation h fs with
                             | none => { model := m, verdict := "ok", tags := tags }
                             | some c => { model := m, verdict := "FAIL:" ++ c, tags := ("v:" ++ c) :: tags })
                        | _ => { model := m, verdict := "FAIL:wire-unparsable-output", tags := tags })
                   | _ => { model := m, verdict := "skip", tags := "write-err" :: tags })
          | _, _ => { model := "unparsed-wire", verdict := "skip", tags := ["wire-nonstrict"] })
       | _ => { model := "unparsed-wire", verdict := "skip", tags := ["wire-nonstrict"] })
  | _ => { model := "bad-op", verdict := "skip" }

end BfeVerif.C26
