import BfeVerif.C26.Driver
def main : IO Unit := BfeVerif.Proto.driverMain BfeVerif.C26.run
